(* driver: read lines on stdin, hand each to the extracted Main.run_line, print the answer. *)
let ascii_of_char c =
  let n = Char.code c in
  let b i = (n lsr i) land 1 = 1 in
  Fv.Ascii (b 0, b 1, b 2, b 3, b 4, b 5, b 6, b 7)
let char_of_ascii (Fv.Ascii (a, b, c, d, e, f, g, h)) =
  let v x i = if x then 1 lsl i else 0 in
  Char.chr (v a 0 + v b 1 + v c 2 + v d 3 + v e 4 + v f 5 + v g 6 + v h 7)
let cstr_of (s : string) =
  let r = ref Fv.EmptyString in
  for i = String.length s - 1 downto 0 do r := Fv.String (ascii_of_char s.[i], !r) done;
  !r
let str_of cs =
  let b = Buffer.create 256 in
  let rec go = function
    | Fv.EmptyString -> ()
    | Fv.String (c, r) -> Buffer.add_char b (char_of_ascii c); go r in
  go cs; Buffer.contents b
let () =
  try
    while true do
      let line = input_line stdin in
      print_string (str_of (Fv.run_line (cstr_of line)));
      print_newline ()
    done
  with End_of_file -> ()
