"""The second tie between cli.py and its model (Cli.cli_model, DESIGN 5.10 / 5.15): OBSERVED runs of the real command
line (harness/clitrace_runner.py) compared with the hand model by the certified checkers chk_cli_run / chk_cli_failed
(extracted from Coq).  Every mode (-o given, --only-pkg, --only-top), and a failure injected at the entry of every
stage.  Independent of the text of cli.py."""
import json
import os
import shutil
import subprocess
import sys
import tempfile
from concurrent.futures import ThreadPoolExecutor

import ruamel.yaml

from harness import common

STAGES = ["parse_config", "network.create_network", "network.compile_network", "network.gen_routing_info",
          "network.render_package", "network.render_network"]
MODES = [(od, op, ot) for od in (True, False) for op in (False, True) for ot in (False, True)]


def observe(desc, mode, fail_at=None):
    od, op, ot = mode
    tmp = tempfile.mkdtemp(prefix="fv_trace_")
    try:
        cfg = os.path.join(tmp, "cfg.yml")
        y = ruamel.yaml.YAML(typ="safe")
        y.default_flow_style = False
        with open(cfg, "w") as f:
            y.dump(desc, f)
        out = os.path.join(tmp, "out")
        args = ["-c", cfg, "--no-format"] + (["-o", out] if od else []) + (["--only-pkg"] if op else []) + \
               (["--only-top"] if ot else [])
        env = dict(os.environ, PYTHONPATH=common.REPO + ":" + common.VERIF, PYTHONHASHSEED="0", PYTHONDONTWRITEBYTECODE="1")
        p = subprocess.run([sys.executable, "-W", "ignore", "-m", "harness.clitrace_runner", out if od else "-",
                            fail_at or "-"] + args, capture_output=True, text=True, env=env, cwd=tmp, timeout=300)
        line = p.stdout.strip().split("\n")[-1] if p.stdout.strip() else ""
        try:
            r = json.loads(line)
        except Exception:
            return {"error": (p.stderr or p.stdout)[-400:]}
        # argument summary of every stage as the model writes it
        r["cfg"] = cfg
        return r
    finally:
        shutil.rmtree(tmp, ignore_errors=True)


def emitted(r, mode):
    """what the run emitted, in the model's vocabulary: files by content, then prints"""
    od, op, ot = mode
    outs = []
    files = r["files"]
    for kind, ch, co in (("pkg", "pkg_file_name", "rendered_pkg"), ("top", "top_file_name", "rendered_top")):
        for f, k in sorted(files.items()):
            if k == kind:
                outs.append((ch, co))
    for f, k in sorted(files.items()):
        if k == "other" and f.endswith(".sv"):
            outs.append((f, "other"))
    pr = r["printed"]
    if pr == "pkg+top":
        outs += [("stdout", "rendered_pkg"), ("stdout", "rendered_top")]
    elif pr == "pkg":
        outs.append(("stdout", "rendered_pkg"))
    elif pr == "top":
        outs.append(("stdout", "rendered_top"))
    elif pr == "other":
        outs.append(("stdout", "other"))
    return outs


def run_tie(rep, pid, descs):
    """descs: list of (desc, tags).  Reports under pid; returns a coverage dict."""
    jobs = []
    for d, t in descs:
        for m in MODES:
            jobs.append((d, t, m, None))
        for st in STAGES:
            for m in (MODES[0], MODES[1], MODES[2], MODES[4]):
                jobs.append((d, t, m, st))
    with ThreadPoolExecutor(max_workers=8) as ex:
        res = list(ex.map(lambda j: observe(j[0], j[2], j[3]), jobs))
    reqs = []
    for (d, t, m, st), r in zip(jobs, res):
        if "error" in r:
            reqs.append(None)
            continue
        b = lambda x: "#t" if x else "#f"
        if st is None:
            calls = "(" + " ".join(
                "(" + common.sx(n) + " " + common.sx(ar) + " (" + " ".join(common.sx(str(f)) for f in fs) + "))"
                for n, fs, ar in r["events"]) + ")"
            outs = "(" + " ".join("(" + common.sx(a) + " " + common.sx(c) + ")" for a, c in emitted(r, m)) + ")"
            reqs.append(f"(clirun ({b(m[0])} {b(m[1])} {b(m[2])}) {calls} {outs})")
        else:
            reqs.append(f"(clifail {r['rc']} (" + " ".join(common.sx(str(f)) for f in r["files"]) + "))")
    outs = common.run_model([q for q in reqs if q is not None])
    it = iter(outs)
    stats = {"observed_runs": 0, "injected_failures": 0, "runner_errors": 0}
    seqs = {}
    for (d, t, m, st), r, q in zip(jobs, res, reqs):
        if q is None:
            stats["runner_errors"] += 1
            rep.corr_broken(f"the command line could not be observed for {t} mode {m} fail_at {st}: {r.get('error')}",
                            {"desc": d, "mode": list(m), "fail_at": st})
            continue
        fl = next(it)
        if st is None:
            stats["observed_runs"] += 1
            if r["rc"] != 0:
                rep.corr_broken(f"the observed run of {t} in mode {m} ends with status {r['rc']} ({r.get('exc')})",
                                {"desc": d, "mode": list(m)})
                continue
            seqs.setdefault(id(d), []).append((m, [e[0] for e in r["events"]]))
        else:
            stats["injected_failures"] += 1
            if st not in [e[0] for e in r["events"]]:
                continue   # the stage is not entered in this mode: nothing was injected
        for key, msg in fl:
            rep.fail(f"{pid}:cli:{key}", f"{msg.replace('~', ' ')} [{t}, mode (outdir, only_pkg, only_top) = {m}"
                     + (f", failure injected at {st}" if st else "") + f"; stages {[e[0] for e in r['events']]}, files "
                     f"{r['files']}, printed {r['printed']!r}]", {"desc": d, "mode": list(m), "fail_at": st},
                     observed={"events": r["events"], "files": r["files"], "printed": r["printed"], "rc": r["rc"]},
                     expected="the pipeline model Cli.cli_model for this mode")
    # the network is built by the same stages in every mode
    for k, lst in seqs.items():
        base = lst[0][1]
        for m, names in lst[1:]:
            if names != base:
                rep.fail(f"{pid}:cli:mode-dependent-stages", f"the stages entered depend on the mode: {lst[0][0]} -> {base}, "
                         f"{m} -> {names}", None, observed=names, expected=base)
    return stats
