"""C12: structural well-formedness of the emitted SystemVerilog, decided per explored output by the
fail-closed reader (balance by construction + explicit token-balance run) and the certified checker
chk_C12 (duplicates per scope, declared-before-use against package / floo_pkg / macro-defined names,
sized literals, field values) on text facts extracted from the REAL files."""
import json
import random
import re
from harness import common, families, netprops

ID = "C12"
PROPS = "theories/Props/C12.v"


def sweeps(tier, seed):
    rng = random.Random(seed + 61)
    out = []
    big = [(12, 12), (11, 2)] if tier == "quick" else [(12, 12), (11, 2), (2, 11), (10, 10), (12, 3)]
    for algo in ("ID", "XY", "SRC"):
        for (m, n) in big:
            if algo == "SRC" and m * n > 40:
                continue
            out.append(families.mesh(rng, m, n, algo, False, sides=("W",) if algo != "SRC" else ()))
    for fan in ((12,) if tier == "quick" else (10, 11, 12)):
        for algo in ("ID", "SRC"):
            out.append(families.tree(rng, (1, fan), algo, rng.random() < 0.5, leaves_per_router=1, root_eps=1))
    # three-level trees with a two-digit index in the middle: node names such as router_0_1_1 and router_0_11 whose
    # generated identifiers (maps, instances, links) must stay distinct
    for lv in (((1, 12, 2),) if tier == "quick" else ((1, 12, 2), (1, 11, 3), (2, 11, 2))):
        for algo in ("ID", "SRC"):
            if algo == "SRC" and tier == "quick":
                continue
            out.append(families.tree(rng, lv, algo, False, leaves_per_router=1, root_eps=1))
    # names with digits and underscores
    for algo in ("ID", "SRC"):
        d, t = families.star(rng, 4, algo, False, shapes=[None, 3, None, [2, 2]])
        ren = {"epa": "a1", "epb": "a_1", "epc": "x_y", "epd": "n0_d2"}
        for e in d["endpoints"]:
            e["name"] = ren[e["name"]]
        for c in d["connections"]:
            for end in ("src", "dst"):
                c[end] = ren.get(c[end], c[end])
        out.append((d, dict(t, topo="names")))
        d2 = {**d, "routers": [{"name": "r_0"}]}
        d2["connections"] = [{**c, **{k: "r_0" for k in ("src", "dst") if c[k] == "router"}} for c in d["connections"]]
        out.append((d2, dict(t, topo="names")))
    # a manager-only endpoint array as the ONLY occupant of a boundary side: its coordinate must fit the coordinate
    # fields although no address-map destination lies out there
    for sd in "WESN":
        for (m, n) in ((2, 2), (3, 1)):
            out.append(families.mesh(rng, m, n, "XY", False, sides=(sd,), side_role="m", cluster_role="ms"))
    # free text: the `description` fields (network, protocol, endpoint, connection) may hold anything, several lines,
    # brackets, comment markers; whatever of it reaches the generated files must stay inside a comment
    prose = "first line of the description\n1) a list item (with) [brackets] {and braces}\nend of it */ // `define X 1\nmodule oops;"
    for algo in ("XY", "ID", "SRC"):
        for nw in (False, True):
            d, t = families.mesh(rng, 2, 2, algo, nw, sides=("W",))
            if d is None:
                continue
            d = json.loads(json.dumps(d))
            d["description"] = prose
            for p in d["protocols"]:
                p["description"] = prose
            for e in d["endpoints"]:
                e["description"] = prose
            for c in d["connections"]:
                c["description"] = prose
            out.append((d, dict(t, topo="free-text")))
    out += families.name_collision_suite(tier, seed)
    out += families.address_suite(tier, seed)
    # the package branch without an address table (use_id_table: false; documented for XY)
    for algo in ("XY", "SRC", "ID"):
        d, t = families.mesh(rng, 2, 3, algo, False, sides=("W",), force_dir=True)
        d["routing"]["use_id_table"] = False
        if algo == "ID":
            d["routing"]["addr_offset_bits"] = 16
        out.append((d, dict(t, topo="no-table")))
    return [(d, t) for d, t in out if d is not None]


def refine(key, msg):
    """cause signature of a failure, so that a known finding does not hide a different one"""
    m = re.search(r"address bound (\d+) is written as a (\d+)-bit literal with (\d+) digits for an address width of (\d+)", msg)
    if key == "address-literal" and m and int(m.group(1)) == 2 ** int(m.group(4)):
        return "address-literal:end=2^addr_width"
    m = re.search(r"(\S+)\.end_addr = (\d+) does not fit its (\d+)-bit field", msg)
    if key == "field-overflow" and m and int(m.group(2)) == 2 ** int(m.group(3)):
        return "field-overflow:table-end=2^id_bits"
    m = re.search(r"sized literal of width (\d+) holds (\d+)", msg)
    if key == "literal-overflow" and m and int(m.group(2)) == 2 ** int(m.group(1)):
        return "literal-overflow:value=2^width"
    return key


def run(tier, seed, rep, replay=None):
    if replay is not None:
        cases = [(replay["case"]["desc"], replay["case"].get("tags", {}))]
    else:
        # XY meshes with manager-only / subordinate-only boundary sides: coordinate fields must hold every identity
        xy = families.xy_suite(tier, seed)
        cases = families.routing_suite(tier, seed) + [c for c in sweeps(tier, seed) if c[0] is not None] + (xy[::3] if tier == "quick" else xy)
        cases = [(d, t) for d, t in cases if t.get("expect") != "reject"]
    res = common.run_worker("worker_gen", [{"desc": d, "textfacts": True} for d, _ in cases], timeout=1500)
    reqs, idx = [], []
    stats = {"accepted": 0, "rejected": 0, "reader": 0}
    for i, ((d, t), r) in enumerate(zip(cases, res)):
        if not r["ok"]:
            stats["rejected"] += 1
            continue
        stats["accepted"] += 1
        if "tf" not in r:
            stats["reader"] += 1
            rep.fail("C12:not-readable", f"the emitted files of {t} are not well-formed for the fail-closed reader: "
                     f"{r.get('reader_error')}", {"desc": d, "tags": t}, observed=r.get("reader_error"))
            continue
        reqs.append("(c12 " + r["tf"] + ")")
        idx.append(i)
    outs = common.run_model(reqs)
    best = {}
    distinct = set()
    for i, out in zip(idx, outs):
        d, t = cases[i]
        distinct.add(common.canon(d))
        for key, msg in out:
            msg = msg.replace("~", " ")
            k = "C12:" + refine(key, msg)
            if k not in best or netprops.desc_size(d) < netprops.desc_size(best[k][0]):
                best[k] = (d, t, msg)
    for k, (d, t, msg) in best.items():
        rep.fail(k, msg + f" [{t}]", {"desc": d, "tags": t}, observed=msg)
    rep.coverage.update({
        "evaluations": len(idx), "distinct_nontrivial": len(distinct),
        "rule": "all routing families + XY boundary-side suite (every third member in the quick tier) + size sweeps (12x12 and 11x2 router arrays, fan-out 12 trees, three-level trees with a two-digit middle index), names with digits and "
                "underscores, address widths 16..64 with ranges touching 2^addr_width; every accepted description's real "
                "output is read back fail-closed and its text facts go through chk_C12; distinct by canonical description",
        "samples": [{"tags": t} for _, t in cases[:: max(1, len(cases) // 3)][:3]],
        "input_distribution": stats, "exhaustive": False,
    })
