"""Implementation side for C10 / C15: the real command line in a subprocess.
case: {"desc": dict, "args": [...extra cli args], "hashseed": str, "cwd": "tmp"|"other", "stdout": bool}
answer: {"rc": int, "files": {name: text}, "stdout": text}"""
import json
import os
import shutil
import subprocess
import sys
import tempfile
from concurrent.futures import ThreadPoolExecutor
from harness.impl import emit, protect_stdout

import ruamel.yaml

REPO = os.environ.get("FLOONOC_REPO", "/repo")


def run_case(c):
    tmp = tempfile.mkdtemp(prefix="fv_cli_")
    try:
        cfg = os.path.join(tmp, c.get("cfg_name", "cfg.yml"))
        y = ruamel.yaml.YAML(typ="safe")
        y.default_flow_style = False
        if c.get("cfg_path") is not None:
            cfg = c["cfg_path"]          # a shipped file, under its own name and path (as the build flow invokes floogen)
        elif c.get("yaml_text") is not None:
            open(cfg, "w").write(c["yaml_text"])
        else:
            with open(cfg, "w") as f:
                y.dump(c["desc"], f)
        out = os.path.join(tmp, "out")
        args = [sys.executable, "-W", "ignore", "-m", "floogen.cli", "-c", cfg, "--no-format"] + list(c.get("args", []))
        if not c.get("stdout"):
            args += ["-o", out]
        env = dict(os.environ, PYTHONPATH=REPO, PYTHONHASHSEED=str(c.get("hashseed", "0")), PYTHONDONTWRITEBYTECODE="1")
        cwd = tmp
        if c.get("cwd") == "other":
            cwd = os.path.join(tmp, "elsewhere")
            os.makedirs(cwd)
        p = subprocess.run(args, capture_output=True, text=True, env=env, cwd=cwd, timeout=300)
        if c.get("regenerate") and p.returncode == 0 and os.path.isdir(out):
            # a generation HISTORY at the level of the output directory: the directory now holds the files of an earlier
            # run; make them longer (as an earlier, larger revision of the network would have left them) and different,
            # then generate again into the same directory
            for fn in sorted(os.listdir(out)):
                with open(os.path.join(out, fn), "a") as f:
                    f.write("// left behind by an earlier, larger revision\n" * 40)
            p = subprocess.run(args, capture_output=True, text=True, env=env, cwd=cwd, timeout=300)
        files = {}
        if os.path.isdir(out):
            for fn in sorted(os.listdir(out)):
                with open(os.path.join(out, fn)) as f:
                    files[fn] = f.read() if c.get("texts") else ""
        return {"rc": p.returncode, "files": files, "stdout": p.stdout if (c.get("stdout") or c.get("keep_stdout")) else "",
                "err": p.stderr[-300:]}
    finally:
        shutil.rmtree(tmp, ignore_errors=True)


def main():
    protect_stdout()
    cases = [json.loads(l) for l in sys.stdin if l.strip()]
    with ThreadPoolExecutor(max_workers=2) as ex:
        for r in ex.map(run_case, cases):
            emit(r)


if __name__ == "__main__":
    main()
