"""Implementation side of C17: real AddrRange(**kw) and .set_idx(k)."""
import json
import sys
from harness.impl import emit, protect_stdout
from floogen.model.routing import AddrRange


def dump(r):
    return ["ok", [r.start, r.end, r.size, r.base, r.idx]]


def main():
    protect_stdout()
    for line in sys.stdin:
        c = json.loads(line)
        kw = {k: c[k] for k in ("start", "end", "size", "base", "idx") if k in c}
        out = []
        try:
            out.append(dump(AddrRange(**kw)))
        except Exception as e:  # pydantic ValidationError / ValueError
            out.append(["err"])
        for k in c["ks"]:
            try:
                r = AddrRange(**kw)
            except Exception:
                out.append(["err"])
                continue
            try:
                out.append(dump(r.set_idx(k)))
            except Exception:
                out.append(["err"])
        emit((out))


if __name__ == "__main__":
    main()
