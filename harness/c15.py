"""C15: determinism and CLI modes.  Differential part (no proof content): every description x
{hash seeds, working directories, in-process histories, mapping-key permutations} x {full, --only-pkg,
--only-top, stdout} must give byte-identical text; queries must answer with the value the emitted files
embody.  The proved part is Props/C15.v (modes are views of the two render results, over cli.py as
translated each run)."""
import glob
import os
import json
import random
import re
import ruamel.yaml
from harness import common, families, yamlout, netlist, spec

ID = "C15"
CLI_SECOND_TIE = True
PROPS = "theories/Props/C15.v"


def mask(t):
    return re.sub(r"Copyright \d{4}", "Copyright YYYY", t) if t is not None else None


def descriptions(tier, seed):
    rng = random.Random(seed + 59)
    out = []
    for y in sorted(glob.glob(os.path.join(common.REPO, "floogen", "examples", "*.yml"))):
        out.append((ruamel.yaml.YAML(typ="safe").load(open(y)), {"topo": "example:" + os.path.basename(y)}))
    k = 4
    for algo in ("ID", "SRC"):
        for _ in range(3 if tier == "quick" else 12):
            order = rng.sample(range(k), k)
            out.append(families.star(rng, k, algo, rng.random() < 0.3, order=order, conn_order=rng.sample(range(k), k)))
    for algo in ("XY", "ID", "SRC"):
        out.append(families.mesh(rng, 2, 2, algo, rng.random() < 0.5, sides=("W",)))
        if tier != "quick":
            out.append(families.mesh(rng, 3, 2, algo, rng.random() < 0.5, sides=("S", "E")))
    out.append(families.tree(rng, (1, 2), "ID", False, leaves_per_router=2))
    # descriptions that spell out derived routing fields (the generator derives them anyway): every mode must embody
    # the same, derived, values
    for algo in ("XY", "ID"):
        d, t = families.mesh(rng, 2, 2, algo, False, sides=("W",))
        if d is not None:
            d = json.loads(json.dumps(d))
            d["routing"].update({"num_x_bits": 4, "num_y_bits": 3, "addr_offset_bits": 20, "num_id_bits": 6})
            out.append((d, dict(t, topo="explicit-routing-fields")))
    # a declared protocol that no endpoint uses (valid; a diagnostic about it must not reach the text of a stdout mode
    # or of a query answer)
    for algo, nw in (("XY", False), ("ID", True)):
        d, t = families.mesh(rng, 2, 2, algo, nw, sides=("W",))
        if d is not None:
            d = json.loads(json.dumps(d))
            spare = dict(d["protocols"][0], name="spare_dbg")
            d["protocols"].append(spare)
            out.append((d, dict(t, topo="spare-protocol")))
    # degenerate widths: a single-column / single-row XY mesh has a zero-bit coordinate field; the query must answer with
    # the width the emitted typedef embodies
    for (m, n) in ((1, 3), (3, 1)):
        out.append(families.mesh(rng, m, n, "XY", False))
    # an endpoint coordinate offset written as a mapping: the mapping-key permutations must not change what it means
    d, t = families.mesh(rng, 2, 2, "XY", False, sides=("W",))
    if d is not None:
        d = json.loads(json.dumps(d))
        for e in d["endpoints"]:
            if e["name"] == "west":
                e["xy_id_offset"] = {"x": -1, "y": 0}
        out.append((d, dict(t, topo="xy-id-offset")))
    # names that extend each other (query lookups by name)
    d, t = families.star(rng, 3, "ID", False, roles=["ms", "s", "m"], shapes=[4, 2, None])
    ren = {"epa": "spm", "epb": "spm_narrow", "epc": "dma"}
    for e in d["endpoints"]:
        e["name"] = ren[e["name"]]
    for c in d["connections"]:
        for end in ("src", "dst"):
            c[end] = ren.get(c[end], c[end])
    out.append((d, dict(t, topo="names-extend")))
    return [(d, t) for d, t in out if d is not None]


def queries(desc, n):
    """(expression, value the emitted files embody as the printed string)"""
    qs = [("len(endpoints)", str(len(desc["endpoints"])))]
    members = dict(n["ep_enum"][1])
    qs.append(("routing.num_endpoints", str(members.get("NumEndpoints"))))
    if n["id_bits"] is not None:
        qs.append(("routing.num_id_bits", str(n["id_bits"])))
    if n["algo"] == "SourceRouting":
        qs.append(("routing.num_route_bits", str(n["route_bits"])))
    if n["xy_bits"] is not None:
        qs.append(("routing.num_x_bits", str(n["xy_bits"][0])))
        qs.append(("routing.num_y_bits", str(n["xy_bits"][1])))
    insts = spec.instances(desc)
    ninames = {x["name"] for x in n["nis"]}
    for ep in desc["endpoints"]:
        cnt = sum(1 for i in insts if i["ep"] == ep["name"] and i["ni"] in ninames)
        qs.append((f"endpoints.{ep['name']}.num", str(cnt)))
        # array shape as embodied by the port dimensions (unit dimensions are not visible there: use the count)
    return qs


def cli_tie(tier, seed, rep, replay):
    """hand model of the pipeline vs observed runs of the real command line (every mode: same stages, expected views)"""
    from harness import clitrace
    if replay is not None and "mode" not in replay["case"]:
        return
    if replay is not None:
        descs = [(replay["case"]["desc"], {"replay": True})]
    else:
        ds = [(d, t) for d, t in descriptions(tier, seed) if not str(t.get("topo", "")).startswith("example:")]
        descs = ds[:2] if tier == "quick" else ds[:6]
    before = len(rep.fails) + len(rep.corr)
    st = clitrace.run_tie(rep, ID, descs)
    rep.coverage["cli_observed"] = st
    rep.cli_tie_ok = (len(rep.fails) + len(rep.corr) == before) and st["runner_errors"] == 0 and st["observed_runs"] > 0


def run(tier, seed, rep, replay=None):
    cli_tie(tier, seed, rep, replay)
    if replay is not None and "mode" in replay["case"]:
        return
    rng = random.Random(seed)
    descs = descriptions(tier, seed) if replay is None else [(replay["case"]["desc"], replay["case"].get("tags", {}))]
    seeds = [1, 4242] if tier == "quick" else [1, 7, 4242, 99991, 123456789]
    jobs, meta = [], []
    for i, (d, t) in enumerate(descs):
        ytext = yamlout.text(d)
        jobs.append({"yaml_text": ytext, "texts": True}); meta.append((i, "ref"))
        for hs in seeds:
            jobs.append({"yaml_text": ytext, "texts": True, "hashseed": hs}); meta.append((i, f"hashseed={hs}"))
        jobs.append({"yaml_text": ytext, "texts": True, "cwd": "other", "hashseed": 5}); meta.append((i, "cwd"))
        # the same description stored under another file name (a variant name that extends the network's name)
        jobs.append({"yaml_text": ytext, "texts": True, "cfg_name": str(d.get("name", "x")) + "_variant.yml"}); meta.append((i, "config-file-name"))
        for pk in range(3 if tier == "quick" else 5):
            jobs.append({"yaml_text": yamlout.text(d, random.Random(seed * 1000 + i * 10 + pk), permute=True), "texts": True,
                         "hashseed": 11 + pk}); meta.append((i, f"key-permutation-{pk}"))
        # into an output directory that still holds the (longer) files of an earlier generation
        jobs.append({"yaml_text": ytext, "texts": True, "regenerate": True}); meta.append((i, "reused-outdir"))
        jobs.append({"yaml_text": ytext, "texts": True, "args": ["--only-pkg"]}); meta.append((i, "only-pkg"))
        jobs.append({"yaml_text": ytext, "texts": True, "args": ["--only-top"]}); meta.append((i, "only-top"))
        jobs.append({"yaml_text": ytext, "stdout": True}); meta.append((i, "stdout"))
        jobs.append({"yaml_text": ytext, "stdout": True, "args": ["--only-pkg"]}); meta.append((i, "stdout-only-pkg"))
    res = common.run_worker("worker_cli", jobs, shards=8)
    refs = {}
    for (i, kind), r in zip(meta, res):
        if kind == "ref":
            refs[i] = r
    distinct = set()
    nl = {}
    for (i, kind), r in zip(meta, res):
        d, t = descs[i]
        ref = refs[i]
        if ref["rc"] != 0:
            if kind == "ref":
                rep.corr_broken(f"description {t} is not generated by the command line: {ref['err']}", {"desc": d})
            continue
        names = sorted(ref["files"])
        pkgn = [f for f in names if f.endswith("_pkg.sv")][0]
        topn = [f for f in names if not f.endswith("_pkg.sv")][0]
        pkg, top = mask(ref["files"][pkgn]), mask(ref["files"][topn])
        if kind == "ref":
            nl[i] = netlist.read(ref["files"][pkgn], ref["files"][topn])
            continue
        distinct.add((i, kind))
        case = {"desc": d, "tags": t, "context": kind}
        if r["rc"] != 0:
            rep.fail(f"C15:context-fails:{kind.split('=')[0]}", f"{t}: generation fails in context {kind}: {r['err']}", case)
            continue
        if kind in ("only-pkg", "only-top"):
            want = {pkgn: pkg} if kind == "only-pkg" else {topn: top}
            got = {k: mask(v) for k, v in r["files"].items()}
            if got != want:
                rep.fail(f"C15:mode:{kind}", f"{t}: --{kind} writes {sorted(got)} "
                         f"({'same' if all(got.get(k) == v for k, v in want.items()) else 'different'} text), expected exactly "
                         f"{sorted(want)} with the text of the full run", case)
        elif kind.startswith("stdout"):
            want = pkg + "\n" + (top + "\n" if kind == "stdout" else "")
            if mask(r["stdout"]) != want:
                rep.fail(f"C15:mode:{kind}", f"{t}: printed output differs from the file texts plus final line terminators", case)
        else:
            got = {k: mask(v) for k, v in r["files"].items()}
            if got != {pkgn: pkg, topn: top}:
                which = [k for k in (pkgn, topn) if got.get(k) != {pkgn: pkg, topn: top}[k]]
                rep.fail(f"C15:nondeterministic:{kind.split('=')[0].rstrip('-0123456789')}",
                         f"{t}: output in context {kind} differs from the reference run in {which}", case)
    # in-process histories
    hist_jobs, hist_meta = [], []
    for i, (d, t) in enumerate(descs):
        if i not in nl:
            continue
        for h in range(2 if tier == "quick" else 5):
            others = [descs[rng.randrange(len(descs))][0] for _ in range(rng.randint(1, 3))]
            hist_jobs.append({"history": others + [d]}); hist_meta.append(i)
    hres = common.run_worker("worker_hist", hist_jobs, shards=8)
    for i, r in zip(hist_meta, hres):
        d, t = descs[i]
        ref = refs[i]
        names = sorted(ref["files"])
        pkgn = [f for f in names if f.endswith("_pkg.sv")][0]
        topn = [f for f in names if not f.endswith("_pkg.sv")][0]
        distinct.add((i, "history"))
        if not r["ok"] or mask(r["pkg"]) != mask(ref["files"][pkgn]) or mask(r["top"]) != mask(ref["files"][topn]):
            rep.fail("C15:nondeterministic:in-process-history", f"{t}: generated after other descriptions in the same process the "
                     f"output differs from a fresh process ({r.get('error') or 'text differs'})", {"desc": d, "tags": t, "context": "history"})
    # queries
    qjobs, qmeta = [], []
    for i, (d, t) in enumerate(descs):
        if i not in nl:
            continue
        for expr, want in queries(d, nl[i]):
            qjobs.append({"yaml_text": yamlout.text(d), "stdout": True, "args": ["-q", expr]}); qmeta.append((i, expr, want))
    if tier == "quick":
        keep = sorted(rng.sample(range(len(qjobs)), min(len(qjobs), 60)) + [k for k, m in enumerate(qmeta) if descs[m[0]][1].get("topo") == "names-extend"
                                                                                 or (m[1].startswith("routing.") and not str(descs[m[0]][1].get("topo", "")).startswith("example:"))])
        keep = sorted(set(keep))
        qjobs, qmeta = [qjobs[k] for k in keep], [qmeta[k] for k in keep]
    qres = common.run_worker("worker_cli", qjobs, shards=8)
    for (i, expr, want), r in zip(qmeta, qres):
        d, t = descs[i]
        distinct.add((i, "query:" + expr))
        got = r["stdout"].strip()
        if r["rc"] != 0 or got != want:
            rep.fail("C15:query", f"{t}: query '{expr}' answers {got!r} (rc {r['rc']}), the emitted files embody {want!r}",
                     {"desc": d, "tags": t, "context": "query " + expr}, observed=got, expected=want)
    rep.coverage.update({
        "evaluations": len(jobs) + len(hist_jobs) + len(qjobs), "distinct_nontrivial": len(distinct),
        "rule": "all shipped examples + generated stars (permuted declaration orders), meshes, a tree and a description whose "
                "endpoint names extend each other; x hash seeds x working directory x config file name x mapping-key permutations x in-process "
                "histories of length <= 3 x {full, --only-pkg, --only-top, stdout, stdout --only-pkg}; queries on endpoint "
                "counts and routing widths; differential testing (labelled: no proof content); distinct = (description, context)",
        "samples": [{"tags": t} for _, t in descs[:3]],
        "input_distribution": {"descriptions": len(descs), "cli_runs": len(jobs), "histories": len(hist_jobs), "queries": len(qjobs)},
        "runtime_behaviours_not_modelled": ["hash randomisation of set/dict iteration", "module-level mutable state "
                                            "(class-level Mako templates, protocol.direction)", "os.getcwd"],
        "exhaustive": False,
    })
