"""Implementation side of C16: real RouteMap(...) construction and .trim()."""
import json
import sys
from harness.impl import emit, protect_stdout
from floogen.model.routing import RouteMap, RouteMapRule, AddrRange, SimpleId


def main():
    protect_stdout()
    for line in sys.stdin:
        rules = json.loads(line)
        try:
            rm = RouteMap(name="t", rules=[
                RouteMapRule(dest=SimpleId(id=d), addr_range=AddrRange(start=s, end=e)) for d, s, e in rules])
        except Exception:
            emit(([["err"], None]))
            continue
        try:
            rm.trim()
            out = ["ok", [[r.dest.id, r.addr_range.start, r.addr_range.end, r.addr_range.size] for r in rm.rules]]
        except Exception as e:
            out = ["err", f"{type(e).__name__}"]
        emit(([["ok"], out]))


if __name__ == "__main__":
    main()
