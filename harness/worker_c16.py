"""Implementation side of C16: real RouteMap(...) construction and .trim()."""
import json
import sys
from harness.impl import emit, protect_stdout
from floogen.model.routing import RouteMap, RouteMapRule, AddrRange, SimpleId


def mk_range(i, d, s, e):
    """the three ways a range reaches a table: start/end, start/size, base/size/idx (mode chosen by the rule's content and
    position, so that a replay reproduces it)"""
    mode = (i + d + s + e) % 3
    if mode == 0 or e <= s:
        return AddrRange(start=s, end=e)
    if mode == 1:
        return AddrRange(start=s, size=e - s)
    k = min(s // (e - s), 1 + (s % 3))
    return AddrRange(base=s - k * (e - s), size=e - s, idx=k)


def main():
    protect_stdout()
    for line in sys.stdin:
        rules = json.loads(line)
        try:
            rm = RouteMap(name="t", rules=[
                RouteMapRule(dest=SimpleId(id=d), addr_range=mk_range(i, d, s, e)) for i, (d, s, e) in enumerate(rules)])
        except Exception:
            emit(([["err"], None]))
            continue
        try:
            rm.trim()
            out = ["ok", [[r.dest.id, r.addr_range.start, r.addr_range.end, r.addr_range.size] for r in rm.rules]]
        except Exception as e:
            out = ["err", f"{type(e).__name__}"]
        emit(([["ok"], out]))


if __name__ == "__main__":
    main()
