"""In-process driver of the real floogen (imported from /repo): description dict -> emitted texts.
Used by workers (fresh interpreters).  Mirrors floogen.cli.main without files."""
import io
import contextlib
import logging

import json
import os
import sys

logging.disable(logging.CRITICAL)
import warnings
warnings.filterwarnings("ignore")

# floogen prints to stdout on some error paths (RouteMap.pprint); workers call protect_stdout() so
# that only emit() writes to the real stdout (the worker protocol)
_REAL_STDOUT = sys.stdout


def protect_stdout():
    global _REAL_STDOUT
    _REAL_STDOUT = sys.__stdout__
    sys.stdout = open(os.devnull, "w")


def emit(obj):
    _REAL_STDOUT.write(json.dumps(obj) + "\n")


def flush():
    _REAL_STDOUT.flush()


def generate(desc, want_objects=False):
    """Returns {"ok": True, "pkg": text, "top": text} or {"ok": False, "stage": s, "error": repr}."""
    from floogen.model.network import Network
    stage = "parse"
    try:
        with contextlib.redirect_stdout(io.StringIO()):
            net = Network.model_validate(desc)
            stage = "create"
            net.create_network()
            stage = "compile"
            net.compile_network()
            stage = "routing"
            net.gen_routing_info()
            stage = "render_pkg"
            pkg = net.render_package()
            stage = "render_top"
            top = net.render_network()
    except BaseException as e:  # SystemExit, AssertionError, KeyError, pydantic errors ...
        if isinstance(e, KeyboardInterrupt):
            raise
        return {"ok": False, "stage": stage, "error": f"{type(e).__name__}: {str(e)[:300]}"}
    out = {"ok": True, "pkg": pkg, "top": top}
    if want_objects:
        out["net"] = net
    return out
