"""Shared machinery of every check: build step, model binary, proof obligations, verdict,
evidence, replay files, known findings.  Runs under /venv/bin/python (see /verif/check)."""
import fcntl
import hashlib
import json
import os
import re
import subprocess
import sys
import time
from concurrent.futures import ThreadPoolExecutor

VERIF = os.path.dirname(os.path.dirname(os.path.abspath(__file__)))
REPO = os.environ.get("FLOONOC_REPO", "/repo")
COQ = os.path.join(VERIF, "coq")
OCAML = os.path.join(VERIF, "ocaml")
BIN = os.path.join(OCAML, "flooverif")
VENV_PY = "/venv/bin/python"
NPROC = min(16, os.cpu_count() or 4)
GUARD = "PULP_PLATFORM_FLOONOC_VERIF"

ALLOWED_AXIOMS = set()  # std-lib axioms a theorem may depend on; none is needed so far


# ----------------------------------------------------------------------------- s-expressions
def sx(x):
    """Python value -> s-expression text.  None -> #n, bool -> #t/#f, int, str atoms, lists."""
    if x is None:
        return "#n"
    if x is True:
        return "#t"
    if x is False:
        return "#f"
    if isinstance(x, int):
        return str(x)
    if isinstance(x, str):
        assert x and not re.search(r"[\s()]", x), f"bad atom {x!r}"
        return x
    if isinstance(x, (list, tuple)):
        return "(" + " ".join(sx(i) for i in x) + ")"
    raise TypeError(type(x))


_TOK = re.compile(r"[()]|[^\s()]+")


def parse_sx(text):
    """s-expression text -> nested lists of atoms (ints where they look like ints)."""
    stack = [[]]
    for t in _TOK.findall(text.split(" ; ")[0] if text.startswith("(fail") else text):
        if t == "(":
            stack.append([])
        elif t == ")":
            top = stack.pop()
            stack[-1].append(top)
        else:
            stack[-1].append(atom(t))
    assert len(stack) == 1, text
    return stack[0]


def atom(t):
    if t == "#n":
        return None
    if t == "#t":
        return True
    if t == "#f":
        return False
    if re.fullmatch(r"-?\d+", t):
        return int(t)
    return t


# ----------------------------------------------------------------------------- environment
def impl_env(hashseed="0"):
    env = dict(os.environ)
    env["PYTHONPATH"] = REPO + os.pathsep + VERIF
    env["PYTHONHASHSEED"] = str(hashseed)
    env[GUARD] = "1"
    env["PYTHONDONTWRITEBYTECODE"] = "1"
    return env


def chunks(lst, n):
    n = max(1, n)
    k = (len(lst) + n - 1) // n
    return [lst[i:i + k] for i in range(0, len(lst), k)] if lst else []


def _limits():
    """resource limits of worker processes: a change to the code under test may make it loop or allocate
    without bound (e.g. RouteTable.sort_and_pad with inconsistent ids); that must not take the check down"""
    import resource
    resource.setrlimit(resource.RLIMIT_AS, (8 << 30, 8 << 30))


def _run_part(module, part, extra_args, timeout):
    p = subprocess.run([VENV_PY, "-m", "harness." + module, *extra_args],
                       input="".join(json.dumps(c) + "\n" for c in part),
                       capture_output=True, text=True, env=impl_env(), cwd=VERIF, timeout=timeout,
                       preexec_fn=_limits)
    if p.returncode != 0:
        raise RuntimeError(f"worker {module} failed rc={p.returncode}\n{p.stderr[-2000:]}")
    out = [json.loads(l) for l in p.stdout.splitlines() if l.strip()]
    if len(out) != len(part):
        raise RuntimeError(f"worker {module}: {len(out)} answers for {len(part)} cases\n{p.stderr[-2000:]}")
    return out


def run_worker(module, cases, shards=NPROC, extra_args=(), timeout=900, case_timeout=120):
    """Run `python -m harness.<module>` (fresh interpreters importing floogen from /repo) over the
    cases, one JSON value per line in, one JSON value per line out, order preserved.  When a shard
    fails (crash, timeout, memory limit) its cases are re-run one per process; a case that still
    fails gets the answer {"ok": false, "worker_failed": reason}."""
    parts = chunks(cases, shards)

    def one(part):
        try:
            return _run_part(module, part, extra_args, timeout)
        except (RuntimeError, subprocess.TimeoutExpired) as e:
            first = str(e)[:300]
        out = []
        for c in part:
            try:
                out.append(_run_part(module, [c], extra_args, case_timeout)[0])
            except (RuntimeError, subprocess.TimeoutExpired) as e:
                out.append({"ok": False, "rc": -1, "files": {}, "stdout": "", "err": "worker failed", "stage": "worker",
                            "error": f"worker process failed on this case: {str(e)[:300]}", "worker_failed": str(e)[:300]})
        return out

    with ThreadPoolExecutor(max_workers=len(parts) or 1) as ex:
        res = list(ex.map(one, parts))
    return [r for part in res for r in part]


def _big_stack():
    import resource
    try:
        resource.setrlimit(resource.RLIMIT_STACK, (resource.RLIM_INFINITY, resource.RLIM_INFINITY))
    except (ValueError, OSError):
        pass


def run_model(lines, shards=NPROC, timeout=3600):
    """Evaluate request lines with the extracted Coq model; returns parsed answers (one per line)."""
    parts = chunks(lines, shards)

    def one(part):
        # the extracted code recurses over inductive strings and lists: give it an unlimited stack
        p = subprocess.run([BIN], input="\n".join(part) + "\n", capture_output=True, text=True,
                           timeout=timeout, preexec_fn=_big_stack)
        if p.returncode != 0:
            raise RuntimeError(f"model binary failed rc={p.returncode}: {p.stderr[-2000:]}")
        out = p.stdout.splitlines()
        if len(out) != len(part):
            raise RuntimeError(f"model binary: {len(out)} answers for {len(part)} requests")
        return out

    with ThreadPoolExecutor(max_workers=len(parts) or 1) as ex:
        res = list(ex.map(one, parts))
    outs = [r for part in res for r in part]
    parsed = []
    for req, o in zip(lines, outs):
        v = parse_sx(o)
        if len(v) != 1:
            raise RuntimeError(f"model answer not a single s-expression: {o!r} for {req!r}")
        v = v[0]
        if isinstance(v, list) and v and v[0] == "fail":
            raise RuntimeError(f"model rejected the request {req[:300]!r}: {o}")
        parsed.append(v)
    return parsed


LAST_VM_LOG = ""


def crosscheck_vm(lines, k=8, maxlen=20000):
    """extraction + driver vs the kernel's own evaluation: re-evaluate a sample of request lines with
    vm_compute inside coqc and compare with what the extracted binary answered (raw text).  Returns
    (checked, agreed)."""
    import tempfile
    cand = sorted({l for l in lines if len(l) < maxlen}, key=len)
    step = max(1, len(cand) // max(1, k))
    sample = cand[::step][:k]
    if not sample:
        return 0, 0
    p = subprocess.run([BIN], input="\n".join(sample) + "\n", capture_output=True, text=True, timeout=600,
                       preexec_fn=_big_stack)
    outs = p.stdout.splitlines()
    sample = [(a, b) for a, b in zip(sample, outs) if len(b) < 4 * maxlen and '"' not in a and '"' not in b]
    if not sample:
        return 0, 0
    body = ["From FV Require Import Base Main.", "Open Scope string_scope."]
    for a, b in sample:
        body.append(f'Eval vm_compute in (String.eqb (run_line "{a}") "{b}").')
    with tempfile.NamedTemporaryFile("w", suffix=".v", prefix="fvx", dir=os.path.join(COQ, "gen"), delete=False) as f:
        f.write("\n".join(body) + "\n")
        path = f.name
    try:
        # large string literals need a deep stack in coqc
        q = subprocess.run(["sh", "-c", "ulimit -s unlimited 2>/dev/null; exec timeout 600 coqc -Q theories FV -Q gen FVGen " + path],
                           cwd=COQ, capture_output=True, text=True)
        agreed = len(re.findall(r"=\s*true", q.stdout))
        differ = len(re.findall(r"=\s*false", q.stdout))
        global LAST_VM_LOG
        LAST_VM_LOG = ""
        if differ:
            LAST_VM_LOG = (q.stdout[-1500:] + "\n" + q.stderr[-1500:]).strip()
            return len(sample), agreed
        if agreed != len(sample):
            # coqc gave up (resource limit) before evaluating every request: those were not compared
            LAST_VM_LOG = "not all evaluated: " + q.stderr[-300:].strip()
            return agreed, agreed
        return len(sample), agreed
    finally:
        for ext in ("", "o", "ok", "os"):
            try:
                os.remove(path + ext if ext else path)
            except OSError:
                pass
        for extra in (path[:-2] + ".glob", os.path.join(os.path.dirname(path), "." + os.path.basename(path)[:-2] + ".aux")):
            try:
                os.remove(extra)
            except OSError:
                pass


# ----------------------------------------------------------------------------- build
class Build:
    """Result of the build step: which .vo exist and are current, captured errors."""

    def __init__(self):
        self.ok = True
        self.log = ""
        self.broken_files = []


def build(quiet=True):
    """Regenerate the facts from /repo, then make the whole Coq development and the model binary.
    Serialised with a lock so that concurrent checks do not race in make."""
    from harness import facts
    b = Build()
    os.makedirs(os.path.join(COQ, "gen"), exist_ok=True)
    with open(os.path.join(COQ, ".lock"), "w") as lk:
        fcntl.flock(lk, fcntl.LOCK_EX)
        try:
            b.facts_errors = facts.regenerate()
            if not os.path.exists(os.path.join(COQ, "Makefile")):
                subprocess.run(["coq_makefile", "-f", "_CoqProject", "-o", "Makefile"], cwd=COQ,
                               capture_output=True, text=True, check=True)
            p = subprocess.run(["timeout", "1500", "make", "-k", "-j", str(NPROC)], cwd=COQ,
                               capture_output=True, text=True)
            b.log = p.stdout[-20000:] + p.stderr[-20000:]
            if p.returncode != 0:
                b.ok = False
                b.broken_files = sorted(set(re.findall(r'File "\./([^"]+)", line', p.stdout + p.stderr)))
            q = subprocess.run(["make"], cwd=OCAML, capture_output=True, text=True)
            if q.returncode != 0 or not os.path.exists(BIN):
                b.ok = False
                b.log += q.stdout[-5000:] + q.stderr[-5000:]
                b.broken_files.append("ocaml/flooverif")
        finally:
            fcntl.flock(lk, fcntl.LOCK_UN)
    return b


def vo_current(rel_v):
    v = os.path.join(COQ, rel_v)
    vo = v[:-2] + ".vo"
    return os.path.exists(vo) and os.path.getmtime(vo) >= os.path.getmtime(v)


def proof_obligations(props_v):
    """Compile theories/Props/Cxx.v on its own (all its dependencies were made already) and read
    back, for every `Theorem`, what `Print Assumptions` reports.  Returns (obligations, discharged,
    details, broken) where broken is a list of theorem/file names that do not check."""
    path = os.path.join(COQ, props_v)
    src = open(path).read()
    theorems = re.findall(r"^(?:Theorem|Lemma|Example)\s+(\w+)", src, re.M)
    printed = re.findall(r"^Print Assumptions\s+(\w+)\.", src, re.M)
    with open(os.path.join(COQ, ".lock"), "w") as lk:
        fcntl.flock(lk, fcntl.LOCK_EX)
        try:
            p = subprocess.run(["timeout", "900", "coqc", "-Q", "theories", "FV", "-Q", "gen", "FVGen",
                                "-w", "-notation-overridden", props_v],
                               cwd=COQ, capture_output=True, text=True)
        finally:
            fcntl.flock(lk, fcntl.LOCK_UN)
    out = p.stdout
    details, broken = [], []
    if p.returncode != 0:
        m = re.search(r'File "([^"]+)", line (\d+)', p.stderr)
        where = f"{props_v}"
        if m:
            line = int(m.group(2))
            before = src.split("\n")[:line]
            names = [n for l in before for n in re.findall(r"^(?:Theorem|Lemma|Example)\s+(\w+)", l)]
            where = f"{m.group(1)}:{line}" + (f" ({names[-1]})" if names else "")
        broken.append(where + ": " + p.stderr.strip().split("\n")[-1][:300])
        return len(theorems), 0, [{"error": p.stderr[-3000:]}], broken
    # split the output into one block per Print Assumptions, in order
    blocks = re.split(r"(?=Closed under the global context|Axioms:)", out)
    blocks = [b for b in blocks if b.startswith("Closed") or b.startswith("Axioms:")]
    if len(blocks) != len(printed):
        broken.append(f"{props_v}: {len(printed)} Print Assumptions, {len(blocks)} answers")
    discharged = 0
    for name, blk in zip(printed, blocks):
        if blk.startswith("Closed"):
            details.append({"theorem": name, "assumptions": "Closed under the global context"})
            discharged += 1
        else:
            axioms = re.findall(r"^(\S+)\s*:", blk, re.M)
            axioms = [a for a in axioms if a != "Axioms"]
            extra = [a for a in axioms if a not in ALLOWED_AXIOMS]
            details.append({"theorem": name, "assumptions": axioms})
            if extra:
                broken.append(f"{name}: depends on axioms {extra}")
            else:
                discharged += 1
    # theorems without a Print Assumptions (the non-vacuity examples) count as checked by coqc
    others = [t for t in theorems if t not in printed]
    for t in others:
        details.append({"theorem": t, "assumptions": "(compiled; example / auxiliary)"})
    return len(theorems), discharged + len(others), details, broken


# ----------------------------------------------------------------------------- findings / verdict
def load_known():
    p = os.path.join(VERIF, "known_findings.json")
    if not os.path.exists(p):
        return []
    return json.load(open(p)).get("findings", [])


def canon(obj):
    return json.dumps(obj, sort_keys=True, separators=(",", ":"))


def case_hash(obj):
    return hashlib.sha1(canon(obj).encode()).hexdigest()[:12]


TRUSTED_BASE = [
    "Coq 8.16.1 kernel incl. vm_compute (no native_compute, no -type-in-type, no guard/positivity/universe switches)",
    "the property statement in coq/theories/Props/<id>.v and the hand-written model files it mentions",
    "extraction (ExtrOcamlBasic only: bool/option/unit/list/prod/sumbool/sumor; Z, nat, string, ascii stay inductive), OCaml 4.13.1, ocaml/driver.ml",
    "the python harness: case generators, s-expression writer/reader, comparison and evidence code",
]


class Report:
    """Collects what one run found and turns it into VIOLATION / KNOWN-FINDING lines, replay files
    and the evidence file."""

    def __init__(self, pid, tier, seed):
        self.pid, self.tier, self.seed = pid, tier, seed
        self.t0 = time.time()
        self.fails = []          # {key, what, case, observed, expected}
        self.corr = []           # {what, case, model, impl}
        self.proof_broken = []   # strings
        self.coverage = {}
        self.assumptions = []
        self.notes = []

    def fail(self, key, what, case, observed=None, expected=None):
        self.fails.append({"key": key, "what": what, "case": case, "observed": observed,
                           "expected": expected})

    def corr_broken(self, what, case, model=None, impl=None):
        self.corr.append({"what": what, "case": case, "model": model, "impl": impl})

    def write_replay(self, kind, body):
        os.makedirs(os.path.join(VERIF, "replays"), exist_ok=True)
        body = dict(body)
        body.update({"property": self.pid, "kind": kind, "seed": self.seed,
                     "command": f"./check {self.pid} --replay <this file>"})
        path = os.path.join(VERIF, "replays", f"{self.pid}-{case_hash(body)}.json")
        with open(path, "w") as f:
            json.dump(body, f, indent=1, sort_keys=True, default=str)
        return path

    def finish(self, write_evidence=True):
        known = [k for k in load_known() if k.get("property") == self.pid and k.get("status") == "known"]
        known_keys = {k["key"]: k for k in known}
        unlisted = [f for f in self.fails if f["key"] not in known_keys]
        seen = set()
        for f in self.fails:
            if f["key"] in known_keys and f["key"] not in seen:
                seen.add(f["key"])
                print(f"KNOWN-FINDING: property={self.pid} {known_keys[f['key']]['what']} [{f['key']}]")
        rc = 0
        nviol = 0
        if unlisted:
            by_key = {}
            for f in unlisted:
                by_key.setdefault(f["key"], f)
            for key, f in by_key.items():
                path = self.write_replay("failing-input", f)
                print(f"VIOLATION property={self.pid} replay={path}")
                print(f"  {key}: {f['what']}")
                nviol += 1
            rc = 1
        elif self.proof_broken or self.corr:
            kind = "proof-broken" if self.proof_broken else "correspondence-broken"
            body = {"theorems_not_checking": self.proof_broken,
                    "correspondence_disagreements": self.corr[:5],
                    "what": "no concrete failing input was found on the implementation; the named "
                            "theorem / correspondence no longer checks, so the property is not shown to hold"}
            path = self.write_replay(kind, body)
            print(f"VIOLATION property={self.pid} replay={path} no-failing-input-found")
            for t in self.proof_broken[:5]:
                print(f"  proof obligation: {t}")
            for c in self.corr[:5]:
                print(f"  correspondence: {c['what']}")
            nviol = 1
            rc = 1
        if write_evidence:
            self.write_evidence(nviol)
        return rc

    def write_evidence(self, nviol):
        cov = dict(self.coverage)
        cov.setdefault("trusted_base", TRUSTED_BASE)
        cov["known_findings_seen"] = sorted({f["key"] for f in self.fails})
        cov["proof_broken"] = self.proof_broken
        cov["correspondence_disagreements"] = len(self.corr)
        ev = {"property_id": self.pid, "tier": self.tier, "seed": self.seed, "level": "proof",
              "coverage": cov, "assumptions": self.assumptions,
              "wall_s": round(time.time() - self.t0, 2), "violations": nviol}
        os.makedirs(os.path.join(VERIF, "evidence"), exist_ok=True)
        with open(os.path.join(VERIF, "evidence", f"{self.pid}.json"), "w") as f:
            json.dump(ev, f, indent=1, default=str)
