"""C03: decided on the emitted netlist by the certified checker chk_C03 (Coq, extracted);
families of descriptions -> real floogen -> fail-closed reader -> checker.  See netprops.py."""
from harness import netprops, spec, families

ID = "C03"
PROPS = "theories/Props/C03.v"
ALGOS = ('SRC',)


def nontrivial(d, t, r):
    return r['sizes'][1] >= 2 or r['sizes'][0] >= 3


def run(tier, seed, rep, replay=None):
    netprops.standard_run(ID, tier, seed, rep, replay, ALGOS, nontrivial, extra_cases=families.detour_suite, rule=
                          "families star/mesh/mesh_plus/tree/custom x algorithms " + str(ALGOS) + " x axi/narrow-wide, "
                          "exhaustive declaration-order permutations for small stars, seeded random otherwise; "
                          "non-trivial = SRC-routed description whose longest route crosses at least two routers or has three endpoints")
