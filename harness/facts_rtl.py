"""Facts for C11 (and C12), regenerated on every run: module headers of hw/ (parameters, ports with
direction), macros of typedef.svh with arity, names declared by floo_pkg.sv, the generator's
XYDirections numbering vs route_direction_e, the bindings / macro invocations / floo_pkg names of
really generated code over the template-branch space and all shipped examples, and what the two
mesh testbenches take from the generated mesh networks.  Fail-closed readers."""
import glob
import os
import re
import ruamel.yaml
from harness import common, facts, svread, netlist
from harness.facts_manifest import strip_comments


def split_top(s, sep=","):
    """split at separators of nesting depth 0"""
    out, depth, cur = [], 0, ""
    for ch in s:
        if ch in "([{":
            depth += 1
        elif ch in ")]}":
            depth -= 1
        if ch == sep and depth == 0:
            out.append(cur)
            cur = ""
        else:
            cur += ch
    if cur.strip():
        out.append(cur)
    return out


def matching(text, i):
    """index of the parenthesis matching the '(' at text[i]"""
    depth = 0
    for j in range(i, len(text)):
        if text[j] == "(":
            depth += 1
        elif text[j] == ")":
            depth -= 1
            if depth == 0:
                return j
    raise RuntimeError("unbalanced parentheses in module header")


def module_headers():
    mods = {}
    for f in sorted(glob.glob(os.path.join(common.REPO, "hw", "**", "*.sv"), recursive=True)):
        t = strip_comments(open(f).read())
        for m in re.finditer(r"^\s*module\s+([A-Za-z_][A-Za-z0-9_]*)", t, re.M):
            name = m.group(1)
            i = m.end()
            # optional imports
            while True:
                mi = re.match(r"\s*import\s+[^;]*;", t[i:])
                if not mi:
                    break
                i += mi.end()
            params, ports = [], []
            mp = re.match(r"\s*#\s*\(", t[i:])
            if mp:
                a = i + mp.end() - 1
                b = matching(t, a)
                for item in split_top(t[a + 1:b]):
                    item = item.strip()
                    if not item:
                        continue
                    lhs = item.split("=")[0]
                    ids = re.findall(r"[A-Za-z_][A-Za-z0-9_$]*", re.sub(r"\[[^\]]*\]", " ", lhs))
                    if not ids:
                        raise RuntimeError(f"{name}: parameter not understood: {item[:60]}")
                    if "localparam" in ids:
                        continue
                    params.append(ids[-1])
                i = b + 1
            mq = re.match(r"\s*\(", t[i:])
            if not mq:
                if re.match(r"\s*;", t[i:]):
                    mods[name] = {"params": params, "ports": [], "file": os.path.relpath(f, common.REPO)}
                    continue
                raise RuntimeError(f"{name}: port list not found")
            a = i + mq.end() - 1
            b = matching(t, a)
            direction = None
            for item in split_top(t[a + 1:b]):
                item = item.strip()
                if not item:
                    continue
                md = re.match(r"(input|output|inout)\b", item)
                if md:
                    direction = md.group(1)
                ids = re.findall(r"[A-Za-z_][A-Za-z0-9_$]*", re.sub(r"\[[^\]]*\]", " ", item))
                if not ids or direction is None:
                    raise RuntimeError(f"{name}: port not understood: {item[:60]}")
                ports.append((ids[-1], direction))
            mods[name] = {"params": params, "ports": ports, "file": os.path.relpath(f, common.REPO)}
    return mods


def macros_defined():
    out = {}
    for f in sorted(glob.glob(os.path.join(common.REPO, "hw", "include", "**", "*.svh"), recursive=True)):
        t = open(f).read()
        for m in re.finditer(r"^\s*`define\s+([A-Za-z_][A-Za-z0-9_]*)\(([^)]*)\)", t, re.M):
            out[m.group(1)] = len([a for a in m.group(2).split(",") if a.strip()])
    return out


# macros of the external `axi` package the generated package may invoke: name -> arity
EXTERNAL_MACROS = {"AXI_TYPEDEF_ALL_CT": 8}


def floo_pkg_names():
    t = strip_comments(open(os.path.join(common.REPO, "hw", "floo_pkg.sv")).read())
    enums, structs, funcs, params = {}, {}, {}, []
    for m in re.finditer(r"typedef\s+enum\s+[^{]*\{([^}]*)\}\s*([A-Za-z_][A-Za-z0-9_]*)\s*;", t):
        members = []
        val = 0
        for item in m.group(1).split(","):
            item = item.strip()
            if not item:
                continue
            mm = re.match(r"([A-Za-z_][A-Za-z0-9_]*)\s*(?:=\s*(?:\d+'d)?(\d+))?", item)
            if mm.group(2) is not None:
                val = int(mm.group(2))
            members.append((mm.group(1), val))
            val += 1
        enums[m.group(2)] = members
    for m in re.finditer(r"typedef\s+struct\s+packed\s*\{([^}]*)\}\s*([A-Za-z_][A-Za-z0-9_]*)\s*;", t):
        fields = []
        for item in m.group(1).split(";"):
            ids = re.findall(r"[A-Za-z_][A-Za-z0-9_]*", re.sub(r"\[[^\]]*\]", " ", item))
            if ids:
                fields.append(ids[-1])
        structs[m.group(2)] = fields
    for m in re.finditer(r"function\s+automatic\s+[^;(]*?([A-Za-z_][A-Za-z0-9_]*)\s*\(([^)]*)\)\s*;", t):
        funcs[m.group(1)] = len([a for a in m.group(2).split(",") if a.strip()])
    for m in re.finditer(r"localparam\s+[^=;]*?([A-Za-z_][A-Za-z0-9_]*)\s*=", t):
        params.append(m.group(1))
    return enums, structs, funcs, params


def helper_body(name):
    """the statements of a floo_pkg helper function the hardware model relies on (Hw.v: the roles of an interface are
    what set_ports(ChimneyDefaultCfg, en_sbr, en_mgr) sets), with its formal arguments renamed to a1, a2, ...;
    fail-closed on anything but a flat list of statements"""
    t = strip_comments(open(os.path.join(common.REPO, "hw", "floo_pkg.sv")).read())
    m = re.search(r"function\s+automatic\s+[^;(]*?\b" + re.escape(name) + r"\s*\(([^)]*)\)\s*;(.*?)\bendfunction", t, re.S)
    if not m:
        raise RuntimeError(f"floo_pkg.sv: helper function {name} not found")
    args = [re.findall(r"[A-Za-z_][A-Za-z0-9_]*", a)[-1] for a in m.group(1).split(",") if a.strip()]
    body = m.group(2)
    if re.search(r"\b(if|else|case|for|while|begin|\?)\b|\?", body):
        body = "CONTROL-FLOW " + body
    stmts = [re.sub(r"\s+", " ", x).strip() for x in body.split(";")]
    stmts = [x for x in stmts if x]
    for i, a in enumerate(args):
        stmts = [re.sub(r"\b" + re.escape(a) + r"\b", f"a{i + 1}", x) for x in stmts]
    return stmts


def py_algorithms():
    """every routing algorithm floogen knows by name (members of RouteAlgo): each is tried, so that an
    algorithm the generator starts to accept is held against what floo_pkg offers"""
    import importlib
    import sys
    sys.path.insert(0, common.REPO)
    try:
        mod = importlib.import_module("floogen.model.routing")
        vals = [str(a.name) for a in mod.RouteAlgo]
    finally:
        sys.path.remove(common.REPO)
    return [a for a in ("XY", "ID", "SRC") if a in vals] + sorted(a for a in vals if a not in ("XY", "ID", "SRC"))


def py_directions():
    import importlib
    import sys
    sys.path.insert(0, common.REPO)
    try:
        mod = importlib.import_module("floogen.model.routing")
        return [(d.name, d.value) for d in mod.XYDirections]
    finally:
        sys.path.remove(common.REPO)


def branch_descriptions():
    """one description per template branch combination, plus every shipped example"""
    import random
    from harness import families
    rng = random.Random(7)
    out = []
    for y in sorted(glob.glob(os.path.join(common.REPO, "floogen", "examples", "*.yml"))):
        out.append(("example:" + os.path.basename(y), ruamel.yaml.YAML(typ="safe").load(open(y))))
    for nw in (False, True):
        for algo in py_algorithms():
            sels = ["both"] if not nw else ["both", "narrow", "wide"]
            for roles in (["ms", "m", "s"], ["m", "s", "ms"], ["ms", "ms", "m"]):
                for sel in sels:
                    d = families.header("branch", nw, algo)
                    alloc = families.Alloc(rng)
                    eps, conns = [], []
                    for i, role in enumerate(roles):
                        nm = f"e{i}"
                        eps.append(families.mk_ep(nm, role, nw, rng, alloc, proto_sel="both" if i == 0 else sel))
                        if algo not in ("ID", "SRC"):
                            conns.append({"src": nm, "dst": "router", "dst_idx": [i % 2, i // 2], "dst_dir": "Eject"})
                        else:
                            conns.append({"src": nm, "dst": "router"})
                    d["endpoints"], d["connections"] = eps, conns
                    d["routers"] = [{"name": "router", "array": [2, 2], "degree": 5}] if algo not in ("ID", "SRC") else [{"name": "router"}]
                    if nw and roles[0] != "ms":
                        continue
                    out.append((f"branch:{'nw' if nw else 'axi'}/{algo}/{''.join(roles)}/{sel}", d))
                    # the package branch without an address table (documented option): other RouteCfg entries are set
                    if sel == "both" and roles == ["ms", "m", "s"] and algo in ("XY", "ID"):
                        import copy
                        dn = copy.deepcopy(d)
                        dn["routing"]["use_id_table"] = False
                        if algo == "ID":
                            dn["routing"]["addr_offset_bits"] = 16
                        out.append((f"branch:{'nw' if nw else 'axi'}-no-table/{algo}/{''.join(roles)}/{sel}", dn))
                    # narrow-wide networks with virtual-channel identifiers take another header / link typedef branch
                    if nw and sel == "both":
                        import copy
                        dv = copy.deepcopy(d)
                        dv["routing"]["num_vc_id_bits"] = 1
                        out.append((f"branch:nw-vc/{algo}/{''.join(roles)}/{sel}", dv))
    return out


def expr_kind(v, top_inputs, top_outputs):
    """how a bound expression relates to the top module: zero | open | in | out | sig | param"""
    if v == "" or v == "open":
        return "open"
    if v.startswith("'"):
        return "zero"
    base = re.match(r"[A-Za-z_][A-Za-z0-9_]*", v)
    if base and base.group(0) in top_inputs:
        return "in"
    if base and base.group(0) in top_outputs:
        return "out"
    return "sig"


def generated_usage():
    """instantiations, macro invocations and floo_pkg names of really generated code"""
    from harness.impl import generate
    insts, macros, cfg_fields, algos, calls, pkgs = [], [], [], [], [], {}
    for tag, d in branch_descriptions():
        r = generate(d)
        if not r["ok"]:
            if tag.startswith("branch:") and tag.split("/")[1] not in ("XY", "ID", "SRC"):
                continue            # an algorithm the generator knows by name but refuses (YX today)
            raise RuntimeError(f"{tag} is not generated: {r['error']}")
        n = netlist.read(r["pkg"], r["top"])
        tp = n["raw_top"]
        ins = {p["name"] for p in tp["ports"] if p["dir"] == "input"}
        outs = {p["name"] for p in tp["ports"] if p["dir"] == "output"}
        for it in tp["items"]:
            if it["k"] != "inst":
                continue
            conns = [(c, expr_kind(netlist.estr(v) if v[0] not in ("open",) else "open", ins, outs)) for c, v in it["conns"]]
            insts.append((tag, it["module"], [p for p, _ in it["params"]], conns))
            for _, v in it["params"]:
                if v[0] == "call":
                    calls.append((tag, v[1], len(v[2]), [netlist.estr(a) for a in v[2] if a[0] == "id"]))
        for name, args in n["macros"]:
            macros.append((tag, name, len(args)))
        cfg_fields.append((tag, "route_cfg_t", [k for k, _ in n["route_cfg"]]))
        for cname, fields in n["axi_cfgs"]:
            cfg_fields.append((tag, "axi_cfg_t", [k for k, _ in fields]))
        algos.append((tag, n["algo"]))
        for rt in n["rts"]:
            algos.append((tag, rt["algo"]))
        pkgs[tag] = (n["pkg_decl_names"], [p["name"] for p in tp["ports"]], tp["name"], n["pkg_name"])
    return insts, macros, cfg_fields, algos, calls, pkgs


def testbench_usage(pkgs):
    """what tb_floo_{axi,nw}_mesh.sv take from the generated mesh network: bound ports of the noc instance,
    and identifiers that some shipped variant's package declares"""
    out = []
    for tb, prefix in (("tb_floo_axi_mesh.sv", "axi_mesh"), ("tb_floo_nw_mesh.sv", "nw_mesh")):
        path = os.path.join(common.REPO, "hw", "tb", tb)
        t = strip_comments(open(path).read())
        variants = {tag: v for tag, v in pkgs.items() if tag.startswith("example:" + prefix + "_")}
        if not variants:
            raise RuntimeError(f"no shipped example for {tb}")
        top_name = next(iter(variants.values()))[2]
        m = re.search(r"\b" + re.escape(top_name) + r"\b\s*(#\s*\()?", t)
        if not m:
            raise RuntimeError(f"{tb} does not instantiate {top_name}")
        i = m.end()
        if m.group(1):
            i = matching(t, t.rfind("(", 0, i)) + 1
        mi = re.match(r"\s*[A-Za-z_][A-Za-z0-9_]*\s*\(", t[i:])
        a = i + mi.end() - 1
        b = matching(t, a)
        bound = re.findall(r"\.\s*([A-Za-z_][A-Za-z0-9_]*)", t[a:b])
        idents = set(re.findall(r"[A-Za-z_][A-Za-z0-9_]*", t))
        union = set()
        for decl, _, _, _ in variants.values():
            union |= set(decl)
        # names local to the testbench shadow the package: typedef / localparam / declared in the tb itself
        local = set(re.findall(r"(?:typedef[^;]*?|localparam[^=;]*?|parameter[^=;]*?)\b([A-Za-z_][A-Za-z0-9_]*)\s*(?:=|;)", t))
        used = sorted((idents & union) - local)
        out.append((tb, sorted(variants), bound, used))
    return out


def q(s):
    return '"' + s.replace('"', "'") + '"'


def ql(l):
    return "[" + "; ".join(q(x) for x in l) + "]"


def generate_facts():
    mods = module_headers()
    macs = macros_defined()
    enums, structs, funcs, params = floo_pkg_names()
    pydirs = py_directions()
    insts, macros, cfg_fields, algos, calls, pkgs = generated_usage()
    tbs = testbench_usage(pkgs)
    L = ["(* generated by harness/facts_rtl.py from hw/, the templates (by running them) and the testbenches: do not edit *)",
         "From FV Require Import Base.", ""]
    L.append("(* module -> (parameters, ports with direction) *)")
    L.append("Definition hw_modules : list (string * (list string * list (string * string))) := [" + ";\n  ".join(
        f"({q(m)}, ({ql(v['params'])}, [" + "; ".join(f"({q(p)}, {q(d)})" for p, d in v["ports"]) + "]))"
        for m, v in sorted(mods.items())) + "].")
    L.append("Definition macros_defined : list (string * Z) := [" + "; ".join(f"({q(k)}, {v})" for k, v in sorted({**macs, **EXTERNAL_MACROS}.items())) + "].")
    L.append("Definition external_macros : list string := " + ql(sorted(EXTERNAL_MACROS)) + ".")
    L.append("Definition pkg_enums : list (string * list (string * Z)) := [" + "; ".join(
        f"({q(k)}, [" + "; ".join(f"({q(a)}, {b})" for a, b in v) + "])" for k, v in sorted(enums.items())) + "].")
    L.append("Definition pkg_structs : list (string * list string) := [" + "; ".join(f"({q(k)}, {ql(v)})" for k, v in sorted(structs.items())) + "].")
    L.append("Definition pkg_functions : list (string * Z) := [" + "; ".join(f"({q(k)}, {v})" for k, v in sorted(funcs.items())) + "].")
    L.append("Definition pkg_params : list string := " + ql(sorted(params)) + ".")
    L.append("(* the statements of set_ports(a1, a2, a3) in floo_pkg.sv: the meaning of the role enables the generator emits *)")
    L.append("Definition set_ports_body : list string := " + ql(helper_body("set_ports")) + ".")
    L.append("Definition py_directions : list (string * Z) := [" + "; ".join(f"({q(a)}, {b})" for a, b in pydirs) + "].")
    # deduplicate instantiation shapes: (module, params, conns) with one origin each
    seen = {}
    for tag, m, ps, cs in insts:
        key = (m, tuple(ps), tuple(cs))
        seen.setdefault(key, tag)
    L.append("(* distinct instantiation shapes of generated code: (first origin, (module, (bound parameters, bound ports with kind))) *)")
    L.append("Definition gen_insts : list (string * (string * (list string * list (string * string)))) := [" + ";\n  ".join(
        f"({q(tag)}, ({q(m)}, ({ql(ps)}, [" + "; ".join(f"({q(c)}, {q(k)})" for c, k in cs) + "])))"
        for (m, ps, cs), tag in sorted(seen.items())) + "].")
    L.append("Definition gen_macros : list (string * Z) := [" + "; ".join(sorted({f"({q(n)}, {a})" for _, n, a in macros})) + "].")
    L.append("Definition gen_cfg_fields : list (string * list string) := [" + "; ".join(sorted({f"({q(s)}, {ql(f)})" for _, s, f in cfg_fields})) + "].")
    L.append("Definition gen_algos : list string := " + ql(sorted({a for _, a in algos})) + ".")
    L.append("Definition gen_calls : list (string * (Z * list string)) := [" + "; ".join(sorted({f"({q(f)}, ({n}, {ql(ids)}))" for _, f, n, ids in calls})) + "].")
    L.append("(* testbench -> per shipped variant: (bound ports missing from the generated top, package names missing) *)")
    rows = []
    for tb, variants, bound, used in tbs:
        for v in variants:
            decl, ports, _, _ = pkgs[v]
            rows.append(f"({q(tb)}, ({q(v)}, ({ql(sorted(set(bound) - set(ports)))}, {ql(sorted(set(used) - set(decl)))})))")
    L.append("Definition tb_missing : list (string * (string * (list string * list string))) := [" + ";\n  ".join(rows) + "].")
    L.append("Definition gen_origins : Z := " + str(len(pkgs)) + ".")
    return "RtlFacts.v", "\n".join(L) + "\n"


facts.GENERATORS.append(generate_facts)
