"""Implementation side of C19: the real util/gen_jobs.py gen_mesh_traffic, with random.randint
recorded (the `uniform` oracle), job files read back."""
import json
import os
import random
import shutil
import sys
import tempfile
from harness.impl import emit, protect_stdout
from harness.facts_jobs import load_gen_jobs


def parse_jobs(path):
    lines = [l.strip() for l in open(path) if l.strip() != ""]
    if len(lines) % 10 != 0:
        raise ValueError(f"{path}: {len(lines)} lines")
    jobs = []
    for i in range(0, len(lines), 10):
        jobs.append([int(lines[i]), int(lines[i + 1], 16), int(lines[i + 2], 16)])
    return jobs


def main():
    protect_stdout()
    mod, _ = load_gen_jobs()
    for line in sys.stdin:
        c = json.loads(line)
        tmp = tempfile.mkdtemp(prefix="fv_jobs_")
        draws = []
        orig = random.randint

        def rec(a, b):
            v = orig(a, b)
            draws.append(v)
            return v
        mod.random.randint = rec
        random.seed(c["seed"])
        try:
            mod.gen_mesh_traffic(narrow_burst_length=c["nbl"], wide_burst_length=c["wbl"], num_narrow_bursts=c["nnb"],
                                 num_wide_bursts=c["nwb"], rw=c["rw"], traffic_type=c["type"], out_dir=tmp)
            tiles = {}
            for x in range(mod.NUM_X):
                for y in range(mod.NUM_Y):
                    k = x * mod.NUM_Y + y
                    tiles[f"{x},{y}"] = {"wide": parse_jobs(f"{tmp}/mesh_{k}.txt"), "narrow": parse_jobs(f"{tmp}/mesh_{k + 100}.txt")}
            emit({"ok": True, "tiles": tiles, "draws": draws})
        except BaseException as e:
            emit({"ok": False, "error": f"{type(e).__name__}: {e}"})
        finally:
            mod.random.randint = orig
            shutil.rmtree(tmp, ignore_errors=True)


if __name__ == "__main__":
    main()
