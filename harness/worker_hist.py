"""In-process generation histories for C15: generate a list of descriptions one after another in ONE
interpreter and return the texts of the last one."""
import json
import sys
from harness.impl import emit, protect_stdout, generate


def main():
    protect_stdout()
    for line in sys.stdin:
        c = json.loads(line)
        last = None
        for d in c["history"]:
            last = generate(d)
        emit({"ok": last["ok"], "pkg": last.get("pkg"), "top": last.get("top"), "error": last.get("error")})


if __name__ == "__main__":
    main()
