"""Fail-closed reader of the SystemVerilog that floogen emits (package + top module).

Tokenizer + recursive descent for exactly the statement kinds the templates produce.  Anything
it cannot account for raises SvError (the tie to the source is then reported as broken); nothing is
skipped silently.  Output: plain dict/list structures ("raw" statements) which netlist.py turns into
the abstract netlist."""
import re


class SvError(Exception):
    pass


_TOKEN = re.compile(r"""
    (?P<ws>\s+)
  | (?P<comment>//[^\n]*)
  | (?P<string>"[^"\n]*")
  | (?P<sized>\d+\s*'[sS]?[hHbBdDoO][0-9a-fA-F_xXzZ]+)
  | (?P<fill>'[01xzXZ](?![0-9a-zA-Z_]))
  | (?P<tick_brace>'\{)
  | (?P<macro>`[A-Za-z_][A-Za-z0-9_]*)
  | (?P<ident>[A-Za-z_][A-Za-z0-9_$]*)
  | (?P<num>\d+)
  | (?P<scope>::)
  | (?P<punct>[()\[\]{},;:=.\#*\-+'])
""", re.X)


def tokenize(text):
    toks = []
    pos = 0
    line = 1
    while pos < len(text):
        m = _TOKEN.match(text, pos)
        if not m:
            raise SvError(f"line {line}: cannot tokenize {text[pos:pos+30]!r}")
        kind = m.lastgroup
        val = m.group()
        if kind not in ("ws", "comment"):
            toks.append((kind, val, line))
        line += val.count("\n")
        pos = m.end()
    return toks


class P:
    def __init__(self, toks):
        self.t = toks
        self.i = 0

    def peek(self, k=0):
        return self.t[self.i + k] if self.i + k < len(self.t) else ("eof", "", -1)

    def at(self, val):
        return self.peek()[1] == val

    def next(self):
        tok = self.peek()
        if tok[0] == "eof":
            raise SvError("unexpected end of file")
        self.i += 1
        return tok

    def expect(self, val):
        tok = self.next()
        if tok[1] != val:
            raise SvError(f"line {tok[2]}: expected {val!r}, found {tok[1]!r}")
        return tok

    def ident(self):
        tok = self.next()
        if tok[0] != "ident":
            raise SvError(f"line {tok[2]}: identifier expected, found {tok[1]!r}")
        return tok[1]

    # ---------------------------------------------------------------- expressions
    def expr(self):
        e = self.term()
        while self.peek()[1] in ("-", "+"):
            op = self.next()[1]
            r = self.term()
            e = ("bin", op, e, r)
        return e

    def term(self):
        kind, val, line = self.peek()
        if kind == "sized":
            self.next()
            m = re.fullmatch(r"(\d+)\s*'[sS]?([hHbBdDoO])([0-9a-fA-F_xXzZ]+)", val)
            return ("lit", int(m.group(1)), m.group(2).lower(), m.group(3))
        if kind == "fill":
            self.next()
            return ("fill", val[1])
        if kind == "num":
            self.next()
            return ("num", int(val))
        if val == "-":
            self.next()
            k2, v2, _ = self.next()
            if k2 != "num":
                raise SvError(f"line {line}: number expected after '-'")
            return ("num", -int(v2))
        if kind == "tick_brace":
            return self.aggregate()
        if kind == "ident":
            name = self.qualified()
            e = ("id", name)
            while True:
                if self.at("'") and self.peek(1)[1] == "(":
                    self.next()
                    self.next()
                    inner = self.expr()
                    self.expect(")")
                    e = ("cast", name, inner)
                elif self.at("("):
                    self.next()
                    args = []
                    if not self.at(")"):
                        args.append(self.expr())
                        while self.at(","):
                            self.next()
                            args.append(self.expr())
                    self.expect(")")
                    e = ("call", name, args)
                elif self.at("["):
                    self.next()
                    idx = self.expr()
                    self.expect("]")
                    e = ("index", e, idx)
                else:
                    return e
        raise SvError(f"line {line}: expression expected, found {val!r}")

    def qualified(self):
        name = self.ident()
        while self.at("::"):
            self.next()
            name += "::" + self.ident()
        return name

    def aggregate(self):
        self.expect("'{")
        if self.at("}"):
            self.next()
            return ("array", [])
        # struct literal  k: v, ...   or  default: v   or positional list
        if self.peek()[0] == "ident" and self.peek(1)[1] == ":":
            fields = []
            while True:
                k = self.ident()
                self.expect(":")
                fields.append((k, self.expr()))
                if self.at(","):
                    self.next()
                    continue
                break
            self.expect("}")
            return ("struct", fields)
        items = [self.expr()]
        while self.at(","):
            self.next()
            items.append(self.expr())
        self.expect("}")
        return ("array", items)

    # ---------------------------------------------------------------- types and dimensions
    def dims(self):
        ds = []
        while self.at("["):
            self.next()
            hi = self.expr()
            self.expect(":")
            lo = self.expr()
            self.expect("]")
            ds.append((hi, lo))
        return ds

    def data_type(self):
        """type name (possibly 'int unsigned', 'logic', pkg::name)"""
        name = self.qualified()
        if name == "int" and self.at("unsigned"):
            self.next()
            name = "int unsigned"
        return name

    # ---------------------------------------------------------------- statements
    def typedef(self):
        line = self.expect("typedef")[2]
        if self.at("enum"):
            self.next()
            base = self.data_type()
            d = self.dims()
            self.expect("{")
            members = []
            while True:
                k = self.ident()
                self.expect("=")
                members.append((k, self.expr()))
                if self.at(","):
                    self.next()
                    continue
                break
            self.expect("}")
            name = self.ident()
            self.expect(";")
            return {"k": "enum", "name": name, "base": base, "dims": d, "members": members, "line": line}
        if self.at("struct") or self.at("union"):
            su = self.next()[1]
            self.expect("packed")
            self.expect("{")
            fields = []
            while not self.at("}"):
                ty = self.data_type()
                d = self.dims()
                fn = self.ident()
                self.expect(";")
                fields.append((ty, d, fn))
            self.expect("}")
            name = self.ident()
            self.expect(";")
            return {"k": "struct", "name": name, "fields": fields, "line": line}
        base = self.data_type()
        d = self.dims()
        name = self.ident()
        self.expect(";")
        return {"k": "typedef", "name": name, "base": base, "dims": d, "line": line}

    def localparam(self):
        line = self.expect("localparam")[2]
        ty = self.data_type()
        d = self.dims()
        name = self.ident()
        self.expect("=")
        val = self.expr()
        self.expect(";")
        return {"k": "localparam", "type": ty, "dims": d, "name": name, "value": val, "line": line}

    def macro(self):
        kind, val, line = self.next()
        args = []
        if self.at("("):
            self.next()
            if not self.at(")"):
                args.append(self.ident())
                while self.at(","):
                    self.next()
                    args.append(self.ident())
            self.expect(")")
        return {"k": "macro", "name": val[1:], "args": args, "line": line}

    def include(self):
        line = self.next()[2]
        kind, val, _ = self.next()
        if kind != "string":
            raise SvError(f"line {line}: include path expected")
        return {"k": "include", "path": val.strip('"'), "line": line}

    def imports(self):
        line = self.expect("import")[2]
        pkg = self.ident()
        self.expect("::")
        self.expect("*")
        self.expect(";")
        return {"k": "import", "pkg": pkg, "line": line}


def read_package(text):
    p = P(tokenize(text))
    out = {"includes": [], "imports": [], "items": []}
    while p.peek()[1] == "`include":
        out["includes"].append(p.include())
    p.expect("package")
    out["name"] = p.ident()
    p.expect(";")
    while not p.at("endpackage"):
        kind, val, line = p.peek()
        if val == "import":
            out["imports"].append(p.imports())
        elif val == "typedef":
            out["items"].append(p.typedef())
        elif val == "localparam":
            out["items"].append(p.localparam())
        elif kind == "macro":
            out["items"].append(p.macro())
        else:
            raise SvError(f"package line {line}: unexpected {val!r}")
    p.expect("endpackage")
    if p.peek()[0] != "eof":
        raise SvError("text after endpackage")
    return out


def read_top(text):
    p = P(tokenize(text))
    out = {"imports": [], "ports": [], "items": []}
    p.expect("module")
    out["name"] = p.ident()
    while p.at("import"):
        out["imports"].append(p.imports())
    p.expect("(")
    while True:
        line = p.peek()[2]
        direction = p.ident()
        if direction not in ("input", "output", "inout"):
            raise SvError(f"line {line}: port direction expected, found {direction!r}")
        ty = p.data_type()
        d = p.dims()
        name = p.ident()
        out["ports"].append({"dir": direction, "type": ty, "dims": d, "name": name, "line": line})
        if p.at(","):
            p.next()
            continue
        break
    p.expect(")")
    p.expect(";")
    while not p.at("endmodule"):
        kind, val, line = p.peek()
        if val == "typedef":
            out["items"].append(p.typedef())
        elif val == "localparam":
            out["items"].append(p.localparam())
        elif val == "assign":
            p.next()
            lhs = p.expr()
            p.expect("=")
            rhs = p.expr()
            p.expect(";")
            out["items"].append({"k": "assign", "lhs": lhs, "rhs": rhs, "line": line})
        elif kind == "ident":
            # declaration  TYPE [dims] NAME ;   or instantiation  MOD #(...) INST (...);
            ty = p.qualified()
            if p.at("#"):
                p.next()
                p.expect("(")
                params = bindings(p)
                p.expect(")")
                inst = p.ident()
                p.expect("(")
                conns = bindings(p)
                p.expect(")")
                p.expect(";")
                out["items"].append({"k": "inst", "module": ty, "name": inst, "params": params,
                                     "conns": conns, "line": line})
            else:
                d = p.dims()
                name = p.ident()
                p.expect(";")
                out["items"].append({"k": "decl", "type": ty, "dims": d, "name": name, "line": line})
        else:
            raise SvError(f"top line {line}: unexpected {val!r}")
    p.expect("endmodule")
    if p.peek()[0] != "eof":
        raise SvError("text after endmodule")
    return out


def bindings(p):
    """.name(expr) | .name( ) | .name   separated by commas; returns list of (name, expr|None|'implicit')"""
    res = []
    if p.at(")"):
        return res
    while True:
        p.expect(".")
        name = p.ident()
        if p.at("("):
            p.next()
            if p.at(")"):
                val = ("open",)
            else:
                val = p.expr()
            p.expect(")")
        else:
            val = ("implicit", name)
        res.append((name, val))
        if p.at(","):
            p.next()
            continue
        break
    return res


# ---------------------------------------------------------------- text-level facts (C12)
def brackets_balanced(text):
    """simple balance check of () [] {} begin/end module/endmodule package/endpackage on the token stream"""
    stack = []
    pairs = {")": "(", "]": "[", "}": "{", "endmodule": "module", "endpackage": "package", "end": "begin"}
    for kind, val, line in tokenize(text):
        if val in ("(", "[", "{", "module", "package", "begin"):
            stack.append((val, line))
        elif val == "'{":
            stack.append(("{", line))
        elif val in pairs:
            if not stack or stack[-1][0] != pairs[val]:
                return False, f"line {line}: unmatched {val!r}"
            stack.pop()
    if stack:
        return False, f"line {stack[-1][1]}: unclosed {stack[-1][0]!r}"
    return True, ""
