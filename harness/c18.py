"""C18 — node selectors: extracted Coq model vs the real Graph methods, exhaustively over small
arrays / trees; the expected result is also computed independently from the property text
(cartesian product, first dimension outermost, inclusive ascending/descending)."""
import itertools
import random
from harness import common

ID = "C18"
PROPS = "theories/Props/C18.v"


def seq(a, b):
    return list(range(a, b + 1)) if a <= b else list(range(a, b - 1, -1))


def expected_range(dims, rng):
    """spec: error if rank differs or any index out of bounds, else row-major product names"""
    if len(rng) == 0:
        return ["err"]
    names = []
    for idx in itertools.product(*[seq(a, b) for a, b in rng]):
        if len(idx) != len(dims) or any(i < 0 or i >= d for i, d in zip(idx, dims)):
            return ["err"]
        names.append("A_" + "_".join(str(i) for i in idx))
    return ["ok", names]


def tree_levels(tree, name="T"):
    out = {}

    def rec(parent, lvl):
        if lvl == len(tree):
            return
        for i in range(tree[lvl]):
            n = f"{parent}_{i}"
            out.setdefault(lvl, []).append(n)
            rec(n, lvl + 1)
    rec(name, 0)
    return out


def gen_cases(tier, seed):
    cases = []
    mx = 4 if tier == "quick" else 5
    bounds = range(-1, mx + 1)
    for m in range(1, mx + 1):
        dims = [m]
        for a, b in itertools.product(bounds, repeat=2):
            cases.append({"kind": "range", "dims": dims, "rng": [[a, b]]})
        cases.append({"kind": "range", "dims": dims, "rng": [[0, m - 1], [0, 0]]})
        cases.append({"kind": "range", "dims": dims, "rng": []})
        for i in bounds:
            cases.append({"kind": "idx", "dims": dims, "idx": [i]})
        for n in range(1, mx + 1):
            dims = [m, n]
            for a, b, c, d in itertools.product(bounds, repeat=4):
                if tier == "quick" and (m > 3 or n > 3) and (abs(a - b) > 1 and abs(c - d) > 1) and (a + b + c + d) % 3:
                    continue
                cases.append({"kind": "range", "dims": dims, "rng": [[a, b], [c, d]]})
            cases.append({"kind": "range", "dims": dims, "rng": [[0, m - 1]]})
            for i, j in itertools.product(bounds, repeat=2):
                cases.append({"kind": "idx", "dims": dims, "idx": [i, j]})
            cases.append({"kind": "idx", "dims": dims, "idx": [0]})
    fan = range(1, 4)
    for depth in (1, 2, 3):
        for tree in itertools.product(fan, repeat=depth):
            for lvl in range(-1, depth + 1):
                for pre in ("T", "T_0", "T_1", "X"):
                    cases.append({"kind": "lvl", "tree": list(tree), "lvl": lvl, "pre": pre})
                # a tree whose name contains underscores and digits (compared with the specification only)
                cases.append({"kind": "lvl", "tree": list(tree), "lvl": lvl, "pre": "l2_rt_1", "name": "l2_rt_1"})
    return cases


def request(c):
    if c["kind"] == "range":
        return common.sx(["c18", "range", c["dims"], c["rng"]])
    if c["kind"] == "idx":
        return common.sx(["c18", "idx", c["dims"], c["idx"]])
    return common.sx(["c18", "lvl", c["tree"], c["lvl"], c["pre"]])


def evaluate(cases, rep):
    impl = common.run_worker("worker_c18", cases)
    model = common.run_model([request(c) for c in cases])
    stats = {"range_ok": 0, "range_err": 0, "idx": 0, "lvl": 0, "desc_dims": 0}
    distinct = set()
    for c, im, mo in zip(cases, impl, model):
        if c["kind"] == "range":
            exp = expected_range(c["dims"], c["rng"])
            im = im if im[0] == "ok" else ["err"]
            if im != exp:
                kind = "wrong-order-or-set" if im[0] == exp[0] else ("missing-error" if exp == ["err"] else "spurious-error")
                rep.fail(f"C18:range:{kind}", f"get_nodes_from_range on array {c['dims']} with {c['rng']}: "
                         f"implementation {im}, specification {exp}", c, observed=im, expected=exp)
            elif mo != exp:
                rep.corr_broken(f"model differs from specification on {c}", c, model=mo, impl=im)
            if exp[0] == "ok":
                stats["range_ok"] += 1
                if len(exp[1]) > 1:
                    distinct.add(common.canon(c))
                if any(a > b for a, b in c["rng"]):
                    stats["desc_dims"] += 1
            else:
                stats["range_err"] += 1
                distinct.add(common.canon(c))
        elif c["kind"] == "idx":
            stats["idx"] += 1
            ok = len(c["idx"]) == len(c["dims"]) and all(0 <= i < d for i, d in zip(c["idx"], c["dims"]))
            exp = ["ok", ["A_" + "_".join(map(str, c["idx"]))]] if ok else ["err"]
            im = im if im[0] == "ok" else ["err"]
            if im != exp:
                rep.fail("C18:idx:" + ("missing-error" if exp == ["err"] else "wrong-node"),
                         f"get_nodes_from_idx on array {c['dims']} with {c['idx']}: implementation {im}, "
                         f"specification {exp}", c, observed=im, expected=exp)
            elif mo != exp:
                rep.corr_broken(f"model differs from specification on {c}", c, model=mo, impl=im)
        else:
            stats["lvl"] += 1
            lv = tree_levels(c["tree"], c.get("name", "T"))
            exp = ["ok", [n for n in lv.get(c["lvl"], []) if n.startswith(c["pre"])]]
            sel = im[0] if im[0][0] == "ok" else ["err"]
            if c["pre"] == c.get("name", "T") and sel != exp:
                rep.fail("C18:lvl:wrong-set", f"get_nodes_from_lvl({c['pre']}, {c['lvl']}) on tree {c['tree']}: implementation "
                         f"{sel}, specification {exp}", c, observed=sel, expected=exp)
            elif "name" in c:
                pass        # the model request builds the tree under the name T only
            elif [sel, im[1], im[2]] != [mo[0], mo[1], mo[2]]:
                rep.corr_broken(f"tree construction / level selection: model and implementation differ on {c}",
                                c, model=mo, impl=im)
            if exp[1]:
                distinct.add(common.canon(c))
    stats["distinct"] = len(distinct)
    return stats


def run(tier, seed, rep, replay=None):
    cases = [replay["case"]] if replay else gen_cases(tier, seed)
    stats = evaluate(cases, rep)
    rep.coverage.update({
        "evaluations": len(cases),
        "distinct_nontrivial": stats["distinct"],
        "rule": "all 1-D and 2-D arrays up to 4x4 (quick, thinned for the larger ones) / 5x5 (thorough) x all range "
                "pairs with bounds in -1..size (in/out of bounds, ascending, descending, equal), rank mismatches, "
                "all index selections, all trees of depth<=3 and fan-out<=3 x all levels x 4 prefixes; exhaustive "
                "enumeration; non-trivial = selects more than one node, or must be rejected",
        "samples": cases[777:780],
        "input_distribution": {k: v for k, v in stats.items() if k != "distinct"},
        "exhaustive": tier == "thorough",
    })
