"""C20: manifests name only existing files and cover what generated code needs.  Theorem C20_holds is
over facts regenerated every run (gen/ManifestFacts.v); this module re-evaluates the same conditions
in python on the same data to name the failing entry when the theorem no longer checks."""
import os
from harness import common, facts_manifest

ID = "C20"
PROPS = "theories/Props/C20.v"


def run(tier, seed, rep, replay=None):
    bfiles, bdirs = facts_manifest.bender_entries()
    cfiles = facts_manifest.core_entries()
    tree = set(facts_manifest.tree_files())
    gen = facts_manifest.generated_by_examples()
    defs, edges = facts_manifest.hw_modules()
    gen_names = {(n, f) for n, _, fs, _ in gen for f in fs}
    gen_dirs = {os.path.dirname(f) for _, f in gen_names}
    evaluations = 0
    for atoms, p in bfiles:
        evaluations += 1
        ok = p in tree
        if not ok and not os.path.isabs(p) and os.path.dirname(p) in gen_dirs | {"generated"}:
            ok = any(g == p and n in atoms for n, g in gen_names)
            if not ok:
                rep.fail(f"C20:generated-name:Bender.yml:{p}", f"Bender.yml target {atoms} lists {p}, but `make sources` writes "
                         f"{sorted(g for n, g in gen_names if n in atoms) or sorted(g for _, g in gen_names)} for the shipped "
                         f"example(s) of that target", {"manifest": "Bender.yml", "entry": p, "target": atoms})
                continue
        if not ok:
            rep.fail(f"C20:missing-file:Bender.yml:{p}", f"Bender.yml lists {p}, which does not exist", {"manifest": "Bender.yml", "entry": p})
    for _, d in bdirs:
        evaluations += 1
        if not os.path.isdir(os.path.join(common.REPO, d)):
            rep.fail(f"C20:missing-dir:Bender.yml:{d}", f"Bender.yml lists include directory {d}, which does not exist", {"entry": d})
    for fs, p in cfiles:
        evaluations += 1
        if p not in tree:
            rep.fail(f"C20:missing-file:floo_noc.core:{p}", f"floo_noc.core fileset {fs} lists {p}, which does not exist",
                     {"manifest": "floo_noc.core", "entry": p})
    tops = sorted({m for _, _, _, mods in gen for m in mods})
    reach, work = set(tops), list(tops)
    via = {}
    while work:
        a = work.pop()
        for x, y in edges:
            if x == a and y not in reach:
                reach.add(y)
                via[y] = a
                work.append(y)
    for name, listed in (("Bender.yml", {p for _, p in bfiles}), ("floo_noc.core", {p for _, p in cfiles})):
        for m in sorted(reach):
            evaluations += 1
            if m in defs and defs[m] not in listed:
                chain = [m]
                while chain[-1] in via:
                    chain.append(via[chain[-1]])
                rep.fail(f"C20:unlisted-module:{name}:{m}", f"module {m} (defined in {defs[m]}) is needed by generated networks "
                         f"(instantiated via {' <- '.join(chain)}) but {name} does not list {defs[m]}",
                         {"manifest": name, "module": m, "file": defs[m]})
    rep.coverage.update({
        "evaluations": evaluations, "distinct_nontrivial": len(bfiles) + len(cfiles) + len(reach),
        "rule": "every file / include-directory entry of every target of Bender.yml and every fileset of floo_noc.core; the "
                "module closure from the modules instantiated by the real output for all shipped examples; exhaustive over "
                "the finite manifests (the theorem is over the same regenerated facts)",
        "samples": [{"bender": bfiles[:2], "core": cfiles[:2], "closure": sorted(reach)[:6]}],
        "input_distribution": {"bender_files": len(bfiles), "core_files": len(cfiles), "modules_in_closure": len(reach),
                               "examples": len(gen)},
        "exhaustive": True,
    })
