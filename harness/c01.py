"""C01: decided on the emitted netlist by the certified checker chk_C01 (Coq, extracted);
families of descriptions -> real floogen -> fail-closed reader -> checker.  See netprops.py."""
from harness import netprops, spec, families

ID = "C01"
PROPS = "theories/Props/C01.v"
ALGOS = ('ID','SRC','XY')


def nontrivial(d, t, r):
    return len(spec.owned(d)) >= 2


def run(tier, seed, rep, replay=None):
    netprops.standard_run(ID, tier, seed, rep, replay, ALGOS, nontrivial, extra_cases=families.address_suite, rule=
                          "families star/mesh/mesh_plus/tree/custom x algorithms " + str(ALGOS) + " x axi/narrow-wide, "
                          "exhaustive declaration-order permutations for small stars, seeded random otherwise; "
                          "non-trivial = subordinate endpoints with ranges (always); distinct by canonical description")
