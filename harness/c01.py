"""C01: decided on the emitted netlist by the certified checker chk_C01 (Coq, extracted);
families of descriptions -> real floogen -> fail-closed reader -> checker.  See netprops.py."""
from harness import netprops, spec, families

ID = "C01"
PROPS = "theories/Props/C01.v"
ALGOS = ('ID','SRC','XY')


def nontrivial(d, t, r):
    return len(spec.owned(d)) >= 2


MODES = (("full", [], False), ("only-pkg", ["--only-pkg"], False), ("only-top", ["--only-top"], False),
         ("stdout", [], True), ("stdout-only-top", ["--only-top"], True))


def overlaps_through_cli(tier, seed, rep, replay):
    """the last clause -- an overlapping description is rejected and nothing is emitted -- through the real command line
    in EVERY output mode (the overlap check must not depend on which file is asked for)"""
    import random
    from harness import common, yamlout
    if replay is not None:
        cases = [(replay["case"]["desc"], replay["case"].get("tags", {}))]
        modes = [m for m in MODES if m[0] == replay["case"]["mode"]]
    else:
        rng = random.Random(seed + 5)
        cases = [(d, t) for d, t in families.address_suite(tier, seed) if t.get("topo") == "overlap" and d is not None]
        if tier == "quick":
            cases = rng.sample(cases, min(len(cases), 6))
        modes = list(MODES)
    jobs, meta = [], []
    for d, t in cases:
        for name, args, so in modes:
            jobs.append({"yaml_text": yamlout.text(d), "args": args, "stdout": so, "keep_stdout": True}); meta.append((d, t, name))
    res = common.run_worker("worker_cli", jobs, shards=8) if jobs else []
    for (d, t, name), r in zip(meta, res):
        emitted = sorted(r.get("files", {})) or (["<text on stdout>"] if "module " in r.get("stdout", "") or "package " in r.get("stdout", "") else [])
        if r.get("rc") == 0 or emitted:
            rep.fail(f"C01:overlap-accepted:{name}", f"an overlapping description ({t.get('layout')}, {t.get('where')}) run through the "
                     f"command line in mode {name} ends with exit status {r.get('rc')} and emits {emitted}: it must be rejected and "
                     f"emit nothing", {"desc": d, "tags": t, "mode": name}, observed=[r.get("rc"), emitted], expected="rejected, nothing emitted")
    return len(jobs)


def run(tier, seed, rep, replay=None):
    if replay is not None and "mode" in replay.get("case", {}):
        overlaps_through_cli(tier, seed, rep, replay)
        return
    n_cli = overlaps_through_cli(tier, seed, rep, None) if replay is None else 0
    rep.coverage["overlaps_through_cli_runs"] = n_cli
    netprops.standard_run(ID, tier, seed, rep, replay, ALGOS, nontrivial, extra_cases=families.address_suite, rule=
                          "families star/mesh/mesh_plus/tree/custom x algorithms " + str(ALGOS) + " x axi/narrow-wide, "
                          "exhaustive declaration-order permutations for small stars, seeded random otherwise; "
                          "non-trivial = subordinate endpoints with ranges (always); distinct by canonical description")
