"""Implementation side of C18: real Graph.get_nodes_from_range/idx/lvl on arrays and trees."""
import json
import sys
from harness.impl import emit, protect_stdout
from floogen.model.graph import Graph


def main():
    protect_stdout()
    cache = {}
    for line in sys.stdin:
        c = json.loads(line)
        try:
            if c["kind"] in ("range", "idx"):
                key = ("a", tuple(c["dims"]))
                if key not in cache:
                    g = Graph()
                    g.add_nodes_as_array("A", tuple(c["dims"]), "router", edge_type="link", connect=False)
                    cache[key] = g
                g = cache[key]
                if c["kind"] == "range":
                    out = ["ok", g.get_nodes_from_range("A", [tuple(p) for p in c["rng"]])]
                else:
                    out = ["ok", g.get_nodes_from_idx("A", c["idx"])]
                emit(out)
            else:
                key = ("t", tuple(c["tree"]), c.get("name", "T"))
                if key not in cache:
                    g = Graph()
                    g.add_nodes_as_tree(c.get("name", "T"), c["tree"], "router", "link")
                    cache[key] = g
                g = cache[key]
                try:
                    sel = ["ok", g.get_nodes_from_lvl(c["pre"], c["lvl"])]
                except Exception:
                    sel = ["err"]
                emit([sel, list(g.nodes), [list(e) for e in g.edges]])
        except Exception:
            emit(["err"] if c["kind"] != "lvl" else [["err"], [], []])


if __name__ == "__main__":
    main()
