"""Facts for C04, regenerated on every run: the XY decision of hw/floo_route_select.sv, EVALUATED from its text.

The `gen_xy_routing` branch is read with a small fail-closed parser for exactly the statement and expression kinds it
uses (begin/end, if/else, blocking assignment; ==, !=, <, <=, >, >=, &&, ||, !, +, parentheses, numbers, the members of
floo_pkg::route_direction_e, the fields x / y / port_id of the flit's destination and of the router's own identity).
Anything else -- an arithmetic difference, a bit select, a new local signal -- is outside the fragment and an error
(reported by C04 as a broken tie).  The block is then executed for destinations and router coordinates 0..2 each and
both port ids, which covers all nine relative positions (west / same column / east) x (south / same row / north); a
decision built from comparisons of these quantities only (which is all the fragment admits) is determined by them.
Renaming the local alias of the destination, re-indenting or re-commenting the block does not matter."""
import os
import re
from harness import common, facts


class RtlError(Exception):
    pass


TOK = re.compile(r"\s*(//[^\n]*|/\*.*?\*/|[A-Za-z_$][\w$]*|\d*'[bdh][0-9a-fA-F_xz]+|'0|'1|\d+|==|!=|<=|>=|&&|\|\||[-+*/%<>!~&|^?:;,.()\[\]{}=@#`'])", re.S)


def tokens(text):
    pos, out = 0, []
    while pos < len(text):
        m = TOK.match(text, pos)
        if not m:
            if text[pos:].strip() == "":
                break
            raise RtlError(f"cannot tokenize {text[pos:pos + 30]!r}")
        t = m.group(1)
        pos = m.end()
        if not (t.startswith("//") or t.startswith("/*")):
            out.append(t)
    return out


def enum_members(pkg_text, name):
    m = re.search(r"typedef\s+enum\s+logic\s*\[[^\]]*\]\s*\{([^{}]*)\}\s*" + name + r"\s*;", pkg_text, re.S)
    if not m:
        raise RtlError(f"enum {name} not found in floo_pkg.sv")
    body = re.sub(r"//[^\n]*", "", m.group(1))
    vals, nxt = {}, 0
    for item in body.split(","):
        item = item.strip()
        if not item:
            continue
        mm = re.fullmatch(r"(\w+)(?:\s*=\s*(?:\d*'d)?(\d+))?", item)
        if not mm:
            raise RtlError(f"enum member {item!r} not understood")
        if mm.group(2) is not None:
            nxt = int(mm.group(2))
        vals[mm.group(1)] = nxt
        nxt += 1
    return vals


class Parser:
    def __init__(self, toks):
        self.t, self.i = toks, 0

    def peek(self):
        return self.t[self.i] if self.i < len(self.t) else None

    def eat(self, x=None):
        t = self.peek()
        if t is None or (x is not None and t != x):
            raise RtlError(f"expected {x!r}, found {t!r}")
        self.i += 1
        return t

    # ---- statements
    def stmt(self):
        t = self.peek()
        if t == "begin":
            self.eat()
            if self.peek() == ":":
                self.eat(); self.eat()
            body = []
            while self.peek() != "end":
                body.append(self.stmt())
            self.eat("end")
            return ("seq", body)
        if t == "if":
            self.eat(); self.eat("(")
            c = self.expr()
            self.eat(")")
            a = self.stmt()
            b = ("seq", [])
            if self.peek() == "else":
                self.eat()
                b = self.stmt()
            return ("if", c, a, b)
        lv = self.lvalue()
        self.eat("=")
        e = self.expr()
        self.eat(";")
        return ("assign", lv, e)

    def lvalue(self):
        name = self.path()
        idx = None
        if self.peek() == "[":
            self.eat(); idx = self.expr(); self.eat("]")
        return (name, idx)

    def path(self):
        t = self.eat()
        if not re.fullmatch(r"[A-Za-z_]\w*", t):
            raise RtlError(f"identifier expected, found {t!r}")
        parts = [t]
        while self.peek() == ".":
            self.eat(); parts.append(self.eat())
        return ".".join(parts)

    # ---- expressions (the fragment only)
    def expr(self):
        return self.lor()

    def lor(self):
        a = self.land()
        while self.peek() == "||":
            self.eat(); a = ("or", a, self.land())
        return a

    def land(self):
        a = self.cmp()
        while self.peek() == "&&":
            self.eat(); a = ("and", a, self.cmp())
        return a

    def cmp(self):
        a = self.add()
        if self.peek() in ("==", "!=", "<", "<=", ">", ">="):
            op = self.eat()
            return (op, a, self.add())
        return a

    def add(self):
        a = self.unary()
        while self.peek() == "+":
            self.eat(); a = ("+", a, self.unary())
        if self.peek() in ("-", "*", "/", "%", "<<", ">>", "&", "|", "^", "?", "["):
            raise RtlError(f"operator {self.peek()!r} is outside the fragment of the XY decision")
        return a

    def unary(self):
        t = self.peek()
        if t == "!":
            self.eat(); return ("not", self.unary())
        if t == "(":
            self.eat(); e = self.expr(); self.eat(")"); return e
        if t in ("'0", "'1"):
            self.eat(); return ("num", int(t[1]))
        if re.fullmatch(r"\d+", t or ""):
            self.eat(); return ("num", int(t))
        m = re.fullmatch(r"\d*'([bdh])([0-9a-fA-F_]+)", t or "")
        if m:
            self.eat(); return ("num", int(m.group(2).replace("_", ""), {"b": 2, "d": 10, "h": 16}[m.group(1)]))
        return ("var", self.path())


def xy_block(text):
    m = re.search(r"else\s+if\s*\(\s*RouteAlgo\s*==\s*XYRouting\s*\)\s*begin\s*:\s*gen_xy_routing(.*?)\n\s*end\s+else\s+begin\s*:\s*gen_err", text, re.S)
    if not m:
        raise RtlError("the gen_xy_routing branch of floo_route_select.sv was not found")
    return m.group(1)


def decision_table():
    root = common.REPO
    sel = open(os.path.join(root, "hw", "floo_route_select.sv")).read()
    pkg = open(os.path.join(root, "hw", "floo_pkg.sv")).read()
    dirs = enum_members(pkg, "route_direction_e")
    block = re.sub(r"//[^\n]*", "", xy_block(sel))
    # local aliases of the flit's destination: `id_t NAME;  assign NAME = id_t'(channel_i.hdr.dst_id);`
    alias = {}
    for m in re.finditer(r"assign\s+(\w+)\s*=\s*id_t\s*'\s*\(\s*channel_i\.hdr\.dst_id\s*\)\s*;", block):
        alias[m.group(1)] = "dst"
    rest = re.sub(r"\bid_t\s+\w+\s*;", " ", block)
    rest = re.sub(r"assign\s+(\w+)\s*=\s*id_t\s*'\s*\(\s*channel_i\.hdr\.dst_id\s*\)\s*;", " ", rest)
    rest = re.sub(r"assign\s+channel_o\s*=\s*channel_i\s*;", " ", rest)
    # assertions do not take part in the decision
    rest = re.sub(r"`ASSERT\w*\s*\((?:[^()]|\([^()]*\))*\)\s*;?", " ", rest)
    m = re.search(r"always_comb\b", rest)
    if not m or rest[:m.start()].strip():
        raise RtlError(f"unexpected text before always_comb in gen_xy_routing: {rest[:m.start() if m else 80].strip()[:80]!r}")
    p = Parser(tokens(rest[m.end():]))
    prog = p.stmt()
    if p.peek() is not None:
        raise RtlError(f"unexpected text after the always_comb block of gen_xy_routing: {p.peek()!r}")

    def resolve(name, env):
        parts = name.split(".")
        if parts[0] in alias:
            parts = ["dst"] + parts[1:]
        if parts[:3] == ["channel_i", "hdr", "dst_id"]:
            parts = ["dst"] + parts[3:]
        if parts[0] == "xy_id_i":
            parts = ["self"] + parts[1:]
        key = ".".join(parts)
        if key in env:
            return env[key]
        if len(parts) == 1 and parts[0] in dirs:
            return dirs[parts[0]]
        raise RtlError(f"name {name!r} is outside the fragment of the XY decision")

    def ev(e, env):
        k = e[0]
        if k == "num":
            return e[1]
        if k == "var":
            return resolve(e[1], env)
        if k == "not":
            return int(not ev(e[1], env))
        if k == "and":
            return int(bool(ev(e[1], env)) and bool(ev(e[2], env)))
        if k == "or":
            return int(bool(ev(e[1], env)) or bool(ev(e[2], env)))
        if k == "+":
            return ev(e[1], env) + ev(e[2], env)
        a, b = ev(e[1], env), ev(e[2], env)
        return int({"==": a == b, "!=": a != b, "<": a < b, "<=": a <= b, ">": a > b, ">=": a >= b}[k])

    def run(s, env):
        if s[0] == "seq":
            for x in s[1]:
                run(x, env)
        elif s[0] == "if":
            run(s[2] if ev(s[1], env) else s[3], env)
        else:
            (name, idx), e = s[1], s[2]
            if name == "route_sel_id" and idx is None:
                env["route_sel_id"] = ev(e, env)
            elif name == "route_sel":
                pass     # the one-hot copy of route_sel_id
            else:
                raise RtlError(f"assignment to {name!r} is outside the fragment of the XY decision")

    rows = []
    for x in range(3):
        for y in range(3):
            for rx in range(3):
                for ry in range(3):
                    for pid in range(2):
                        env = {"dst.x": x, "dst.y": y, "dst.port_id": pid, "self.x": rx, "self.y": ry}
                        run(prog, env)
                        if "route_sel_id" not in env:
                            raise RtlError("route_sel_id is not assigned")
                        rows.append((x, y, rx, ry, pid, env["route_sel_id"]))
    return rows, dirs


def router_masks(dirs):
    """which (input, output) pairs floo_router.sv forwards: the conditions of the generate branches gen_inout_identical
    (loop-back) and gen_xy_opt (Y-to-X turn) are read with the same fail-closed expression reader and evaluated for
    inputs / outputs 0..4, once for XY routing with the optimisation and once for table routing"""
    root = common.REPO
    txt = re.sub(r"//[^\n]*", "", open(os.path.join(root, "hw", "floo_router.sv")).read())
    pkg = open(os.path.join(root, "hw", "floo_pkg.sv")).read()
    algos = enum_members(pkg, "route_algo_e")
    mi = re.search(r"for\s*\(\s*genvar\s+(\w+)\s*=\s*0\s*;\s*\1\s*<\s*NumInput\s*;[^)]*\)\s*begin\s*:\s*gen_hs_input", txt)
    mo = re.search(r"for\s*\(\s*genvar\s+(\w+)\s*=\s*0\s*;\s*\1\s*<\s*NumOutput\s*;[^)]*\)\s*begin\s*:\s*gen_hs_output", txt)
    if not mi or not mo:
        raise RtlError("the input / output generate loops of floo_router.sv were not found")
    vin, vout = mi.group(1), mo.group(1)
    body = txt[mo.end():]
    m1 = re.search(r"\bif\s*\((.*?)\)\s*begin\s*:\s*gen_inout_identical", body, re.S)
    m2 = re.search(r"end\s+else\s+if\s*\((.*?)\)\s*begin\s*:\s*gen_xy_opt", body, re.S)
    m3 = re.search(r"end\s+else\s+begin\s*:\s*gen_default", body)
    if not (m1 and m2 and m3 and m1.start() < m2.start() < m3.start()):
        raise RtlError("the branches gen_inout_identical / gen_xy_opt / gen_default of floo_router.sv were not found in this order")

    def cond(text):
        p = Parser(tokens(text))
        e = p.expr()
        if p.peek() is not None:
            raise RtlError(f"unexpected text in a generate condition of floo_router.sv: {p.peek()!r}")
        return e
    c1, c2 = cond(m1.group(1)), cond(m2.group(1))

    def ev(e, env):
        k = e[0]
        if k == "num":
            return e[1]
        if k == "var":
            if e[1] in env:
                return env[e[1]]
            if e[1] in dirs:
                return dirs[e[1]]
            if e[1] in algos:
                return algos[e[1]]
            raise RtlError(f"name {e[1]!r} is outside the fragment of the router's generate conditions")
        if k == "not":
            return int(not ev(e[1], env))
        if k == "and":
            return int(bool(ev(e[1], env)) and bool(ev(e[2], env)))
        if k == "or":
            return int(bool(ev(e[1], env)) or bool(ev(e[2], env)))
        if k == "+":
            return ev(e[1], env) + ev(e[2], env)
        a, b = ev(e[1], env), ev(e[2], env)
        return int({"==": a == b, "!=": a != b, "<": a < b, "<=": a <= b, ">": a > b, ">=": a >= b}[k])
    out = {}
    for key, algo in (("xy", "XYRouting"), ("id", "IdTable")):
        if algo not in algos:
            raise RtlError(f"route_algo_e has no member {algo}")
        rows = []
        for i in range(5):
            for o in range(5):
                env = {vin: i, vout: o, "NoLoopback": 1, "XYRouteOpt": 1, "RouteAlgo": algos[algo]}
                rows.append((i, o, not (ev(c1, env) or ev(c2, env))))
        out[key] = rows
    return out


def generate_facts():
    rows, dirs = decision_table()
    masks = router_masks(dirs)
    L = ["(* generated by harness/facts_routesel.py from /repo/hw/floo_route_select.sv and hw/floo_pkg.sv: do not edit *)",
         "From FV Require Import Base.", "",
         "(* the XY decision of floo_route_select, executed from its text: ((dst x, dst y), (router x, router y), port id, route_sel_id) *)",
         "Definition rtl_xy_decision : list ((Z * Z) * ((Z * Z) * (Z * Z))) := ["]
    L.append(";\n".join(f"  (({x}, {y}), (({rx}, {ry}), ({pid}, {out})))" for x, y, rx, ry, pid, out in rows))
    L.append("].")
    L += ["", "(* floo_pkg::route_direction_e *)",
          "Definition rtl_route_directions : list (string * Z) := [" + "; ".join(f'("{k}", {v})' for k, v in dirs.items()) + "]."]
    for key in ("xy", "id"):
        L += ["", f"(* floo_router.sv: (input, output) -> forwarded, for {'XY routing with XYRouteOpt' if key == 'xy' else 'table routing'}, NoLoopback set *)",
              f"Definition rtl_router_forward_{key} : list ((Z * Z) * bool) := [" +
              "; ".join(f"(({i}, {o}), {'true' if f else 'false'})" for i, o, f in masks[key]) + "]."]
    return "RouteSelFacts.v", "\n".join(L) + "\n"


facts.GENERATORS.append(generate_facts)
