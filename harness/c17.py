"""C17 — AddrRange construction and re-indexing: model (Coq, extracted) vs real pydantic class.
The model's behaviour is characterised completely by theorem C17_holds (mk_range_char), so any
disagreement on an input is a concrete input on which the implementation violates the property."""
import itertools
import random
from harness import common

ID = "C17"
PROPS = "theories/Props/C17.v"
FIELDS = ("start", "end", "size", "base", "idx")
KS = [-1, 0, 1, 2, 7, 16]


def gen_cases(tier, seed):
    rng = random.Random(seed)
    grid = [None, -1, 0, 1, 2, 3, 8] if tier == "quick" else \
        [None, -2, -1, 0, 1, 2, 3, 5, 8, 2 ** 47, 2 ** 64 - 1]
    cases = []
    for vals in itertools.product(grid, repeat=5):
        c = {f: v for f, v in zip(FIELDS, vals) if v is not None}
        c["ks"] = KS
        cases.append(c)
    nrand = 2000 if tier == "quick" else 20000
    for _ in range(nrand):
        c = {}
        present = rng.choice([("size", "base"), ("size", "base", "idx"), ("start", "end"),
                              ("start", "size"), ("start", "end", "size"), tuple(rng.sample(FIELDS, rng.randint(0, 5)))])
        base = rng.getrandbits(rng.choice([8, 32, 48, 64]))
        size = rng.getrandbits(rng.choice([4, 12, 32, 64]))
        for f in present:
            c[f] = {"start": base, "end": base + size if rng.random() < 0.8 else rng.getrandbits(64),
                    "size": size if rng.random() < 0.8 else rng.getrandbits(40),
                    "base": base if rng.random() < 0.7 else rng.getrandbits(48),
                    "idx": rng.choice([0, 1, 2, 3, 15, rng.getrandbits(16)])}[f]
        c["ks"] = [rng.choice(KS), rng.getrandbits(rng.choice([3, 16, 40]))]
        cases.append(c)
    return cases


def request(c):
    return common.sx(["c17"] + [c.get(f) for f in FIELDS] + [c["ks"], "all"])


def norm_model(ans):
    out = []
    for a in ans:
        out.append(["ok", a[1]] if a[0] == "ok" else ["err"])
    return out


def nontrivial(c, impl):
    """A case is non-trivial when the construction is accepted (so the well-formedness claims and the
    re-indexing claims are exercised) or is rejected for a reason other than missing fields."""
    if impl[0][0] == "ok":
        return "accepted:" + ",".join(f for f in FIELDS if f in c)
    has = lambda *fs: all(f in c for f in fs)
    if has("size", "base") or has("start", "end") or has("start", "size"):
        return "rejected-specified:" + ",".join(f for f in FIELDS if f in c)
    return None


def evaluate(cases, rep):
    impl = common.run_worker("worker_c17", cases)
    model = [norm_model(a) for a in common.run_model([request(c) for c in cases])]
    kinds = {}
    distinct = set()
    for c, i, m in zip(cases, impl, model):
        k = nontrivial(c, i)
        if k:
            distinct.add(common.canon(c))
            kinds[k.split(":")[0]] = kinds.get(k.split(":")[0], 0) + 1
        if i != m:
            # which observation differs
            for j, (ii, mm) in enumerate(zip(i, m)):
                if ii != mm:
                    op = "construct" if j == 0 else f"set_idx({c['ks'][j-1]})"
                    spec = {f: c[f] for f in FIELDS if f in c}
                    kind = ("accepted-but-must-reject" if mm == ["err"] else
                            "rejected-but-must-accept" if ii == ["err"] else "wrong-bounds")
                    rep.fail(f"C17:{op.split('(')[0]}:{kind}",
                             f"AddrRange({spec}).{op}: implementation gives {ii}, the proved specification requires {mm}",
                             {"fields": spec, "ks": c["ks"], "op": op}, observed=ii, expected=mm)
                    break
    return {"evaluations": len(cases), "distinct_nontrivial": len(distinct), "kinds": kinds}


def run(tier, seed, rep, replay=None):
    if replay is not None:
        case = dict(replay["case"]["fields"])
        case["ks"] = replay["case"]["ks"]
        cases = [case]
    else:
        cases = gen_cases(tier, seed)
    stats = evaluate(cases, rep)
    rep.coverage.update({
        "evaluations": stats["evaluations"],
        "distinct_nontrivial": stats["distinct_nontrivial"],
        "rule": "every subset of {start,end,size,base,idx} over the value grid (exhaustive) plus seeded random "
                "64-bit constructions, each also re-indexed with k in " + str(KS) + "; non-trivial = accepted, "
                "or rejected although a sufficient field subset was given; distinct by canonical JSON",
        "samples": cases[1234:1237] if len(cases) > 1237 else cases[:3],
        "input_distribution": stats["kinds"],
        "exhaustive": False,
    })
