"""Text-level facts of one emitted (package, top) pair for C12: bracket/delimiter token stream,
declared names per scope, used identifiers, names available from outside (floo_pkg, macro-defined),
sized literals, values assigned to identifier fields.  Built on the fail-closed reader."""
import os
import re
from harness import common, svread, netlist
from harness.svread import SvError
from harness import facts_rtl

BUILTIN = {"logic", "bit", "int", "int unsigned", "unsigned", "packed"}
OPEN = {"(": 0, "[": 1, "{": 2, "'{": 2, "module": 3, "package": 4, "begin": 5}
CLOSE = {")": 0, "]": 1, "}": 2, "endmodule": 3, "endpackage": 4, "end": 5}

_MACROS = None


def macro_table():
    """name -> (params, body) of every `define with arguments under hw/include"""
    global _MACROS
    if _MACROS is None:
        import glob
        _MACROS = {}
        for f in sorted(glob.glob(os.path.join(common.REPO, "hw", "include", "**", "*.svh"), recursive=True)):
            t = open(f).read().replace("\\\n", " ")
            for m in re.finditer(r"^\s*`define\s+([A-Za-z_][A-Za-z0-9_]*)\(([^)]*)\)(.*)$", t, re.M):
                _MACROS[m.group(1)] = ([a.strip() for a in m.group(2).split(",") if a.strip()], m.group(3))
    return _MACROS


def macro_defines(name, args, depth=0):
    """type names a macro invocation declares (typedef ... name;) after expansion"""
    if name == "AXI_TYPEDEF_ALL_CT" and len(args) == 8:
        return [f"{args[0]}_{c}_chan_t" for c in ("aw", "w", "b", "ar", "r")] + [args[1], args[2]]
    tbl = macro_table()
    if name not in tbl or depth > 6:
        return []
    params, body = tbl[name]
    if len(params) != len(args):
        return []
    sub = dict(zip(params, args))
    body = re.sub(r"[A-Za-z_][A-Za-z0-9_]*", lambda m: sub.get(m.group(0), m.group(0)), body).replace("``", "")
    names = []
    # nested invocations
    for m in re.finditer(r"`([A-Za-z_][A-Za-z0-9_]*)\s*\(", body):
        a = m.end() - 1
        b = facts_rtl.matching(body, a)
        inner = [x.strip() for x in facts_rtl.split_top(body[a + 1:b])]
        names += macro_defines(m.group(1), inner, depth + 1)
    flat = re.sub(r"`[A-Za-z_][A-Za-z0-9_]*\s*\([^;]*?\)\s*(?=`|typedef|$)", " ", body)
    for m in re.finditer(r"typedef\s+(?:struct|union)\s+packed\s*\{[^}]*\}\s*([A-Za-z_][A-Za-z0-9_]*)\s*;", flat):
        names.append(m.group(1))
    flat2 = re.sub(r"typedef\s+(?:struct|union)\s+packed\s*\{[^}]*\}\s*[A-Za-z_][A-Za-z0-9_]*\s*;", " ", flat)
    for m in re.finditer(r"typedef\s+[^;{}]*?([A-Za-z_][A-Za-z0-9_]*)\s*;", flat2):
        names.append(m.group(1))
    return names


def ids_in(e, out):
    k = e[0]
    if k == "id":
        out.append(e[1].split("::")[-1])
    elif k in ("index", "bin"):
        for x in e[1:]:
            if isinstance(x, tuple):
                ids_in(x, out)
    elif k == "cast":
        out.append(e[1])
        ids_in(e[2], out)
    elif k == "call":
        out.append(e[1])
        for a in e[2]:
            ids_in(a, out)
    elif k == "struct":
        for _, v in e[1]:
            ids_in(v, out)
    elif k == "array":
        for v in e[1]:
            ids_in(v, out)
    elif k == "implicit":
        out.append(e[1])


def lits_in(e, out):
    k = e[0]
    if k == "lit":
        base = {"h": 16, "b": 2, "d": 10, "o": 8}[e[2]]
        digits = e[3].replace("_", "")
        out.append((e[1], int(digits, base), len(digits), {"h": 4, "b": 1, "d": 0, "o": 3}[e[2]]))
    elif k in ("index", "bin", "cast"):
        for x in e[1:]:
            if isinstance(x, tuple):
                lits_in(x, out)
    elif k == "call":
        for a in e[2]:
            lits_in(a, out)
    elif k == "struct":
        for _, v in e[1]:
            lits_in(v, out)
    elif k == "array":
        for v in e[1]:
            lits_in(v, out)


def dims_ids(dims, out):
    for h, l in dims:
        ids_in(h, out)
        ids_in(l, out)


def extract(pkg_text, top_text):
    n = netlist.read(pkg_text, top_text)
    pk, tp = n["raw_pkg"], n["raw_top"]
    f = {}
    f["brackets"] = []
    for name, text in (("pkg", pkg_text), ("top", top_text)):
        seq = []
        for kind, val, line in svread.tokenize(text):
            if val in OPEN:
                seq.append(OPEN[val])
            elif val in CLOSE:
                seq.append(-1 - CLOSE[val])
        f["brackets"].append((name, seq))
    # declared names per scope
    pkg_decl = []
    enum_fields = []
    used_pkg, used_top, lits = [], [], []
    for it in pk["items"]:
        k = it["k"]
        if k == "enum":
            pkg_decl.append(it["name"])
            pkg_decl += [m for m, _ in it["members"]]
            dims_ids(it["dims"], used_pkg)
            ew = netlist.width_of(it["dims"], it["name"]) or 1
            for mname, v in it["members"]:
                lits_in(v, lits)
                if v[0] == "num":
                    enum_fields.append((it["name"] + "." + mname, ew, v[1]))
        elif k == "typedef":
            pkg_decl.append(it["name"])
            used_pkg.append(it["base"])
            dims_ids(it["dims"], used_pkg)
        elif k == "struct":
            pkg_decl.append(it["name"])
            for ty, d, fn in it["fields"]:
                used_pkg.append(ty)
                dims_ids(d, used_pkg)
        elif k == "localparam":
            pkg_decl.append(it["name"])
            used_pkg.append(it["type"])
            dims_ids(it["dims"], used_pkg)
            ids_in(it["value"], used_pkg)
            if it["name"] != "Sam":      # the address-map literals have their own, stricter clause (tf_sam)
                lits_in(it["value"], lits)
    macro_names = []
    for name, args in n["macros"]:
        macro_names += macro_defines(name, args)
    top_decl = [p["name"] for p in tp["ports"]]
    for p in tp["ports"]:
        used_top.append(p["type"].split("::")[-1])
        dims_ids(p["dims"], used_top)
    for it in tp["items"]:
        k = it["k"]
        if k == "decl":
            top_decl.append(it["name"])
            used_top.append(it["type"])
            dims_ids(it["dims"], used_top)
        elif k == "localparam":
            top_decl.append(it["name"])
            used_top.append(it["type"])
            dims_ids(it["dims"], used_top)
            ids_in(it["value"], used_top)
            lits_in(it["value"], lits)
        elif k == "struct":
            top_decl.append(it["name"])
            for ty, d, fn in it["fields"]:
                used_top.append(ty)
        elif k == "assign":
            ids_in(it["lhs"], used_top)
            ids_in(it["rhs"], used_top)
        elif k == "inst":
            top_decl.append(it["name"])
            for _, v in it["params"]:
                ids_in(v, used_top)
                lits_in(v, lits)
            for _, v in it["conns"]:
                if v[0] != "open":
                    ids_in(v, used_top)
                    lits_in(v, lits)
    enums, structs, funcs, params = facts_rtl.floo_pkg_names()
    outside = set(BUILTIN) | set(enums) | {m for v in enums.values() for m, _ in v} | set(structs) | set(funcs) | set(params)
    f["decl"] = [("pkg", pkg_decl + macro_names), ("top", top_decl)]
    f["used"] = [("pkg", sorted(set(used_pkg))), ("top", sorted(set(used_top)))]
    f["avail"] = [("pkg", sorted(outside | set(pkg_decl) | set(macro_names))),
                  ("top", sorted(outside | set(pkg_decl) | set(macro_names) | set(top_decl)))]
    f["literals"] = lits
    # values assigned to identifier fields (id_t): network-interface ids, address-map destinations, router-table fields
    fields = []
    ib = n["id_bits"]
    if ib is not None:
        for x in n["nis"]:
            fields.append((x["name"] + ".id", ib, x["id"]))
        for r in n["sam"]:
            fields.append(("Sam.idx", ib, r[0]))
        for r in n["rts"]:
            if r["map"]:
                fb = r["map_field_bits"]
                for rule in r["map"][4]:
                    fields.append((r["map"][0] + ".idx", fb[0], rule[0]))
                    fields.append((r["map"][0] + ".start_addr", fb[1], rule[1]))
                    fields.append((r["map"][0] + ".end_addr", fb[2], rule[2]))
    # XY: the three fields of every coordinate identity (interfaces, routers, address-map destinations)
    xyb = n.get("xy_bits")
    if xyb is not None:
        def coord_fields(what, v):
            if isinstance(v, list) and len(v) == 3:
                for nm, w, val in zip(("x", "y", "port_id"), xyb, v):
                    fields.append((f"{what}.{nm}", w, val))
        for x in n["nis"]:
            coord_fields(x["name"] + ".id", x["id"])
        for r in n["rts"]:
            coord_fields(r["name"] + ".id", r["id"])
        for r in n["sam"]:
            coord_fields("Sam.idx", r[0])
    f["fields"] = fields + enum_fields
    f["sam_lits"] = [(r[3], r[1], r[4], n["aw"]) for r in n["sam"]] + [(r[5], r[2], r[6], n["aw"]) for r in n["sam"]]
    f["route_bits"] = n["route_bits"]
    f["words"] = [w for row in (n["tables"] or []) for w in row]
    return f
