"""C05: decided on the emitted netlist by the certified checker chk_C05 (Coq, extracted);
families of descriptions -> real floogen -> fail-closed reader -> checker.  See netprops.py."""
from harness import netprops, spec, families

ID = "C05"
PROPS = "theories/Props/C05.v"
ALGOS = ('ID','SRC','XY')


def nontrivial(d, t, r):
    return r['sizes'][0] >= 2


def run(tier, seed, rep, replay=None):
    netprops.standard_run(ID, tier, seed, rep, replay, ALGOS, nontrivial, extra_cases=lambda tier, seed: families.conflict_suite(tier, seed) + families.name_collision_suite(tier, seed), rule=
                          "families star/mesh/mesh_plus/tree/custom x algorithms " + str(ALGOS) + " x axi/narrow-wide, "
                          "exhaustive declaration-order permutations for small stars, seeded random otherwise; "
                          "non-trivial = a router with at least two links (every accepted description has one); distinct by canonical description")
