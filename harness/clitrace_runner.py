"""Runs the real floogen command line IN THIS PROCESS under observation and prints one JSON line:
the top-level stages it goes through (parse_config and the public methods of Network called from outside the
model), the generated files present in the output directory at the entry of every stage, an optional injected failure
at the entry of one stage, the exit status, the files left behind and what was printed.
usage: python -m harness.clitrace_runner <outdir-to-watch or -> <fail-at stage or -> <cli args ...>
Independent of the text of cli.py: it observes behaviour, so a rewrite of cli.py cannot break it."""
import contextlib
import inspect
import io
import json
import os
import sys


def main():
    watch, fail_at, argv = sys.argv[1], sys.argv[2], sys.argv[3:]
    watch = None if watch == "-" else watch
    fail_at = None if fail_at == "-" else fail_at
    events, rendered, depth = [], {}, [0]
    cfg_path = argv[argv.index("-c") + 1] if "-c" in argv else None

    def listing():
        if watch and os.path.isdir(watch):
            return sorted(f for f in os.listdir(watch))
        return []

    def wrap(name, fn):
        def w(*a, **k):
            top = depth[0] == 0
            if top:
                # argument summary in the model's vocabulary: "-" none beyond self, "Network,args.config" for parse_config
                if name == "parse_config":
                    ok = (len(a) == 2 and not k and a[0] is nw.Network and cfg_path is not None
                          and os.path.abspath(str(a[1])) == os.path.abspath(cfg_path))
                    summ = "Network,args.config" if ok else "other:" + str(len(a)) + ":" + ",".join(sorted(k))
                else:
                    summ = "-" if (len(a) == 1 and not k) else "args:" + str(len(a) - 1) + ":" + ",".join(sorted(k))
                events.append([name, listing(), summ])
                if fail_at == name:
                    raise RuntimeError("injected failure at " + name)
            depth[0] += 1
            try:
                r = fn(*a, **k)
            finally:
                depth[0] -= 1
            if top and name in ("network.render_package", "network.render_network") and isinstance(r, str):
                rendered[name] = r
            return r
        return w

    import floogen.config_parser as cp
    import floogen.model.network as nw
    import floogen.cli as cli
    pc = wrap("parse_config", cp.parse_config)
    cp.parse_config = pc
    if hasattr(cli, "parse_config"):
        cli.parse_config = pc
    for name, fn in list(vars(nw.Network).items()):
        if inspect.isfunction(fn) and not name.startswith("_") and not hasattr(fn, "decorator_info"):
            try:
                setattr(nw.Network, name, wrap("network." + name, fn))
            except Exception:
                pass
    out = io.StringIO()
    rc, exc = 0, None
    sys.argv = ["floogen"] + argv
    try:
        with contextlib.redirect_stdout(out), contextlib.redirect_stderr(io.StringIO()):
            cli.main()
    except SystemExit as e:
        rc = e.code if isinstance(e.code, int) else (0 if e.code is None else 1)
    except BaseException as e:  # what the interpreter would turn into exit status 1
        rc, exc = 1, type(e).__name__ + ": " + str(e)[:200]
    text = out.getvalue()
    files = {}
    for f in listing():
        try:
            t = open(os.path.join(watch, f)).read()
        except Exception:
            t = None
        files[f] = ("pkg" if t == rendered.get("network.render_package") else
                    "top" if t == rendered.get("network.render_network") else "other")
    pk, tp = rendered.get("network.render_package"), rendered.get("network.render_network")
    printed = ("pkg+top" if pk is not None and tp is not None and text == pk + "\n" + tp + "\n" else
               "pkg" if pk is not None and text == pk + "\n" else
               "top" if tp is not None and text == tp + "\n" else
               "" if text == "" else "other")
    sys.__stdout__.write(json.dumps({"events": events, "rc": rc, "exc": exc, "files": files, "printed": printed,
                                     "printed_len": len(text)}) + "\n")


if __name__ == "__main__":
    main()
