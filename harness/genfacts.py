"""python -m harness.genfacts : regenerate coq/gen/*.v from /repo (used by MANIFEST.setup_cmd)."""
import sys
from harness import facts

errs = facts.regenerate()
for e in errs:
    print("facts:", e, file=sys.stderr)
sys.exit(1 if errs else 0)
