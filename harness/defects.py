"""Defect injection for C10: every defect class of the property text, at every applicable site of a
valid description.  inject(desc) -> list of (mutated desc, class, site)."""
import copy


def ranges(ep):
    r = ep.get("addr_range")
    if r is None:
        return []
    return r if isinstance(r, list) else [r]


def set_range(ep, j, new):
    r = ep["addr_range"]
    if isinstance(r, list):
        r[j] = new
    else:
        ep["addr_range"] = new


def rng_bounds(r, num=1, isarr=True):
    if "base" in r and "size" in r:
        # a single endpoint written as slot idx of a base/size grid owns [base + idx*size, +size); for an array the
        # written idx is overwritten per element
        lo = r["base"] + (0 if isarr else (r.get("idx") or 0) * r["size"])
        return lo, lo + r["size"] * num, r["size"]
    if "start" in r and "end" in r:
        return r["start"], r["end"], r["end"] - r["start"]
    return r["start"], r["start"] + r["size"], r["size"]


def inject(desc):
    out = []

    def add(d, cls, site):
        out.append((d, cls, site))

    aw = desc["protocols"][0]["addr_width"]
    xy = desc["routing"]["route_algo"] == "XY"
    eps = desc["endpoints"]
    sbr = [i for i, e in enumerate(eps) if e.get("sbr_port_protocol")]
    # 1 overlapping ranges: move one endpoint's range onto another's
    for a in sbr:
        for b in sbr:
            if a != b and eps[a].get("array") is None:
                lo, hi, sz = rng_bounds(ranges(eps[b])[0], 1, eps[b].get("array") is not None)
                d = copy.deepcopy(desc)
                set_range(d["endpoints"][a], 0, {"start": lo, "end": lo + max(1, sz // 2)})
                add(d, "overlapping-ranges", f"endpoints[{a}] onto endpoints[{b}]")
    for i in sbr:
        e = eps[i]
        for j, r in enumerate(ranges(e)):
            isarr = e.get("array") is not None
            lo, hi, sz = rng_bounds(r, 1, isarr)
            # 2 empty
            d = copy.deepcopy(desc)
            set_range(d["endpoints"][i], j, {"base": lo, "size": 0} if isarr else {"start": lo, "end": lo})
            add(d, "empty-range", f"endpoints[{i}].addr_range[{j}]")
            d = copy.deepcopy(desc)
            set_range(d["endpoints"][i], j, {"base": lo, "size": -sz} if isarr else {"start": hi, "end": lo})
            add(d, "empty-range", f"endpoints[{i}].addr_range[{j}] (reversed)")
            # 3 self-contradictory
            if not isarr:
                d = copy.deepcopy(desc)
                set_range(d["endpoints"][i], j, {"start": lo, "end": hi, "size": sz + 1})
                add(d, "contradictory-range", f"endpoints[{i}].addr_range[{j}]")
                d = copy.deepcopy(desc)
                set_range(d["endpoints"][i], j, {"end": hi})
                add(d, "contradictory-range", f"endpoints[{i}].addr_range[{j}] (insufficient)")
            # 4 beyond the address width
            d = copy.deepcopy(desc)
            set_range(d["endpoints"][i], j, {"base": 2 ** aw, "size": sz} if isarr else {"start": 2 ** aw, "end": 2 ** aw + sz})
            add(d, "range-beyond-addr-width", f"endpoints[{i}].addr_range[{j}] (starts at 2^aw)")
            d = copy.deepcopy(desc)
            set_range(d["endpoints"][i], j, {"base": 2 ** aw - sz, "size": sz + (0 if isarr else 1)} if isarr
                      else {"start": 2 ** aw - sz, "end": 2 ** aw + 1})
            if not isarr or (e.get("array") and (e["array"] if isinstance(e["array"], int) else max(e["array"])) > 1):
                add(d, "range-beyond-addr-width", f"endpoints[{i}].addr_range[{j}] (crosses 2^aw)")
            # 6 array range without base
            if isarr:
                d = copy.deepcopy(desc)
                set_range(d["endpoints"][i], j, {"start": lo, "end": lo + sz})
                add(d, "array-range-without-base", f"endpoints[{i}].addr_range[{j}]")
        # 5 subordinate without a range
        d = copy.deepcopy(desc)
        d["endpoints"][i].pop("addr_range", None)
        add(d, "subordinate-without-range", f"endpoints[{i}]")
        d = copy.deepcopy(desc)
        d["endpoints"][i]["addr_range"] = []
        add(d, "subordinate-without-range", f"endpoints[{i}] (empty list)")
    # 7 duplicate names
    for i in range(len(eps)):
        for k in range(len(eps)):
            if i != k:
                d = copy.deepcopy(desc)
                d["endpoints"][k]["name"] = eps[i]["name"]
                add(d, "duplicate-endpoint-name", f"endpoints[{k}] := name of endpoints[{i}]")
                # the same, with the renamed endpoint's connections following the new name (so that the duplicate
                # name is the only defect)
                d = copy.deepcopy(d)
                for c in d["connections"]:
                    for end in ("src", "dst"):
                        if c[end] == eps[k]["name"]:
                            c[end] = eps[i]["name"]
                add(d, "duplicate-endpoint-name", f"endpoints[{k}] := name of endpoints[{i}], connections renamed")
    if len(desc["routers"]) >= 1:
        d = copy.deepcopy(desc)
        d["routers"].append(copy.deepcopy(desc["routers"][0]))
        add(d, "duplicate-router-name", "routers[0] twice")
        d = copy.deepcopy(desc)
        d["routers"].append({"name": desc["routers"][0]["name"]})
        add(d, "duplicate-router-name", "routers[0] name reused by a single router")
    # 8 unknown fields
    sites = [("top", lambda d: d)] + \
            [(f"endpoints[{i}]", (lambda i: lambda d: d["endpoints"][i])(i)) for i in range(len(eps))] + \
            [(f"routers[{i}]", (lambda i: lambda d: d["routers"][i])(i)) for i in range(len(desc["routers"]))] + \
            [(f"connections[{i}]", (lambda i: lambda d: d["connections"][i])(i)) for i in range(len(desc["connections"]))] + \
            [(f"protocols[{i}]", (lambda i: lambda d: d["protocols"][i])(i)) for i in range(len(desc["protocols"]))] + \
            [("routing", lambda d: d["routing"])]
    for name, get in sites:
        d = copy.deepcopy(desc)
        get(d)["colour"] = 3
        add(d, "unknown-field", name)
    for i in sbr:
        for j, r in enumerate(ranges(eps[i])):
            d = copy.deepcopy(desc)
            rr = dict(ranges(d["endpoints"][i])[j])
            rr["sise"] = 4096
            set_range(d["endpoints"][i], j, rr)
            add(d, "unknown-field", f"endpoints[{i}].addr_range[{j}]")
    # 9 unknown enumeration values
    d = copy.deepcopy(desc); d["routing"]["route_algo"] = "ZZ"; add(d, "unknown-enum-value", "routing.route_algo")
    d = copy.deepcopy(desc); d["network_type"] = "mesh"; add(d, "unknown-enum-value", "network_type")
    for i in range(len(desc["protocols"])):
        d = copy.deepcopy(desc); d["protocols"][i]["protocol"] = "AHB"; add(d, "unknown-enum-value", f"protocols[{i}].protocol")
        d = copy.deepcopy(desc); d["protocols"][i]["type"] = "medium"; add(d, "unknown-enum-value", f"protocols[{i}].type")
    for i, c in enumerate(desc["connections"]):
        for k in ("src_dir", "dst_dir"):
            if k in c:
                d = copy.deepcopy(desc); d["connections"][i][k] = "Up"; add(d, "unknown-enum-value", f"connections[{i}].{k}")
    # 10 protocol width mismatches
    for i in range(len(desc["protocols"])):
        d = copy.deepcopy(desc); d["protocols"][i]["addr_width"] = aw - 8; add(d, "protocol-width-mismatch", f"protocols[{i}].addr_width")
        d = copy.deepcopy(desc); d["protocols"][i]["data_width"] *= 2; add(d, "protocol-width-mismatch", f"protocols[{i}].data_width")
        d = copy.deepcopy(desc); d["protocols"][i]["user_width"] += 1; add(d, "protocol-width-mismatch", f"protocols[{i}].user_width")
    # 11 a protocol used for both roles
    for i, e in enumerate(eps):
        if e.get("mgr_port_protocol") and e.get("sbr_port_protocol"):
            d = copy.deepcopy(desc)
            d["endpoints"][i]["sbr_port_protocol"] = list(e["mgr_port_protocol"])
            add(d, "protocol-both-roles", f"endpoints[{i}].sbr_port_protocol")
        for k, o in enumerate(eps):
            if k != i and e.get("mgr_port_protocol") and o.get("sbr_port_protocol") and not o.get("mgr_port_protocol"):
                d = copy.deepcopy(desc)
                d["endpoints"][k]["sbr_port_protocol"] = list(e["mgr_port_protocol"])
                add(d, "protocol-both-roles", f"endpoints[{k}] uses the manager protocol of endpoints[{i}]")
                break
    # 12 connection to a non-existing node / index
    for i, c in enumerate(desc["connections"]):
        for end in ("src", "dst"):
            d = copy.deepcopy(desc); d["connections"][i][end] = "ghost"; add(d, "connection-to-missing-node", f"connections[{i}].{end}")
            if end + "_range" in c:
                d = copy.deepcopy(desc)
                r = d["connections"][i][end + "_range"]
                r[-1] = [r[-1][0], r[-1][1] + 1] if r[-1][1] >= r[-1][0] else [r[-1][0] + 1, r[-1][1]]
                add(d, "connection-index-out-of-range", f"connections[{i}].{end}_range")
                # 13 counts differ without multi
                if not c.get("allow_multi") and abs(c[end + "_range"][-1][1] - c[end + "_range"][-1][0]) >= 1:
                    d = copy.deepcopy(desc)
                    r = d["connections"][i][end + "_range"]
                    a, b = r[-1]
                    r[-1] = [a, b - 1] if b > a else [a - 1, b]
                    add(d, "count-mismatch-without-multi", f"connections[{i}].{end}_range")
            if end + "_idx" in c:
                d = copy.deepcopy(desc)
                v = d["connections"][i][end + "_idx"]
                d["connections"][i][end + "_idx"] = [x + 50 for x in (v if isinstance(v, list) else [v])]
                add(d, "connection-index-out-of-range", f"connections[{i}].{end}_idx")
        # 13 multi not dividable
        if c.get("allow_multi"):
            for end in ("src", "dst"):
                r = c.get(end + "_range")
                other = c.get(("dst" if end == "src" else "src") + "_range")
                if r and len(r) == 1 and abs(r[0][1] - r[0][0]) + 1 >= 4 and (abs(r[0][1] - r[0][0]) + 1) % 2 == 0:
                    d = copy.deepcopy(desc)
                    rr = d["connections"][i][end + "_range"]
                    a, b = rr[0]
                    rr[0] = [a, b - 1] if b > a else [a - 1, b]
                    add(d, "multi-not-dividable", f"connections[{i}].{end}_range")
        # 14 unidirectional / duplicated
        d = copy.deepcopy(desc); d["connections"][i]["bidirectional"] = False; add(d, "unidirectional-connection", f"connections[{i}]")
        d = copy.deepcopy(desc); d["connections"].append(copy.deepcopy(c)); add(d, "duplicated-connection", f"connections[{i}] twice")
        # 16 unconnected endpoint
        d = copy.deepcopy(desc)
        del d["connections"][i]
        names = {e["name"] for e in eps}
        if c["src"] in names or c["dst"] in names:
            add(d, "unconnected-endpoint", f"connections[{i}] removed")
        # 17 XY connection without direction
        if xy:
            for k in ("src_dir", "dst_dir"):
                if k in c and (c["src"] in names or c["dst"] in names):
                    d = copy.deepcopy(desc); del d["connections"][i][k]; add(d, "xy-connection-without-direction", f"connections[{i}].{k}")
        # 15 two links on one router port: duplicate endpoint on the same named port
        for k in ("src_dir", "dst_dir"):
            if k in c and (c["src"] in names or c["dst"] in names) and not (c.get("src_range") or c.get("dst_range")) \
                    and (c.get("src_idx") or c.get("dst_idx")):
                d = copy.deepcopy(desc)
                extra = copy.deepcopy(next(e for e in eps if e["name"] in (c["src"], c["dst"])))
                extra["name"] = "intruder"
                if "addr_range" in extra:
                    extra["addr_range"] = {"start": 2 ** (aw - 1), "size": 64}
                extra.pop("array", None)
                d["endpoints"].append(extra)
                c2 = copy.deepcopy(c)
                if c2["src"] in names:
                    c2["src"] = "intruder"
                else:
                    c2["dst"] = "intruder"
                d["connections"].append(c2)
                add(d, "two-links-on-one-port", f"copy of connections[{i}]")
                # the same clash on every other port number (North is port 0: a truthiness test would miss it): both
                # connections name that direction; whether the port is free or holds a mesh link, the second link on it
                # must be refused
                for dname in ("North", "East", "South", "West", "Eject"):
                    if dname == c[k]:
                        continue
                    d3 = copy.deepcopy(d)
                    d3["connections"][i][k] = dname
                    d3["connections"][-1][k] = dname
                    add(d3, "two-links-on-one-port", f"copy of connections[{i}] on {dname}")
    return out
