"""Entry point: ./check Cxx --tier quick|thorough [--replay FILE]"""
import argparse
import importlib
import json
import os
import sys
import traceback
from harness import common


def main():
    ap = argparse.ArgumentParser()
    ap.add_argument("prop")
    ap.add_argument("--tier", default=os.environ.get("VERIF_TIER", "quick"), choices=["quick", "thorough"])
    ap.add_argument("--replay")
    ap.add_argument("--no-build", action="store_true")
    a = ap.parse_args()
    pid = a.prop.upper()
    seed = int(os.environ.get("VERIF_SEED", "1"))
    mod = importlib.import_module("harness." + pid.lower())
    rep = common.Report(pid, a.tier, seed)

    # 1. build (facts from /repo, full make, model binary)
    if not a.no_build:
        b = common.build()
        for e in getattr(b, "facts_errors", []):
            rep.proof_broken.append("facts regeneration failed (tie to the source broken): " + e)
        if not b.ok:
            # model files must build for anything to run; proof files may be broken by a change
            model_broken = [f for f in b.broken_files if "Proofs" not in f and "Props" not in f and "gen/" not in f]
            for f in b.broken_files:
                rep.notes.append("does not compile: " + f)
            if not os.path.exists(common.BIN):
                print(b.log[-3000:], file=sys.stderr)
                rep.proof_broken.append("model does not build: " + ",".join(b.broken_files))
    # 2. proof obligations of this property
    n, d, details, broken = common.proof_obligations(mod.PROPS)
    rep.proof_broken += broken
    rep.coverage.update({"obligations": n, "discharged": d, "theorems": details,
                         "checker_cmd": f"make -C coq && coqc -Q theories FV -Q gen FVGen {mod.PROPS} "
                                        "(Print Assumptions under every property theorem); coqchk -o in the thorough tier of C16"})
    # 3. exploration: correspondence + property evaluated on the implementation's real output
    replay = json.load(open(a.replay)) if a.replay else None
    try:
        mod.run(a.tier, seed, rep, replay=replay)
    except Exception as e:
        traceback.print_exc()
        rep.corr_broken(f"harness error: {type(e).__name__}: {e}", None)
    if rep.notes:
        rep.coverage["notes"] = rep.notes
    rc = rep.finish(write_evidence=replay is None)
    sys.exit(rc)


if __name__ == "__main__":
    main()
