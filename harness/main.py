"""Entry point: ./check Cxx --tier quick|thorough [--replay FILE]"""
import argparse
import importlib
import json
import os
import sys
import traceback
from harness import common


def main():
    ap = argparse.ArgumentParser()
    ap.add_argument("prop")
    ap.add_argument("--tier", default=os.environ.get("VERIF_TIER", "quick"), choices=["quick", "thorough"])
    ap.add_argument("--replay")
    ap.add_argument("--no-build", action="store_true")
    a = ap.parse_args()
    pid = a.prop.upper()
    seed = int(os.environ.get("VERIF_SEED", "1"))
    mod = importlib.import_module("harness." + pid.lower())
    rep = common.Report(pid, a.tier, seed)

    # 1. build (facts from /repo, full make, model binary)
    if not a.no_build:
        b = common.build()
        from harness import facts
        for e in facts.errors_for(pid, getattr(b, "facts_errors", [])):
            if e.startswith("facts_cli.") and getattr(mod, "CLI_SECOND_TIE", False):
                # cli.py left the translator's fragment: the property's theorems over the regenerated step lists speak
                # about stale facts.  The module decides with the second tie (hand model Cli.cli_model + observed runs of
                # the real command line, clitrace.py); it reports this as a broken tie itself if that one fails as well.
                rep.deferred_cli = getattr(rep, "deferred_cli", []) + [e]
            else:
                rep.proof_broken.append("facts regeneration failed (tie to the source broken): " + e)
        if not b.ok:
            # model files must build for anything to run; proof files may be broken by a change
            model_broken = [f for f in b.broken_files if "Proofs" not in f and "Props" not in f and "gen/" not in f]
            for f in b.broken_files:
                rep.notes.append("does not compile: " + f)
            if not os.path.exists(common.BIN):
                print(b.log[-3000:], file=sys.stderr)
                rep.proof_broken.append("model does not build: " + ",".join(b.broken_files))
    # 2. proof obligations of this property
    n, d, details, broken = common.proof_obligations(mod.PROPS)
    rep.proof_broken += broken
    rep.coverage.update({"obligations": n, "discharged": d, "theorems": details,
                         "checker_cmd": f"make -C coq && coqc -Q theories FV -Q gen FVGen {mod.PROPS} "
                                        "(Print Assumptions under every property theorem); coqchk -o in the thorough tier of C16"})
    # 3. exploration: correspondence + property evaluated on the implementation's real output
    replay = json.load(open(a.replay)) if a.replay else None
    try:
        mod.run(a.tier, seed, rep, replay=replay)
    except Exception as e:
        traceback.print_exc()
        rep.corr_broken(f"harness error: {type(e).__name__}: {e}", None)
    if getattr(rep, "deferred_cli", None):
        if getattr(rep, "cli_tie_ok", False):
            rep.notes.append("cli.py is outside the fragment of the step-list translator (" + "; ".join(rep.deferred_cli)[:300] +
                             "): the theorems over CliFacts.v are NOT counted for this run; decided by the hand model "
                             "Cli.cli_model and the certified comparison of observed runs (all modes, a failure injected at "
                             "every stage)")
            rep.coverage["cli_tie"] = "observed-runs-only"
        else:
            for e in rep.deferred_cli:
                rep.proof_broken.append("facts regeneration failed (tie to the source broken): " + e)
    if rep.notes:
        rep.coverage["notes"] = rep.notes
    rc = rep.finish(write_evidence=replay is None)
    sys.exit(rc)


if __name__ == "__main__":
    main()
