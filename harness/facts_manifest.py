"""Facts for C20 (and C11), regenerated on every run: manifest entries of Bender.yml and
floo_noc.core, the files of the repository tree, the file names the real floogen writes for every
shipped example, module definitions and instantiation edges of hw/, the modules the generated tops
instantiate."""
import glob
import os
import re
import ruamel.yaml
from concurrent.futures import ThreadPoolExecutor
from harness import common, facts, svread


def strip_comments(text):
    text = re.sub(r"/\*.*?\*/", " ", text, flags=re.S)
    return re.sub(r"//[^\n]*", "", text)


def tree_files():
    out = []
    for root, dirs, files in os.walk(common.REPO):
        dirs[:] = [d for d in dirs if d not in (".git", "__pycache__", "floogen.egg-info")]
        for f in files:
            out.append(os.path.relpath(os.path.join(root, f), common.REPO))
    return sorted(out)


def target_atoms(t):
    return re.findall(r"[A-Za-z_][A-Za-z0-9_]*", t.replace("all", " ").replace("any", " ").replace("not", " "))


def bender_entries():
    y = ruamel.yaml.YAML(typ="safe").load(open(os.path.join(common.REPO, "Bender.yml")))
    files, dirs = [], []
    for d in y.get("export_include_dirs", []) or []:
        dirs.append(("", d))
    for s in y.get("sources", []):
        if isinstance(s, str):
            files.append(([], s))
        elif isinstance(s, dict):
            atoms = target_atoms(str(s.get("target", "")))
            for d in s.get("include_dirs", []) or []:
                dirs.append((" ".join(atoms), d))
            for f in s.get("files", []):
                if not isinstance(f, str):
                    raise RuntimeError(f"Bender.yml: nested source group not understood: {f}")
                files.append((atoms, f))
        else:
            raise RuntimeError("Bender.yml: unexpected sources entry")
    return files, dirs


def core_entries():
    text = open(os.path.join(common.REPO, "floo_noc.core")).read()
    if not text.startswith("CAPI=2:"):
        raise RuntimeError("floo_noc.core: CAPI=2 header expected")
    y = ruamel.yaml.YAML(typ="safe").load(text.split("\n", 1)[1])
    files = []
    for fs, v in y["filesets"].items():
        for f in v.get("files", []):
            if isinstance(f, str):
                files.append((fs, f))
            elif isinstance(f, dict) and len(f) == 1:
                files.append((fs, next(iter(f))))
            else:
                raise RuntimeError("floo_noc.core: unexpected file entry")
    return files


def make_out_dir(path):
    """the directory (relative to the repository) that `make sources FLOOGEN_CFG=<path>` hands to floogen with its
    default settings: read from a dry run of the project's own Makefile, so that whatever it computes the directory from
    is followed (fail closed when the recipe no longer shows one floogen call for this description)"""
    import shlex
    import subprocess
    env = {k: v for k, v in os.environ.items() if not k.startswith(("FLOO", "MAKE", "MFLAGS"))}
    r = subprocess.run(["make", "-n", "--no-print-directory", "-C", common.REPO, "sources", "FLOOGEN_CFG=" + path],
                       capture_output=True, text=True, timeout=60, env=env)
    if r.returncode != 0:
        raise RuntimeError(f"make -n sources FLOOGEN_CFG={path}: rc {r.returncode}: {r.stderr.strip()[-300:]}")
    hits = []
    for line in r.stdout.splitlines():
        try:
            toks = shlex.split(line)
        except ValueError:
            continue
        if "-c" in toks and toks[toks.index("-c") + 1: toks.index("-c") + 2] == [path]:
            if toks.count("-o") + toks.count("--outdir") != 1:
                raise RuntimeError(f"make -n sources: no single output directory in `{line}`")
            k = toks.index("-o") if "-o" in toks else toks.index("--outdir")
            hits.append(toks[k + 1])
    if len(hits) != 1:
        raise RuntimeError(f"make -n sources FLOOGEN_CFG={path}: {len(hits)} floogen calls for this description")
    rel = os.path.relpath(os.path.realpath(os.path.join(common.REPO, hits[0])), os.path.realpath(common.REPO))
    if rel.startswith(".."):
        raise RuntimeError(f"make sources writes outside the repository: {hits[0]}")
    return rel


def generated_by_examples():
    """(description name, example file, [paths written, relative to the repository, by the project's own flow `make
    sources FLOOGEN_CFG=<example>`: the Makefile's output directory joined with the file names the real floogen
    writes], [modules instantiated by the top])"""
    from harness.worker_cli import run_case
    exs = sorted(glob.glob(os.path.join(common.REPO, "floogen", "examples", "*.yml")))

    def one(path):
        y = ruamel.yaml.YAML(typ="safe").load(open(path))
        # the shipped file under its own name: what floogen writes for it is what the manifests must list
        r = run_case({"cfg_path": path, "texts": True})
        if r["rc"] != 0:
            raise RuntimeError(f"example {path} is not generated: {r['err']}")
        mods = set()
        for fn, text in r["files"].items():
            if not fn.endswith("_pkg.sv"):
                top = svread.read_top(text)
                mods |= {it["module"] for it in top["items"] if it["k"] == "inst"}
        outdir = make_out_dir(path)
        return (y["name"], os.path.basename(path), sorted(os.path.join(outdir, f) for f in r["files"]), sorted(mods))
    with ThreadPoolExecutor(max_workers=6) as ex:
        return list(ex.map(one, exs))


def hw_modules():
    defs, texts = {}, {}
    for f in sorted(glob.glob(os.path.join(common.REPO, "hw", "**", "*.sv"), recursive=True)):
        rel = os.path.relpath(f, common.REPO)
        t = strip_comments(open(f).read())
        texts[rel] = t
        for m in re.finditer(r"^\s*module\s+([A-Za-z_][A-Za-z0-9_]*)", t, re.M):
            if m.group(1) in defs:
                raise RuntimeError(f"module {m.group(1)} defined twice")
            defs[m.group(1)] = rel
    edges = []
    for name, rel in defs.items():
        # body of this module: from its `module name` to the matching endmodule
        t = texts[rel]
        m = re.search(r"^\s*module\s+" + re.escape(name) + r"\b", t, re.M)
        end = t.find("endmodule", m.end())
        body = t[m.end(): end if end >= 0 else len(t)]
        toks = set(re.findall(r"[A-Za-z_][A-Za-z0-9_]*", body))
        for other in defs:
            if other != name and other in toks:
                edges.append((name, other))
    return defs, sorted(edges)


def q(s):
    return '"' + s + '"'


def generate_facts():
    bfiles, bdirs = bender_entries()
    cfiles = core_entries()
    tree = tree_files()
    gen = generated_by_examples()
    defs, edges = hw_modules()
    tops = sorted({m for _, _, _, mods in gen for m in mods})
    dirs = sorted({os.path.dirname(f) for f in tree})
    alld = set()
    for d in dirs:
        while d:
            alld.add(d)
            d = os.path.dirname(d)
    L = ["(* generated by harness/facts_manifest.py from Bender.yml, floo_noc.core, the tree, hw/ and real floogen runs: do not edit *)",
         "From FV Require Import Base.", "",
         "Definition tree_files : list string := [" + "; ".join(q(f) for f in tree if f.startswith(("hw/", "Bender", "floo_noc")) ) + "].",
         "Definition tree_dirs : list string := [" + "; ".join(q(d) for d in sorted(alld) if d.startswith("hw")) + "].",
         "(* (target atoms, path) *)",
         "Definition bender_files : list (list string * string) := [" + "; ".join("([" + "; ".join(q(a) for a in at) + "], " + q(f) + ")" for at, f in bfiles) + "].",
         "Definition bender_dirs : list string := [" + "; ".join(q(d) for _, d in bdirs) + "].",
         "Definition core_files : list (string * string) := [" + "; ".join("(" + q(fs) + ", " + q(f) + ")" for fs, f in cfiles) + "].",
         "(* (description name, path -- relative to the repository -- that `make sources` writes for a shipped example with that name: the Makefile's output directory (dry run) joined with the file name the real floogen writes) *)",
         "Definition generated_names : list (string * string) := [" + "; ".join(sorted({"(" + q(n) + ", " + q(f) + ")" for n, _, fs, _ in gen for f in fs})) + "].",
         "Definition module_file : list (string * string) := [" + "; ".join("(" + q(m) + ", " + q(f) + ")" for m, f in sorted(defs.items())) + "].",
         "Definition inst_edges : list (string * string) := [" + "; ".join("(" + q(a) + ", " + q(b) + ")" for a, b in edges) + "].",
         "Definition top_modules : list string := [" + "; ".join(q(m) for m in tops) + "]."]
    return "ManifestFacts.v", "\n".join(L) + "\n"


facts.GENERATORS.append(generate_facts)
