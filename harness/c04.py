"""C04: XY coordinates / wiring form the described grid: certified checker chk_C04 (frame equations +
bisimulation of the hardware's X-then-Y walk on the emitted netlist against the ideal grid the
description denotes, computed independently in spec.py) on the real output."""
from harness import netprops, spec, families

ID = "C04"
PROPS = "theories/Props/C04.v"
ALGOS = ("XY",)


def nontrivial(d, t, r):
    return r["sizes"][1] >= 2


def in_domain(d, t):
    """the property quantifies over AUTO-CONNECTED router arrays: a row chained by hand without directions (a C05 family)
    gets its ports in declaration order, which no compass frame describes -- and none is claimed for it"""
    return all(r.get("auto_connect", True) for r in d.get("routers", []))


def run(tier, seed, rep, replay=None):
    netprops.standard_run(ID, tier, seed, rep, replay, ALGOS, nontrivial, extra_cases=families.xy_suite, keep=in_domain, rule=
                          "XY meshes 1..3 (quick) / 1..4 (thorough) squared x boundary-side subsets x role mixes x "
                          "direction on either end of the connection x partial endpoint coverage; every ordered endpoint "
                          "pair, request (address-map destination) and response (requester identity); non-trivial = at "
                          "least two routers")
