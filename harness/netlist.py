"""raw statements (svread) -> abstract netlist (python dict mirroring coq/theories/Netlist.v) -> sexp.
Fail-closed: every statement of the two files must be accounted for."""
from harness import svread
from harness.svread import SvError
from harness.common import sx

LINK_TYPES = ("floo_req_t", "floo_rsp_t", "floo_wide_t")
NI_MODULES = ("floo_axi_chimney", "floo_nw_chimney")
RT_MODULES = ("floo_axi_router", "floo_nw_router")


def estr(e):
    k = e[0]
    if k == "num":
        return str(e[1])
    if k == "lit":
        return f"{e[1]}'{e[2]}{e[3]}"
    if k == "fill":
        return "'" + e[1]
    if k == "id":
        return e[1]
    if k == "index":
        return f"{estr(e[1])}[{estr(e[2])}]"
    if k == "cast":
        return f"{e[1]}'({estr(e[2])})"
    if k == "call":
        return f"{e[1]}({','.join(estr(a) for a in e[2])})"
    if k == "open":
        return ""
    if k == "implicit":
        return e[1]
    if k == "bin":
        return f"{estr(e[2])}{e[1]}{estr(e[3])}"
    if k == "struct":
        return "'{" + ",".join(f"{a}:{estr(b)}" for a, b in e[1]) + "}"
    if k == "array":
        return "'{" + ",".join(estr(a) for a in e[1]) + "}"
    raise SvError(f"cannot render {e}")


def num(e, what="number"):
    if e[0] == "num":
        return e[1]
    if e[0] == "lit":
        base = {"h": 16, "b": 2, "d": 10, "o": 8}[e[2]]
        return int(e[3].replace("_", ""), base)
    raise SvError(f"{what}: number expected, found {estr(e)}")


def width_of(dims, what):
    """[H:0] -> H+1 ; no dims -> None"""
    if not dims:
        return None
    if len(dims) != 1 or num(dims[0][1]) != 0:
        raise SvError(f"{what}: unexpected dimensions")
    return num(dims[0][0]) + 1


def sized(e, what="number"):
    """the value a literal DENOTES: a sized literal (`3'd8`) holds its digits modulo 2^size, as SystemVerilog truncates it"""
    v = num(e, what)
    if e[0] == "lit" and e[1]:
        v %= 1 << e[1]
    return v


def idval(e, what):
    """id value: number | id_t'(n) | '{x:..,y:..,port_id:..}"""
    if e[0] == "cast":
        if e[1] != "id_t":
            raise SvError(f"{what}: unexpected cast {e[1]}")
        return sized(e[2])
    if e[0] == "struct":
        d = dict(e[1])
        if set(d) != {"x", "y", "port_id"}:
            raise SvError(f"{what}: unexpected id fields {sorted(d)}")
        return [sized(d["x"]), sized(d["y"]), sized(d["port_id"])]
    return sized(e, what)


def read(pkg_text, top_text):
    pk = svread.read_package(pkg_text)
    tp = svread.read_top(top_text)
    n = {"raw_pkg": pk, "raw_top": tp}
    # ------------------------------------------------------------------ package
    n["pkg_name"] = pk["name"]
    n["includes"] = [i["path"] for i in pk["includes"]]
    n["pkg_imports"] = [i["pkg"] for i in pk["imports"]]
    enums, typedefs, structs, params, macros = {}, {}, {}, {}, []
    for it in pk["items"]:
        k = it["k"]
        if k == "enum":
            if it["base"] != "logic":
                raise SvError("enum base type")
            if it["name"] in enums:
                raise SvError(f"duplicate enum {it['name']}")
            enums[it["name"]] = (width_of(it["dims"], it["name"]), [(m, num(v)) for m, v in it["members"]])
        elif k == "typedef":
            typedefs.setdefault(it["name"], []).append((it["base"], width_of(it["dims"], it["name"])))
        elif k == "struct":
            structs.setdefault(it["name"], []).append(it["fields"])
        elif k == "localparam":
            params.setdefault(it["name"], []).append(it)
        elif k == "macro":
            macros.append((it["name"], it["args"]))
        else:
            raise SvError(f"package item {k}")
    n["pkg_decl_names"] = ([e for e in enums] + [m for e in enums.values() for m, _ in e[1]] +
                           [t for t, v in typedefs.items() for _ in v] + [s for s, v in structs.items() for _ in v] +
                           [p for p, v in params.items() for _ in v])
    n["macros"] = macros
    n["typedefs"] = {k: v[0] for k, v in typedefs.items()}
    for need in ("ep_id_e", "sam_idx_e"):
        if need not in enums:
            raise SvError(f"missing enum {need}")
    n["ep_enum"] = enums["ep_id_e"]
    n["sam_enum"] = enums["sam_idx_e"]

    def one(d, name):
        if name not in d:
            raise SvError(f"missing {name}")
        return d[name][0]

    n["rob_idx_bits"] = one(typedefs, "rob_idx_t")[1]
    route_t = one(typedefs, "route_t")
    n["route_bits"] = route_t[1]
    if "id_t" in typedefs:
        n["id_bits"] = typedefs["id_t"][0][1]
        n["xy_bits"] = None
    else:
        f = one(structs, "id_t")
        names = [(ty, fn) for ty, d, fn in f]
        if names != [("x_bits_t", "x"), ("y_bits_t", "y"), ("port_id_t", "port_id")]:
            raise SvError(f"id_t struct fields {names}")
        n["id_bits"] = None
        n["xy_bits"] = [one(typedefs, "x_bits_t")[1], one(typedefs, "y_bits_t")[1], one(typedefs, "port_id_t")[1]]
    samp = one(params, "Sam")
    n["sam_decl"] = (samp["type"], [estr(h) + ":" + estr(l) for h, l in samp["dims"]])
    sam = []
    v = samp["value"]
    n["no_table"] = "sam_rule_t" not in structs
    if n["no_table"]:
        # use_id_table: false -- a placeholder address map
        if typedefs.get("sam_rule_t", [None])[0] != ("logic", None) or v != ("fill", "0") or samp["dims"]:
            raise SvError("placeholder address map expected")
        n["aw"] = 0
        n["sam_num"] = num(one(params, "NumSamRules")["value"])
        v = ("struct", [("default", ("num", 0))])
    else:
        sr = one(structs, "sam_rule_t")
        if [fn for _, _, fn in sr] != ["idx", "start_addr", "end_addr"] or sr[0][0] != "id_t":
            raise SvError("sam_rule_t fields")
        aw = width_of(sr[1][1], "start_addr")
        if sr[1][0] != "logic" or sr[2][0] != "logic" or width_of(sr[2][1], "end_addr") != aw:
            raise SvError("sam_rule_t address types")
        n["aw"] = aw
        n["sam_num"] = num(one(params, "SamNumRules")["value"])
    if v[0] == "array":
        for r in v[1]:
            if r[0] != "struct" or [k for k, _ in r[1]] != ["idx", "start_addr", "end_addr"]:
                raise SvError("Sam entry")
            d = dict(r[1])
            s, e = d["start_addr"], d["end_addr"]
            if s[0] != "lit" or e[0] != "lit" or s[2] != "h" or e[2] != "h":
                raise SvError("Sam address literal")
            sam.append([idval(d["idx"], "Sam idx"), num(s), num(e), s[1], len(s[3]), e[1], len(e[3])])
    elif not (v[0] == "struct" and [k for k, _ in v[1]] == ["default"]):
        raise SvError("Sam value")
    n["sam"] = sam
    n["tables"] = None
    if "RoutingTables" in params:
        rt = params["RoutingTables"][0]
        n["tables_decl"] = (rt["type"], [estr(h) + ":" + estr(l) for h, l in rt["dims"]])
        rows = []
        if rt["value"][0] != "array":
            raise SvError("RoutingTables value")
        for row in rt["value"][1]:
            if row[0] != "array":
                raise SvError("RoutingTables row")
            ws = []
            for w in row[1]:
                if w[0] != "lit" or w[2] != "b":
                    raise SvError("route word literal")
                ws.append([w[1], len(w[3]), int(w[3], 2)])
            rows.append(ws)
        n["tables"] = rows
    rc = one(params, "RouteCfg")
    if rc["type"] != "route_cfg_t" or rc["value"][0] != "struct":
        raise SvError("RouteCfg")
    n["route_cfg"] = [(k, estr(val)) for k, val in rc["value"][1]]
    n["algo"] = dict(n["route_cfg"]).get("RouteAlgo")
    n["axi_cfgs"] = []
    for name, its in params.items():
        if its[0]["type"] == "axi_cfg_t":
            if its[0]["value"][0] != "struct":
                raise SvError("AxiCfg")
            n["axi_cfgs"].append((name, [(k, num(val)) for k, val in its[0]["value"][1]]))
    known = {"SamNumRules", "NumSamRules", "Sam", "RoutingTables", "RouteCfg"} | {a for a, _ in n["axi_cfgs"]}
    extra = set(params) - known
    if extra:
        raise SvError(f"unexpected package localparams {sorted(extra)}")
    # ------------------------------------------------------------------ top
    n["name"] = tp["name"]
    n["top_imports"] = [i["pkg"] for i in tp["imports"]]
    n["ports"] = []
    for p in tp["ports"]:
        dims = []
        for h, l in p["dims"]:
            if num(l) != 0:
                raise SvError("port dims")
            dims.append(num(h) + 1)
        n["ports"].append([p["dir"], p["type"], dims, p["name"]])
    decls, lps, tstructs, assigns, insts = {}, {}, {}, [], []
    n["top_decl_names"] = [p["name"] for p in tp["ports"]]
    for it in tp["items"]:
        k = it["k"]
        if k == "decl":
            decls.setdefault(it["name"], []).append(it)
            n["top_decl_names"].append(it["name"])
        elif k == "localparam":
            lps.setdefault(it["name"], []).append(it)
            n["top_decl_names"].append(it["name"])
        elif k == "struct":
            tstructs.setdefault(it["name"], []).append(it)
            n["top_decl_names"].append(it["name"])
        elif k == "assign":
            assigns.append(it)
        elif k == "inst":
            insts.append(it)
            n["top_decl_names"].append(it["name"])
        else:
            raise SvError(f"top item {k}")
    n["links"] = [(d[0]["type"], name) for name, d in decls.items() if not d[0]["dims"]]
    for ty, name in n["links"]:
        if ty not in LINK_TYPES:
            raise SvError(f"unexpected signal type {ty} {name}")
    arrays = {name: d[0] for name, d in decls.items() if d[0]["dims"]}
    slots = {name: [[] for _ in range(width_of(d["dims"], name))] for name, d in arrays.items()}
    for a in assigns:
        lhs, rhs = a["lhs"], a["rhs"]
        if lhs[0] == "index" and lhs[1][0] == "id" and lhs[1][1] in slots:
            arr, i = lhs[1][1], num(lhs[2])
            if rhs[0] == "fill" and rhs[1] == "0":
                val = "'0"
            elif rhs[0] == "id":
                val = rhs[1]
            else:
                raise SvError(f"line {a['line']}: unexpected assign rhs")
            if not 0 <= i < len(slots[arr]):
                raise SvError(f"line {a['line']}: index {i} out of range of {arr}")
            slots[arr][i].append(("in", val))
        elif rhs[0] == "index" and rhs[1][0] == "id" and rhs[1][1] in slots and lhs[0] == "id":
            arr, i = rhs[1][1], num(rhs[2])
            if not 0 <= i < len(slots[arr]):
                raise SvError(f"line {a['line']}: index {i} out of range of {arr}")
            slots[arr][i].append(("out", lhs[1]))
        else:
            raise SvError(f"line {a['line']}: unexpected assign")

    def lp_id(e, what):
        if e[0] == "fill":
            return None
        if e[0] != "id" or e[1] not in lps:
            raise SvError(f"{what}: id parameter expected, found {estr(e)}")
        p = lps[e[1]][0]
        if p["type"] != "id_t":
            raise SvError(f"{what}: {e[1]} is not an id_t")
        return idval(p["value"], e[1])

    used_arrays, used_lps = set(), set()
    n["nis"], n["rts"] = [], []
    for it in insts:
        conns = dict(it["conns"])
        params_ = dict(it["params"])
        if len(conns) != len(it["conns"]) or len(params_) != len(it["params"]):
            raise SvError(f"{it['name']}: duplicate binding")
        if it["module"] in NI_MODULES:
            ni = {"name": it["name"], "module": it["module"]}
            ide = conns["id_i"]
            ni["id"] = lp_id(ide, it["name"])
            used_lps.add(ide[1])
            rt = conns["route_table_i"]
            if rt[0] == "fill":
                ni["row"] = None
            elif rt[0] == "index" and rt[1] == ("id", "RoutingTables") and rt[2][0] == "id":
                ni["row"] = rt[2][1]
            else:
                raise SvError(f"{it['name']}: route_table_i")
            ni["flags"] = []
            for pn, pv in it["params"]:
                if pn.startswith("ChimneyCfg"):
                    if pv[0] != "call" or pv[1] != "set_ports" or len(pv[2]) != 3 or pv[2][0] != ("id", "ChimneyDefaultCfg"):
                        raise SvError(f"{it['name']}: {pn}")
                    ni["flags"].append([pn, bool(num(pv[2][1])), bool(num(pv[2][2]))])
            ni["axi"] = [[c, estr(v) or "open"] for c, v in it["conns"] if c.startswith("axi_")]
            for f in ("req_o", "rsp_i", "req_i", "rsp_o"):
                e = conns["floo_" + f]
                if e[0] == "id":
                    ni[f] = e[1]
                elif e[0] in ("fill", "open"):
                    # a link port tied off or left open: no declared signal carries this name, so the certified wiring
                    # checker reports the link's real signal as lacking its driver / reader (C05)
                    ni[f] = "__tied_off__" if e[0] == "fill" else "__left_open__"
                else:
                    raise SvError(f"{it['name']}: floo_{f}")
            for f in ("wide_o", "wide_i"):
                e = conns.get("floo_" + f)
                ni[f] = None if e is None else e[1]
            ni["params"] = [[p, estr(v)] for p, v in it["params"]]
            ni["conns"] = [[c, estr(v) if v[0] != "open" else "open"] for c, v in it["conns"]]
            n["nis"].append(ni)
        elif it["module"] in RT_MODULES:
            r = {"name": it["name"], "module": it["module"]}
            r["id"] = lp_id(conns["id_i"], it["name"])
            if conns["id_i"][0] == "id":
                used_lps.add(conns["id_i"][1])
            r["algo"] = estr(params_["RouteAlgo"])
            r["nroutes"], r["nin"], r["nout"] = (num(params_[k]) for k in ("NumRoutes", "NumInputs", "NumOutputs"))
            m = conns["id_route_map_i"]
            if m[0] == "fill":
                r["map"] = None
            else:
                if m[0] != "id" or m[1] not in lps or (m[1] + "NumRules") not in lps:
                    raise SvError(f"{it['name']}: id_route_map_i {estr(m)} is not a declared table")
                tbl = lps[m[1]][0]
                used_lps.update([m[1], m[1] + "NumRules"])
                rules = []
                if tbl["value"][0] == "array":
                    for x in tbl["value"][1]:
                        d = dict(x[1])
                        if x[0] != "struct" or list(d) != ["idx", "start_addr", "end_addr"]:
                            raise SvError("router table entry")
                        s, e = num(d["start_addr"]), num(d["end_addr"])
                        rules.append([num(d["idx"]), s, e, e - s])
                if "NumAddrRules" not in params_:
                    raise SvError(f"{it['name']}: NumAddrRules missing")
                # width of the idx field of the rule struct the table is declared with
                if tbl["type"] not in tstructs:
                    raise SvError(f"{it['name']}: rule type {tbl['type']} of {m[1]} is not declared")
                sf = tstructs[tbl["type"]][0]["fields"]
                if [fn for _, _, fn in sf] != ["idx", "start_addr", "end_addr"]:
                    raise SvError(f"{tbl['type']}: unexpected fields")

                def fw(ty, d):
                    if ty == "id_t":
                        if n["id_bits"] is None:
                            raise SvError("id_t field but id_t is not a vector")
                        return n["id_bits"]
                    if ty == "int unsigned":
                        return 32
                    if ty == "logic":
                        return width_of(d, "rule field") or 1
                    raise SvError(f"{tbl['type']}: unexpected field type {ty}")
                r["map_field_bits"] = [fw(ty, d) for ty, d, _ in sf]
                r["map"] = [m[1], num(lps[m[1] + "NumRules"][0]["value"]), num(params_["NumAddrRules"]),
                            r["map_field_bits"][0], rules]
                r["map_decl"] = (tbl["type"], [estr(h) + ":" + estr(l) for h, l in tbl["dims"]], estr(params_.get("addr_rule_t", ("id", "?"))))
            for f, port, kind in (("req_in", "floo_req_i", "in"), ("rsp_out", "floo_rsp_o", "out"),
                                  ("req_out", "floo_req_o", "out"), ("rsp_in", "floo_rsp_i", "in"),
                                  ("wide_in", "floo_wide_i", "in"), ("wide_out", "floo_wide_o", "out")):
                e = conns.get(port)
                if e is None:
                    r[f] = []
                    continue
                if e[0] != "id" or e[1] not in slots:
                    raise SvError(f"{it['name']}: {port} not bound to a declared array")
                used_arrays.add(e[1])
                r[f + "_type"] = arrays[e[1]]["type"]
                sl = []
                for s in slots[e[1]]:
                    if any(k != kind for k, _ in s):
                        raise SvError(f"{e[1]}: assigned in the wrong direction")
                    sl.append([v for _, v in s])
                r[f] = sl
            r["params"] = [[p, estr(v)] for p, v in it["params"]]
            r["conns"] = [[c, estr(v) if v[0] != "open" else "open"] for c, v in it["conns"]]
            n["rts"].append(r)
        else:
            raise SvError(f"unexpected module {it['module']}")
    if set(slots) - used_arrays:
        raise SvError(f"arrays not bound to any router: {sorted(set(slots) - used_arrays)}")
    n["unused_localparams"] = sorted(set(lps) - used_lps)
    n["nw"] = any(x["module"].startswith("floo_nw") for x in n["nis"] + n["rts"])
    n["top_structs"] = sorted(tstructs)
    return n


def to_sx(n):
    """netlist dict -> the s-expression of coq/theories/Netlist.v"""
    def kv(k, v):
        return [k, v]

    def idv(i):
        return i

    def opt(v):
        return v

    nis = []
    for x in n["nis"]:
        nis.append([kv("name", x["name"]), kv("module", x["module"]), kv("id", x["id"]), kv("row", x["row"]),
                    kv("flags", x["flags"]), kv("axi", [[a, b] for a, b in x["axi"]]),
                    kv("req_o", x["req_o"]), kv("rsp_i", x["rsp_i"]), kv("req_i", x["req_i"]), kv("rsp_o", x["rsp_o"]),
                    kv("wide_o", x["wide_o"]), kv("wide_i", x["wide_i"])])
    rts = []
    for r in n["rts"]:
        rts.append([kv("name", r["name"]), kv("module", r["module"]), kv("id", r["id"]), kv("algo", r["algo"]),
                    kv("nroutes", r["nroutes"]), kv("nin", r["nin"]), kv("nout", r["nout"]), kv("map", r["map"]),
                    kv("req_in", r["req_in"]), kv("rsp_out", r["rsp_out"]), kv("req_out", r["req_out"]),
                    kv("rsp_in", r["rsp_in"]), kv("wide_in", r["wide_in"]), kv("wide_out", r["wide_out"])])
    return [kv("name", n["name"]), kv("nw", bool(n["nw"])), kv("algo", n["algo"]),
            kv("ep_enum", [n["ep_enum"][0], [[a, b] for a, b in n["ep_enum"][1]]]),
            kv("sam_enum", [n["sam_enum"][0], [[a, b] for a, b in n["sam_enum"][1]]]),
            kv("id_bits", n["id_bits"]), kv("xy_bits", n["xy_bits"]), kv("route_bits", n["route_bits"]),
            kv("aw", n["aw"]), kv("sam_num", n["sam_num"]), kv("sam", n["sam"]), kv("tables", n["tables"]),
            kv("route_cfg", [[a, b] for a, b in n["route_cfg"]]),
            kv("axi_cfgs", [[a, [[c, d] for c, d in b]] for a, b in n["axi_cfgs"]]),
            kv("ports", n["ports"]), kv("links", [[a, b] for a, b in n["links"]]),
            kv("nis", nis), kv("rts", rts)]


def sx_text(n):
    return sx(to_sx(n))
