"""C16 — RouteMap.trim(): extracted Coq model vs real code, plus the certified checker chk_C16
(soundness: theorem C16_checker_sound) evaluated on what the implementation returned."""
import itertools
import random
from harness import common

ID = "C16"
PROPS = "theories/Props/C16.v"


def placements(k, lo, hi):
    """all k-tuples of disjoint non-empty intervals [s,e) with lo <= s < e <= hi, ascending."""
    if k == 0:
        yield ()
        return
    for s in range(lo, hi):
        for e in range(s + 1, hi + 1):
            for rest in placements(k - 1, e, hi):
                yield ((s, e),) + rest


def gen_cases(tier, seed):
    rng = random.Random(seed)
    cases = []
    kmax, ports, dom = (3, 3, 8) if tier == "quick" else (4, 4, 9)
    for k in range(0, kmax + 1):
        for pl in placements(k, 0, dom):
            for ps in itertools.product(range(ports), repeat=k):
                rules = [[p, s, e] for p, (s, e) in zip(ps, pl)]
                for perm in itertools.permutations(rules):
                    cases.append(list(perm))
    if tier == "thorough":
        # 5 rules: all placements over 0..8 would be ~10^7 with ports and orders; sample them
        pls = list(placements(5, 0, 9))
        for _ in range(60000):
            pl = rng.choice(pls)
            rules = [[rng.randrange(4), s, e] for (s, e) in pl]
            rng.shuffle(rules)
            cases.append(rules)
    # random wide-domain tables, built from touching / separated runs, random order
    for _ in range(3000 if tier == "quick" else 30000):
        k = rng.randint(1, 9)
        pos = rng.getrandbits(rng.choice([8, 32, 48]))
        rules = []
        for _ in range(k):
            pos += rng.choice([0, 0, 0, 1, rng.getrandbits(20)])
            ln = rng.choice([1, 1, 2, rng.getrandbits(16) + 1])
            rules.append([rng.randrange(rng.choice([1, 2, 4])), pos, pos + ln])
            pos += ln
        rng.shuffle(rules)
        cases.append(rules)
    # possibly overlapping tables: exercise the constructor's overlap check
    for _ in range(3000 if tier == "quick" else 20000):
        k = rng.randint(2, 5)
        rules = []
        for _ in range(k):
            s = rng.randrange(0, 12)
            rules.append([rng.randrange(3), s, s + rng.randint(1, 4)])
        cases.append(rules)
    return cases


def with_size(rules):
    return [[d, s, e, e - s] for d, s, e in rules]


def overlap_free(rules):
    srt = sorted(rules, key=lambda r: r[1])
    return all(a[2] <= b[1] for a, b in zip(srt, srt[1:]))


DISTINCT = set()      # hashes of the distinct non-trivial tables seen by this run
CHUNK = 40000         # cases per batch: bounds the memory of a thorough run


def evaluate(cases, rep):
    impl = common.run_worker("worker_c16", cases)
    model = common.run_model([common.sx(["c16", with_size(c)]) for c in cases])
    # certified checker on the implementation's output, for accepted overlap-free inputs
    chk_idx = [i for i, (c, im) in enumerate(zip(cases, impl)) if im[0] == ["ok"] and im[1][0] == "ok"]
    chk = common.run_model([common.sx(["c16", "chk", with_size(cases[i]), impl[i][1][1]]) for i in chk_idx])
    chk_res = dict(zip(chk_idx, chk))
    stats = {"accepted": 0, "rejected": 0, "merging": 0, "drift": 0}
    distinct = DISTINCT
    for i, (c, im, mo) in enumerate(zip(cases, impl, model)):
        m_con, m_trim = mo
        ok_i = im[0] == ["ok"]
        ok_m = m_con[0] == "ok"
        if ok_i != ok_m:
            # construction acceptance differs: the overlap check.  Decide by the definition.
            of = overlap_free(c)
            if ok_i != of:
                rep.fail("C16:constructor:" + ("accepts-overlap" if ok_i else "rejects-overlap-free"),
                         f"RouteMap construction {'accepted' if ok_i else 'rejected'} the table {c} "
                         f"which is {'overlap-free' if of else 'overlapping'}", {"rules": c},
                         observed="accepted" if ok_i else "rejected", expected="accepted" if of else "rejected")
            else:
                rep.corr_broken(f"model and implementation disagree on accepting {c}", {"rules": c})
            continue
        if not ok_i:
            stats["rejected"] += 1
            continue
        stats["accepted"] += 1
        if im[1][0] != "ok":
            rep.fail("C16:trim:raises", f"trim() raised {im[1][1]} on the overlap-free table {c}",
                     {"rules": c}, observed=im[1], expected=m_trim)
            continue
        out = im[1][1]
        if len(out) < len(c):
            stats["merging"] += 1
            distinct.add(hash(common.canon(c)))
        if chk_res[i] is not True:
            rep.fail("C16:trim:checker", f"trim() of {c} returned {out}: not decode-equivalent / overlap-free / "
                     f"size-consistent / free of touching same-port rules (certified checker chk_C16 = false); "
                     f"the model gives {m_trim}", {"rules": c}, observed=out, expected=m_trim)
        elif m_trim[0] != "ok" or m_trim[1] != out:
            stats["drift"] += 1
            rep.notes.append(f"drift (property holds, representation differs): {c} -> impl {out} model {m_trim}")
    stats["distinct"] = len(distinct)
    return stats


def run(tier, seed, rep, replay=None):
    cases = [replay["case"]["rules"]] if replay else gen_cases(tier, seed)
    stats = {"accepted": 0, "rejected": 0, "merging": 0, "drift": 0}
    for lo in range(0, len(cases), CHUNK):
        part = evaluate(cases[lo:lo + CHUNK], rep)
        for k in stats:
            stats[k] += part[k]
        stats["distinct"] = part["distinct"]
    rep.notes[:] = rep.notes[:5]
    rep.coverage.update({
        "evaluations": len(cases),
        "distinct_nontrivial": stats["distinct"],
        "rule": "all overlap-free tables with <=3 (quick) / <=4 (thorough, plus 60000 sampled 5-rule) rules over "
                "identifiers 0..7/0..8 and 3/4 ports in every rule order (exhaustive), plus seeded random wide-domain "
                "tables and random possibly-overlapping tables; each range built as start/end, start/size or base/size/idx "
                "(by rule content and position); non-trivial = accepted and at least one merge happened; "
                "distinct by canonical JSON",
        "samples": cases[5000:5003] if len(cases) > 5003 else cases[:3],
        "input_distribution": {k: stats[k] for k in ("accepted", "rejected", "merging")},
        "drift": stats["drift"],
        "exhaustive": False,
    })
    if tier == "thorough" and not replay:
        from harness import coqchk
        rep.coverage["coqchk"] = coqchk.run()
