"""description dict -> the YAML-like tree the Coq model parses ((@ (key value)...) maps)."""
import re
from harness.common import sx


def tree(v):
    if isinstance(v, dict):
        return ["@"] + [[k, tree(x)] for k, x in v.items()]
    if isinstance(v, (list, tuple)):
        return [tree(x) for x in v]
    if isinstance(v, str):
        if v == "" or re.search(r"[\s()]", v) or re.fullmatch(r"-?\d+", v) or v.startswith("#") or v == "@":
            return "free_text"
        return v
    return v


def request(desc, cmd="model"):
    return "(" + cmd + " " + sx(tree(desc)) + ")"
