"""C02: decided on the emitted netlist by the certified checker chk_C02 (Coq, extracted);
families of descriptions -> real floogen -> fail-closed reader -> checker.  See netprops.py."""
from harness import netprops, spec, families

ID = "C02"
PROPS = "theories/Props/C02.v"
ALGOS = ('ID',)


def nontrivial(d, t, r):
    return r['sizes'][1] >= 2 or r['sizes'][0] >= 3


def run(tier, seed, rep, replay=None):
    netprops.standard_run(ID, tier, seed, rep, replay, ALGOS, nontrivial, extra_cases=families.detour_suite, rule=
                          "families star/mesh/mesh_plus/tree/custom x algorithms " + str(ALGOS) + " x axi/narrow-wide, "
                          "exhaustive declaration-order permutations for small stars, seeded random otherwise; "
                          "non-trivial = ID-routed description with at least two routers or three endpoints")
