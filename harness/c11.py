"""C11: generated code binds only what the shipped RTL and macros offer.  Theorem C11_holds is over
facts regenerated every run (gen/RtlFacts.v); this module re-evaluates the same conditions in python
on the same data to name the failing template branch / module / name when the theorem no longer checks."""
from harness import common, facts_rtl

ID = "C11"
PROPS = "theories/Props/C11.v"


def run(tier, seed, rep, replay=None):
    mods = facts_rtl.module_headers()
    macs = dict(facts_rtl.macros_defined(), **facts_rtl.EXTERNAL_MACROS)
    enums, structs, funcs, params = facts_rtl.floo_pkg_names()
    pydirs = facts_rtl.py_directions()
    insts, macros, cfg_fields, algos, calls, pkgs = facts_rtl.generated_usage()
    tbs = facts_rtl.testbench_usage(pkgs)
    ev = 0
    shapes = set()
    for tag, m, ps, cs in insts:
        ev += 1
        shapes.add((m, tuple(ps), tuple(cs)))
        case = {"branch": tag, "module": m}
        if m not in mods:
            rep.fail(f"C11:module-missing:{m}", f"{tag}: the generated top instantiates {m}, which no file under hw/ defines", case)
            continue
        mp, mports = mods[m]["params"], dict(mods[m]["ports"])
        for p in ps:
            if p not in mp:
                rep.fail(f"C11:parameter-missing:{m}.{p}", f"{tag}: parameter .{p} is bound but {m} has no such parameter", case)
        bound = {}
        for c, kind in cs:
            if c not in mports:
                rep.fail(f"C11:port-missing:{m}.{c}", f"{tag}: port .{c} is bound but {m} has no such port", case)
                continue
            bound[c] = kind
            d = mports[c]
            if kind in ("zero", "in") and d != "input":
                rep.fail(f"C11:direction:{m}.{c}", f"{tag}: .{c} of {m} is an {d} but is tied to a constant / driven from a top-level input", case)
            if kind in ("open", "out") and d != "output":
                rep.fail(f"C11:direction:{m}.{c}", f"{tag}: .{c} of {m} is an {d} but is left open / drives a top-level output", case)
        for p, d in mports.items():
            if d == "input" and bound.get(p, "open") == "open":
                rep.fail(f"C11:input-unbound:{m}.{p}", f"{tag}: input .{p} of {m} is not bound", case)
    for tag, name, ar in macros:
        ev += 1
        if macs.get(name) != ar:
            rep.fail(f"C11:macro:{name}", f"{tag}: macro `{name} is invoked with {ar} arguments; the shipped headers "
                     f"{'define it with ' + str(macs[name]) if name in macs else 'do not define it'}", {"branch": tag, "macro": name})
    for tag, sname, fields in cfg_fields:
        ev += 1
        if sname not in structs or sorted(fields) != sorted(structs[sname]) or len(set(fields)) != len(fields):
            rep.fail(f"C11:cfg-fields:{sname}", f"{tag}: a {sname} record names fields {fields}; floo_pkg declares "
                     f"{structs.get(sname)}", {"branch": tag, "struct": sname})
    ralgo = [a for a, _ in enums.get("route_algo_e", [])]
    for tag, a in algos:
        ev += 1
        if a not in ralgo:
            rep.fail(f"C11:route-algo:{a}", f"{tag}: routing algorithm {a} is not a route_algo_e member {ralgo}", {"branch": tag})
    for tag, f, n, ids in calls:
        ev += 1
        if funcs.get(f) != n or any(i not in params for i in ids):
            rep.fail(f"C11:pkg-function:{f}", f"{tag}: {f} is called with {n} arguments / names {ids}; floo_pkg offers "
                     f"{f}/{funcs.get(f)} and constants {params}", {"branch": tag})
    hwd = {a.upper(): v for a, v in enums.get("route_direction_e", []) if a != "NumDirections"}
    ev += 1
    if dict(pydirs) != hwd:
        rep.fail("C11:directions", f"the generator numbers the compass directions {dict(pydirs)}, the hardware {hwd}", {})
    for tb, variants, bound, used in tbs:
        for v in variants:
            ev += 1
            decl, ports, _, _ = pkgs[v]
            mp = sorted(set(bound) - set(ports))
            mn = sorted(set(used) - set(decl))
            if mp:
                rep.fail(f"C11:testbench-port:{tb}:{mp[0]}", f"{tb} binds port(s) {mp} of the generated mesh, which floogen does "
                         f"not emit for {v}", {"testbench": tb, "variant": v})
            if mn:
                rep.fail(f"C11:testbench-name:{tb}:{mn[0]}", f"{tb} uses package name(s) {mn}, which floogen does not emit for {v} "
                         f"(it does for another shipped variant of the same mesh)", {"testbench": tb, "variant": v})
    rep.coverage.update({
        "evaluations": ev, "distinct_nontrivial": len(shapes),
        "rule": "every instantiation of really generated code for every template branch (axi/narrow-wide x XY/ID/SRC x role "
                "presence x narrow/wide presence) and every shipped example, against the module headers read from hw/; macro "
                "invocations against typedef.svh; configuration-record fields, algorithms, helper functions against floo_pkg.sv; "
                "both mesh testbenches against each shipped variant; distinct = instantiation shapes; exhaustive over the finite "
                "branch space (the theorem is over the same regenerated facts)",
        "samples": [{"module": m, "params": list(p)[:4], "conns": list(c)[:4]} for m, p, c in sorted(shapes)[:2]],
        "input_distribution": {"origins": len(pkgs), "instantiations": len(insts), "shapes": len(shapes),
                               "hw_modules": len(mods), "macros": len(macs)},
        "exhaustive": True,
    })
