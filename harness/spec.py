"""Independent specification side, written from the property texts and docs/floogen.md: what a
description (YAML-level dict) denotes.  Used as the oracle input of the certified checkers."""


def camel(name):
    """CamelCase as emitted: pieces capitalised, '_' kept between two numeric pieces."""
    parts = name.split("_")
    out = ""
    for i, p in enumerate(parts):
        if i > 0 and p.isdigit() and parts[i - 1].isdigit():
            out += "_"
        out += p[:1].upper() + p[1:].lower()
    return out


def shape(ep):
    a = ep.get("array")
    if a is None:
        return None
    if isinstance(a, int):
        return [a]
    return list(a)


def instances(desc):
    """endpoint instances in declaration-then-row-major order:
    dict(ep, idx(tuple), k(row-major slot), enum, ni, node)"""
    out = []
    for ep in desc["endpoints"]:
        sh = shape(ep)
        name = ep["name"]
        if sh is None:
            out.append({"ep": name, "idx": (), "k": 0, "enum": name, "ni": name + "_ni", "node": name})
        elif len(sh) == 1:
            for i in range(sh[0]):
                out.append({"ep": name, "idx": (i,), "k": i, "enum": f"{name}_{i}", "ni": f"{name}_ni_{i}",
                            "node": f"{name}_{i}"})
        else:
            for i in range(sh[0]):
                for j in range(sh[1]):
                    out.append({"ep": name, "idx": (i, j), "k": i * sh[1] + j, "enum": f"{name}_x{i}_y{j}",
                                "ni": f"{name}_ni_{i}_{j}", "node": f"{name}_{i}_{j}"})
    return out


def ranges_of(ep):
    r = ep.get("addr_range", [])
    if r is None:
        return []
    return r if isinstance(r, list) else [r]


def bounds(rng, k=None):
    """[start,end) a range specification denotes; for array element k the k-th slot"""
    g = {x: rng.get(x) for x in ("start", "end", "size", "base", "idx")}
    if k is not None:
        if g["base"] is None:
            return None
        size = g["size"] if g["size"] is not None else g["end"] - g["start"]
        return (g["base"] + k * size, g["base"] + (k + 1) * size)
    if g["size"] is not None and g["base"] is not None:
        s = g["base"] + (g["idx"] or 0) * g["size"]
        return (s, s + g["size"])
    if g["start"] is not None and g["end"] is not None:
        return (g["start"], g["end"])
    if g["start"] is not None and g["size"] is not None:
        return (g["start"], g["start"] + g["size"])
    return None


def owned(desc):
    """(ni name, start, end, ep, k, j) for every subordinate instance and declared range j"""
    eps = {e["name"]: e for e in desc["endpoints"]}
    out = []
    for inst in instances(desc):
        ep = eps[inst["ep"]]
        if ep.get("sbr_port_protocol") is None:
            continue
        for j, rng in enumerate(ranges_of(ep)):
            b = bounds(rng, inst["k"] if shape(ep) is not None else None)
            if b is not None:
                out.append((inst["ni"], b[0], b[1], inst["ep"], inst["k"], j))
    return out


def is_mgr(ep):
    return ep.get("mgr_port_protocol") is not None


def is_sbr(ep):
    return ep.get("sbr_port_protocol") is not None
