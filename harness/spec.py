"""Independent specification side, written from the property texts and docs/floogen.md: what a
description (YAML-level dict) denotes.  Used as the oracle input of the certified checkers."""


def camel(name):
    """CamelCase as emitted: pieces capitalised, '_' kept between two numeric pieces."""
    parts = name.split("_")
    out = ""
    for i, p in enumerate(parts):
        if i > 0 and p.isdigit() and parts[i - 1].isdigit():
            out += "_"
        out += p[:1].upper() + p[1:].lower()
    return out


def shape(ep):
    a = ep.get("array")
    if a is None:
        return None
    if isinstance(a, int):
        return [a]
    return list(a)


def instances(desc):
    """endpoint instances in declaration-then-row-major order:
    dict(ep, idx(tuple), k(row-major slot), enum, ni, node)"""
    out = []
    for ep in desc["endpoints"]:
        sh = shape(ep)
        name = ep["name"]
        if sh is None:
            out.append({"ep": name, "idx": (), "k": 0, "enum": name, "ni": name + "_ni", "node": name})
        elif len(sh) == 1:
            for i in range(sh[0]):
                out.append({"ep": name, "idx": (i,), "k": i, "enum": f"{name}_{i}", "ni": f"{name}_ni_{i}",
                            "node": f"{name}_{i}"})
        else:
            for i in range(sh[0]):
                for j in range(sh[1]):
                    out.append({"ep": name, "idx": (i, j), "k": i * sh[1] + j, "enum": f"{name}_x{i}_y{j}",
                                "ni": f"{name}_ni_{i}_{j}", "node": f"{name}_{i}_{j}"})
    return out


def ranges_of(ep):
    r = ep.get("addr_range", [])
    if r is None:
        return []
    return r if isinstance(r, list) else [r]


def bounds(rng, k=None):
    """[start,end) a range specification denotes; for array element k the k-th slot"""
    g = {x: rng.get(x) for x in ("start", "end", "size", "base", "idx")}
    if k is not None:
        if g["base"] is None:
            return None
        size = g["size"] if g["size"] is not None else g["end"] - g["start"]
        return (g["base"] + k * size, g["base"] + (k + 1) * size)
    if g["size"] is not None and g["base"] is not None:
        s = g["base"] + (g["idx"] or 0) * g["size"]
        return (s, s + g["size"])
    if g["start"] is not None and g["end"] is not None:
        return (g["start"], g["end"])
    if g["start"] is not None and g["size"] is not None:
        return (g["start"], g["start"] + g["size"])
    return None


def owned(desc):
    """(ni name, start, end, ep, k, j) for every subordinate instance and declared range j"""
    eps = {e["name"]: e for e in desc["endpoints"]}
    out = []
    for inst in instances(desc):
        ep = eps[inst["ep"]]
        if ep.get("sbr_port_protocol") is None:
            continue
        for j, rng in enumerate(ranges_of(ep)):
            b = bounds(rng, inst["k"] if shape(ep) is not None else None)
            if b is not None:
                out.append((inst["ni"], b[0], b[1], inst["ep"], inst["k"], j))
    return out


def sam_names(desc):
    """(member of sam_idx_e, start, end) for every declared range of every subordinate instance: the member is named
    after the instance's enumeration name, then the range's `desc` tag or -- with several ranges -- its position"""
    eps = {e["name"]: e for e in desc["endpoints"]}
    out = []
    for inst in instances(desc):
        ep = eps[inst["ep"]]
        if ep.get("sbr_port_protocol") is None:
            continue
        rs = ranges_of(ep)
        for j, rng in enumerate(rs):
            b = bounds(rng, inst["k"] if shape(ep) is not None else None)
            if b is None:
                continue
            nm = inst["enum"]
            if rng.get("desc") is not None:
                nm += "_" + str(rng["desc"])
            elif len(rs) > 1:
                nm += "_" + str(j)
            out.append((camel(nm + "_sam_idx"), b[0], b[1]))
    return out


def is_mgr(ep):
    return ep.get("mgr_port_protocol") is not None


def is_sbr(ep):
    return ep.get("sbr_port_protocol") is not None


# ---------------------------------------------------------------------------------------------- topology spec (C04, C06)
DIRNUM = {"NORTH": 0, "EAST": 1, "SOUTH": 2, "WEST": 3, "EJECT": 4}


def dirnum(v):
    if v is None:
        return None
    if isinstance(v, str):
        return DIRNUM[v.upper()]
    return v


def seq(a, b):
    return list(range(a, b + 1)) if a <= b else list(range(a, b - 1, -1))


def node_table(desc):
    """name of every node the description denotes -> kind; routers by array/tree/single, endpoints by shape"""
    import itertools
    nodes = {}
    for rt in desc["routers"]:
        arr, tree = rt.get("array"), rt.get("tree")
        if arr is not None:
            arr = [arr] if isinstance(arr, int) else list(arr)
            for idx in itertools.product(*[range(x) for x in arr]):
                nodes[rt["name"] + "".join(f"_{i}" for i in idx)] = ("router", rt["name"], idx)
        elif tree is not None:
            tree = [tree] if isinstance(tree, int) else list(tree)

            def rec(parent, lvl, idx):
                if lvl == len(tree):
                    return
                for i in range(tree[lvl]):
                    n = f"{parent}_{i}"
                    nodes[n] = ("router", rt["name"], idx + (i,), lvl)
                    rec(n, lvl + 1, idx + (i,))
            rec(rt["name"], 0, ())
        else:
            nodes[rt["name"]] = ("router", rt["name"], ())
    for inst in instances(desc):
        nodes[inst["node"]] = ("endpoint", inst["ep"], inst["idx"], inst["ni"])
    return nodes


def select(desc, nodes, name, idx, rng, lvl):
    """the nodes a connection end addresses, in row-major / creation order; None if it addresses a missing node"""
    import itertools
    if idx is None and rng is None and lvl is None:
        sel = [name]
    elif idx is not None and rng is None and lvl is None:
        idx = [idx] if isinstance(idx, int) else idx
        sel = [name + "".join(f"_{i}" for i in idx)]
    elif rng is not None and idx is None and lvl is None:
        sel = [name + "".join(f"_{i}" for i in t) for t in itertools.product(*[seq(a, b) for a, b in rng])]
    elif lvl is not None and idx is None and rng is None:
        sel = [n for n, v in nodes.items() if v[0] == "router" and v[1] == name and len(v) == 4 and v[3] == lvl]
    else:
        return None
    if any(n not in nodes for n in sel):
        return None
    return sel


def described_links(desc):
    """unordered links the description denotes: list of (node_a, node_b, dir_at_a, dir_at_b);
    endpoints are replaced by their network interface.  None if the description is not well-formed."""
    nodes = node_table(desc)
    links = []
    for rt in desc["routers"]:
        arr = rt.get("array")
        if arr is not None and rt.get("auto_connect", True) is not False and not isinstance(arr, int) and len(arr) == 2:
            m, n = arr
            nm = rt["name"]
            for i in range(m):
                for j in range(n):
                    if i > 0:
                        links.append((f"{nm}_{i}_{j}", f"{nm}_{i-1}_{j}", 3, 1))
                    if j > 0:
                        links.append((f"{nm}_{i}_{j}", f"{nm}_{i}_{j-1}", 2, 0))
        if rt.get("tree") is not None and rt.get("auto_connect", True) is not False:
            for n, v in nodes.items():
                if v[0] == "router" and v[1] == rt["name"] and len(v) == 4 and v[3] > 0:
                    links.append((n.rsplit("_", 1)[0], n, None, None))

    def ni(n):
        v = nodes[n]
        return v[3] if v[0] == "endpoint" else n

    for c in desc["connections"]:
        srcs = select(desc, nodes, c["src"], c.get("src_idx"), c.get("src_range"), c.get("src_lvl"))
        dsts = select(desc, nodes, c["dst"], c.get("dst_idx"), c.get("dst_range"), c.get("dst_lvl"))
        if srcs is None or dsts is None or not srcs or not dsts:
            return None
        ns, nd = len(srcs), len(dsts)
        if ns == nd:
            pass
        elif c.get("allow_multi") and ns % nd == 0 and ns > nd:
            k = ns // nd
            dsts = [d for d in dsts for _ in range(k)]
        elif c.get("allow_multi") and nd % ns == 0 and nd > ns:
            k = nd // ns
            srcs = [s for s in srcs for _ in range(k)]
        else:
            return None
        for s, d in zip(srcs, dsts):
            links.append((ni(s), ni(d), dirnum(c.get("src_dir")), dirnum(c.get("dst_dir"))))
    return links


def xy_grid(desc):
    """for an XY description over one auto-connected m x n array: (m, n, [(ni, i, j, port)...]) or None"""
    rts = desc["routers"]
    if len(rts) != 1 or rts[0].get("array") is None or isinstance(rts[0]["array"], int) or len(rts[0]["array"]) != 2:
        return None
    m, n = rts[0]["array"]
    nodes = node_table(desc)
    links = described_links(desc)
    if links is None:
        return None
    att = []
    for a, b, da, db in links:
        ka, kb = nodes.get(a), nodes.get(b)
        if ka is not None and kb is not None:
            continue  # router-router
        if ka is not None and ka[0] == "router":
            att.append((b, ka[2][0], ka[2][1], da))
        elif kb is not None and kb[0] == "router":
            att.append((a, kb[2][0], kb[2][1], db))
        else:
            return None
    if any(p is None for _, _, _, p in att):
        return None
    return (m, n, att)


# ---------------------------------------------------------------------------------------------- AXI side (C08)
def type_name(p):
    prefix = p["type_prefix"] if "type_prefix" in p else "axi"
    return f"{prefix}_{p['name']}" if prefix is not None else p["name"]


def axi_expect(desc):
    """(ports, ni expectations, axi cfg records) the description implies, per the C08 property text"""
    protos = {p["name"]: p for p in desc["protocols"]}
    nw = desc["network_type"] != "axi"
    ports, nis = [], []
    used_in, used_out = [], []
    for ep in desc["endpoints"]:
        sh = shape(ep)
        dims = [x for x in (sh or []) if x != 1]
        for pn in ep.get("mgr_port_protocol") or []:
            t = type_name(protos[pn])
            ports.append(["input", t + "_req_t", dims, f"{ep['name']}_{pn}_req_i"])
            ports.append(["output", t + "_rsp_t", dims, f"{ep['name']}_{pn}_rsp_o"])
            used_in.append(pn)
        for pn in ep.get("sbr_port_protocol") or []:
            t = type_name(protos[pn])
            ports.append(["output", t + "_req_t", dims, f"{ep['name']}_{pn}_req_o"])
            ports.append(["input", t + "_rsp_t", dims, f"{ep['name']}_{pn}_rsp_i"])
            used_out.append(pn)
    eps = {e["name"]: e for e in desc["endpoints"]}
    for inst in instances(desc):
        ep = eps[inst["ep"]]
        sh = shape(ep)
        idx = "".join(f"[{i}]" for i, d in zip(inst["idx"], sh or []) if d != 1)

        def pick(role, kind):
            lst = ep.get(role) or []
            sel = [p for p in lst if (not nw) or protos[p].get("type") == kind]
            return sel[-1] if sel else None

        def bind(prefix, mgr, sbr):
            b = []
            if mgr is not None:
                b += [[f"{prefix}in_req_i", f"{ep['name']}_{mgr}_req_i{idx}"], [f"{prefix}in_rsp_o", f"{ep['name']}_{mgr}_rsp_o{idx}"]]
            else:
                b += [[f"{prefix}in_req_i", "'0"], [f"{prefix}in_rsp_o", "open"]]
            if sbr is not None:
                b += [[f"{prefix}out_req_o", f"{ep['name']}_{sbr}_req_o{idx}"], [f"{prefix}out_rsp_i", f"{ep['name']}_{sbr}_rsp_i{idx}"]]
            else:
                b += [[f"{prefix}out_req_o", "open"], [f"{prefix}out_rsp_i", "'0"]]
            return b

        if nw:
            mn, sn = pick("mgr_port_protocol", "narrow"), pick("sbr_port_protocol", "narrow")
            mw, sw = pick("mgr_port_protocol", "wide"), pick("sbr_port_protocol", "wide")
            flags = [["ChimneyCfgN", sn is not None, mn is not None], ["ChimneyCfgW", sw is not None, mw is not None]]
            axi = bind("axi_narrow_", mn, sn) + bind("axi_wide_", mw, sw)
        else:
            mp, sp = pick("mgr_port_protocol", None), pick("sbr_port_protocol", None)
            flags = [["ChimneyCfg", sp is not None, mp is not None]]
            axi = bind("axi_", mp, sp)
        nis.append([inst["ni"], flags, axi, camel(inst["enum"])])

    def first(kind, used):
        for p in desc["protocols"]:
            if p["name"] in used and ((not nw) or p.get("type") == kind):
                return p
        return None

    def cfg(name, kind):
        i, o = first(kind, used_in), first(kind, used_out)
        if i is None or o is None:
            return None
        return [name, [["AddrWidth", i["addr_width"]], ["DataWidth", i["data_width"]], ["UserWidth", i["user_width"]],
                       ["InIdWidth", i["id_width"]], ["OutIdWidth", o["id_width"]]]]
    cfgs = [cfg("AxiCfgN", "narrow"), cfg("AxiCfgW", "wide")] if nw else [cfg("AxiCfg", None)]
    if any(c is None for c in cfgs):
        return None
    return ports, nis, cfgs
