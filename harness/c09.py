"""C09: acyclicity of the channel-dependency graph induced by the REAL emitted ID tables / source
routes, decided by the certified Kahn checker (Coq, extracted) on meshes and trees."""
import random
from harness import netprops, families

ID = "C09"
PROPS = "theories/Props/C09.v"
ALGOS = ("ID", "SRC")


def big_meshes(tier, seed):
    rng = random.Random(seed + 31)
    out = []
    sizes = [(5, 5), (6, 2), (2, 6), (11, 2), (2, 11), (12, 3)] if tier == "quick" else \
        [(m, n) for m in range(1, 7) for n in range(1, 7) if m * n > 9] + [(11, 2), (2, 11), (12, 3), (3, 12), (8, 8), (10, 10)]
    side_sets = [(), ("W",), ("W", "E", "S", "N"), ("S", "N"), ("E",)]
    for algo in ALGOS:
        for (m, n) in sizes:
            # the list-and-string model needs ~5 s for 8x8 and ~1 min for 10x10: two boundary sets there
            for sides in ([rng.choice(side_sets)] if tier == "quick" else side_sets[:3:2] if m * n >= 100 else side_sets):
                out.append(families.mesh(rng, m, n, algo, rng.random() < 0.3, sides=sides,
                                         dir_end=rng.choice(["dst", "src"]), side_role=rng.choice(["s", "ms", "m"]),
                                         undirected_sides=rng.random() < 0.3))
    # every boundary side alone and the usual pairs, boundary endpoints as subordinates and as managers: a
    # tie-break among equally short paths that depends on the declaration order shows on particular sides only
    small = [(2, 2), (3, 3), (3, 2)] if tier == "quick" else [(2, 2), (3, 3), (3, 2), (2, 3), (4, 4), (4, 3)]
    for algo in ALGOS:
        for (m, n) in small:
            for sides in [("N",), ("E",), ("S",), ("W",), ("E", "N"), ("W", "S"), ("W", "E", "S", "N")]:
                for role in ("s", "m"):
                    out.append(families.mesh(rng, m, n, algo, False, sides=sides, dir_end="dst", side_role=role,
                                             undirected_sides=False))
    # XY-routed meshes: outside the property's quantifier (nothing is decided on them), but C09_xy_conditions_sound
    # (XYCdg.v) is a theorem about them; its hypotheses are evaluated on these and counted (side_xy_mesh_*)
    for (m, n, sides) in ([(2, 2, ("W",)), (3, 2, ("W", "E", "S", "N")), (4, 3, ())] if tier == "quick" else
                          [(m, n, sd) for m in (1, 2, 3, 5) for n in (1, 2, 4) for sd in side_sets]):
        out.append(families.mesh(rng, m, n, "XY", rng.random() < 0.3, sides=sides))
    return [(d, t) for d, t in out if d is not None]


def nontrivial(d, t, r):
    return r["sizes"][1] >= 4


def run(tier, seed, rep, replay=None):
    netprops.standard_run(ID, tier, seed, rep, replay, ALGOS, nontrivial, extra_cases=big_meshes,
                          keep=lambda d, t: t.get('topo') in ('mesh', 'tree', 'star'), rule=
                          "meshes 1..3 (quick) / 1..4 (thorough) squared x boundary subsets x directed/undirected "
                          "attachments x role mixes + larger meshes incl. two-digit indices (11x2, 12x3, ...), trees, "
                          "stars (the property speaks of one router array or one tree: custom graphs are excluded); ID and SRC; non-trivial = at least four routers (a cycle of turns "
                          "needs a rectangle)")
