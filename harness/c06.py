"""C06: emitted connectivity = described topology: certified checker chk_C06 compares the links read
back from the real top module (driver/reader of every link signal, with port indices) with the
link set the description denotes (spec.described_links, written from docs/floogen.md)."""
from harness import netprops, spec, families

ID = "C06"
PROPS = "theories/Props/C06.v"
ALGOS = ("ID", "SRC", "XY")


def nontrivial(d, t, r):
    return any(k.endswith(("_range", "_idx", "_lvl")) for c in d["connections"] for k in c)


def extra(tier, seed):
    return families.selector_suite(tier, seed) + families.xy_suite(tier, seed)[:: 3] + \
        [(d, t) for d, t in families.conflict_suite(tier, seed) if t.get("topo") == "one-sided-dir"]


def run(tier, seed, rep, replay=None):
    netprops.standard_run(ID, tier, seed, rep, replay, ALGOS, nontrivial, extra_cases=extra, rule=
                          "all routing families + selector suite (idx / asc / desc / single / partial ranges, tree levels, "
                          "1:k and k:1 multi-connections, 1-D and 2-D endpoint arrays against 2-D router arrays, trees of "
                          "up to 3 levels); non-trivial = at least one connection uses a selector")
