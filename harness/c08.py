"""C08: top-level AXI ports, per-interface bindings, role enables and AXI configuration records:
certified comparison (chk_C08, Coq) of the netlist read back from the real files against what the
description implies (spec.axi_expect, written from the property text)."""
import random
from harness import netprops, spec, families

ID = "C08"
PROPS = "theories/Props/C08.v"
ALGOS = ("ID", "SRC", "XY")


def nontrivial(d, t, r):
    return any(e.get("array") is not None for e in d["endpoints"]) or d["network_type"] != "axi"


def shapes_suite(tier, seed):
    """shapes incl. unit dimensions, narrow-only / wide-only / both per role, distinct id widths, axi networks
    whose protocols carry a (legal, optional) type tag"""
    rng = random.Random(seed + 43)
    out = []
    shapes = [None, 1, 3, [1], [4], [1, 3], [3, 1], [2, 3], [1, 1]]
    for algo in ("ID", "SRC"):
        for nw in (False, True):
            for rep_ in range(6 if tier == "quick" else 40):
                k = rng.randint(2, 4)
                d = families.header("shapes", nw, algo)
                ids = [rng.randint(1, 6) for _ in range(4)]
                d["protocols"] = families.protocols(nw, 48, ids)
                if not nw and rng.random() < 0.4:
                    for p, ty in zip(d["protocols"], rng.choice([("narrow", "wide"), ("wide", "wide"), ("narrow", "narrow")])):
                        p["type"] = ty
                if rng.random() < 0.3:
                    for p in d["protocols"]:
                        p.pop("type_prefix", None)
                if rng.random() < 0.35:
                    # declared but unused protocols, listed BEFORE the used ones and with other id widths: the records
                    # and interface types come from the protocols endpoints really use
                    spare = []
                    for p in d["protocols"]:
                        q = dict(p, name="spare_" + p["name"], id_width=p["id_width"] + 3)
                        spare.append(q)
                    d["protocols"] = spare + d["protocols"]
                alloc = families.Alloc(rng)
                eps, conns = [], []
                roles = families.ensure_roles([rng.choice(["m", "s", "ms"]) for _ in range(k)], rng)
                if nw:
                    roles[0] = "ms"
                for i in range(k):
                    shp = rng.choice(shapes)
                    sel = "both" if (i == 0 or not nw) else rng.choice(["both", "narrow", "wide"])
                    nm = f"e{i}"
                    sel_s = sel if (i == 0 or not nw or rng.random() < 0.4) else rng.choice(["both", "narrow", "wide"])
                    eps.append(families.mk_ep(nm, roles[i], nw, rng, alloc, array=shp, proto_sel=sel, proto_sel_sbr=sel_s))
                    c = {"src": nm, "dst": "router"}
                    if shp is not None:
                        dims = [shp] if isinstance(shp, int) else list(shp)
                        c["src_range"] = [[0, x - 1] for x in dims]
                        c["allow_multi"] = True
                    conns.append(c)
                d["endpoints"], d["routers"], d["connections"] = eps, [{"name": "router"}], conns
                out.append((d, {"topo": "shapes", "nw": nw}))
    return out


def run(tier, seed, rep, replay=None):
    # "owns address slot i*cols+j": the address-map clause of the property is the certified C01 comparison (declared
    # range of element k -> rule with these bounds whose destination is that element's interface), evaluated here too
    netprops.standard_run(ID, tier, seed, rep, replay, ALGOS, nontrivial, extra_cases=shapes_suite, extra_checks=("C01",), rule=
                          "all routing families + shapes suite (single, [1], [n], [1,n], [m,1], [m,n], [1,1]; manager / "
                          "subordinate / both; narrow-only, wide-only, both, chosen independently for the manager and the subordinate side; distinct id widths; axi protocols with a "
                          "type tag; default and explicit type_prefix); non-trivial = has an array endpoint or is narrow-wide")
