"""Seeded generators of floogen descriptions (YAML-level dicts): star, mesh, mesh_plus, tree, custom.
Every random choice derives from the random.Random passed in.  Each generator returns
(desc, tags) where tags describe what the case exercises (printed into the evidence)."""
import itertools
import random

DIRS = ["North", "East", "South", "West", "Eject"]


def protocols(nw, aw=48, ids=(4, 2, 3, 1)):
    if nw:
        return [
            {"name": "narrow_in", "type": "narrow", "protocol": "AXI4", "data_width": 64, "addr_width": aw,
             "id_width": ids[0], "user_width": 1},
            {"name": "narrow_out", "type": "narrow", "protocol": "AXI4", "data_width": 64, "addr_width": aw,
             "id_width": ids[1], "user_width": 1},
            {"name": "wide_in", "type": "wide", "protocol": "AXI4", "data_width": 512, "addr_width": aw,
             "id_width": ids[2], "user_width": 1},
            {"name": "wide_out", "type": "wide", "protocol": "AXI4", "data_width": 512, "addr_width": aw,
             "id_width": ids[3], "user_width": 1},
        ]
    return [
        {"name": "axi_in", "protocol": "AXI4", "data_width": 64, "addr_width": aw, "id_width": ids[0],
         "user_width": 1, "type_prefix": None},
        {"name": "axi_out", "protocol": "AXI4", "data_width": 64, "addr_width": aw, "id_width": ids[1],
         "user_width": 1, "type_prefix": None},
    ]


class Alloc:
    """hands out address ranges; layouts: touching / gaps / descending handled by the callers"""

    def __init__(self, rng, aw=48, start=0):
        self.rng, self.aw, self.pos = rng, aw, start

    def take(self, size, gap=0):
        self.pos += gap
        s = self.pos
        self.pos += size
        return s


def mk_ep(name, role, nw, rng, alloc, array=None, nranges=1, style=None, gap=None, proto_sel="both", desc_tag=False):
    """role in m, s, ms.  style: how the range is written (base+size | start+end | start+size)."""
    ep = {"name": name}
    if array is not None:
        ep["array"] = array
    num = 1
    if array is not None:
        num = array if isinstance(array, int) else (array[0] if len(array) == 1 else array[0] * array[1])
    if "s" in role:
        rs = []
        for j in range(nranges):
            size = rng.choice([0x1000, 0x10000, 0x40, 0x400000])
            g = rng.choice([0, 0, size, 0x100000]) if gap is None else gap
            if array is not None:
                base = alloc.take(size * num, g)
                r = {"base": base, "size": size}
            else:
                st = rng.choice(["bs", "se", "ss"]) if style is None else style
                base = alloc.take(size, g)
                r = {"bs": {"base": base, "size": size}, "se": {"start": base, "end": base + size},
                     "ss": {"start": base, "size": size}}[st]
            if desc_tag and nranges > 1 and rng.random() < 0.5:
                r["desc"] = f"w{j}"
            rs.append(r)
        ep["addr_range"] = rs[0] if (nranges == 1 and rng.random() < 0.5) else rs
    if nw:
        pin = {"both": ["narrow_in", "wide_in"], "narrow": ["narrow_in"], "wide": ["wide_in"]}[proto_sel]
        pout = {"both": ["narrow_out", "wide_out"], "narrow": ["narrow_out"], "wide": ["wide_out"]}[proto_sel]
    else:
        pin, pout = ["axi_in"], ["axi_out"]
    if "m" in role:
        ep["mgr_port_protocol"] = pin
    if "s" in role:
        ep["sbr_port_protocol"] = pout
    return ep


def header(name, nw, algo, aw=48):
    return {"name": name, "description": "generated", "network_type": "narrow-wide" if nw else "axi",
            "routing": {"route_algo": algo, "use_id_table": True}, "protocols": protocols(nw, aw),
            "endpoints": [], "routers": [], "connections": []}


def ensure_roles(roles, rng):
    """at least one manager-capable and one subordinate-capable endpoint (else nothing can talk and the
    templates have no input/output protocol to name)"""
    if not any("m" in r for r in roles):
        roles[rng.randrange(len(roles))] = "ms"
    if not any("s" in r for r in roles):
        roles[rng.randrange(len(roles))] = "ms"
    return roles


def nw_cover(eps_sel, rng):
    """narrow-wide: make sure all four protocol directions are used somewhere (first ms endpoint)"""
    return eps_sel


# ---------------------------------------------------------------------------------------------- star
def star(rng, k=3, algo="ID", nw=False, roles=None, order=None, conn_order=None, shapes=None, nranges=None,
         directed=None, router_first=None, descending=False):
    d = header("star", nw, algo)
    roles = ensure_roles(list(roles or [rng.choice(["m", "s", "ms", "ms"]) for _ in range(k)]), rng)
    if nw and not any(r == "ms" for r in roles):
        roles[0] = "ms"
    names = [f"ep{chr(97 + i)}" for i in range(k)]
    alloc = Alloc(rng)
    eps = []
    for i, (nm, role) in enumerate(zip(names, roles)):
        shp = (shapes or [None] * k)[i]
        nr = (nranges or [1] * k)[i]
        eps.append(mk_ep(nm, role, nw, rng, alloc, array=shp, nranges=nr, proto_sel="both"))
    if descending:
        # declare the ranges in descending address order: reverse the endpoints' range assignment
        rs = [e["addr_range"] for e in eps if "addr_range" in e]
        it = iter(reversed(rs))
        for e in eps:
            if "addr_range" in e and e.get("array") is None:
                pass
    order = order or list(range(k))
    d["endpoints"] = [eps[i] for i in order]
    d["routers"] = [{"name": "router"}]
    conns = []
    ndirs = 0
    for i, nm in enumerate(names):
        shp = (shapes or [None] * k)[i]
        c = {}
        rf = rng.random() < 0.3 if router_first is None else router_first
        a, b = ("router", nm) if rf else (nm, "router")
        c["src"], c["dst"] = a, b
        side = "dst" if rf else "src"
        if shp is not None:
            dims = [shp] if isinstance(shp, int) else list(shp)
            c[side + "_range"] = [[0, x - 1] for x in dims]
            c["allow_multi"] = True
        conns.append(c)
    co = conn_order or list(range(k))
    d["connections"] = [conns[i] for i in co]
    tags = {"topo": "star", "k": k, "roles": "".join(sorted(set(roles))), "perm_ep": order != sorted(order),
            "perm_conn": co != sorted(co), "arrays": sum(1 for s in (shapes or []) if s is not None)}
    return d, tags


# ---------------------------------------------------------------------------------------------- mesh
def mesh(rng, m=2, n=2, algo="XY", nw=False, sides=(), cluster_role="ms", side_role="s", dir_end="dst",
         partial=None, degree=5, cluster_shape="2d", undirected_sides=False, ep_order=None, name="mesh"):
    """m x n auto-connected router array; a cluster endpoint (array) on the local ports (all or `partial`
    = list of (i,j)); one endpoint array per boundary side in `sides` (subset of W,E,S,N)."""
    d = header(name, nw, algo)
    alloc = Alloc(rng)
    eps, conns = [], []

    def connect(epname, sel_ep, rt_sel, direction):
        c = {}
        if dir_end == "dst":
            c["src"], c["dst"] = epname, "router"
            c.update({("src_" + k): v for k, v in sel_ep.items()})
            c.update({("dst_" + k): v for k, v in rt_sel.items()})
            if direction is not None:
                c["dst_dir"] = direction
        else:
            c["src"], c["dst"] = "router", epname
            c.update({("dst_" + k): v for k, v in sel_ep.items()})
            c.update({("src_" + k): v for k, v in rt_sel.items()})
            if direction is not None:
                c["src_dir"] = direction
        return c

    if partial is None:
        eps.append(mk_ep("cluster", cluster_role, nw, rng, alloc, array=[m, n]))
        conns.append(connect("cluster", {"range": [[0, m - 1], [0, n - 1]]}, {"range": [[0, m - 1], [0, n - 1]]},
                             "Eject" if (algo == "XY" or rng.random() < 0.7) else None))
    else:
        for q, (i, j) in enumerate(partial):
            nm = f"core{q}"
            eps.append(mk_ep(nm, cluster_role if q else "ms", nw, rng, alloc))
            conns.append(connect(nm, {}, {"idx": [i, j]}, "Eject" if (algo == "XY" or rng.random() < 0.7) else None))
    for sd in sides:
        cnt = n if sd in "WE" else m
        nm = {"W": "west", "E": "east", "S": "south", "N": "north"}[sd]
        eps.append(mk_ep(nm, side_role, nw, rng, alloc, array=[cnt]))
        rsel = {"W": [[0, 0], [0, n - 1]], "E": [[m - 1, m - 1], [0, n - 1]],
                "S": [[0, m - 1], [0, 0]], "N": [[0, m - 1], [n - 1, n - 1]]}[sd]
        direction = {"W": "West", "E": "East", "S": "South", "N": "North"}[sd]
        if undirected_sides and algo != "XY":
            direction = None
        conns.append(connect(nm, {"range": [[0, cnt - 1]]}, {"range": rsel}, direction))
    if ep_order is not None:
        eps = [eps[i] for i in ep_order]
    d["endpoints"] = eps
    rt = {"name": "router", "array": [m, n]}
    if degree is not None:
        rt["degree"] = degree
    d["routers"] = [rt]
    d["connections"] = conns
    # roles: make sure somebody can talk
    if not any("mgr_port_protocol" in e for e in eps) or not any("sbr_port_protocol" in e for e in eps):
        return None, None
    tags = {"topo": "mesh", "m": m, "n": n, "sides": "".join(sides), "algo": algo, "dir_end": dir_end,
            "partial": partial is not None}
    return d, tags


# ---------------------------------------------------------------------------------------------- tree
def tree(rng, levels=(1, 2), algo="ID", nw=False, leaves_per_router=1, root_eps=1, roles=None):
    d = header("tree", nw, algo)
    alloc = Alloc(rng)
    depth = len(levels)
    nleaf_rt = 1
    for x in levels:
        nleaf_rt *= x
    eps, conns = [], []
    total = nleaf_rt * leaves_per_router
    role = (roles or ["ms"])[0]
    if total > 1:
        eps.append(mk_ep("leaf", role, nw, rng, alloc, array=[total]))
        conns.append({"src": "leaf", "dst": "router", "src_range": [[0, total - 1]], "dst_lvl": depth - 1,
                      "allow_multi": True})
    else:
        eps.append(mk_ep("leaf", role, nw, rng, alloc))
        conns.append({"src": "leaf", "dst": "router", "dst_lvl": depth - 1})
    for q in range(root_eps):
        r = (roles or ["ms", "s", "m"])[(q + 1) % len(roles or ["ms", "s", "m"])]
        nm = f"top{q}"
        eps.append(mk_ep(nm, r, nw, rng, alloc))
        if levels[0] == 1:
            conns.append({"src": "router", "dst": nm, "src_lvl": 0} if rng.random() < 0.5 else
                         {"src": nm, "dst": "router", "dst_lvl": 0})
        else:
            conns.append({"src": nm, "dst": "router", "dst_idx": [0]})
    if not any("mgr_port_protocol" in e for e in eps) or not any("sbr_port_protocol" in e for e in eps):
        eps[0] = mk_ep("leaf", "ms", nw, rng, alloc, array=[total] if total > 1 else None)
    d["endpoints"] = eps
    d["routers"] = [{"name": "router", "tree": list(levels)}]
    d["connections"] = conns
    return d, {"topo": "tree", "levels": list(levels), "leaves": total}


# ---------------------------------------------------------------------------------------------- custom
def custom(rng, nr=3, algo="ID", nw=False, extra_edges=0, eps_per=1, degrees=None, shuffle=True):
    """nr single routers joined into a random connected graph by explicit router-router connections,
    endpoints attached to random routers; optionally shuffled declaration orders."""
    d = header("custom", nw, algo)
    alloc = Alloc(rng)
    rts = [f"rt{chr(97 + i)}" for i in range(nr)]
    edges = set()
    for i in range(1, nr):
        edges.add((rng.randrange(i), i))
    cand = [(a, b) for a in range(nr) for b in range(a + 1, nr) if (a, b) not in edges]
    rng.shuffle(cand)
    for e in cand[:extra_edges]:
        edges.add(e)
    eps, conns = [], []
    q = 0
    roles = []
    for i in range(nr):
        for _ in range(eps_per if i else max(1, eps_per)):
            roles.append(rng.choice(["m", "s", "ms", "ms"]))
    roles = ensure_roles(roles, rng)
    if nw:
        roles[0] = "ms"
    ri = 0
    for i in range(nr):
        for _ in range(eps_per if i else max(1, eps_per)):
            nm = f"ep{q}"
            eps.append(mk_ep(nm, roles[ri], nw, rng, alloc))
            conns.append({"src": nm, "dst": rts[i]} if rng.random() < 0.6 else {"src": rts[i], "dst": nm})
            q += 1
            ri += 1
    for a, b in sorted(edges):
        conns.append({"src": rts[a], "dst": rts[b]} if rng.random() < 0.5 else {"src": rts[b], "dst": rts[a]})
    rdesc = [{"name": r} for r in rts]
    if shuffle:
        rng.shuffle(eps)
        rng.shuffle(conns)
        rng.shuffle(rdesc)
    d["endpoints"], d["routers"], d["connections"] = eps, rdesc, conns
    return d, {"topo": "custom", "routers": nr, "edges": len(edges), "eps": q}


def mesh_plus(rng, m=2, n=2, algo="SRC", nw=False):
    """mesh plus an extra single router with a different port count, linked router-router"""
    d, tags = mesh(rng, m, n, algo=algo, nw=nw, sides=(), name="meshplus")
    alloc = Alloc(rng, start=0x8000_0000)
    extra = rng.randint(1, 3)
    d["routers"].append({"name": "hub"})
    d["connections"].append({"src": "hub", "dst": "router", "dst_idx": [0, 0], "dst_dir": "West"})
    for q in range(extra):
        nm = f"io{q}"
        d["endpoints"].append(mk_ep(nm, rng.choice(["s", "ms", "m"]), nw, rng, alloc))
        d["connections"].append({"src": nm, "dst": "hub"})
    tags = dict(tags, topo="mesh_plus", extra=extra)
    return d, tags


# ---------------------------------------------------------------------------------------------- suites
def routing_suite(tier, seed, algos=("ID", "SRC", "XY"), want=None):
    """the shared family mix for the netlist properties; returns list of (desc, tags)"""
    rng = random.Random(seed)
    out = []
    q = tier == "quick"
    # stars: all permutations of endpoint and connection order for k = 3 (and 4 in thorough)
    for algo in [a for a in algos if a != "XY"]:
        for k in ([3] if q else [3, 4]):
            perms = list(itertools.permutations(range(k)))
            for po in perms:
                for pc in (perms if (k == 3 or not q) else perms[:6]):
                    nw = rng.random() < 0.3
                    out.append(star(rng, k, algo, nw, order=list(po), conn_order=list(pc)))
        for _ in range(20 if q else 120):
            k = rng.randint(2, 5)
            shapes = [rng.choice([None, None, 2, 3, [2, 2], [1, 3], [2, 1], [1]]) for _ in range(k)]
            out.append(star(rng, k, algo, rng.random() < 0.4, shapes=shapes,
                            nranges=[rng.choice([1, 1, 2, 3]) for _ in range(k)],
                            order=rng.sample(range(k), k), conn_order=rng.sample(range(k), k)))
        # trees
        for levels in ([(1, 2), (1, 3), (2, 2), (1, 2, 2)] if q else
                       [lv for dpt in (1, 2, 3) for lv in itertools.product((1, 2, 3), repeat=dpt)]):
            for lp in (1, 2):
                out.append(tree(rng, levels, algo, rng.random() < 0.3, leaves_per_router=lp,
                                root_eps=rng.randint(0, 2), roles=rng.choice([["ms"], ["ms", "s", "m"], ["s", "m", "ms"]])))
        # custom graphs
        for _ in range(30 if q else 300):
            nr = rng.randint(2, 6)
            out.append(custom(rng, nr, algo, rng.random() < 0.3, extra_edges=rng.randint(0, 3), eps_per=rng.randint(1, 2)))
        for _ in range(6 if q else 40):
            out.append(mesh_plus(rng, rng.randint(1, 3), rng.randint(1, 3), algo, rng.random() < 0.3))
    # meshes
    side_sets = [(), ("W",), ("E",), ("S",), ("N",), ("W", "E"), ("S", "N"), ("W", "S"), ("W", "E", "S", "N")]
    mx = 3 if q else 4
    for algo in algos:
        for m in range(1, mx + 1):
            for n in range(1, mx + 1):
                for sides in (side_sets if not q else rng.sample(side_sets, 4)):
                    for dir_end in (("dst", "src") if not q else (rng.choice(["dst", "src"]),)):
                        out.append(mesh(rng, m, n, algo, rng.random() < 0.3, sides=sides, dir_end=dir_end,
                                        cluster_role=rng.choice(["ms", "ms", "m", "s"]),
                                        side_role=rng.choice(["s", "s", "ms", "m"]),
                                        undirected_sides=rng.random() < 0.3))
        for _ in range(10 if q else 80):
            m, n = rng.randint(2, mx), rng.randint(2, mx)
            cells = [(i, j) for i in range(m) for j in range(n)]
            part = rng.sample(cells, rng.randint(2, min(4, len(cells))))
            sides = rng.choice(side_sets[:6])
            out.append(mesh(rng, m, n, algo, rng.random() < 0.3, sides=sides, partial=part,
                            cluster_role=rng.choice(["ms", "m", "s"]), side_role=rng.choice(["s", "ms"])))
    return [(d, t) for d, t in out if d is not None]
