"""Seeded generators of floogen descriptions (YAML-level dicts): star, mesh, mesh_plus, tree, custom.
Every random choice derives from the random.Random passed in.  Each generator returns
(desc, tags) where tags describe what the case exercises (printed into the evidence)."""
import itertools
import json
import random

DIRS = ["North", "East", "South", "West", "Eject"]


def protocols(nw, aw=48, ids=(4, 2, 3, 1)):
    if nw:
        return [
            {"name": "narrow_in", "type": "narrow", "protocol": "AXI4", "data_width": 64, "addr_width": aw,
             "id_width": ids[0], "user_width": 1},
            {"name": "narrow_out", "type": "narrow", "protocol": "AXI4", "data_width": 64, "addr_width": aw,
             "id_width": ids[1], "user_width": 1},
            {"name": "wide_in", "type": "wide", "protocol": "AXI4", "data_width": 512, "addr_width": aw,
             "id_width": ids[2], "user_width": 1},
            {"name": "wide_out", "type": "wide", "protocol": "AXI4", "data_width": 512, "addr_width": aw,
             "id_width": ids[3], "user_width": 1},
        ]
    return [
        {"name": "axi_in", "protocol": "AXI4", "data_width": 64, "addr_width": aw, "id_width": ids[0],
         "user_width": 1, "type_prefix": None},
        {"name": "axi_out", "protocol": "AXI4", "data_width": 64, "addr_width": aw, "id_width": ids[1],
         "user_width": 1, "type_prefix": None},
    ]


class Alloc:
    """hands out address ranges; layouts: touching / gaps / descending handled by the callers"""

    def __init__(self, rng, aw=48, start=0):
        self.rng, self.aw, self.pos = rng, aw, start

    def take(self, size, gap=0):
        self.pos += gap
        s = self.pos
        self.pos += size
        return s


def mk_ep(name, role, nw, rng, alloc, array=None, nranges=1, style=None, gap=None, proto_sel="both", desc_tag=False,
          proto_sel_sbr=None):
    """role in m, s, ms.  style: how the range is written (base+size | start+end | start+size)."""
    ep = {"name": name}
    if array is not None:
        ep["array"] = array
    num = 1
    if array is not None:
        num = array if isinstance(array, int) else (array[0] if len(array) == 1 else array[0] * array[1])
    if "s" in role:
        rs = []
        for j in range(nranges):
            # sizes need not be powers of two or even: odd sizes give odd (exclusive) end addresses
            size = rng.choice([0x1000, 0x10000, 0x40, 0x400000, 0x1000, 0x10000, 0xFFF, 0x1001, 3])
            g = rng.choice([0, 0, size, 0x100000]) if gap is None else gap
            if array is not None:
                base = alloc.take(size * num, g)
                r = {"base": base, "size": size}
                # an `idx` written next to base/size of an ARRAY is legal and overwritten per element (element k owns
                # slot k whatever the description says)
                if rng.random() < 0.2:
                    r["idx"] = rng.choice([1, 2, 5])
            else:
                st = rng.choice(["bs", "se", "ss"]) if style is None else style
                base = alloc.take(size, g)
                r = {"bs": {"base": base, "size": size}, "se": {"start": base, "end": base + size},
                     "ss": {"start": base, "size": size}}[st]
                # a single endpoint written as slot k of a base/size grid: the range is base + k*size
                if st == "bs" and rng.random() < 0.3:
                    k = rng.choice([1, 2, 3])
                    if base >= k * size:
                        r = {"base": base - k * size, "size": size, "idx": k}
            if desc_tag and nranges > 1 and rng.random() < 0.5:
                r["desc"] = f"w{j}"
            rs.append(r)
        ep["addr_range"] = rs[0] if (nranges == 1 and rng.random() < 0.5) else rs
    if role == "m" and rng.random() < 0.15:
        # a manager-only endpoint may declare a range: accepted, and absent from the address map (no rule, no count)
        size = rng.choice([0x1000, 0x40])
        base = alloc.take(size * num, 0)
        ep["addr_range"] = {"base": base, "size": size} if array is not None else {"start": base, "end": base + size}
    if nw:
        pin = {"both": ["narrow_in", "wide_in"], "narrow": ["narrow_in"], "wide": ["wide_in"]}[proto_sel]
        # the manager and the subordinate side choose narrow / wide independently (a DMA: wide manager, narrow subordinate)
        pout = {"both": ["narrow_out", "wide_out"], "narrow": ["narrow_out"], "wide": ["wide_out"]}[proto_sel_sbr or proto_sel]
    else:
        pin, pout = ["axi_in"], ["axi_out"]
    if "m" in role:
        ep["mgr_port_protocol"] = pin
    if "s" in role:
        ep["sbr_port_protocol"] = pout
    return ep


def header(name, nw, algo, aw=48):
    return {"name": name, "description": "generated", "network_type": "narrow-wide" if nw else "axi",
            "routing": {"route_algo": algo, "use_id_table": True}, "protocols": protocols(nw, aw),
            "endpoints": [], "routers": [], "connections": []}


def ensure_roles(roles, rng):
    """at least one manager-capable and one subordinate-capable endpoint (else nothing can talk and the
    templates have no input/output protocol to name)"""
    if not any("m" in r for r in roles):
        roles[rng.randrange(len(roles))] = "ms"
    if not any("s" in r for r in roles):
        roles[rng.randrange(len(roles))] = "ms"
    return roles


def nw_cover(eps_sel, rng):
    """narrow-wide: make sure all four protocol directions are used somewhere (first ms endpoint)"""
    return eps_sel


# ---------------------------------------------------------------------------------------------- star
def star(rng, k=3, algo="ID", nw=False, roles=None, order=None, conn_order=None, shapes=None, nranges=None,
         directed=None, router_first=None, descending=False):
    d = header("star", nw, algo)
    roles = ensure_roles(list(roles or [rng.choice(["m", "s", "ms", "ms"]) for _ in range(k)]), rng)
    if nw and not any(r == "ms" for r in roles):
        roles[0] = "ms"
    names = [f"ep{chr(97 + i)}" for i in range(k)]
    alloc = Alloc(rng)
    eps = []
    for i, (nm, role) in enumerate(zip(names, roles)):
        shp = (shapes or [None] * k)[i]
        nr = (nranges or [1] * k)[i]
        eps.append(mk_ep(nm, role, nw, rng, alloc, array=shp, nranges=nr, proto_sel="both"))
    if descending:
        # declare the ranges in descending address order: reverse the endpoints' range assignment
        rs = [e["addr_range"] for e in eps if "addr_range" in e]
        it = iter(reversed(rs))
        for e in eps:
            if "addr_range" in e and e.get("array") is None:
                pass
    order = order or list(range(k))
    d["endpoints"] = [eps[i] for i in order]
    d["routers"] = [{"name": "router"}]
    conns = []
    ndirs = 0
    for i, nm in enumerate(names):
        shp = (shapes or [None] * k)[i]
        c = {}
        rf = rng.random() < 0.3 if router_first is None else router_first
        a, b = ("router", nm) if rf else (nm, "router")
        c["src"], c["dst"] = a, b
        side = "dst" if rf else "src"
        if shp is not None:
            dims = [shp] if isinstance(shp, int) else list(shp)
            c[side + "_range"] = [[0, x - 1] for x in dims]
            c["allow_multi"] = True
        conns.append(c)
    co = conn_order or list(range(k))
    d["connections"] = [conns[i] for i in co]
    tags = {"topo": "star", "k": k, "roles": "".join(sorted(set(roles))), "perm_ep": order != sorted(order),
            "perm_conn": co != sorted(co), "arrays": sum(1 for s in (shapes or []) if s is not None)}
    return d, tags


# ---------------------------------------------------------------------------------------------- mesh
def mesh(rng, m=2, n=2, algo="XY", nw=False, sides=(), cluster_role="ms", side_role="s", dir_end="dst",
         partial=None, degree=5, cluster_shape="2d", undirected_sides=False, ep_order=None, name="mesh",
         force_dir=False, nranges=1, side_nranges=1):
    """m x n auto-connected router array; a cluster endpoint (array) on the local ports (all or `partial`
    = list of (i,j)); one endpoint array per boundary side in `sides` (subset of W,E,S,N)."""
    d = header(name, nw, algo)
    alloc = Alloc(rng)
    eps, conns = [], []

    def connect(epname, sel_ep, rt_sel, direction):
        c = {}
        if dir_end == "dst":
            c["src"], c["dst"] = epname, "router"
            c.update({("src_" + k): v for k, v in sel_ep.items()})
            c.update({("dst_" + k): v for k, v in rt_sel.items()})
            if direction is not None:
                c["dst_dir"] = direction
        else:
            c["src"], c["dst"] = "router", epname
            c.update({("dst_" + k): v for k, v in sel_ep.items()})
            c.update({("src_" + k): v for k, v in rt_sel.items()})
            if direction is not None:
                c["src_dir"] = direction
        return c

    if partial is None:
        eps.append(mk_ep("cluster", cluster_role, nw, rng, alloc, array=[m, n], nranges=nranges))
        conns.append(connect("cluster", {"range": [[0, m - 1], [0, n - 1]]}, {"range": [[0, m - 1], [0, n - 1]]},
                             "Eject" if (algo == "XY" or force_dir or rng.random() < 0.7) else None))
    else:
        for q, (i, j) in enumerate(partial):
            nm = f"core{q}"
            eps.append(mk_ep(nm, cluster_role if q else "ms", nw, rng, alloc))
            conns.append(connect(nm, {}, {"idx": [i, j]},
                                 "Eject" if (algo == "XY" or force_dir or rng.random() < 0.7) else None))
    for sd in sides:
        cnt = n if sd in "WE" else m
        nm = {"W": "west", "E": "east", "S": "south", "N": "north"}[sd]
        eps.append(mk_ep(nm, side_role if isinstance(side_role, str) else side_role[sd], nw, rng, alloc,
                         array=[cnt], nranges=side_nranges))
        rsel = {"W": [[0, 0], [0, n - 1]], "E": [[m - 1, m - 1], [0, n - 1]],
                "S": [[0, m - 1], [0, 0]], "N": [[0, m - 1], [n - 1, n - 1]]}[sd]
        direction = {"W": "West", "E": "East", "S": "South", "N": "North"}[sd]
        if undirected_sides and algo != "XY":
            direction = None
        conns.append(connect(nm, {"range": [[0, cnt - 1]]}, {"range": rsel}, direction))
    if ep_order is not None:
        eps = [eps[i] for i in ep_order]
    d["endpoints"] = eps
    rt = {"name": "router", "array": [m, n]}
    if degree is not None:
        rt["degree"] = degree
    d["routers"] = [rt]
    d["connections"] = conns
    # roles: make sure somebody can talk
    if not any("mgr_port_protocol" in e for e in eps) or not any("sbr_port_protocol" in e for e in eps):
        return None, None
    tags = {"topo": "mesh", "m": m, "n": n, "sides": "".join(sides), "algo": algo, "dir_end": dir_end,
            "partial": partial is not None}
    return d, tags


def mesh_mixed_sides(rng, m, n, algo="XY", nw=False, k=2, role="s", dir_end="dst"):
    """m x n mesh with the clusters on the local ports and ONE endpoint array `edge[k]` whose elements sit on different
    boundary sides (element 0 West of router (0,0), 1 North of (0,n-1), 2 East of (m-1,n-1), 3 South of (m-1,0)), each
    attached by its own connection: the coordinate of an interface follows ITS link, not its descriptor's first one"""
    d, t = mesh(rng, m, n, algo, nw, sides=(), dir_end=dir_end, force_dir=True)
    if d is None:
        return None, None
    alloc = Alloc(rng, start=0x8000_0000)
    d["endpoints"].append(mk_ep("edge", role, nw, rng, alloc, array=[k]))
    spots = [([0, 0], "West"), ([0, n - 1], "North"), ([m - 1, n - 1], "East"), ([m - 1, 0], "South")]
    for i in range(k):
        idx, direction = spots[i]
        if dir_end == "dst":
            d["connections"].append({"src": "edge", "dst": "router", "src_idx": [i], "dst_idx": idx, "dst_dir": direction})
        else:
            d["connections"].append({"src": "router", "dst": "edge", "dst_idx": [i], "src_idx": idx, "src_dir": direction})
    return d, dict(t, topo="mesh", sides="mixed-array", k=k)


# ---------------------------------------------------------------------------------------------- tree
def tree(rng, levels=(1, 2), algo="ID", nw=False, leaves_per_router=1, root_eps=1, roles=None):
    d = header("tree", nw, algo)
    alloc = Alloc(rng)
    depth = len(levels)
    nleaf_rt = 1
    for x in levels:
        nleaf_rt *= x
    eps, conns = [], []
    total = nleaf_rt * leaves_per_router
    role = (roles or ["ms"])[0]
    if total > 1:
        eps.append(mk_ep("leaf", role, nw, rng, alloc, array=[total]))
        conns.append({"src": "leaf", "dst": "router", "src_range": [[0, total - 1]], "dst_lvl": depth - 1,
                      "allow_multi": True})
    else:
        eps.append(mk_ep("leaf", role, nw, rng, alloc))
        conns.append({"src": "leaf", "dst": "router", "dst_lvl": depth - 1})
    for q in range(root_eps):
        r = (roles or ["ms", "s", "m"])[(q + 1) % len(roles or ["ms", "s", "m"])]
        nm = f"top{q}"
        eps.append(mk_ep(nm, r, nw, rng, alloc))
        if levels[0] == 1:
            conns.append({"src": "router", "dst": nm, "src_lvl": 0} if rng.random() < 0.5 else
                         {"src": nm, "dst": "router", "dst_lvl": 0})
        else:
            conns.append({"src": nm, "dst": "router", "dst_idx": [0]})
    if not any("mgr_port_protocol" in e for e in eps) or not any("sbr_port_protocol" in e for e in eps):
        eps[0] = mk_ep("leaf", "ms", nw, rng, alloc, array=[total] if total > 1 else None)
    d["endpoints"] = eps
    d["routers"] = [{"name": "router", "tree": list(levels)}]
    d["connections"] = conns
    return d, {"topo": "tree", "levels": list(levels), "leaves": total}


def tree_manual(rng, levels=(2, 2), algo="ID", nw=False):
    """a two-level router tree with auto_connect: false; the roots are chained, root i serves the leaves of group
    (i + 1) mod roots; one cluster per leaf, one memory on the first root"""
    roots, fan = levels
    d = header("treeman", nw, algo)
    alloc = Alloc(rng)
    total = roots * fan
    eps = [mk_ep("cluster", "ms", nw, rng, alloc, array=[total]), mk_ep("mem", rng.choice(["s", "ms"]), nw, rng, alloc)]
    conns = [{"src": "cluster", "dst": "rt", "src_range": [[0, total - 1]], "dst_lvl": 1},
             {"src": "mem", "dst": "rt", "dst_idx": [0]}]
    for i in range(roots - 1):
        conns.append({"src": "rt", "dst": "rt", "src_idx": [i], "dst_idx": [i + 1]})
    for i in range(roots):
        g = (i + 1) % roots
        conns.append({"src": "rt", "dst": "rt", "src_idx": [i], "dst_range": [[g, g], [0, fan - 1]], "allow_multi": True})
    d["endpoints"] = eps
    d["routers"] = [{"name": "rt", "tree": [roots, fan], "auto_connect": False}]
    d["connections"] = conns
    return d, {"topo": "tree-manual", "levels": [roots, fan]}


# ---------------------------------------------------------------------------------------------- custom
def custom(rng, nr=3, algo="ID", nw=False, extra_edges=0, eps_per=1, degrees=None, shuffle=True, carriers=None):
    """nr single routers joined into a random connected graph by explicit router-router connections,
    endpoints attached to random routers; optionally shuffled declaration orders.  `carriers`: the routers that carry
    endpoints (default all); the others are transit-only."""
    d = header("custom", nw, algo)
    alloc = Alloc(rng)
    rts = [f"rt{chr(97 + i)}" for i in range(nr)]
    edges = set()
    for i in range(1, nr):
        edges.add((rng.randrange(i), i))
    cand = [(a, b) for a in range(nr) for b in range(a + 1, nr) if (a, b) not in edges]
    rng.shuffle(cand)
    for e in cand[:extra_edges]:
        edges.add(e)
    eps, conns = [], []
    q = 0
    roles = []
    carriers = set(range(nr)) if carriers is None else set(carriers)
    for i in range(nr):
        if i not in carriers:
            continue
        for _ in range(eps_per if i else max(1, eps_per)):
            roles.append(rng.choice(["m", "s", "ms", "ms"]))
    roles = ensure_roles(roles, rng)
    if nw:
        roles[0] = "ms"
    ri = 0
    for i in range(nr):
        if i not in carriers:
            continue
        for _ in range(eps_per if i else max(1, eps_per)):
            nm = f"ep{q}"
            eps.append(mk_ep(nm, roles[ri], nw, rng, alloc))
            conns.append({"src": nm, "dst": rts[i]} if rng.random() < 0.6 else {"src": rts[i], "dst": nm})
            q += 1
            ri += 1
    for a, b in sorted(edges):
        conns.append({"src": rts[a], "dst": rts[b]} if rng.random() < 0.5 else {"src": rts[b], "dst": rts[a]})
    rdesc = [{"name": r} for r in rts]
    if shuffle:
        rng.shuffle(eps)
        rng.shuffle(conns)
        rng.shuffle(rdesc)
    d["endpoints"], d["routers"], d["connections"] = eps, rdesc, conns
    return d, {"topo": "custom", "routers": nr, "edges": len(edges), "eps": q}


def mesh_plus(rng, m=2, n=2, algo="SRC", nw=False):
    """mesh plus an extra single router with a different port count, linked router-router"""
    d, tags = mesh(rng, m, n, algo=algo, nw=nw, sides=(), name="meshplus")
    alloc = Alloc(rng, start=0x8000_0000)
    extra = rng.randint(1, 3)
    d["routers"].append({"name": "hub"})
    d["connections"].append({"src": "hub", "dst": "router", "dst_idx": [0, 0], "dst_dir": "West"})
    for q in range(extra):
        nm = f"io{q}"
        d["endpoints"].append(mk_ep(nm, rng.choice(["s", "ms", "m"]), nw, rng, alloc))
        d["connections"].append({"src": nm, "dst": "hub"})
    tags = dict(tags, topo="mesh_plus", extra=extra)
    return d, tags


# ---------------------------------------------------------------------------------------------- suites
def routing_suite(tier, seed, algos=("ID", "SRC", "XY"), want=None):
    """the shared family mix for the netlist properties; returns list of (desc, tags)"""
    rng = random.Random(seed)
    out = []
    q = tier == "quick"
    # stars: all permutations of endpoint and connection order for k = 3 (and 4 in thorough)
    for algo in [a for a in algos if a != "XY"]:
        for k in ([3] if q else [3, 4]):
            perms = list(itertools.permutations(range(k)))
            for po in perms:
                for pc in (perms if (k == 3 or not q) else perms[:6]):
                    nw = rng.random() < 0.3
                    out.append(star(rng, k, algo, nw, order=list(po), conn_order=list(pc)))
        for _ in range(20 if q else 120):
            k = rng.randint(2, 5)
            shapes = [rng.choice([None, None, 2, 3, [2, 2], [1, 3], [2, 1], [1]]) for _ in range(k)]
            out.append(star(rng, k, algo, rng.random() < 0.4, shapes=shapes,
                            nranges=[rng.choice([1, 1, 2, 3]) for _ in range(k)],
                            order=rng.sample(range(k), k), conn_order=rng.sample(range(k), k)))
        # trees
        for levels in ([(1, 2), (1, 3), (2, 2), (1, 2, 2)] if q else
                       [lv for dpt in (1, 2, 3) for lv in itertools.product((1, 2, 3), repeat=dpt)]):
            # leaves per router 4 and 8 give leaf routers a wider port-select field than the routers above them (a
            # route word whose fields are sized per network instead of per router shows there)
            for lp in ((1, 2, 4, 8) if len(levels) == 2 and levels[0] == 1 else (1, 2) if q else (1, 2, 4)):
                out.append(tree(rng, levels, algo, rng.random() < 0.3, leaves_per_router=lp,
                                root_eps=rng.randint(0, 2), roles=rng.choice([["ms"], ["ms", "s", "m"], ["s", "m", "ms"]])))
        # router trees that are NOT auto-connected, wired by hand and crosswise (root 0 serves the leaves of group 1 and
        # vice versa): no parent-child link may appear that the description does not write
        for levels in ([(2, 2)] if q else [(2, 2), (2, 3), (3, 2)]):
            out.append(tree_manual(rng, levels, algo, rng.random() < 0.3))
        # custom graphs
        for _ in range(30 if q else 300):
            nr = rng.randint(2, 6)
            out.append(custom(rng, nr, algo, rng.random() < 0.3, extra_edges=rng.randint(0, 3), eps_per=rng.randint(1, 2)))
        for _ in range(6 if q else 40):
            out.append(mesh_plus(rng, rng.randint(1, 3), rng.randint(1, 3), algo, rng.random() < 0.3))
    # meshes
    side_sets = [(), ("W",), ("E",), ("S",), ("N",), ("W", "E"), ("S", "N"), ("W", "S"), ("W", "E", "S", "N")]
    mx = 3 if q else 4
    for algo in algos:
        for m in range(1, mx + 1):
            for n in range(1, mx + 1):
                for sides in (side_sets if not q else rng.sample(side_sets, 4)):
                    for dir_end in (("dst", "src") if not q else (rng.choice(["dst", "src"]),)):
                        out.append(mesh(rng, m, n, algo, rng.random() < 0.3, sides=sides, dir_end=dir_end,
                                        cluster_role=rng.choice(["ms", "ms", "m", "s"]),
                                        side_role=rng.choice(["s", "s", "ms", "m"]),
                                        undirected_sides=rng.random() < 0.3))
        for _ in range(10 if q else 80):
            m, n = rng.randint(2, mx), rng.randint(2, mx)
            cells = [(i, j) for i in range(m) for j in range(n)]
            part = rng.sample(cells, rng.randint(2, min(4, len(cells))))
            sides = rng.choice(side_sets[:6])
            out.append(mesh(rng, m, n, algo, rng.random() < 0.3, sides=sides, partial=part,
                            cluster_role=rng.choice(["ms", "m", "s"]), side_role=rng.choice(["s", "ms"])))
        # a router row that is NOT auto-connected, chained by one explicit range connection without directions: the two
        # links of every pair must still sit on one port index at either end
        if algo == "XY" or not q:
            for m in ((3,) if q else (3, 4)):
                dd, tt = mesh(rng, m, 1, algo, False, force_dir=True)
                if dd is not None:
                    dd = json.loads(json.dumps(dd))
                    dd["routers"][0]["auto_connect"] = False
                    dd["connections"].append({"src": "router", "dst": "router", "src_range": [[0, m - 2], [0, 0]],
                                              "dst_range": [[1, m - 1], [0, 0]]})
                    out.append((dd, dict(tt, topo="row-by-hand")))
        # derived routing fields written by the user (the generator derives them anyway: a given value must not survive
        # into counts, widths or the configuration record)
        for _ in range(2 if q else 6):
            if algo == "XY":
                dd, tt = mesh(rng, 2, 2, algo, rng.random() < 0.3, sides=("W",))
            else:
                k = rng.randint(3, 5)
                dd, tt = star(rng, k, algo, rng.random() < 0.3, order=rng.sample(range(k), k), conn_order=rng.sample(range(k), k))
            if dd is not None:
                dd = json.loads(json.dumps(dd))
                dd["routing"].update({"num_endpoints": 8 + rng.randint(0, 9), "num_id_bits": 6, "num_x_bits": 4, "num_y_bits": 3,
                                      "num_route_bits": 31, "addr_offset_bits": 20})
                out.append((dd, dict(tt, topo="explicit-routing-fields")))
        # routers of degree 4: no local port at all, every endpoint on a boundary port (port-count parameters and
        # select widths below the five compass ports)
        for (m, n, sides) in ([(2, 2, ("W", "E")), (2, 1, ("S", "N"))] if q else
                              [(2, 2, ("W", "E")), (2, 1, ("S", "N")), (3, 2, ("W", "E", "S")), (1, 2, ("W", "E"))]):
            out.append(mesh(rng, m, n, algo, rng.random() < 0.3, sides=sides, partial=[], degree=4,
                            side_role={"W": "ms", "E": "s", "S": "ms", "N": "ms"}))
        # routers with SPARE ports (a degree above what the links need): the spare ports stay unused, port numbers,
        # select widths and table / route entries are those of the declared degree
        if algo != "XY":
            for extra in ((2,) if q else (1, 2, 4)):
                k = rng.randint(3, 4)
                dd, tt = star(rng, k, algo, rng.random() < 0.3, order=rng.sample(range(k), k), conn_order=rng.sample(range(k), k))
                if dd is not None:
                    dd = json.loads(json.dumps(dd))
                    n_links = sum(int(e.get("num", 1)) if not isinstance(e.get("array"), list) else
                                  (e["array"][0] * (e["array"][1] if len(e["array"]) > 1 else 1)) for e in dd["endpoints"])
                    dd["routers"][0]["degree"] = n_links + extra
                    out.append((dd, dict(tt, topo="star-spare-ports", spare=extra)))
        for deg in ((6,) if q else (6, 7)):
            dd, tt = mesh(rng, 2, 2, algo, rng.random() < 0.3, sides=rng.choice([(), ("W",), ("W", "N")]))
            if dd is not None:
                dd = json.loads(json.dumps(dd))
                dd["routers"][0]["degree"] = deg
                out.append((dd, dict(tt, topo="mesh-spare-ports", degree=deg)))
    return [(d, t) for d, t in out if d is not None]


# ---------------------------------------------------------------------------------------------- address layouts (C01)
def _addr_star(rng, algo, nw, aw, eps):
    d = header("addr", nw, algo, aw)
    d["endpoints"] = eps
    d["routers"] = [{"name": "router"}]
    d["connections"] = []
    for e in eps:
        c = {"src": e["name"], "dst": "router"}
        if e.get("array") is not None:
            a = e["array"]
            dims = [a] if isinstance(a, int) else list(a)
            c["src_range"] = [[0, x - 1] for x in dims]
            c["allow_multi"] = True
        d["connections"].append(c)
    return d


def _roles(nw, role):
    if nw:
        m, s = ["narrow_in", "wide_in"], ["narrow_out", "wide_out"]
    else:
        m, s = ["axi_in"], ["axi_out"]
    out = {}
    if "m" in role:
        out["mgr_port_protocol"] = m
    if "s" in role:
        out["sbr_port_protocol"] = s
    return out


def address_suite(tier, seed):
    """layouts the C01 quantifier names: ranges ending at 2^addr_width, touching, descending declaration
    order, manager-only interleaved, multi-range; and overlapping descriptions that must be rejected."""
    rng = random.Random(seed + 17)
    out = []
    for algo in ("ID", "SRC"):
        for nw in (False, True):
            for aw in ((32, 48) if tier == "quick" else (16, 32, 40, 48, 64)):
                top = 2 ** aw
                size = 0x1000 if aw > 16 else 0x100
                # last element of an array / a single range ends exactly at 2^aw
                eps = [dict(name="cpu", **_roles(nw, "ms"), addr_range={"start": 0, "end": size}),
                       dict(name="io", **_roles(nw, "m")),
                       dict(name="dram", array=[2], **_roles(nw, "s"), addr_range={"base": top - 2 * size, "size": size}),
                       ]
                out.append((_addr_star(rng, algo, nw, aw, eps), {"topo": "star", "layout": "array-ends-at-top", "aw": aw}))
                # an array below the top whose range is written with an `idx` (overwritten per element): valid as long as
                # element num-1 ends within 2^aw, whatever the written idx would add
                eps = [dict(name="cpu", **_roles(nw, "ms"), addr_range={"start": 0, "end": size}),
                       dict(name="dram", array=[4], **_roles(nw, "s"), addr_range={"base": top - 5 * size, "size": size, "idx": 3})]
                out.append((_addr_star(rng, algo, nw, aw, eps), {"topo": "star", "layout": "array-with-idx-near-top", "aw": aw}))
                eps = [dict(name="hi", **_roles(nw, "ms"), addr_range={"start": top - size, "end": top}),
                       dict(name="mid", **_roles(nw, "m")),
                       dict(name="lo", **_roles(nw, "s"), addr_range=[{"start": 4 * size, "size": size, "desc": "b"},
                                                                       {"start": 0, "end": size, "desc": "a"}])]
                out.append((_addr_star(rng, algo, nw, aw, eps), {"topo": "star", "layout": "range-ends-at-top-descending", "aw": aw}))
            # touching ranges, descending declaration order, 2-D arrays
            size = 0x10000
            eps = [dict(name="c", array=[2, 2], **_roles(nw, "ms"), addr_range={"base": 8 * size, "size": size}),
                   dict(name="m0", **_roles(nw, "m")),
                   dict(name="b", **_roles(nw, "s"), addr_range={"start": 4 * size, "end": 8 * size}),
                   dict(name="a", array=[4], **_roles(nw, "s"), addr_range=[{"base": 0, "size": size // 2},
                                                                           {"base": 2 * size, "size": size // 2}])]
            out.append((_addr_star(rng, algo, nw, 48, eps), {"topo": "star", "layout": "touching-descending-multi"}))
    # ranges that meet at an odd address, written as start/end: the end bound is exclusive whatever its parity
    for algo in ("ID", "SRC"):
        eps = [dict(name="lo", **_roles(False, "ms"), addr_range={"start": 0, "end": 0xFFF}),
               dict(name="io", **_roles(False, "m")),
               dict(name="hi", **_roles(False, "s"), addr_range=[{"start": 0xFFF, "end": 0x2001}, {"start": 0x9000, "end": 0x9001, "desc": "one"}])]
        out.append((_addr_star(rng, algo, False, 32, eps), {"topo": "star", "layout": "odd-ends-touching"}))
    # overlapping descriptions: every pair (window, nested / partial / identical / one byte), both declaration orders
    size = 0x1000
    shapes = {
        "nested": ({"start": 0, "end": 16 * size}, {"start": 4 * size, "end": 5 * size}),
        "partial": ({"start": 0, "end": 4 * size}, {"start": 3 * size, "end": 6 * size}),
        "identical": ({"start": size, "end": 2 * size}, {"start": size, "end": 2 * size}),
        "one-byte": ({"start": 0, "end": size + 1}, {"start": size, "end": 2 * size}),
        "same-start": ({"start": 0, "end": 4 * size}, {"start": 0, "end": size}),
        "same-end": ({"start": 0, "end": 4 * size}, {"start": 3 * size, "end": 4 * size}),
        "array-into-single": ({"start": 3 * size, "end": 4 * size}, None),
    }
    for algo in ("ID", "SRC", "XY"):
        for kind, (r1, r2) in shapes.items():
            for order in (0, 1):
                for where in ("two-endpoints", "same-endpoint"):
                    nw = rng.random() < 0.3
                    if r2 is None:
                        if where == "same-endpoint":
                            continue
                        e1 = dict(name="win", **_roles(nw, "s"), addr_range=r1)
                        e2 = dict(name="arr", array=[4], **_roles(nw, "ms"), addr_range={"base": 0, "size": size})
                        eps = [e1, e2] if order == 0 else [e2, e1]
                    elif where == "two-endpoints":
                        e1 = dict(name="win", **_roles(nw, "s"), addr_range=r1)
                        e2 = dict(name="inner", **_roles(nw, "ms"), addr_range=r2)
                        eps = [e1, e2] if order == 0 else [e2, e1]
                    else:
                        rr = [r1, r2] if order == 0 else [r2, r1]
                        eps = [dict(name="both", **_roles(nw, "s"), addr_range=rr), dict(name="cpu", **_roles(nw, "m"))]
                    eps.append(dict(name="far", **_roles(nw, "ms"), addr_range={"start": 64 * size, "size": size}))
                    if algo == "XY":
                        d, _ = mesh(rng, 2, 2, "XY", nw, partial=[(0, 0), (1, 1), (0, 1)][:len(eps)])
                        if d is None:
                            continue
                        for tgt, srcp in zip(d["endpoints"], eps):
                            for k in ("addr_range", "mgr_port_protocol", "sbr_port_protocol"):
                                tgt.pop(k, None)
                            tgt.update({k: v for k, v in srcp.items() if k not in ("name", "array")})
                        if any("array" in e for e in eps):
                            continue
                    else:
                        d = _addr_star(rng, algo, nw, 48, eps)
                    out.append((d, {"topo": "overlap", "layout": kind, "order": order, "where": where,
                                    "expect": "reject", "defect": "overlap-" + kind}))
    return out


# ---------------------------------------------------------------------------------------------- port conflicts (C05/C10)
def conflict_suite(tier, seed):
    """descriptions with two links on one router port: must be rejected; if a change makes floogen accept
    them the wiring checker still looks at what was emitted"""
    rng = random.Random(seed + 23)
    out = []
    for algo in ("XY", "ID", "SRC"):
        for nw in (False, True):
            # endpoint on the West port of router [1,0], which already carries the mesh link to [0,0]
            d, _ = mesh(rng, 2, 2, algo, nw)
            d["endpoints"].append(mk_ep("dup", "ms", nw, rng, Alloc(rng, start=0x4000_0000)))
            d["connections"].append({"src": "dup", "dst": "router", "dst_idx": [1, 0], "dst_dir": "West"})
            out.append((d, {"topo": "conflict", "defect": "port-taken-by-mesh-link", "expect": "reject"}))
            # second endpoint on an occupied Eject port
            d, _ = mesh(rng, 2, 2, algo, nw, force_dir=True)
            d["endpoints"].append(mk_ep("dup", "ms", nw, rng, Alloc(rng, start=0x4000_0000)))
            d["connections"].append({"src": "dup", "dst": "router", "dst_idx": [0, 1], "dst_dir": "Eject"})
            out.append((d, {"topo": "conflict", "defect": "port-taken-by-endpoint", "expect": "reject"}))
            # direction given on the router side (src_dir)
            d, _ = mesh(rng, 2, 2, algo, nw, dir_end="src", force_dir=True)
            d["endpoints"].append(mk_ep("dup", "ms", nw, rng, Alloc(rng, start=0x4000_0000)))
            d["connections"].append({"src": "router", "dst": "dup", "src_idx": [1, 1], "src_dir": "Eject"})
            out.append((d, {"topo": "conflict", "defect": "port-taken-src-dir", "expect": "reject"}))
        # XY, routers not auto-connected: an endpoint on the East port of router [0,0] gets coordinate (1,0),
        # the coordinate of the endpoint on the local port of router [1,0]: two endpoints, one identity
        for nw in (False, True):
            d, _ = mesh(rng, 2, 1, "XY", nw, force_dir=True)
            d["routers"][0]["auto_connect"] = False
            d["endpoints"].append(mk_ep("dup", "s", nw, rng, Alloc(rng, start=0x4000_0000)))
            d["connections"].append({"src": "dup", "dst": "router", "dst_idx": [0, 0], "dst_dir": "East"})
            out.append((d, {"topo": "conflict", "defect": "xy-same-coordinate", "expect": "reject"}))
        # the same through an endpoint's `xy_id_offset`: a boundary endpoint West of router [0,0] shifted by (+1, 0) lands
        # on (0,0), the identity of the endpoint on that router's local port (uniqueness is about the FINAL identities)
        for nw in (False, True):
            d, _ = mesh(rng, 2, 2, "XY", nw, force_dir=True)
            e = mk_ep("dup", "s", nw, rng, Alloc(rng, start=0x4000_0000))
            e["xy_id_offset"] = {"x": 1, "y": 0}
            d["endpoints"].append(e)
            d["connections"].append({"src": "dup", "dst": "router", "dst_idx": [0, 0], "dst_dir": "West"})
            out.append((d, {"topo": "conflict", "defect": "xy-same-coordinate", "expect": "reject", "via": "xy_id_offset"}))
    # a multi-connection between the leaves of a router tree and a router array whose counts do not divide (3:2, 5:3,
    # 4:3): nothing else catches it (every router stays reachable), so the count check itself must refuse it
    for algo in ("ID", "SRC"):
        for (a, b) in ((3, 2), (5, 3), (4, 3)):
            d = header("uneven", False, algo)
            alloc = Alloc(rng)
            d["endpoints"] = [mk_ep("core", "ms", False, rng, alloc, array=[a]), mk_ep("mem", "s", False, rng, alloc, array=[b])]
            d["routers"] = [{"name": "tr", "tree": [1, a]}, {"name": "hub", "array": [b, 1], "auto_connect": False}]
            d["connections"] = [{"src": "core", "dst": "tr", "src_range": [[0, a - 1]], "dst_lvl": 1},
                                {"src": "hub", "dst": "mem", "src_range": [[0, b - 1], [0, 0]], "dst_range": [[0, b - 1]]},
                                {"src": "tr", "dst": "hub", "src_lvl": 1, "dst_range": [[0, b - 1], [0, 0]], "allow_multi": True}]
            out.append((d, {"topo": "conflict", "defect": "multi-not-dividable-routers", "expect": "reject", "counts": [a, b]}))
    # an endpoint connected to TWO routers (its interface has one port only): whatever floogen does with it, an accepted
    # description must not declare link signals that lack their driver or reader
    for algo in ("ID", "SRC"):
        for nw in (False, True):
            d = header("twice", nw, algo)
            alloc = Alloc(rng)
            d["endpoints"] = [mk_ep("epa", "ms", nw, rng, alloc), mk_ep("epb", "ms", nw, rng, alloc)]
            d["routers"] = [{"name": "r1"}, {"name": "r2"}]
            d["connections"] = [{"src": "epa", "dst": "r1"}, {"src": "epb", "dst": "r2"}, {"src": "r1", "dst": "r2"},
                                {"src": "epa", "dst": "r2"}]
            out.append((d, {"topo": "double-attached", "via": "two single routers"}))
    for algo in ("XY", "ID", "SRC"):
        d, _ = mesh(rng, 2, 1, algo, False, force_dir=True)
        names = [e["name"] for e in d["endpoints"] if e.get("array") is None]
        if names:
            d["connections"].append({"src": names[0], "dst": "router", "dst_idx": [1, 0], "dst_dir": "North"})
            out.append((d, {"topo": "double-attached", "via": "second array router"}))
    # a ONE-WAY router-router connection (`bidirectional: false`) closing a chain of three routers into a ring: whatever
    # floogen does with it (today: not implemented, rejected), an accepted description must keep every port's inputs and
    # outputs on one neighbour
    for algo in ("ID", "SRC"):
        for nw in (False, True):
            d = header("oneway", nw, algo)
            alloc = Alloc(rng)
            d["endpoints"] = [mk_ep(nm_, "ms", nw, rng, alloc) for nm_ in ("ea", "eb", "ec")]
            d["routers"] = [{"name": "r0"}, {"name": "r1"}, {"name": "r2"}]
            d["connections"] = [{"src": "r0", "dst": "r1"}, {"src": "r1", "dst": "r2"},
                                {"src": "r2", "dst": "r0", "bidirectional": False},
                                {"src": "ea", "dst": "r0"}, {"src": "eb", "dst": "r1"}, {"src": "ec", "dst": "r2"}]
            out.append((d, {"topo": "one-way-link", "via": "ring closed by a unidirectional connection"}))
    # valid: two endpoints connected to each other directly, no router at all (chimney to chimney)
    for algo in ("ID", "SRC"):
        for nw in (False, True):
            d = header("direct", nw, algo)
            alloc = Alloc(rng)
            d["endpoints"] = [mk_ep("epa", "ms", nw, rng, alloc), mk_ep("epb", "ms", nw, rng, alloc)]
            d["connections"] = [{"src": "epa", "dst": "epb"}]
            out.append((d, {"topo": "direct", "routers": 0}))
    # valid: routers of an array joined by explicit connections that name a direction at ONE end only (the link
    # is directed at one router and undirected at the other, next to directed endpoint links)
    for algo in ("XY", "ID", "SRC"):
        for nw in (False, True):
            for (key, dirname) in (("src_dir", "East"), ("dst_dir", "West"), ("src_dir", "South")):
                d, _ = mesh(rng, 2, 1, algo, nw, force_dir=True)
                d["routers"][0]["auto_connect"] = False
                c = {"src": "router", "dst": "router", "src_idx": [0, 0], "dst_idx": [1, 0]}
                c[key] = dirname
                d["connections"].append(c)
                out.append((d, {"topo": "one-sided-dir", "key": key, "dir": dirname}))
    return out


# ---------------------------------------------------------------------------------------------- detours (C14, C02, C03, C09)
def detour_suite(tier, seed):
    """graphs in which a non-shortest route is possible: a wide hub in parallel with a chain of small
    routers, and meshes with wrap-around (torus) links"""
    rng = random.Random(seed + 29)
    out = []
    for algo in ("ID", "SRC"):
        for nw in (False, True):
            for chain in ((2, 3) if tier == "quick" else (2, 3, 4)):
                for hub_extra in (2, 3, 5):
                    d = header("bypass", nw, algo)
                    alloc = Alloc(rng)
                    eps = [mk_ep("cpu", "ms", nw, rng, alloc), mk_ep("dram", "ms", nw, rng, alloc)]
                    rts = [{"name": "rta"}, {"name": "rtd"}, {"name": "xbar"}] + [{"name": f"rep{i}"} for i in range(chain)]
                    conns = [{"src": "cpu", "dst": "rta"}, {"src": "dram", "dst": "rtd"},
                             {"src": "rta", "dst": "xbar"}, {"src": "xbar", "dst": "rtd"},
                             {"src": "rta", "dst": "rep0"}, {"src": f"rep{chain - 1}", "dst": "rtd"}]
                    for i in range(chain - 1):
                        conns.append({"src": f"rep{i}", "dst": f"rep{i + 1}"})
                    for q in range(hub_extra):
                        eps.append(mk_ep(f"io{q}", rng.choice(["s", "ms", "m"]), nw, rng, alloc))
                        conns.append({"src": f"io{q}", "dst": "xbar"})
                    d["endpoints"], d["routers"], d["connections"] = eps, rts, conns
                    out.append((d, {"topo": "bypass", "chain": chain, "hub_ports": hub_extra + 2}))
            # rings long enough that the way round the wrap-around link is strictly shorter (6x1: 1 -> 5 is two hops
            # over the wrap, four along the row), so a search guided by array-index distance would be caught
            for (m, n) in (((3, 1), (6, 1), (5, 2), (3, 3)) if tier == "quick" else
                           ((3, 1), (4, 1), (6, 1), (7, 1), (4, 2), (5, 2), (6, 2), (3, 3), (4, 4), (5, 5))):
                d, _ = mesh(rng, m, n, algo, nw, name="torus")
                for y in range(n):
                    d["connections"].append({"src": "router", "dst": "router", "src_idx": [0, y], "dst_idx": [m - 1, y],
                                             "src_dir": "West", "dst_dir": "East"})
                out.append((d, {"topo": "torus", "m": m, "n": n}))
                if n >= 3:
                    d, _ = mesh(rng, m, n, algo, nw, name="torus")
                    for x in range(m):
                        d["connections"].append({"src": "router", "dst": "router", "src_idx": [x, 0], "dst_idx": [x, n - 1],
                                                 "src_dir": "South", "dst_dir": "North"})
                    out.append((d, {"topo": "torus-y", "m": m, "n": n}))
    # router trees with a shortcut: a link between two siblings (or two cousins) makes the way over the common ancestor
    # longer than the shortest way the emitted wiring offers
    for algo in ("ID", "SRC"):
        for levels, a, b in (((1, 3), [0, 0], [0, 1]), ((1, 2, 2), [0, 0, 1], [0, 1, 0]), ((1, 3), [0, 0], [0, 2])):
            d, t = tree(rng, levels, algo, rng.random() < 0.3, leaves_per_router=1, root_eps=1, roles=["ms"])
            d = json.loads(json.dumps(d))
            d["connections"].append({"src": "router", "dst": "router", "src_idx": a, "dst_idx": b})
            out.append((d, dict(t, topo="tree-shortcut")))
    # two endpoints joined by a lattice of transit-only routers with a cross link: cpu - r3 - {r0, r1} - r2 - mem, r0 - r1,
    # and a spare router r4 behind r1 / r2; declaration orders as written and shuffled
    for algo in ("ID", "SRC"):
        for k in range(6 if tier == "quick" else 40):
            nw = k % 3 == 2
            d = header("lattice", nw, algo)
            alloc = Alloc(rng)
            eps = [mk_ep("cpu", "ms", nw, rng, alloc), mk_ep("mem", "ms", nw, rng, alloc)]
            rts = [{"name": f"r{i}"} for i in range(5)]
            conns = [{"src": "cpu", "dst": "r3"}, {"src": "mem", "dst": "r2"}, {"src": "r2", "dst": "r4"},
                     {"src": "r0", "dst": "r3"}, {"src": "r1", "dst": "r2"}, {"src": "r1", "dst": "r3"},
                     {"src": "r1", "dst": "r4"}, {"src": "r0", "dst": "r1"}, {"src": "r0", "dst": "r2"}]
            if k:
                rng.shuffle(rts)
                rng.shuffle(conns)
                conns = [c if rng.random() < 0.5 else {"src": c["dst"], "dst": c["src"]} for c in conns]
            d["endpoints"], d["routers"], d["connections"] = eps, rts, conns
            out.append((d, {"topo": "lattice", "order": k}))
    # custom graphs with transit-only routers and several equally short ways round: the tables of the routers that
    # carry no endpoint matter exactly when the tie between the ways is broken differently from different starts
    for algo in ("ID", "SRC"):
        for _ in range(40 if tier == "quick" else 400):
            nr = rng.randint(4, 7)
            k = rng.randint(2, 3)
            out.append(custom(rng, nr, algo, rng.random() < 0.3, extra_edges=rng.randint(2, 5), eps_per=1,
                              carriers=rng.sample(range(nr), k)))
    return out


# ---------------------------------------------------------------------------------------------- colliding names (C12, C07)
def _rename(d, m):
    d = json.loads(json.dumps(d))
    for e in d["endpoints"]:
        e["name"] = m.get(e["name"], e["name"])
    for r in d["routers"]:
        r["name"] = m.get(r["name"], r["name"])
    for c in d["connections"]:
        for k in ("src", "dst"):
            c[k] = m.get(c[k], c[k])
    return d


def name_collision_suite(tier, seed):
    """distinct names (digits and underscores) whose CamelCase forms coincide: two scalar endpoints `a1` / `a_1`, an
    array `cluster[2]` next to a scalar `cluster1`, two routers `r1` / `r_1`.  Whatever floogen does with them, an
    accepted description must not declare a name twice (C12) and must name every instance once (C07)."""
    rng = random.Random(seed + 83)
    out = []
    for algo in ("ID", "SRC", "XY"):
        for nw in ((False,) if tier == "quick" else (False, True)):
            if algo != "XY":
                d, t = star(rng, 3, algo, nw, roles=["ms", "s", "m"], shapes=[None, None, None], nranges=[1, 1, 1])
                out.append((_rename(d, {"epa": "a1", "epb": "a_1"}), dict(t, topo="names", collision="scalar-scalar")))
                d, t = star(rng, 3, algo, nw, roles=["ms", "s", "m"], shapes=[2, None, None], nranges=[1, 1, 1])
                out.append((_rename(d, {"epa": "cluster", "epb": "cluster1"}), dict(t, topo="names", collision="array-scalar")))
                d, t = star(rng, 2, algo, nw, roles=["ms", "ms"], shapes=[None, None], nranges=[1, 1])
                d = json.loads(json.dumps(d))
                d["routers"] = [{"name": "r1"}, {"name": "r_1"}]
                d["connections"] = [{"src": "epa", "dst": "r1"}, {"src": "epb", "dst": "r_1"}, {"src": "r1", "dst": "r_1"}]
                out.append((d, dict(t, topo="names", collision="router-router")))
                # top-level AXI ports are named <endpoint>_<protocol>: endpoint `a` with protocol `b_c` and endpoint `a_b`
                # with protocol `c` would both declare `a_b_c_req_i`
                d, t = star(rng, 3, algo, nw, roles=["m", "m", "s"], shapes=[None, None, None], nranges=[1, 1, 1])
                d = json.loads(json.dumps(d))
                ins = [p for p in d["protocols"] if p["name"].endswith("_in")]
                extra = []
                for p in ins:
                    for nm in ("b_c", "c"):
                        q = dict(p); q["name"] = nm + ("" if not nw else "_" + p.get("type", ""))
                        extra.append(q)
                d["protocols"] += extra
                sfx = [""] if not nw else ["_" + p.get("type", "") for p in ins]
                d = _rename(d, {"epa": "a", "epb": "a_b"})
                for e in d["endpoints"]:
                    if e["name"] == "a":
                        e["mgr_port_protocol"] = ["b_c" + x for x in sfx]
                    if e["name"] == "a_b":
                        e["mgr_port_protocol"] = ["c" + x for x in sfx]
                out.append((d, dict(t, topo="names", collision="port-port")))
                # link signals are named <source>_to_<dest>: routers x, y_to_z, x_to_y, z with links x - y_to_z and
                # x_to_y - z would both declare x_to_y_to_z_req
                d, t = star(rng, 2, algo, nw, roles=["ms", "ms"], shapes=[None, None], nranges=[1, 1])
                d = json.loads(json.dumps(d))
                d["routers"] = [{"name": "x"}, {"name": "y_to_z"}, {"name": "x_to_y"}, {"name": "z"}]
                d["connections"] = [{"src": "epa", "dst": "x"}, {"src": "epb", "dst": "z"}, {"src": "x", "dst": "y_to_z"},
                                    {"src": "x_to_y", "dst": "z"}, {"src": "y_to_z", "dst": "x_to_y"}]
                out.append((d, dict(t, topo="names", collision="link-link")))
                # names that differ only in letter case are different names: two routers `Xbar` / `xbar` behind a hub (a
                # name-normalising signal-name helper would declare `hub_to_xbar_req` twice)
                d, t = star(rng, 2, algo, nw, roles=["ms", "ms"], shapes=[None, None], nranges=[1, 1])
                d = json.loads(json.dumps(d))
                d["routers"] = [{"name": "hub"}, {"name": "Xbar"}, {"name": "xbar"}]
                d["connections"] = [{"src": "epa", "dst": "Xbar"}, {"src": "epb", "dst": "xbar"}, {"src": "hub", "dst": "Xbar"},
                                    {"src": "xbar", "dst": "hub"}]
                out.append((d, dict(t, topo="names", collision="letter-case")))
            else:
                d, t = mesh(rng, 2, 1, algo, nw, sides=("W",))
                if d is not None:
                    names = [e["name"] for e in d["endpoints"]]
                    if len(names) >= 2:
                        out.append((_rename(d, {names[0]: "a1", names[1]: "a_1"}), dict(t, topo="names", collision="scalar-array")))
    return [(d, t) for d, t in out if d is not None]


# ---------------------------------------------------------------------------------------------- XY meshes (C04, C07)
def xy_suite(tier, seed, algo="XY"):
    """systematic XY meshes: every subset of the four boundary sides, per-side role mixes (manager-only
    sides included), multi-range endpoints, direction on either end, partial coverage"""
    rng = random.Random(seed + 37)
    out = []
    all_sides = [tuple(s for s, b in zip("WESN", bits) if b) for bits in itertools.product((0, 1), repeat=4)]
    sizes = [(1, 1), (2, 1), (1, 2), (2, 2), (3, 2), (2, 3)] if tier == "quick" else \
        [(m, n) for m in range(1, 5) for n in range(1, 5)]
    for (m, n) in sizes:
        for sides in all_sides:
            reps = 1 if tier == "quick" else 3
            for _ in range(reps):
                roles = {sd: rng.choice(["s", "ms", "m", "m"]) for sd in "WESN"}
                out.append(mesh(rng, m, n, algo, rng.random() < 0.25, sides=sides, side_role=roles,
                                cluster_role=rng.choice(["ms", "ms", "m", "s"]), dir_end=rng.choice(["dst", "src"]),
                                nranges=rng.choice([1, 2]), side_nranges=rng.choice([1, 1, 2, 3])))
    for _ in range(40 if tier == "quick" else 300):
        m, n = rng.randint(2, 4), rng.randint(2, 4)
        cells = [(i, j) for i in range(m) for j in range(n)]
        part = rng.sample(cells, rng.randint(1, min(4, len(cells))))
        sides = rng.choice(all_sides)
        roles = {sd: rng.choice(["s", "ms", "m"]) for sd in "WESN"}
        out.append(mesh(rng, m, n, algo, rng.random() < 0.25, sides=sides, partial=part, side_role=roles,
                        cluster_role=rng.choice(["ms", "m", "s"]), side_nranges=rng.choice([1, 2])))
    # routers with MORE ports than the five compass / local ones (degree 6, 7): the local endpoint stays on port 4 --
    # where the hardware ejects -- and the spare ports stay unused
    for (m, n, deg) in ([(2, 2, 6), (2, 1, 7)] if tier == "quick" else [(2, 2, 6), (2, 1, 7), (3, 2, 6), (1, 1, 6), (3, 3, 8)]):
        for sides in ((), ("W", "N")):
            d, t = mesh(rng, m, n, algo, rng.random() < 0.25, sides=sides, dir_end=rng.choice(["dst", "src"]))
            if d is not None:
                d = json.loads(json.dumps(d))
                d["routers"][0]["degree"] = deg
                out.append((d, dict(t, topo="mesh-wide-routers", degree=deg)))
    # one endpoint array whose elements sit on different sides
    for (m, n) in ([(2, 2), (1, 2), (3, 2)] if tier == "quick" else [(1, 1), (2, 2), (1, 2), (2, 1), (3, 2), (3, 3)]):
        for kk in (2, 3, 4):
            for de in ("dst", "src"):
                d, t = mesh_mixed_sides(rng, m, n, algo, rng.random() < 0.3, k=kk, role=rng.choice(["s", "ms", "m"]), dir_end=de)
                if d is not None:
                    out.append((d, t))
    return [(d, t) for d, t in out if d is not None]


# ---------------------------------------------------------------------------------------------- selectors (C06)
def selector_suite(tier, seed):
    """connection selectors: idx, ascending / descending / single / partial ranges, tree level, none;
    multi-connection 1:k and k:1; 1-D and 2-D endpoint arrays against 2-D router arrays; trees <= 3 levels"""
    rng = random.Random(seed + 41)
    out = []

    def orient(lo, hi):
        return [lo, hi] if rng.random() < 0.6 else [hi, lo]

    reps = 12 if tier == "quick" else 120
    for algo in ("ID", "SRC"):
        for _ in range(reps):
            nw = rng.random() < 0.25
            m, n = rng.randint(1, 3 if tier == "quick" else 4), rng.randint(1, 3 if tier == "quick" else 4)
            d = header("sel", nw, algo)
            alloc = Alloc(rng)
            eps, conns = [], []
            eps.append(mk_ep("grid", "ms", nw, rng, alloc, array=[m, n]))
            conns.append({"src": "grid", "dst": "router", "src_range": [orient(0, m - 1), orient(0, n - 1)],
                          "dst_range": [orient(0, m - 1), orient(0, n - 1)]})
            if rng.random() < 0.7:
                i = rng.randrange(m)
                eps.append(mk_ep("col", rng.choice(["s", "ms", "m"]), nw, rng, alloc, array=[n]))
                c = {"src": "col", "dst": "router", "src_range": [orient(0, n - 1)], "dst_range": [[i, i], orient(0, n - 1)]}
                if rng.random() < 0.5:
                    c = {"src": "router", "dst": "col", "dst_range": c["src_range"], "src_range": c["dst_range"]}
                conns.append(c)
            if rng.random() < 0.7 and m >= 2:
                j = rng.randrange(n)
                lo = rng.randrange(m - 1)
                hi = rng.randrange(lo, m)
                cnt = hi - lo + 1
                eps.append(mk_ep("part", rng.choice(["s", "ms"]), nw, rng, alloc, array=[cnt]))
                conns.append({"src": "part", "dst": "router", "src_range": [orient(0, cnt - 1)],
                              "dst_range": [orient(lo, hi), [j, j]]})
            if rng.random() < 0.7:
                eps.append(mk_ep("solo", rng.choice(["s", "ms", "m"]), nw, rng, alloc))
                i, j = rng.randrange(m), rng.randrange(n)
                conns.append(rng.choice([{"src": "solo", "dst": "router", "dst_idx": [i, j]},
                                         {"src": "router", "dst": "solo", "src_idx": [i, j]}]))
            if rng.random() < 0.6:
                k = rng.choice([2, 3])
                eps.append(mk_ep("many", rng.choice(["s", "ms"]), nw, rng, alloc, array=[k * m]))
                conns.append({"src": "many", "dst": "router", "src_range": [[0, k * m - 1]],
                              "dst_range": [[0, m - 1], [0, 0]], "allow_multi": True})
            if rng.random() < 0.5:
                k = rng.choice([2, 3])
                eps.append(mk_ep("fan", rng.choice(["s", "ms", "m"]), nw, rng, alloc, array=[k]))
                i, j = rng.randrange(m), rng.randrange(n)
                conns.append({"src": "router", "dst": "fan", "src_idx": [i, j], "dst_range": [[0, k - 1]],
                              "allow_multi": True})
            if rng.random() < 0.6 and m >= 2:
                k = rng.choice([2, 3])
                j = rng.randrange(n)
                eps.append(mk_ep("spread", rng.choice(["s", "ms"]), nw, rng, alloc, array=[k * m]))
                conns.append({"src": "router", "dst": "spread", "src_range": [orient(0, m - 1), [j, j]],
                              "dst_range": [[0, k * m - 1]], "allow_multi": True})
            rng.shuffle(conns)
            d["endpoints"], d["connections"] = eps, conns
            d["routers"] = [{"name": "router", "array": [m, n], "degree": 14}]
            out.append((d, {"topo": "selectors", "m": m, "n": n, "conns": len(conns)}))
        # trees
        for levels in ([(1, 2), (1, 2, 2), (1, 3), (1, 1, 2)] if tier == "quick" else
                       [(1,) + t for dpt in (1, 2) for t in itertools.product((1, 2, 3), repeat=dpt)]):
            nw = rng.random() < 0.25
            d = header("seltree", nw, algo)
            alloc = Alloc(rng)
            depth = len(levels)
            cnt = 1
            for x in levels:
                cnt *= x
            k = rng.choice([1, 2])
            eps = [mk_ep("leaf", "ms", nw, rng, alloc, array=[cnt * k])]
            conns = [{"src": "leaf", "dst": "router", "src_range": [orient(0, cnt * k - 1)], "dst_lvl": depth - 1,
                      "allow_multi": True}]
            if cnt >= 2:
                eps.append(mk_ep("down", rng.choice(["s", "ms"]), nw, rng, alloc, array=[cnt * 2]))
                conns.append({"src": "router", "dst": "down", "src_lvl": depth - 1, "dst_range": [[0, cnt * 2 - 1]],
                              "allow_multi": True})
            eps.append(mk_ep("root", rng.choice(["s", "ms", "m"]), nw, rng, alloc))
            conns.append(rng.choice([{"src": "router", "dst": "root", "src_lvl": 0},
                                     {"src": "root", "dst": "router", "dst_idx": [0]}]))
            if depth >= 2:
                eps.append(mk_ep("mid", rng.choice(["s", "ms"]), nw, rng, alloc))
                conns.append({"src": "mid", "dst": "router", "dst_idx": [0, rng.randrange(levels[1])]})
            d["endpoints"], d["connections"] = eps, conns
            d["routers"] = [{"name": "router", "tree": list(levels)}]
            out.append((d, {"topo": "seltree", "levels": list(levels)}))
        # router-router connections that name a direction at BOTH ends, the two not being opposites (an L-shaped
        # composition, explicitly numbered hub ports): each end occupies exactly the port it names
        for (sd, dd, deg) in ((("East", "North", 5), (2, 5, 6)) if tier == "quick" else
                              (("East", "North", 5), (2, 5, 6), ("West", "West", 5), (0, 3, 5), ("South", 1, 5))):
            nw = rng.random() < 0.25
            d = header("bothdirs", nw, algo)
            alloc = Alloc(rng)
            d["endpoints"] = [mk_ep("epa", "ms", nw, rng, alloc), mk_ep("epb", "ms", nw, rng, alloc), mk_ep("epc", "s", nw, rng, alloc)]
            d["routers"] = [{"name": "ra", "degree": deg}, {"name": "rb", "degree": deg}]
            d["connections"] = [{"src": "ra", "dst": "rb", "src_dir": sd, "dst_dir": dd},
                                {"src": "epa", "dst": "ra", "dst_dir": "Eject"}, {"src": "epb", "dst": "rb", "dst_dir": "Eject"},
                                {"src": "epc", "dst": "rb"}]
            out.append((d, {"topo": "both-directions", "src_dir": sd, "dst_dir": dd}))
    return out
