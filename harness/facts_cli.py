"""Translator: floogen/cli.py -> coq/gen/CliFacts.v.  Extracts, with Python's ast, the order of the
effectful steps of main() and render_sources() on the path `-c f -o dir --no-format`, plus the
conditions guarding the two writes.  Fail-closed: an unrecognised statement is an error."""
import ast
import copy
import os
from harness import common, facts


class TranslateError(Exception):
    pass


def call_name(node):
    """dotted name of a call expression"""
    f = node.func
    parts = []
    while isinstance(f, ast.Attribute):
        parts.append(f.attr)
        f = f.value
    if isinstance(f, ast.Name):
        parts.append(f.id)
    return ".".join(reversed(parts))


def cond_str(test):
    return ast.unparse(test)


def steps_of_body(body, out, ctx):
    """raw steps of a function body: (kind, node a, node b, guards) with kind in call / assign / write / return; the
    guards are (test node, negated) pairs.  Texts are produced at expansion time, after the substitution of a helper's
    parameters and result name (a helper of cli.py that main() calls is INLINED, so that moving stages into a function
    -- `network = build_network(args.config)` -- leaves the step list what it was)"""
    for st in body:
        if isinstance(st, ast.Expr) and isinstance(st.value, ast.Constant):
            continue  # docstring
        if isinstance(st, (ast.Assign, ast.Expr)):
            val = st.value
            if isinstance(st, ast.Assign) and len(st.targets) != 1:
                raise TranslateError(f"line {st.lineno}: chained assignment")
            tgt = st.targets[0] if isinstance(st, ast.Assign) else None
            if isinstance(val, ast.Call):
                out.append(("call", val, tgt, tuple(ctx)))
            elif isinstance(st, ast.Assign):
                out.append(("assign", val, tgt, tuple(ctx)))
            else:
                raise TranslateError(f"line {st.lineno}: unexpected expression statement")
        elif isinstance(st, ast.Return):
            out.append(("return", st.value, None, tuple(ctx)))
        elif isinstance(st, ast.If):
            steps_of_body(st.body, out, ctx + [(st.test, False)])
            steps_of_body(st.orelse, out, ctx + [(st.test, True)])
        elif isinstance(st, ast.With):
            item = st.items[0].context_expr
            if not (isinstance(item, ast.Call) and call_name(item) == "open"):
                raise TranslateError(f"line {st.lineno}: unexpected with-statement")
            for inner in st.body:
                if isinstance(inner, ast.Expr) and isinstance(inner.value, ast.Call) and call_name(inner.value).endswith(".write"):
                    out.append(("write", item.args[0], inner.value.args[0], tuple(ctx)))
                else:
                    raise TranslateError(f"line {inner.lineno}: unexpected statement inside with open(...)")
        else:
            raise TranslateError(f"line {st.lineno}: unexpected statement {type(st).__name__}")


class _Subst(ast.NodeTransformer):
    def __init__(self, env):
        self.env = env

    def visit_Name(self, node):
        return copy.deepcopy(self.env[node.id]) if node.id in self.env else node


def subst(node, env):
    if node is None or not env:
        return node
    return _Subst(env).visit(copy.deepcopy(node))


NOT_INLINED = ("parse_args",)   # the argument parser: one step, as before


def expand(funcs, fname, env, outer_ctx, result_tgt, out, depth=0):
    """the steps of function fname as (kind, what, target, guards, nested model calls), helpers inlined"""
    if depth > 6:
        raise TranslateError(f"helper nesting too deep at {fname}")
    raw = []
    steps_of_body(funcs[fname].body, raw, [])
    for kind, a, b, ctx in raw:
        guards = tuple(outer_ctx) + tuple(("not (" + cond_str(subst(t, env)) + ")") if neg else cond_str(subst(t, env)) for t, neg in ctx)
        a2, b2 = subst(a, env), subst(b, env)
        nested = []
        for part in (a2, b2):
            if part is not None:
                for node in ast.walk(part):
                    if isinstance(node, ast.Call):
                        nm = call_name(node)
                        if nm.startswith("network.") or nm == "parse_config":
                            args = [ast.unparse(x) for x in node.args] + [f"{k.arg}={ast.unparse(k.value)}" for k in node.keywords]
                            nested.append((nm, ", ".join(args)))
        if kind == "return":
            # the value a helper hands back: a call is a step of its own (bound to the caller's target), a plain
            # expression is covered by the renaming done by the caller
            if isinstance(a2, ast.Call):
                kind, b2 = "call", result_tgt
            else:
                continue
        if kind == "call":
            name = call_name(a2)
            if name in funcs and name not in NOT_INLINED and name != fname:
                f = funcs[name]
                params = [p.arg for p in f.args.args]
                if f.args.vararg or f.args.kwarg or f.args.kwonlyargs or len(a2.args) > len(params):
                    raise TranslateError(f"helper {name}: unsupported signature")
                env2 = {}
                defaults = dict(zip(params[len(params) - len(f.args.defaults):], f.args.defaults))
                for p_, v in zip(params, a2.args):
                    env2[p_] = v
                for k in a2.keywords:
                    if k.arg not in params:
                        raise TranslateError(f"helper {name}: unknown keyword {k.arg}")
                    env2[k.arg] = k.value
                for p_ in params:
                    if p_ not in env2:
                        if p_ not in defaults:
                            raise TranslateError(f"helper {name}: missing argument {p_}")
                        env2[p_] = defaults[p_]
                # the name the helper returns becomes the caller's target
                last = f.body[-1] if f.body else None
                if b2 is not None and isinstance(last, ast.Return) and isinstance(last.value, ast.Name) and last.value.id not in env2:
                    env2[last.value.id] = b2
                expand(funcs, name, env2, guards, b2, out, depth + 1)
                continue
            tgt = ast.unparse(b2) if b2 is not None else ""
            if name == "print":
                tgt = ",".join(ast.unparse(x) for x in a2.args)
            out.append(("call", name, tgt, guards, nested))
        elif kind == "assign":
            out.append(("assign", ast.unparse(a2)[:40], ast.unparse(b2), guards, nested))
        elif kind == "write":
            out.append(("write", ast.unparse(a2), ast.unparse(b2), guards, nested))


def extract():
    src = open(os.path.join(common.REPO, "floogen", "cli.py")).read()
    tree = ast.parse(src)
    funcs = {f.name: f for f in tree.body if isinstance(f, ast.FunctionDef)}
    if "main" not in funcs:
        raise TranslateError("function main not found")
    steps = []
    expand(funcs, "main", {}, (), None, steps)
    return steps


def coq_str(s):
    return '"' + s.replace('"', "'") + '"'


def path_enabled(ctx, outdir=True, only_pkg=False, only_top=False):
    """the path explored by C10's runs: outdir given, no query, no visualisation, --no-format,
    neither --only-pkg nor --only-top (C15 varies the three mode flags)"""
    truth = {"args.outdir": outdir, "args.query": False, "args.visualize": False, "not args.no_format": False,
             "not args.only_top": not only_top, "not args.only_pkg": not only_pkg, "not outdir.is_absolute()": True}
    for c in ctx:
        neg = c.startswith("not (") and c.endswith(")")
        base = c[5:-1] if neg else c
        if base not in truth:
            raise TranslateError(f"unknown guard {base!r}")
        if truth[base] == neg:
            return False
    return True


def sequence(steps, **mode):
    return [(kind, name, tgt) for kind, name, tgt, ctx, _ in steps if path_enabled(ctx, **mode)]


def model_calls():
    """(callee, argument text) of every call on the network object (and of parse_config) on ANY path of the pipeline
    (whatever the guards; helpers inlined with their parameters substituted): how the model is built and rendered -- it
    must not depend on the output-mode flags"""
    out = []
    for kind, name, tgt, ctx, nested in extract():
        out.extend(nested)
    return sorted(set(out))


def generate():
    steps = extract()
    seq = sequence(steps)
    lines = ["(* generated by harness/facts_cli.py from /repo/floogen/cli.py on every run: do not edit *)",
             "From FV Require Import Base.", "",
             "(* effectful steps of `floogen -c f -o dir --no-format`, in program order: (kind, what, target) *)",
             "Definition cli_steps : list (string * (string * string)) := ["]
    lines.append(";\n".join(f"  ({coq_str(k)}, ({coq_str(n)}, {coq_str(t)}))" for k, n, t in seq))
    lines.append("].")
    lines += ["", "(* the same for every combination of the mode flags: ((outdir given, only_pkg, only_top), steps) *)",
              "Definition cli_modes : list ((bool * (bool * bool)) * list (string * (string * string))) := ["]
    modes = []
    for od in (True, False):
        for op in (False, True):
            for ot in (False, True):
                sq = sequence(steps, outdir=od, only_pkg=op, only_top=ot)
                b = lambda x: "true" if x else "false"
                modes.append(f"  (({b(od)}, ({b(op)}, {b(ot)})), [" +
                             "; ".join(f"({coq_str(k)}, ({coq_str(n)}, {coq_str(t)}))" for k, n, t in sq) + "])")
    lines.append(";\n".join(modes))
    lines.append("].")
    lines += ["", "(* every call on the network object / of parse_config in cli.py with its argument text *)",
              "Definition cli_model_calls : list (string * string) := [" +
              "; ".join(f"({coq_str(a)}, {coq_str(b)})" for a, b in model_calls()) + "]."]
    return "CliFacts.v", "\n".join(lines) + "\n"


facts.GENERATORS.append(generate)
