"""Translator: floogen/cli.py -> coq/gen/CliFacts.v.  Extracts, with Python's ast, the order of the
effectful steps of main() and render_sources() on the path `-c f -o dir --no-format`, plus the
conditions guarding the two writes.  Fail-closed: an unrecognised statement is an error."""
import ast
import os
from harness import common, facts


class TranslateError(Exception):
    pass


def call_name(node):
    """dotted name of a call expression"""
    f = node.func
    parts = []
    while isinstance(f, ast.Attribute):
        parts.append(f.attr)
        f = f.value
    if isinstance(f, ast.Name):
        parts.append(f.id)
    return ".".join(reversed(parts))


def cond_str(test):
    return ast.unparse(test)


def steps_of_body(body, out, ctx):
    for st in body:
        if isinstance(st, ast.Expr) and isinstance(st.value, ast.Constant):
            continue  # docstring
        if isinstance(st, (ast.Assign, ast.Expr)):
            val = st.value
            if isinstance(val, ast.Call):
                name = call_name(val)
                tgt = ast.unparse(st.targets[0]) if isinstance(st, ast.Assign) else ""
                if name == "print":
                    tgt = ",".join(ast.unparse(a) for a in val.args)
                out.append(("call", name, tgt, tuple(ctx)))
            elif isinstance(st, ast.Assign):
                out.append(("assign", ast.unparse(st.value)[:40], ast.unparse(st.targets[0]), tuple(ctx)))
            else:
                raise TranslateError(f"line {st.lineno}: unexpected expression statement")
        elif isinstance(st, ast.If):
            c = cond_str(st.test)
            steps_of_body(st.body, out, ctx + [c])
            steps_of_body(st.orelse, out, ctx + ["not (" + c + ")"])
        elif isinstance(st, ast.With):
            item = st.items[0].context_expr
            if not (isinstance(item, ast.Call) and call_name(item) == "open"):
                raise TranslateError(f"line {st.lineno}: unexpected with-statement")
            fname = ast.unparse(item.args[0])
            for inner in st.body:
                if isinstance(inner, ast.Expr) and isinstance(inner.value, ast.Call) and call_name(inner.value).endswith(".write"):
                    out.append(("write", fname, ast.unparse(inner.value.args[0]), tuple(ctx)))
                else:
                    raise TranslateError(f"line {inner.lineno}: unexpected statement inside with open(...)")
        else:
            raise TranslateError(f"line {st.lineno}: unexpected statement {type(st).__name__}")


def extract():
    src = open(os.path.join(common.REPO, "floogen", "cli.py")).read()
    tree = ast.parse(src)
    funcs = {f.name: f for f in tree.body if isinstance(f, ast.FunctionDef)}
    for need in ("main", "render_sources"):
        if need not in funcs:
            raise TranslateError(f"function {need} not found")
    main, rs = [], []
    steps_of_body(funcs["main"].body, main, [])
    steps_of_body(funcs["render_sources"].body, rs, [])
    return main, rs


def coq_str(s):
    return '"' + s.replace('"', "'") + '"'


def path_enabled(ctx, outdir=True, only_pkg=False, only_top=False):
    """the path explored by C10's runs: outdir given, no query, no visualisation, --no-format,
    neither --only-pkg nor --only-top (C15 varies the three mode flags)"""
    truth = {"args.outdir": outdir, "args.query": False, "args.visualize": False, "not args.no_format": False,
             "not args.only_top": not only_top, "not args.only_pkg": not only_pkg, "not outdir.is_absolute()": True}
    for c in ctx:
        neg = c.startswith("not (") and c.endswith(")")
        base = c[5:-1] if neg else c
        if base not in truth:
            raise TranslateError(f"unknown guard {base!r}")
        if truth[base] == neg:
            return False
    return True


def sequence(main, rs, **mode):
    seq = []
    for kind, name, tgt, ctx in main:
        if not path_enabled(ctx, **mode):
            continue
        if kind == "call" and name == "render_sources":
            for k2, n2, t2, c2 in rs:
                if path_enabled(c2, **mode):
                    seq.append((k2, n2, t2))
        else:
            seq.append((kind, name, tgt))
    return seq


def model_calls():
    """(callee, argument text) of every call on the network object (and of parse_config) anywhere in cli.py: how the
    model is built and rendered -- it must not depend on the output-mode flags"""
    src = open(os.path.join(common.REPO, "floogen", "cli.py")).read()
    out = []
    for node in ast.walk(ast.parse(src)):
        if isinstance(node, ast.Call):
            name = call_name(node)
            if name.startswith("network.") or name == "parse_config":
                args = [ast.unparse(a) for a in node.args] + [f"{k.arg}={ast.unparse(k.value)}" for k in node.keywords]
                out.append((name, ", ".join(args)))
    return sorted(set(out))


def generate():
    main, rs = extract()
    seq = sequence(main, rs)
    lines = ["(* generated by harness/facts_cli.py from /repo/floogen/cli.py on every run: do not edit *)",
             "From FV Require Import Base.", "",
             "(* effectful steps of `floogen -c f -o dir --no-format`, in program order: (kind, what, target) *)",
             "Definition cli_steps : list (string * (string * string)) := ["]
    lines.append(";\n".join(f"  ({coq_str(k)}, ({coq_str(n)}, {coq_str(t)}))" for k, n, t in seq))
    lines.append("].")
    lines += ["", "(* the same for every combination of the mode flags: ((outdir given, only_pkg, only_top), steps) *)",
              "Definition cli_modes : list ((bool * (bool * bool)) * list (string * (string * string))) := ["]
    modes = []
    for od in (True, False):
        for op in (False, True):
            for ot in (False, True):
                sq = sequence(main, rs, outdir=od, only_pkg=op, only_top=ot)
                b = lambda x: "true" if x else "false"
                modes.append(f"  (({b(od)}, ({b(op)}, {b(ot)})), [" +
                             "; ".join(f"({coq_str(k)}, ({coq_str(n)}, {coq_str(t)}))" for k, n, t in sq) + "])")
    lines.append(";\n".join(modes))
    lines.append("].")
    lines += ["", "(* every call on the network object / of parse_config in cli.py with its argument text *)",
              "Definition cli_model_calls : list (string * string) := [" +
              "; ".join(f"({coq_str(a)}, {coq_str(b)})" for a, b in model_calls()) + "]."]
    return "CliFacts.v", "\n".join(lines) + "\n"


facts.GENERATORS.append(generate)
