"""Shared exploration for the properties that are decided on the emitted netlist
(C01-C07, C09, C13, C14): description families -> real floogen -> reader -> certified checker
(extracted from Coq) on the real output; plus the correspondence with the model's netlist."""
import collections
import json
from harness import common, families, spec, modelio


def expected_args(pid, desc):
    """the description-derived oracle input some checkers take"""
    if pid == "C01":
        return ["C01", [[a, b, c] for a, b, c, *_ in spec.owned(desc)]]
    if pid == "C04":
        g = spec.xy_grid(desc)
        if g is None:
            return None
        return ["C04", [g[0], g[1], [[a, i, j, q] for a, i, j, q in g[2]]], [[a, b, c] for a, b, c, *_ in spec.owned(desc)]]
    if pid == "C06":
        links = spec.described_links(desc)
        if links is None:
            return None
        return ["C06", [[a, b, pa, pb] for a, b, pa, pb in links], len(spec.instances(desc))]
    if pid == "C08":
        e = spec.axi_expect(desc)
        if e is None:
            return None
        return ["C08", e[0], e[1], e[2]]
    if pid == "C13":
        return ["C13", [[a, b, c] for a, b, c in spec.sam_names(desc)]]
    if pid == "C07":
        return ["C07", [spec.camel(i["enum"]) for i in spec.instances(desc)]]
    return pid


def applicable(pid, algo):
    if pid in ("C02",):
        return algo == "IdTable"
    if pid in ("C03",):
        return algo == "SourceRouting"
    if pid in ("C09", "C14"):
        return algo in ("IdTable", "SourceRouting")
    if pid == "C04":
        return algo == "XYRouting"
    return True


def desc_size(d):
    return len(json.dumps(d))


def corpus_cases():
    """minimised failing inputs kept from earlier findings and seeded changes (corpus/netlist/*.json)"""
    import glob, os
    out = []
    for f in sorted(glob.glob(os.path.join(common.VERIF, "corpus", "netlist", "*.json"))):
        c = json.load(open(f))
        t = dict(c.get("tags") or {})
        t["corpus"] = os.path.basename(f)
        out.append((c["desc"], t))
    return out


SIDE_PROPS = ("C02", "C03", "C05", "C14")
TREE_PROPS = ("C09",)


def corpus_applicable(pid, d, t):
    """a corpus case joins a property's run unless it is outside that property's quantifier"""
    if d.get("routing", {}).get("use_id_table") is False:
        return pid == "C12"          # the no-table package branch: text well-formedness only
    if pid == "C04" and any(r.get("auto_connect", True) is False for r in d.get("routers", [])):
        return False                 # C04 speaks about one auto-connected router array
    return True


def explore(pid, cases, rep, nontrivial, extra_checks=(), keep=None, use_corpus=True):
    """cases: list of (desc, tags).  Returns stats."""
    seen = {common.canon(d) for d, _ in cases}
    corpus = [(d, t) for d, t in (corpus_cases() if use_corpus else []) if common.canon(d) not in seen and corpus_applicable(pid, d, t)
              and (keep is None or keep(d, t))]
    cases = corpus + list(cases)
    res = common.run_worker("worker_gen", [{"desc": d} for d, _ in cases])
    # the model (extracted Coq pipeline, networkx-mirroring oracle) on the same descriptions
    mreqs = [modelio.request(d) for d, _ in cases]
    mods = common.run_model(mreqs)
    reqs, idx = [], []
    stats = collections.Counter()
    dist = collections.Counter()
    # the decidable side conditions of the hardware-level theorems (Side.v), evaluated per accepted description with the
    # generator's own (verified) oracle sp_nx: how much of the explored space the universal theorems
    # C02_hw_delivered_nx / C03_hw_delivered_nx / C14_hw_shortest_nx / C05_model_signals speak about (a description
    # outside them is still decided by the certified checker)
    if pid in SIDE_PROPS:
        acc = [i for i, m in enumerate(mods) if isinstance(m, list) and m and m[0] == "ok"]
        sides = common.run_model([modelio.request(cases[i][0], cmd="side") for i in acc]) if acc else []
        names = ["names_sep_req", "names_sep_rsp", "names_sep_wide", "single_attach", "links_typed", "degrees_fit",
                 "attached_req", "attached_rsp", "transit_id_or_first_hops_src"]
        for i, sd in zip(acc, sides):
            if isinstance(sd, list) and sd and sd[0] == "ok":
                flags = [b is True for b in sd[1:]]
                stats["side_all_hold" if all(flags) else "side_some_fail"] += 1
                for nm, b in zip(names, flags):
                    if not b:
                        stats["side_fail_" + nm] += 1
                # four of these are THEOREMS of acceptance (C05_model_names_sep, C05_model_single_attach) or of acceptance
                # plus typed links (C02_transit_is_a_theorem, first_hop_holds): the extracted binary evaluating one of
                # them to false would contradict a theorem, i.e. the extraction / driver / build is broken
                fl = dict(zip(names, flags))
                implied = ["names_sep_req", "names_sep_rsp", "names_sep_wide", "single_attach"] + \
                          (["transit_id_or_first_hops_src"] if fl.get("links_typed") else [])
                bad = [nm for nm in implied if nm in fl and not fl[nm]]
                if bad:
                    stats["side_theorem_contradicted"] += 1
                    rep.corr_broken(f"the model binary evaluates {bad} to false on an accepted description although they are "
                                    f"theorems: {cases[i][1]}", {"desc": cases[i][0], "tags": cases[i][1]})
            else:
                stats["side_not_evaluated"] += 1
    # C09: the hypotheses of the universal tree theorems (C09_model_tree_nx, C09_model_tree_src_nx), evaluated per
    # accepted description: where all hold, acyclicity is a THEOREM about the model's netlist (the checker still runs)
    tree_applies = set()
    if pid in TREE_PROPS:
        acc = [i for i, m in enumerate(mods) if isinstance(m, list) and m and m[0] == "ok"]
        trees = common.run_model([modelio.request(cases[i][0], cmd="tree") for i in acc]) if acc else []
        names = ["tree_certificate", "id_or_src_routing", "transit_id_or_first_hops_src", "names_sep_req", "names_sep_rsp", "single_attach", "links_typed",
                 "degrees_fit", "attached_req", "attached_rsp", "enum_names_distinct_src"]
        for i, sd in zip(acc, trees):
            if isinstance(sd, list) and sd and sd[0] == "ok":
                flags = [b is True for b in sd[1:]]
                if all(flags) and len(flags) == len(names):
                    stats["side_tree_theorem_applies"] += 1
                    tree_applies.add(i)
                elif not flags[0]:
                    stats["side_tree_not_a_tree"] += 1
                else:
                    for nm, b in zip(names, flags):
                        if not b:
                            stats["side_tree_fail_" + nm] += 1
            else:
                stats["side_tree_not_evaluated"] += 1
    # C04: the hypotheses of the universal bisimulation theorem (C04_hw_bisimulation_decidable), evaluated per accepted
    # XY description on the grid spec.xy_grid derives from the description alone: where all hold, "same outcome as on the
    # ideal grid for every pair and every target coordinate" is a THEOREM about the model's netlist
    # C09: the same hypotheses carry C09_xy_conditions_sound (XYCdg.v: the routes as emitted of an XY mesh induce an
    # acyclic dependency graph) -- beyond the property's quantifier (ID and source routing), counted under another name
    xy_applies = set()
    if pid in ("C04", "C09"):
        key = "side_bisim" if pid == "C04" else "side_xy_mesh"
        acc = [i for i, m in enumerate(mods) if isinstance(m, list) and m and m[0] == "ok"
               and cases[i][0].get("routing", {}).get("route_algo") == "XY" and spec.xy_grid(cases[i][0]) is not None]
        xreqs = []
        for i in acc:
            g = spec.xy_grid(cases[i][0])
            xreqs.append(modelio.request(cases[i][0], cmd="xy")[:-1] + " " +
                         common.sx([g[0], g[1], [[a, x, y, q] for a, x, y, q in g[2]]]) + ")")
        xouts = common.run_model(xreqs) if xreqs else []
        names = ["xy_routing", "one_auto_connected_array", "attachments_match_ports", "interfaces_on_their_ports"]
        for i, sd in zip(acc, xouts):
            if isinstance(sd, list) and sd and sd[0] == "ok":
                flags = [b is True for b in sd[1:]]
                if all(flags) and len(flags) == len(names):
                    stats[key + "_theorem_applies"] += 1
                    xy_applies.add(i)
                else:
                    for nm, b in zip(names, flags):
                        if not b:
                            stats[key + "_fail_" + nm] += 1
            else:
                stats[key + "_not_evaluated"] += 1
    for i, ((d, t), r) in enumerate(zip(cases, res)):
        dist[f"{t.get('topo')}/{d['routing']['route_algo']}/{'nw' if d['network_type'] != 'axi' else 'axi'}"] += 1
        if not r["ok"]:
            stats["rejected"] += 1
            if t.get("expect") == "reject":
                stats["rejected_as_expected"] += 1
            continue
        if t.get("expect") == "reject":
            rep.fail(f"{pid}:accepted-invalid:{t.get('defect')}",
                     f"a description with defect '{t.get('defect')}' ({t}) was accepted and files were rendered",
                     {"desc": d, "tags": t}, observed="accepted", expected="rejected")
        if "nl" not in r:
            stats["reader_error"] += 1
            rep.corr_broken(f"the emitted files of an accepted description cannot be read back: {r.get('reader_error')}",
                            {"desc": d})
            continue
        stats["accepted"] += 1
        if not applicable(pid, r["algo"]):
            continue
        checks = [expected_args(pid, d)] + [expected_args(c, d) for c in extra_checks]
        if checks[0] is None:
            stats["outside_quantifier"] += 1
            continue
        reqs.append("(chk " + r["nl"] + " " + " ".join(common.sx(c) for c in checks) + ")")
        idx.append(i)
    outs = common.run_model(reqs)
    distinct = set()
    best = {}
    # correspondence model vs implementation: acceptance and the emitted netlist
    for i, ((d, t), r, m) in enumerate(zip(cases, res, mods)):
        iok, mok = r["ok"], m[0] == "ok"
        if t.get("model") == "unmodelled":
            # a construct the model does not have (stated in DESIGN 6, e.g. `xy_id_offset` on a descriptor): no
            # correspondence is claimed for it; the certified checker decides on the real output alone
            stats["outside_model"] += 1
            continue
        if iok != mok:
            stats["acceptance_mismatch"] += 1
            rep.corr_broken(f"the implementation {'accepts' if iok else 'rejects (' + str(r.get('error'))[:120] + ')'} but the "
                            f"model {'accepts' if mok else 'rejects (' + str(m[1]).replace('~', ' ')[:120] + ')'} the description {t}",
                            {"desc": d, "tags": t})
        elif iok and "nl" in r:
            inl = common.parse_sx(r["nl"])[0]
            if inl == m[1]:
                stats["model_identical"] += 1
            else:
                di, dm = dict((k[0], k[1]) for k in inl), dict((k[0], k[1]) for k in m[1])
                fields = sorted(k for k in di if di[k] != dm.get(k))
                path_only = set(fields) <= {"tables", "route_bits", "rts"} and all(
                    [kv for kv in a if kv[0] != "map"] == [kv for kv in b if kv[0] != "map"]
                    for a, b in zip(di.get("rts", []), dm.get("rts", [])))
                if path_only:
                    stats["drift_path_choice"] += 1      # another shortest path was chosen: not a violation
                else:
                    stats["netlist_mismatch"] += 1
                    rep.corr_broken(f"model and implementation emit different netlists for {t}: fields {fields}",
                                    {"desc": d, "tags": t})
    try:
        chk, agr = common.crosscheck_vm(mreqs + reqs)
        stats["vm_crosscheck"] = chk
        stats["vm_crosscheck_agreed"] = agr
        if chk != agr:
            rep.corr_broken(f"extracted binary and vm_compute disagree on {chk - agr} of {chk} sampled requests: {common.LAST_VM_LOG[-600:]}", None)
    except Exception as e:  # the cross-check is auxiliary
        rep.notes.append(f"vm_compute cross-check not run: {e}")
    for i, out in zip(idx, outs):
        d, t = cases[i]
        stats["checked"] += 1
        if nontrivial(d, t, res[i]):
            distinct.add(common.canon(d))
        for chk in out:
            cid, fl = chk[0], chk[1]
            for key, msg in fl:
                k = f"{cid}:{key}"
                stats["failures"] += 1
                if k not in best or desc_size(d) < desc_size(best[k][0]):
                    best[k] = (d, t, msg.replace("~", " "), cid)
    # where the tree theorem applies and the implementation emitted the model's netlist, a cycle reported by the checker
    # would contradict a theorem: the tie between model and code is then broken as well
    for i, out in zip(idx, outs):
        if i in tree_applies and any(chk[0] == pid and chk[1] for chk in out):
            stats["side_tree_theorem_contradicted"] += 1
    # C09 on XY meshes (beyond the quantifier: nothing is DECIDED there): where C09_xy_conditions_sound applies and the
    # implementation emitted the model's netlist, the certified checker evaluated on the REAL output must agree with the
    # theorem; a cycle would mean that extraction, driver or reader misrepresent what was proved
    if pid == "C09" and xy_applies:
        xi = [i for i in sorted(xy_applies) if res[i].get("ok") and "nl" in res[i]]
        xouts = common.run_model(["(chk " + res[i]["nl"] + " " + common.sx(expected_args("C09", cases[i][0])) + ")" for i in xi])
        for i, out in zip(xi, xouts):
            if isinstance(out, list) and not any(chk[0] == "C09" and chk[1] for chk in out):
                stats["side_xy_mesh_checker_agrees"] += 1
            else:
                stats["side_xy_mesh_theorem_contradicted"] += 1
                rep.corr_broken(f"the certified checker finds a dependency cycle (or fails) on the real output of an XY mesh on which "
                                f"C09_xy_conditions_sound applies: {cases[i][1]}: {str(out)[:200]}", {"desc": cases[i][0], "tags": cases[i][1]})
    for k, (d, t, msg, cid) in best.items():
        rep.fail(k if cid == pid else f"{pid}:via-{k}", msg, {"desc": d, "tags": t}, observed=msg,
                 expected="certified checker returns no failure")
    stats["distinct"] = len(distinct)
    return stats, dist


def standard_run(pid, tier, seed, rep, replay, algos, nontrivial, rule, extra_cases=None, extra_checks=(),
                 keep=None):
    if replay is not None:
        cases = [(replay["case"]["desc"], replay["case"].get("tags", {}))]
    else:
        cases = families.routing_suite(tier, seed, algos=algos)
        if extra_cases:
            cases += extra_cases(tier, seed)
        if keep is not None:
            cases = [(d, t) for d, t in cases if keep(d, t)]
    stats, dist = explore(pid, cases, rep, nontrivial, extra_checks, keep=keep, use_corpus=replay is None)
    samples = [{"desc": d, "tags": t} for d, t in cases[:: max(1, len(cases) // 3)][:3]]
    rep.coverage.update({
        "evaluations": stats["checked"],
        "distinct_nontrivial": stats["distinct"],
        "rule": rule,
        "samples": samples,
        "input_distribution": dict(dist),
        "accepted": stats["accepted"], "rejected": stats["rejected"], "reader_errors": stats["reader_error"],
        "rejected_as_expected": stats["rejected_as_expected"],
        "model_correspondence": {"identical_netlists": stats["model_identical"], "drift_other_shortest_path": stats["drift_path_choice"],
                                 "acceptance_mismatches": stats["acceptance_mismatch"], "netlist_mismatches": stats["netlist_mismatch"],
                                 "extraction_vs_vm_compute": [stats["vm_crosscheck_agreed"], stats["vm_crosscheck"]]},
        "theorem_side_conditions": {k: v for k, v in stats.items() if k.startswith("side_")},
        "exhaustive": False,
    })
    return stats
