"""C10: invalid descriptions are rejected (non-zero exit status) and leave no package / top-module
file.  Fault enumeration through the real command line (subprocess) + the regenerated step-order
theorem (Props/C10.v over gen/CliFacts.v)."""
import collections
import random
from harness import common, families, defects

ID = "C10"
CLI_SECOND_TIE = True
PROPS = "theories/Props/C10.v"


def bases(tier, seed):
    rng = random.Random(seed + 47)
    out = []
    combos = [("ID", False), ("SRC", True), ("XY", False)] if tier == "quick" else \
        [(a, nw) for a in ("ID", "SRC", "XY") for nw in (False, True)]
    for algo, nw in combos:
        if algo != "XY":
            d, t = families.star(rng, 3, algo, nw, roles=["ms", "s", "m"], shapes=[None, 2, None], nranges=[1, 1, 1],
                                 router_first=False)
            out.append((d, dict(t, base="star")))
            d, t = families.tree(rng, (1, 2), algo, nw, leaves_per_router=2, root_eps=1, roles=["ms", "s"])
            out.append((d, dict(t, base="tree")))
            if not nw:
                # an axi network whose protocols carry (optional, differing or partly missing) `type` labels: the
                # width agreement of an axi network is between ALL its protocols whatever their labels
                for labels in ((("narrow", "wide"), (None, "wide")) if tier == "quick" else
                               (("narrow", "wide"), (None, "wide"), ("wide", None), ("narrow", "narrow"))):
                    d, t = families.star(rng, 3, algo, nw, roles=["ms", "s", "m"], shapes=[None, None, None], nranges=[1, 1, 1],
                                         router_first=False)
                    for p, ty in zip(d["protocols"], labels):
                        if ty is None:
                            p.pop("type", None)
                        else:
                            p["type"] = ty
                    out.append((d, dict(t, base="star-typed-axi-" + "-".join(str(x) for x in labels))))
            if not nw:
                # wide address widths: a range one byte beyond 2^addr_width must be rejected exactly, not up to the
                # precision of a floating-point logarithm
                for aw in ((64,) if tier == "quick" else (49, 52, 56, 64)):
                    d, t = families.star(rng, 3, algo, nw, roles=["ms", "s", "m"], shapes=[None, 2, None], nranges=[1, 1, 1],
                                         router_first=False)
                    for p in d["protocols"]:
                        p["addr_width"] = aw
                    out.append((d, dict(t, base=f"star-aw{aw}")))
        d, t = families.mesh(rng, 2, 2, algo, nw, sides=("W",), force_dir=True)
        out.append((d, dict(t, base="mesh")))
        d, t = families.mesh(rng, 2, 2, algo, nw, partial=[(0, 0), (1, 1)], force_dir=True, cluster_role="ms")
        out.append((d, dict(t, base="mesh-idx")))
    return out


def cli_tie(tier, seed, rep, replay):
    """hand model of the pipeline vs observed runs of the real command line: every mode, a failure injected at the entry
    of every stage (no generated file may exist when a stage is entered or after it raised)"""
    from harness import clitrace
    if replay is not None and "mode" not in replay["case"]:
        return
    if replay is not None:
        descs = [(replay["case"]["desc"], {"replay": True})]
    else:
        bs = bases(tier, seed)
        descs = [(d, dict(t, algo=d["routing"]["route_algo"])) for d, t in (bs[:2] if tier == "quick" else bs[:6])]
    before = len(rep.fails) + len(rep.corr)
    st = clitrace.run_tie(rep, ID, descs)
    rep.coverage["cli_observed"] = st
    rep.cli_tie_ok = (len(rep.fails) + len(rep.corr) == before) and st["runner_errors"] == 0 and st["observed_runs"] > 0


def run(tier, seed, rep, replay=None):
    cli_tie(tier, seed, rep, replay)
    if replay is not None and "mode" in replay["case"]:
        return
    cases = []
    if replay is not None:
        c = replay["case"]
        cases = [(c["desc"], c.get("class", "replayed"), c.get("site", ""), c.get("base", ""))]
    else:
        for d, t in bases(tier, seed):
            cases.append((d, "valid", "", t["base"] + "/" + d["routing"]["route_algo"]))
            for dd, cls, site in defects.inject(d):
                cases.append((dd, cls, site, t["base"] + "/" + d["routing"]["route_algo"]))
        # overlapping address layouts (between endpoints, inside one endpoint, array into a window) and port
        # clashes: the invalid members of the address and conflict families
        for d, t in families.address_suite(tier, seed) + families.conflict_suite(tier, seed):
            if t.get("expect") == "reject":
                cases.append((d, str(t.get("defect")) + (":" + t["where"] if t.get("where") else ""),
                              t.get("topo", ""), "family/" + d["routing"]["route_algo"]))
    # every case in-process (same pipeline as floogen.cli.main, fresh Network each); the real command line in a
    # subprocess for all cases (thorough) or for the bases, one case per defect class and a seeded sample (quick)
    inproc = common.run_worker("worker_gen", [{"desc": d} for d, _, _, _ in cases])
    rng = random.Random(seed + 53)
    seen_cls = set()
    cli_idx = []
    for i, (d, cls, site, base) in enumerate(cases):
        first = cls not in seen_cls
        seen_cls.add(cls)
        if tier == "thorough" or replay is not None or cls == "valid" or first or rng.random() < 0.06:
            cli_idx.append(i)
    cli = dict(zip(cli_idx, common.run_worker("worker_cli", [{"desc": cases[i][0]} for i in cli_idx], shards=8)))
    by_class = collections.Counter()
    distinct = set()
    for i, ((d, cls, site, base), r0) in enumerate(zip(cases, inproc)):
        by_class[cls] += 1
        r = cli.get(i)
        accepted = r0["ok"]
        noc_files = []
        if r is not None:
            noc_files = [f for f in r["files"] if f.endswith("_noc.sv") or f.endswith("_noc_pkg.sv")]
            if (r["rc"] == 0) != accepted:
                rep.corr_broken(f"in-process generation {'accepts' if accepted else 'rejects'} but the command line exits "
                                f"with {r['rc']} for {cls} at {site} of {base}", {"desc": d})
            accepted = r["rc"] == 0
        if cls == "valid":
            if not accepted or (r is not None and len(noc_files) != 2):
                rep.corr_broken(f"the valid base description {base} is not generated: {r0.get('error')}", {"desc": d})
            continue
        distinct.add(common.canon(d))
        if accepted:
            rep.fail(f"C10:accepted:{cls}", f"defect '{cls}' injected at {site} of {base}: floogen accepts it"
                     + (f" (exit status 0, writes {noc_files})" if r is not None else " (all stages and both renders succeed)"),
                     {"desc": d, "class": cls, "site": site, "base": base},
                     observed="accepted", expected="non-zero exit status, no files")
        elif noc_files:
            rep.fail(f"C10:partial-output:{cls}", f"defect '{cls}' at {site} of {base}: exit status {r['rc']} but "
                     f"{noc_files} written", {"desc": d, "class": cls, "site": site, "base": base},
                     observed={"rc": r["rc"], "files": noc_files}, expected="no files")
    rep.coverage["cli_subprocess_runs"] = len(cli_idx)
    rep.coverage.update({
        "evaluations": len(cases), "distinct_nontrivial": len(distinct),
        "rule": "every defect class of the property text injected at every applicable site (each endpoint, range, "
                "protocol, connection, router) of valid star / tree / mesh / mesh-with-idx base descriptions per routing "
                "algorithm and network type; each run is the real CLI in a subprocess; non-trivial = an injected (invalid) "
                "description, distinct by canonical JSON",
        "samples": [{"class": c, "site": s, "base": b} for _, c, s, b in cases[1:4]],
        "input_distribution": dict(by_class), "exhaustive": False,
    })
