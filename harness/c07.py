"""C07: decided on the emitted netlist by the certified checker chk_C07 (Coq, extracted);
families of descriptions -> real floogen -> fail-closed reader -> checker.  See netprops.py."""
from harness import netprops, spec, families

ID = "C07"
PROPS = "theories/Props/C07.v"
ALGOS = ('ID','SRC','XY')


def nontrivial(d, t, r):
    return r['sizes'][0] >= 2


def run(tier, seed, rep, replay=None):
    netprops.standard_run(ID, tier, seed, rep, replay, ALGOS, nontrivial, extra_cases=lambda tier, seed: families.xy_suite(tier, seed) + families.name_collision_suite(tier, seed) + [(d, t) for d, t in families.conflict_suite(tier, seed) if t.get('defect') == 'xy-same-coordinate'], rule=
                          "families star/mesh/mesh_plus/tree/custom x algorithms " + str(ALGOS) + " x axi/narrow-wide, "
                          "exhaustive declaration-order permutations for small stars, seeded random otherwise; "
                          "plus XY arrays without auto-connection in which two endpoints would get one coordinate (must be rejected); "
                          "non-trivial = at least two endpoint instances")
