"""C07: decided on the emitted netlist by the certified checker chk_C07 (Coq, extracted);
families of descriptions -> real floogen -> fail-closed reader -> checker.  See netprops.py."""
from harness import netprops, spec, families

ID = "C07"
PROPS = "theories/Props/C07.v"
ALGOS = ('ID','SRC','XY')


def nontrivial(d, t, r):
    return r['sizes'][0] >= 2


def offset_port_ids(tier, seed):
    """an endpoint `xy_id_offset` written as a mapping that also carries a `port_id` (accepted; the coordinate moves by
    (x, y), the port id of an identity stays 0): whatever is emitted must fit the emitted fields.  The model has no
    descriptor offsets: these cases are decided by the checker on the real output alone."""
    import json
    import random
    rng = random.Random(seed + 77)
    out = []
    for (m, n) in ((2, 2), (3, 1)):
        for pid_ in (2, 3):
            d, t = families.mesh(rng, m, n, "XY", rng.random() < 0.3, sides=("W",))
            if d is None:
                continue
            d = json.loads(json.dumps(d))
            side = [e for e in d["endpoints"] if e["name"] != "cluster"]
            if not side:
                continue
            side[0]["xy_id_offset"] = {"x": 0, "y": 0, "port_id": pid_}
            out.append((d, dict(t, topo="xy-offset-port-id", model="unmodelled", port_id=pid_)))
    return out


def run(tier, seed, rep, replay=None):
    netprops.standard_run(ID, tier, seed, rep, replay, ALGOS, nontrivial, extra_cases=lambda tier, seed: families.xy_suite(tier, seed) + offset_port_ids(tier, seed) + families.name_collision_suite(tier, seed) + [(d, t) for d, t in families.conflict_suite(tier, seed) if t.get('defect') == 'xy-same-coordinate'], rule=
                          "families star/mesh/mesh_plus/tree/custom x algorithms " + str(ALGOS) + " x axi/narrow-wide, "
                          "exhaustive declaration-order permutations for small stars, seeded random otherwise; "
                          "plus XY arrays without auto-connection in which two endpoints would get one coordinate (must be rejected); "
                          "non-trivial = at least two endpoint instances")
