"""Regenerates coq/gen/*.v from /repo's working tree (content-compared so that make is a no-op
when nothing changed).  Filled in per property; see DESIGN.md section 4.1."""
import os
from harness import common


def write_if_changed(path, text):
    old = open(path).read() if os.path.exists(path) else None
    if old != text:
        with open(path, "w") as f:
            f.write(text)
        return True
    return False


GENERATORS = []  # functions () -> (filename, text); registered by harness/facts_*.py
_SEEN = set()


def source_stamp():
    """content hash of everything under /repo that any fact is derived from"""
    import glob
    import hashlib
    h = hashlib.sha1()
    pats = ["floogen/**/*.py", "floogen/**/*.mako", "floogen/examples/*.yml", "hw/**/*.sv", "hw/**/*.svh", "util/*.py",
            "Bender.yml", "floo_noc.core", "Makefile"]
    names = set()
    for pat in pats:
        names.update(glob.glob(os.path.join(common.REPO, pat), recursive=True))
    # the file list itself matters too (C20)
    for root, dirs, files in os.walk(common.REPO):
        dirs[:] = [d for d in dirs if d not in (".git", "__pycache__")]
        for f in files:
            h.update(os.path.relpath(os.path.join(root, f), common.REPO).encode() + b"\0")
    for n in sorted(names):
        h.update(n.encode() + b"\0")
        with open(n, "rb") as f:
            h.update(f.read())
    # the translators themselves: a changed translator must not be served stale facts
    for n in sorted(glob.glob(os.path.join(common.VERIF, "harness", "*.py"))):
        with open(n, "rb") as f:
            h.update(f.read())
    return h.hexdigest()


def regenerate():
    from harness import facts_cli, facts_jobs, facts_manifest, facts_rtl, facts_routesel, facts_decode  # noqa: F401  (register their generators)
    os.makedirs(os.path.join(common.COQ, "gen"), exist_ok=True)   # git-ignored: absent in a fresh clone / snapshot
    stamp_file = os.path.join(common.COQ, "gen", ".stamp")
    stamp = source_stamp()
    gens = list(dict.fromkeys(GENERATORS))
    if os.path.exists(stamp_file) and open(stamp_file).read() == stamp + "\n" + str(len(gens)):
        return []   # the sources every fact derives from are byte-identical to the last regeneration
    errors = _regenerate(gens)
    if not errors:
        with open(stamp_file, "w") as f:
            f.write(stamp + "\n" + str(len(gens)))
    elif os.path.exists(stamp_file):
        os.remove(stamp_file)
    return errors


# which properties' theorems are stated over which regenerated file (Props/Cxx.v imports it, or -- C12 -- the
# descriptions the facts are read from are that property's own branch coverage): a translator that fails closed breaks
# the tie for THESE properties only; the others neither use the file nor report it
FACT_FILES = {"facts_cli": "CliFacts.v", "facts_rtl": "RtlFacts.v", "facts_manifest": "ManifestFacts.v", "facts_jobs": "JobsFacts.v",
              "facts_routesel": "RouteSelFacts.v", "facts_decode": "DecodeFacts.v"}
FACT_USERS = {"facts_cli": ("C10", "C15"), "facts_rtl": ("C08", "C11", "C12"), "facts_manifest": ("C20",), "facts_jobs": ("C19",),
              "facts_routesel": ("C04",), "facts_decode": ("C01", "C02", "C03")}


def errors_for(pid, errors):
    """the regeneration errors that concern property pid (an error of an unknown generator concerns everybody)"""
    out = []
    for e in errors:
        mod = e.split(".", 1)[0]
        if mod not in FACT_USERS or pid in FACT_USERS[mod]:
            out.append(e)
    return out


def _regenerate(gens):
    errors = []
    for g in gens:
        mod = g.__module__.split(".")[-1]
        try:
            name, text = g()
            write_if_changed(os.path.join(common.COQ, "gen", name), text)
        except Exception as e:  # fail closed: an unreadable source breaks the tie, reported by the check
            errors.append(f"{mod}.{g.__name__}: {type(e).__name__}: {e}")
            # keep the rest of the development (and the model binary) buildable: without a file from an earlier run, fall
            # back to the committed facts of the pinned tree; the properties stated over it report the broken tie anyway
            tgt = os.path.join(common.COQ, "gen", FACT_FILES.get(mod, ""))
            base = os.path.join(common.COQ, "gen_base", FACT_FILES.get(mod, ""))
            if mod in FACT_FILES and not os.path.exists(tgt) and os.path.exists(base):
                with open(base) as f:
                    write_if_changed(tgt, f.read())
    return errors
