"""Regenerates coq/gen/*.v from /repo's working tree (content-compared so that make is a no-op
when nothing changed).  Filled in per property; see DESIGN.md section 4.1."""
import os
from harness import common


def write_if_changed(path, text):
    old = open(path).read() if os.path.exists(path) else None
    if old != text:
        with open(path, "w") as f:
            f.write(text)
        return True
    return False


GENERATORS = []  # functions () -> (filename, text); registered by harness/facts_*.py
_SEEN = set()


def regenerate():
    from harness import facts_cli, facts_jobs  # noqa: F401  (register their generators)
    errors = []
    for g in list(dict.fromkeys(GENERATORS)):
        try:
            name, text = g()
            write_if_changed(os.path.join(common.COQ, "gen", name), text)
        except Exception as e:  # fail closed: an unreadable source breaks the tie, reported by the check
            errors.append(f"{g.__name__}: {type(e).__name__}: {e}")
    return errors
