"""C13: decided on the emitted netlist by the certified checker chk_C13 (Coq, extracted);
families of descriptions -> real floogen -> fail-closed reader -> checker.  See netprops.py."""
from harness import netprops, spec

ID = "C13"
PROPS = "theories/Props/C13.v"
ALGOS = ('ID','SRC','XY')


def nontrivial(d, t, r):
    return r['sizes'][2] >= 2


def run(tier, seed, rep, replay=None):
    netprops.standard_run(ID, tier, seed, rep, replay, ALGOS, nontrivial,
                          "families star/mesh/mesh_plus/tree/custom x algorithms " + str(ALGOS) + " x axi/narrow-wide, "
                          "exhaustive declaration-order permutations for small stars, seeded random otherwise; "
                          "non-trivial = at least two address-map rules or a manager-only endpoint interleaved")
