"""Implementation side for the netlist properties: description dict -> real floogen (in-process,
fresh Network per case) -> emitted texts -> fail-closed reader -> netlist s-expression."""
import json
import sys
from harness.impl import emit, protect_stdout, generate
from harness import netlist
from harness.svread import SvError


def main():
    protect_stdout()
    for line in sys.stdin:
        c = json.loads(line)
        r = generate(c["desc"])
        out = {"ok": r["ok"]}
        if not r["ok"]:
            out.update(stage=r["stage"], error=r["error"])
        else:
            try:
                n = netlist.read(r["pkg"], r["top"])
                out["nl"] = netlist.sx_text(n)
                out["algo"] = n["algo"]
                out["nw"] = n["nw"]
                out["sizes"] = [len(n["nis"]), len(n["rts"]), len(n["sam"])]
                if c.get("texts"):
                    out["pkg"], out["top"] = r["pkg"], r["top"]
                if c.get("textfacts"):
                    from harness import textfacts
                    from harness.common import sx
                    f = textfacts.extract(r["pkg"], r["top"])
                    out["tf"] = " ".join(sx(x) for x in [
                        [[a, b] for a, b in f["brackets"]], [[a, b] for a, b in f["decl"]], [[a, [x.replace(" ", "_") for x in b]] for a, b in f["used"]],
                        [[a, [x.replace(" ", "_") for x in b]] for a, b in f["avail"]], [list(l) for l in f["literals"]],
                        [[a.replace("(", "[").replace(")", "]"), w, v] for a, w, v in f["fields"] if isinstance(v, int)],
                        [list(l) for l in f["sam_lits"]], f["route_bits"], f["words"]])
            except SvError as e:
                out["reader_error"] = str(e)
            except Exception as e:  # reader bug or unexpected shape: fail closed
                out["reader_error"] = f"{type(e).__name__}: {e}"
        emit(out)


if __name__ == "__main__":
    main()
