"""C19: traffic jobs only address mapped memory.  Theorem C19_holds is over facts regenerated from
util/gen_jobs.py and the real address maps of the shipped mesh examples; the hand model of
gen_mesh_traffic is tied to the script by running the real generator (all traffic types x read/write x
burst grid, randint recorded) and comparing every job line; every real job line is also checked
against every example's real address map."""
import itertools
import random
from harness import common, facts_jobs

ID = "C19"
PROPS = "theories/Props/C19.v"


def run(tier, seed, rep, replay=None):
    mod, path = facts_jobs.load_gen_jobs()
    types = facts_jobs.traffic_types(path)
    maps = facts_jobs.example_maps()
    rng = random.Random(seed)
    # bursts beyond MEM_SIZE (wide > 1024 beats, narrow > 8192) must be refused by the generator: if it writes jobs for
    # them they are checked against the maps like any others
    grid = [(1, 1), (16, 1), (128, 8), (256, 16), (1024, 128), (2048, 8), (1025, 1)] if tier == "quick" else \
        [(1, 1), (2, 3), (16, 1), (64, 4), (128, 8), (100, 7), (1024, 128), (1025, 1), (2048, 8), (4096, 16), (8192, 1), (16, 8193)]
    cases = []
    if replay is not None:
        cases = [replay["case"]["run"]] if "run" in replay["case"] else []
    else:
        for t in types:
            for rw in ("read", "write"):
                for wbl, nbl in grid:
                    cases.append({"type": t, "rw": rw, "wbl": wbl, "nbl": nbl, "nwb": rng.choice([1, 2, 3]),
                                  "nnb": rng.choice([1, 2]), "seed": rng.randrange(1000)})
        # many bursts of a length that does not divide the memory size: a per-burst stride or wrap-around shows only once
        # count x length crosses MEM_SIZE
        for t in types:
            cases.append({"type": t, "rw": rng.choice(["read", "write"]), "wbl": 3, "nbl": 1, "nwb": 400, "nnb": 2,
                          "seed": rng.randrange(1000)})
    res = common.run_worker("worker_jobs", cases, shards=8)
    nx, ny, mem = mod.NUM_X, mod.NUM_Y, mod.MEM_SIZE
    # (n) the addresses the generator uses for tile (x,y) and memory channel c start the rules the real address maps
    # give to cluster (x,y) and to the c-th boundary memory (the concrete form of c19_names, independent of the model)
    if replay is None or replay["case"].get("example"):
        for ex, rules in maps:
            start = {nm: lo for nm, lo, hi in rules}
            want = [(f"ClusterX{x}Y{y}SamIdx", mod.get_xy_base_addr(x, y), f"the local address of tile ({x},{y})")
                    for x in range(nx) for y in range(ny)] + \
                   [(f"Hbm{c}SamIdx", mod.get_hbm_base_addr(c), f"the address of memory channel {c}") for c in range(ny)]
            bad = [(nm, a, what) for nm, a, what in want if start.get(nm) != a]
            if bad:
                nm, a, what = bad[0]
                owner = [n2 for n2, lo, hi in rules if lo <= a < hi]
                rep.fail(f"C19:wrong-owner:{ex}", f"{ex}: {what} is {hex(a)}, but rule {nm} starts at "
                         f"{hex(start[nm]) if nm in start else 'nowhere (no such rule)'}; the address lies in {owner or 'no rule'} "
                         f"({len(bad)} of {len(want)} tiles / channels affected)", {"example": ex, "rule": nm},
                         observed=hex(a), expected="start of " + nm)
    reqs, meta = [], []
    evaluations = 0
    distinct = set()
    for c, r in zip(cases, res):
        wide_len = c["wbl"] * mod.data_widths["wide"] / 8
        narrow_len = c["nbl"] * mod.data_widths["narrow"] / 8
        expect_ok = wide_len <= mem and narrow_len <= mem
        if not r["ok"]:
            if expect_ok:
                rep.fail("C19:generator-fails", f"gen_mesh_traffic({c}) raises {r['error']}", {"run": c})
            continue
        # (c) every real job inside one rule of every example map -- independent of the model (also for settings the
        # generator should have refused)
        for x in range(nx):
            for y in range(ny):
                tile = r["tiles"][f"{x},{y}"]
                for kind in ("wide", "narrow"):
                    for (ln, s, d) in tile[kind]:
                        for ex, rules in maps:
                            for what, a in (("source", s), ("destination", d)):
                                if not any(lo <= a and a + ln <= hi for _, lo, hi in rules):
                                    rep.fail(f"C19:outside-map:{c['type']}", f"traffic type {c['type']} ({c['rw']}, tile ({x},{y}), "
                                             f"bursts {c['wbl']}/{c['nbl']}, seed {c['seed']}): {what} range [{hex(a)}, +{ln}) of a "
                                             f"{kind} job is inside no rule of the address map of {ex}",
                                             {"run": c, "tile": [x, y]}, observed=[ln, hex(s), hex(d)],
                                             expected="inside one mapped range")
        if not expect_ok:
            continue
        # the uniform oracle: draws come in (x, y) pairs, re-drawn while equal to the local tile
        draws = list(r["draws"])
        di = 0
        try:
            for x in range(nx):
                for y in range(ny):
                    ox = oy = 0
                    if c["type"] == "uniform":
                        while True:
                            ox, oy = draws[di], draws[di + 1]
                            di += 2
                            if (ox, oy) != (x, y):
                                break
                    reqs.append(common.sx(["c19", c["type"], x, y, c["rw"] == "read", ox, oy, int(wide_len)]))
                    meta.append((c, x, y, r["tiles"][f"{x},{y}"]))
            if c["type"] == "uniform" and di != len(draws):
                raise IndexError("draws left over")
        except IndexError:
            rep.corr_broken(f"the random draws of the uniform pattern no longer have the modelled structure "
                            f"(pairs of randint(0,NUM_X-1), randint(0,NUM_Y-1)): {draws[:8]}...", {"run": c})
    outs = common.run_model(reqs)
    for (c, x, y, tile), out in zip(meta, outs):
        evaluations += 1
        distinct.add((c["type"], c["rw"], x, y, c["wbl"]))
        model = [list(j) for j in out[1]] if out[0] == "ok" else None
        for kind, reps in (("wide", c["nwb"]), ("narrow", c["nnb"])):
            impl = tile[kind]
            if model is None or impl != model * reps:
                rep.corr_broken(f"gen_mesh_traffic and the model differ for {c} tile ({x},{y}) {kind}: "
                                f"impl {impl[:4]} model {model and model[:4]} x{reps}", {"run": c, "tile": [x, y]})
    rep.coverage.update({
        "evaluations": evaluations, "distinct_nontrivial": len(distinct),
        "rule": "all traffic types x {read, write} x burst grid x all 16 tiles, real generator with recorded randint; each "
                "(type, rw, tile, burst) compared job by job with the Coq model and checked against the six real example "
                "address maps; distinct = (type, rw, tile, wide burst length)",
        "samples": cases[:3], "input_distribution": {"runs": len(cases), "examples": [e for e, _ in maps]},
        "exhaustive": False,
    })
