"""coqchk -o over every property file: independent re-check of the compiled development and its
axiom report.  Run by the thorough tier of C16 (cheap property with time to spare)."""
import glob
import os
import re
import subprocess
from harness import common


def run():
    mods = sorted("FV.Props." + os.path.basename(p)[:-3] for p in glob.glob(os.path.join(common.COQ, "theories/Props/C*.vo")))
    p = subprocess.run(["timeout", "1800", "coqchk", "-silent", "-o", "-Q", "theories", "FV", "-Q", "gen", "FVGen", *mods],
                       cwd=common.COQ, capture_output=True, text=True)
    out = p.stdout + p.stderr
    m = re.search(r"\* Axioms:(.*?)(?:\n\s*\n|\Z)", out, re.S)
    axioms = m.group(1).strip() if m else "?"
    path = os.path.join(common.VERIF, "evidence", "coqchk_report.txt")
    with open(path, "w") as f:
        f.write(out[-20000:])
    return {"rc": p.returncode, "modules": mods, "axioms": axioms[:2000], "report": path}
