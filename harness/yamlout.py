"""Minimal YAML block-style writer for description dicts, with optional mapping-key permutation
and integer spelling variation (to exercise the parse glue).  Cross-checked by the harness: floogen's
own parse of the text must give the same generation result as the dict."""


def scalar(v, rng=None):
    if v is None:
        return "null"
    if v is True:
        return "true"
    if v is False:
        return "false"
    if isinstance(v, int):
        if rng is not None and v >= 4096 and rng.random() < 0.5:
            h = f"{v:x}"
            if len(h) > 4 and rng.random() < 0.5:
                h = h[:-4] + "_" + h[-4:]
            return "0x" + h
        return str(v)
    if isinstance(v, str):
        return '"' + v + '"'
    raise TypeError(type(v))


def dump(obj, rng=None, permute=False, indent=0):
    pad = "  " * indent
    out = []
    if isinstance(obj, dict):
        keys = list(obj)
        if permute and rng is not None:
            rng.shuffle(keys)
        for k in keys:
            v = obj[k]
            if isinstance(v, (dict, list)) and v:
                out.append(f"{pad}{k}:")
                out.append(dump(v, rng, permute, indent + 1))
            elif isinstance(v, (dict, list)):
                out.append(f"{pad}{k}: " + ("{}" if isinstance(v, dict) else "[]"))
            else:
                out.append(f"{pad}{k}: {scalar(v, rng)}")
    elif isinstance(obj, list):
        for v in obj:
            if isinstance(v, dict) and v:
                body = dump(v, rng, permute, indent + 1).split("\n")
                out.append(f"{pad}- " + body[0].strip())
                out.extend(body[1:])
            elif isinstance(v, list):
                out.append(f"{pad}- [" + ", ".join(scalar(x, rng) for x in v) + "]")
            else:
                out.append(f"{pad}- {scalar(v, rng)}")
    return "\n".join(out)


def text(desc, rng=None, permute=False):
    return dump(desc, rng, permute) + "\n"
