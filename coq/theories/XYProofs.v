(* XYProofs.v — C04 on the hardware model: XY routing over one auto-connected router array.  A flit that carries
   the coordinate of an interface on a local port is delivered to exactly that interface, from wherever it enters
   the array, along the dimension-ordered path; the Y-to-X turn ban and the loop-back ban never trigger. *)
From FV Require Import Base AddrRange RouteMap Graph Desc Build Netlist Compile Routing Emit Hw Side
     ModelBase BuildProofs Check XYSide CheckProofs ModelProofs IdProofs ConnProofs HwProofs WireProofs FrameProofs HwStep.
From Coq Require Import ZifyBool.

(* a mesh link sits on the output port of its compass direction, at the router it leaves *)
Lemma mesh_out_port d g c rd m n e r k :
  build d = Ok g -> compile d g = Ok c ->
  In rd (d_rts d) -> rt_array rd = Some [m; n] -> rt_tree rd = None -> rt_auto rd = true ->
  In e (flat_map (array_links (rt_name rd)) (grid_idx m n)) ->
  In r (c_rts c) -> cr_name r = e_src e -> e_src_dir e = Some k -> 0 <= k ->
  nth_error (cr_out r) (Z.to_nat k) = Some (Some (e_src e, e_dst e)).
Proof.
  intros Hb Hc Hrd Harr Htree Hauto He Hr Hn Hk Hk0.
  destruct (build_links d g Hb) as (Ls & _ & Hlinks).
  assert (Hel : In e (link_edges_of g)).
  { rewrite Hlinks. apply in_app_iff. left. apply in_flat_map. exists rd. split; [exact Hrd|].
    unfold router_links. rewrite Harr, Htree, Hauto. exact He. }
  unfold link_edges_of in Hel. apply filter_In in Hel. destruct Hel as (Hein & Hlink).
  destruct (crt_origin d g c Hc r Hr) as (rt & rid & Hq & Hnr).
  assert (Hef : In e (filter is_link (edges_from g (n_name rt)))).
  { apply filter_In. split; [|exact Hlink]. unfold edges_from. apply filter_In. split.
    - apply (edges_view_In g e (proj2 (build_ginv d g Hb))). exact Hein.
    - apply String.eqb_eq. congruence. }
  exact (dir_out_slot d g rt rid r Hq e k Hef Hk Hk0).
Qed.

Lemma crts_length d g c : compile d g = Ok c -> length (c_rts c) = length (nodes_of_type g NRouter).
Proof.
  unfold compile. intros H. inv_bind H. inversion H; subst c; cbn [c_rts].
  match goal with E : mapM (fun p => compile_router d g (fst p) (snd p)) _ = Ok _ |- _ => apply mapM_length in E; rewrite E end.
  match goal with E : mapM _ (nodes_of_type g NRouter) = Ok ?l |- _ => apply mapM_length in E; rename E into Hl end.
  rewrite ConnProofs.zip_length, Hl. lia.
Qed.

Lemma grid_indices_length (L1 L2 : list Z) : length (flat_map (fun i => map (fun j => [i; j]) L2) L1) = (length L1 * length L2)%nat.
Proof. induction L1 as [|a L1 IH]; cbn; [reflexivity|]. rewrite app_length, map_length, IH. reflexivity. Qed.
Lemma zcount_length k : forall c0, length (zcount k c0 1) = k.
Proof. induction k; intros; cbn; auto. Qed.

Definition opp (k : Z) : Z := if k =? 0 then 2 else if k =? 1 then 3 else if k =? 2 then 0 else if k =? 3 then 1 else k.

Section Grid.
  Variables (d : desc) (g : graph) (c : compiled) (rd : rt_desc) (mm nn : Z).
  Hypothesis Hb : build d = Ok g.
  Hypothesis Hc : compile d g = Ok c.
  Hypothesis Halgo : d_algo d = XY.
  Hypothesis Hrts : d_rts d = [rd].
  Hypothesis Harr : rt_array rd = Some [mm; nn].
  Hypothesis Htree : rt_tree rd = None.
  Hypothesis Hauto : rt_auto rd = true.
  Let name := rt_name rd.
  Let nm (i j : Z) : string := full_name name [i; j].
  Let Hrd : In rd (d_rts d).
  Proof. rewrite Hrts. left. reflexivity. Qed.
  Let Hnd : NoDup (map cr_name (c_rts c)) := built_router_names_nodup d g c Hb Hc.

  Definition in_grid (i j : Z) : Prop := 0 <= i < mm /\ 0 <= j < nn.

  Lemma grid_node i j : in_grid i j -> In (mk_arr_node name NRouter name [i; j]) (nodes_of_type g NRouter).
  Proof.
    intros (Hi & Hj). unfold nodes_of_type. apply filter_In. split; [|reflexivity]. rewrite (build_nodes d g Hb). apply in_app_iff. left.
    apply in_flat_map. exists rd. split; [exact Hrd|]. unfold router_nodes. rewrite Harr, Htree. apply in_map.
    unfold ep_indices. apply in_flat_map. exists i. split; [apply zrange0_In; exact Hi|]. apply in_map_iff. exists j. split; [reflexivity|]. apply zrange0_In. exact Hj.
  Qed.

  (* the router at grid position (i, j) *)
  Lemma rt_at i j : in_grid i j -> exists r, In r (c_rts c) /\ cr_name r = nm i j /\ cr_id r = Some (IdXY i j 0).
  Proof.
    intros Hij. destruct (crt_of_router_node d g c _ Hc Halgo (grid_node i j Hij)) as (r & x & y & Hr & Harr1 & _ & Hn1 & Hid1).
    cbn [mk_arr_node n_arr n_name] in Harr1, Hn1. inversion Harr1; subst x y. exists r. auto.
  Qed.

  (* every compiled router is one of them *)
  Lemma rt_is_grid r : In r (c_rts c) -> exists i j, in_grid i j /\ cr_name r = nm i j /\ cr_id r = Some (IdXY i j 0).
  Proof.
    intros Hr. destruct (crt_origin d g c Hc r Hr) as (rt & rid & Hq & Hnr).
    (* rt is a router node of the graph: it is in the node list of the array *)
    destruct (compile_inv _ _ _ Hc) as (dirs & nis & rts & rids & _ & Hm & Hceq). rewrite Hceq in Hr. cbn in Hr.
    destruct (mapM_In _ _ _ _ Hm Hr) as (p & Hp & Hq'). cbv beta in Hq'.
    apply (in_map fst) in Hp. apply zip_fst_incl in Hp.
    pose proof Hp as Hp'. unfold nodes_of_type in Hp'. apply filter_In in Hp'. destruct Hp' as (Hpn & Hpt).
    rewrite (build_nodes d g Hb), Hrts in Hpn. cbn [flat_map] in Hpn. rewrite app_nil_r in Hpn. apply in_app_iff in Hpn.
    destruct Hpn as [Hpn|Hpn].
    - unfold router_nodes in Hpn. rewrite Harr, Htree in Hpn. apply in_map_iff in Hpn. destruct Hpn as (idx & Hidx & Hin).
      apply ep_indices_bounds in Hin. destruct idx as [|i [|j [|? ?]]]; try contradiction.
      destruct (rt_at i j Hin) as (r0 & Hr0 & Hn0 & Hid0). exists i, j. split; [exact Hin|].
      destruct (compile_router_in_ends _ _ _ _ _ Hq') as (Hnq & _).
      assert (r = r0).
      { eapply NoDup_map_eq; [exact Hnd| |exact Hr0|].
        - rewrite Hceq. cbn. exact Hr.
        - rewrite Hnq, <- Hidx, Hn0. reflexivity. }
      subst r0. auto.
    - exfalso. apply in_flat_map in Hpn. destruct Hpn as (e & _ & Hin). unfold endpoint_node_list in Hin. apply in_app_iff in Hin.
      destruct Hin as [Hin|Hin]; apply in_map_iff in Hin; destruct Hin as (a & Ha & _); rewrite <- Ha in Hpt; discriminate.
  Qed.

  (* grid names are pairwise distinct *)
  Lemma nm_inj i j i' j' : in_grid i j -> in_grid i' j' -> nm i j = nm i' j' -> i = i' /\ j = j'.
  Proof.
    intros H1 H2 Heq. destruct (rt_at i j H1) as (r & Hr & Hn & Hid). destruct (rt_at i' j' H2) as (r' & Hr' & Hn' & Hid').
    assert (r = r') by (eapply NoDup_map_eq; [exact Hnd|exact Hr|exact Hr'|congruence]). subst r'.
    rewrite Hid in Hid'. inversion Hid'. auto.
  Qed.

  (* the four compass ports of the router at (i, j) *)
  Lemma port_to r i j k dx dy : In r (c_rts c) -> cr_name r = nm i j -> in_grid i j ->
    0 <= k < 4 -> to_coords k = Ok (dx, dy) -> in_grid (i + dx) (j + dy) ->
    nth_error (cr_out r) (Z.to_nat k) = Some (Some (nm i j, nm (i + dx) (j + dy))).
  Proof.
    intros Hr Hn (Hi & Hj) Hk Htc (Hi' & Hj').
    assert (Hcases : k = 0 \/ k = 1 \/ k = 2 \/ k = 3) by lia.
    set (e := mk_link (nm i j) (nm (i + dx) (j + dy)) (Some k) (Some (opp k))).
    assert (He : In e (flat_map (array_links name) (grid_idx mm nn))).
    { apply mesh_links_iff. unfold e.
      destruct Hcases as [-> | [-> | [-> | ->]]]; cbv in Htc; inversion Htc; subst dx dy; cbn [opp Z.eqb].
      - (* North: (i,j) -> (i,j+1), declared at (i, j+1) as its South link's mirror *)
        exists i, (j + 1). split; [lia|]. split; [lia|]. right. split; [lia|]. right.
        replace (j + 1 - 1) with j by lia. replace (i + 0) with i by lia. reflexivity.
      - exists (i + 1), j. split; [lia|]. split; [lia|]. left. split; [lia|]. right.
        replace (i + 1 - 1) with i by lia. replace (j + 0) with j by lia. reflexivity.
      - exists i, j. split; [lia|]. split; [lia|]. right. split; [lia|]. left.
        replace (j + -1) with (j - 1) by lia. replace (i + 0) with i by lia. reflexivity.
      - exists i, j. split; [lia|]. split; [lia|]. left. split; [lia|]. left.
        replace (i + -1) with (i - 1) by lia. replace (j + 0) with j by lia. reflexivity. }
    exact (mesh_out_port d g c rd mm nn e r k Hb Hc Hrd Harr Htree Hauto He Hr Hn eq_refl ltac:(lia)).
  Qed.

  (* the array has mm * nn routers *)
  Lemma router_count : length (c_rts c) = (Z.to_nat mm * Z.to_nat nn)%nat.
  Proof.
    rewrite (crts_length d g c Hc). unfold nodes_of_type. rewrite (build_nodes d g Hb), Hrts. cbn [flat_map]. rewrite app_nil_r, filter_app.
    assert (He0 : filter (fun x => ntype_eqb (n_type x) NRouter) (flat_map endpoint_node_list (d_eps d)) = []).
    { induction (d_eps d) as [|e l IHl]; [reflexivity|]. cbn [flat_map]. rewrite filter_app, IHl, app_nil_r.
      unfold endpoint_node_list. rewrite filter_app.
      rewrite (filter_map_none (mk_ep_node (ep_name e)) NRouter NEndpoint), (filter_map_none (mk_ni_node (ep_name e)) NRouter NNi) by (reflexivity || discriminate). reflexivity. }
    rewrite He0, app_nil_r. unfold router_nodes. rewrite Harr, Htree.
    rewrite (filter_map_all (mk_arr_node name NRouter name) NRouter) by reflexivity. rewrite map_length.
    unfold ep_indices. rewrite grid_indices_length. unfold zrange0. rewrite !zcount_length. reflexivity.
  Qed.

  (* ---- the walk ---- *)
  Variables (sp : oracle) (ri : rinfo) (n : netlist) (nt : net).
  Hypothesis Hnt : net_ok d nt.
  Hypothesis Hri : gen_routing_info sp c = Ok ri.
  Hypothesis He : emit c ri = Ok n.
  Hypothesis Hwire : forall l, In l (n_links n) -> fst l = net_type nt -> signal_ok n l.
  Variables (xb yb ab ox oy : Z).
  Hypothesis Hxy : ri_xy ri = Some (xb, (yb, (ab, (ox, oy)))).
  (* the destination: an interface on the local port of the router at (tx, ty) *)
  Variables (t : cni) (tx ty : Z).
  Hypothesis Ht : In t (c_nis c).
  Hypothesis Htg : in_grid tx ty.
  Hypothesis Hdest : forall r, In r (c_rts c) -> cr_name r = nm tx ty ->
    nth_error (cr_out r) 4 = Some (Some (nm tx ty, cn_name t)).
  Let h := HXY (tx - ox) (ty - oy) 0.
  Let Hcd : c_desc c = d := proj1 (compile_desc d g c Hc).

  Lemma rt_coords r i j : In r (c_rts c) -> cr_name r = nm i j -> in_grid i j -> cr_id r = Some (IdXY i j 0).
  Proof.
    intros Hr Hn Hij. destruct (rt_at i j Hij) as (r0 & Hr0 & Hn0 & Hid0).
    assert (r = r0) by (eapply NoDup_map_eq; [exact Hnd|exact Hr|exact Hr0|congruence]). subst r0. exact Hid0.
  Qed.

  Lemma select_xy r x i j : In r (c_rts c) -> cr_name r = nm i j -> in_grid i j -> emit_rt (c_desc c) ri r = Ok x ->
    select n x h = Ok (xy_select (i - ox) (j - oy) (tx - ox) (ty - oy) 0, h).
  Proof.
    intros Hr Hn Hij Hx. pose proof (rt_coords r i j Hr Hn Hij) as Hid.
    destruct (xy_coordinates_fit c xb yb ab ox oy (gri_xy _ c ri _ Hri Hxy)) as (_ & Hfit).
    destruct (Hfit r Hr) as (x0 & y0 & p0 & Hid' & Fx & Fy). rewrite Hid in Hid'. inversion Hid'; subst x0 y0 p0.
    unfold emit_rt in Hx. cbv zeta in Hx. inv_bind Hx. inversion Hx; subst x; clear Hx.
    destruct (emit_inv _ _ _ He) as (_ & axi & rts & _ & _ & Hn0).
    unfold select, h. cbn [r_id]. rewrite Hid. unfold ri_offset. rewrite Hxy. cbn [id_sub].
    rewrite Hn0. cbn [n_xy_bits]. rewrite Hxy. unfold trunc. rewrite !Z.mod_small by lia. reflexivity.
  Qed.

  Ltac solve_ok :=
    repeat match goal with |- context [Z.to_nat (opp ?c)] =>
             let v := eval vm_compute in (Z.to_nat (opp c)) in change (Z.to_nat (opp c)) with v end;
    repeat match goal with |- context [?a <? ?b] => destruct (Z.ltb_spec a b) end; try lia; repeat split; lia.

  (* which input ports are compatible with the rest of the dimension-ordered path from (i, j) *)
  Definition inp_ok (i j : Z) (inp : nat) : Prop :=
    if tx <? i then inp <> 0%nat /\ inp <> 2%nat /\ inp <> 3%nat
    else if i <? tx then inp <> 0%nat /\ inp <> 2%nat /\ inp <> 1%nat
    else if j <? ty then inp <> 0%nat
    else if ty <? j then inp <> 2%nat
    else inp <> 4%nat.

  (* the input slot at (i', j') = (i, j) + step(k) that holds the link from (i, j) is the opposite port *)
  Lemma arrives_on r2 i j k dx dy i2 : in_grid i j -> in_grid (i + dx) (j + dy) -> 0 <= k < 4 -> to_coords k = Ok (dx, dy) ->
    In r2 (c_rts c) -> cr_name r2 = nm (i + dx) (j + dy) ->
    nth_error (cr_in r2) i2 = Some (Some (nm i j, nm (i + dx) (j + dy))) -> i2 = Z.to_nat (opp k).
  Proof.
    intros Hij Hij' Hk Htc Hr2 Hn2 Hin.
    assert (Hback : to_coords (opp k) = Ok (- dx, - dy) /\ 0 <= opp k < 4).
    { assert (Hc4 : k = 0 \/ k = 1 \/ k = 2 \/ k = 3) by lia.
      destruct Hc4 as [-> | [-> | [-> | ->]]]; cbv in Htc; inversion Htc; subst dx dy; (split; [reflexivity|cbv; split; [discriminate|reflexivity]]). }
    destruct Hback as (Hb1 & Hb2).
    pose proof (port_to r2 (i + dx) (j + dy) (opp k) (- dx) (- dy) Hr2 Hn2 Hij' Hb2 Hb1) as Hp.
    replace (i + dx + - dx) with i in Hp by lia. replace (j + dy + - dy) with j in Hp by lia. specialize (Hp Hij).
    destruct (crt_out_link d g c Hb Hc r2 _ _ _ Hr2 Hp) as (_ & Hin2 & Hl).
    assert (Hl' : is_link_of g (nm i j, cr_name r2)).
    { rewrite Hn2. destruct Hl as (e & He1 & He2 & He3 & He4). destruct (build_ginv d g Hb) as (Hsym & _).
      destruct (Hsym e He1 He2) as (e' & He' & M1 & M2 & M3 & _). exists e'. cbn in *. repeat split; auto; congruence. }
    destruct (in_slot_of d g c Hb Hc r2 (nm i j) Hr2 Hl') as (i0 & _ & Huniq).
    rewrite <- Hn2 in Hin, Hin2. rewrite (Huniq _ Hin), (Huniq _ Hin2). reflexivity.
  Qed.

  Theorem xy_walk : forall M i j inp r,
    (Z.abs_nat (tx - i) + Z.abs_nat (ty - j))%nat = M -> in_grid i j -> In r (c_rts c) -> cr_name r = nm i j ->
    inp_ok i j inp ->
    forall fuel rts sigs, (S M <= fuel)%nat ->
      t_out (walk fuel n nt (URt (cr_name r) inp) h rts sigs) = Delivered (cn_name t) h.
  Proof.
    induction M as [|M IH]; intros i j inp r HM Hij Hr Hn Hok fuel rts sigs Hfuel;
      (destruct fuel as [|fuel]; [lia|]).
    all: destruct (emitted_rt c ri n He Hnd r Hr) as (x & Hx & _).
    all: pose proof (select_xy r x i j Hr Hn Hij Hx) as Hsel.
    - (* at the destination router: eject *)
      assert (i = tx /\ j = ty) as (-> & ->) by lia.
      unfold xy_select in Hsel. rewrite !Z.eqb_refl in Hsel. cbn [andb] in Hsel.
      unfold inp_ok in Hok. rewrite !Z.ltb_irrefl in Hok.
      destruct (hw_step d g c ri n nt Hnt Hb Hc He Hwire r x inp h 4 h (cn_name t) fuel rts sigs Hr Hx Hsel
                  ltac:(rewrite Hn; apply (Hdest r Hr Hn)) Hok ltac:(unfold xy_masked; change (Z.of_nat 4) with 4; cbn [Z.eqb orb]; rewrite !andb_false_r; reflexivity))
        as (u & Hw & [(y & Hy & -> & Hyn)|(r2 & i2 & Hr2 & -> & Hn2 & _)]).
      + rewrite Hw. destruct fuel; cbn [walk t_out]; rewrite Hyn; reflexivity.
      + exfalso. apply (ni_rt_disjoint d g c Hb Hc t r2 Ht Hr2). congruence.
    - (* one more hop in dimension order *)
      set (k := xy_select (i - ox) (j - oy) (tx - ox) (ty - oy) 0) in *.
      assert (Hdir : exists dx dy, 0 <= k < 4 /\ to_coords k = Ok (dx, dy) /\ in_grid (i + dx) (j + dy) /\
                (Z.abs_nat (tx - (i + dx)) + Z.abs_nat (ty - (j + dy)))%nat = M /\
                Z.of_nat inp <> k /\ xy_masked (Z.of_nat inp) k = false /\ inp_ok (i + dx) (j + dy) (Z.to_nat (opp k))).
      { destruct Hij as (Hi & Hj). destruct Htg as (Htx & Hty). unfold inp_ok in Hok |- *. unfold k, xy_select, xy_masked.
        destruct (Z.ltb_spec tx i) as [L1|L1].
        - (* West *)
          exists (-1), 0. replace (tx - ox =? i - ox) with false by lia. cbn [andb]. replace (tx - ox <? i - ox) with true by lia.
          replace (i + -1) with (i - 1) by lia. replace (j + 0) with j by lia.
          split; [lia|]. split; [reflexivity|]. split; [split; lia|]. split; [lia|]. split; [lia|].
          split; [destruct Hok as (A & B & C); replace (Z.of_nat inp =? 2) with false by lia; replace (Z.of_nat inp =? 0) with false by lia; reflexivity|].
          solve_ok.
        - destruct (Z.ltb_spec i tx) as [L2|L2].
          + (* East *)
            exists 1, 0. replace (tx - ox =? i - ox) with false by lia. cbn [andb]. replace (tx - ox <? i - ox) with false by lia.
            replace (j + 0) with j by lia.
            split; [lia|]. split; [reflexivity|]. split; [split; lia|]. split; [lia|]. split; [lia|].
            split; [destruct Hok as (A & B & C); replace (Z.of_nat inp =? 2) with false by lia; replace (Z.of_nat inp =? 0) with false by lia; reflexivity|].
            solve_ok.
          + assert (i = tx) by lia. subst i. replace (tx - ox =? tx - ox) with true by lia.
            destruct (Z.ltb_spec j ty) as [L3|L3].
            * (* North *)
              exists 0, 1. replace (ty - oy =? j - oy) with false by lia. cbn [andb]. replace (ty - oy <? j - oy) with false by lia.
              replace (tx + 0) with tx by lia.
              split; [lia|]. split; [reflexivity|]. split; [split; lia|]. split; [lia|]. split; [lia|].
              split; [rewrite !andb_false_r; reflexivity|].
              solve_ok.
            * destruct (Z.ltb_spec ty j) as [L4|L4]; [|exfalso; assert (j = ty) by lia; subst j; cbn in HM; lia].
              (* South *)
              exists 0, (-1). replace (ty - oy =? j - oy) with false by lia. cbn [andb]. replace (ty - oy <? j - oy) with true by lia.
              replace (tx + 0) with tx by lia. replace (j + -1) with (j - 1) by lia.
              split; [lia|]. split; [reflexivity|]. split; [split; lia|]. split; [lia|]. split; [lia|].
              split; [rewrite !andb_false_r; reflexivity|].
              solve_ok. }
      destruct Hdir as (dx & dy & Hk & Htc & Hij' & HM' & Hne & Hmask & Hok').
      pose proof (port_to r i j k dx dy Hr Hn Hij Hk Htc Hij') as Hport.
      assert (Hsel' : select n x h = Ok (Z.of_nat (Z.to_nat k), h)) by (rewrite Z2Nat.id by lia; exact Hsel).
      destruct (hw_step d g c ri n nt Hnt Hb Hc He Hwire r x inp h (Z.to_nat k) h (nm (i + dx) (j + dy)) fuel rts sigs Hr Hx Hsel'
                  ltac:(rewrite Hn; exact Hport) ltac:(lia) ltac:(rewrite Z2Nat.id by lia; cbn [is_xy h andb]; exact Hmask))
        as (u & Hw & [(y & Hy & -> & Hyn)|(r2 & i2 & Hr2 & -> & Hn2 & Hin2)]).
      + exfalso. destruct (rt_at (i + dx) (j + dy) Hij') as (r3 & Hr3 & Hn3 & _).
        apply (ni_rt_disjoint d g c Hb Hc y r3 Hy Hr3). congruence.
      + rewrite Hw. rewrite Hn in Hin2.
        pose proof (arrives_on r2 i j k dx dy i2 Hij Hij' Hk Htc Hr2 Hn2 Hin2) as Hi2. subst i2.
        apply (IH (i + dx) (j + dy) (Z.to_nat (opp k)) r2 HM' Hij' Hr2 Hn2 Hok'). lia.
  Qed.


  (* C04 on the hardware model: a flit injected at interface s0, which enters the array at router (a, b) on a port
     compatible with the dimension-ordered path, with the coordinate of t in its header, is delivered to t *)
  Theorem xy_send s0 a b :
    In s0 (c_nis c) -> snd (attach nt s0) = nm a b -> in_grid a b ->
    (forall r i, In r (c_rts c) -> cr_name r = nm a b ->
       nth_error (cr_in r) i = Some (Some (cn_name s0, nm a b)) -> inp_ok a b i) ->
    t_out (send n nt (emit_ni d (ri_offset ri) s0) h) = Delivered (cn_name t) h.
  Proof.
    intros Hs0 Hatt Hab Hinp.
    destruct (inject_reader d g c ri n nt Hnt Hb Hc He Hwire s0 (nm a b) Hs0 Hatt) as (Hout & u & Hrdr & Hcases).
    unfold send. rewrite Hout. unfold Hw.follow. rewrite Hrdr.
    destruct Hcases as [(y & Hy & -> & Hyn)|(r & i & Hr & -> & Hn & Hin)].
    - exfalso. destruct (rt_at a b Hab) as (r3 & Hr3 & Hn3 & _). apply (ni_rt_disjoint d g c Hb Hc y r3 Hy Hr3). congruence.
    - apply (xy_walk (Z.abs_nat (tx - a) + Z.abs_nat (ty - b)) a b i r eq_refl Hab Hr Hn (Hinp r i Hr Hn Hin)).
      destruct (emit_inv _ _ _ He) as (_ & axi & rts & _ & Hrts' & Hn0). rewrite Hn0. cbn [n_rts].
      rewrite (mapM_length _ _ _ Hrts'), router_count. destruct Hab as (Ha1 & Hb1). destruct Htg as (Ht1 & Ht2). nia.
  Qed.

  (* ---------------------------------------------------------------- destinations on ANY port of a router *)
  (* the destination sits on port kd (0..3: a boundary port, the cell behind it lies outside the array; 4: the local
     port) of the router at (tx, ty); its coordinate is the router's plus the step of that port *)
  Section AnyPort.
    Variables (kd ddx ddy : Z).
    Hypothesis Hkd : 0 <= kd <= 4.
    Hypothesis Hdd : to_coords kd = Ok (ddx, ddy).
    Hypothesis HdestP : forall r, In r (c_rts c) -> cr_name r = nm tx ty ->
      nth_error (cr_out r) (Z.to_nat kd) = Some (Some (nm tx ty, cn_name t)).
    Let hx := tx + ddx.
    Let hy := ty + ddy.
    Let hP := HXY (hx - ox) (hy - oy) 0.

    Lemma dd_cases : (kd = 0 /\ ddx = 0 /\ ddy = 1) \/ (kd = 1 /\ ddx = 1 /\ ddy = 0) \/ (kd = 2 /\ ddx = 0 /\ ddy = -1) \/
                     (kd = 3 /\ ddx = -1 /\ ddy = 0) \/ (kd = 4 /\ ddx = 0 /\ ddy = 0).
    Proof.
      assert (Hc5 : kd = 0 \/ kd = 1 \/ kd = 2 \/ kd = 3 \/ kd = 4) by lia.
      destruct Hc5 as [-> | [-> | [-> | [-> | ->]]]]; cbv in Hdd; inversion Hdd; subst ddx ddy; tauto.
    Qed.

    (* the cell behind a boundary port is outside the array: otherwise that port would hold a mesh link *)
    Lemma target_outside : kd < 4 -> ~ in_grid hx hy.
    Proof.
      intros Hlt Hin. destruct (rt_at tx ty Htg) as (r & Hr & Hn & _).
      pose proof (port_to r tx ty kd ddx ddy Hr Hn Htg ltac:(lia) Hdd Hin) as Hp.
      rewrite (HdestP r Hr Hn) in Hp. inversion Hp as [Hq].
      destruct (rt_at hx hy Hin) as (r3 & Hr3 & Hn3 & _). apply (ni_rt_disjoint d g c Hb Hc t r3 Ht Hr3). unfold hx, hy in Hn3. congruence.
    Qed.

    Lemma select_xyP r x i j : In r (c_rts c) -> cr_name r = nm i j -> in_grid i j -> emit_rt (c_desc c) ri r = Ok x ->
      select n x hP = Ok (xy_select (i - ox) (j - oy) (hx - ox) (hy - oy) 0, hP).
    Proof.
      intros Hr Hn Hij Hx. pose proof (rt_coords r i j Hr Hn Hij) as Hid.
      destruct (xy_coordinates_fit c xb yb ab ox oy (gri_xy _ c ri _ Hri Hxy)) as (_ & Hfit).
      destruct (Hfit r Hr) as (x0 & y0 & p0 & Hid' & Fx & Fy). rewrite Hid in Hid'. inversion Hid'; subst x0 y0 p0.
      unfold emit_rt in Hx. cbv zeta in Hx. inv_bind Hx. inversion Hx; subst x; clear Hx.
      destruct (emit_inv _ _ _ He) as (_ & axi & rts & _ & _ & Hn0).
      unfold select, hP. cbn [r_id]. rewrite Hid. unfold ri_offset. rewrite Hxy. cbn [id_sub].
      rewrite Hn0. cbn [n_xy_bits]. rewrite Hxy. unfold trunc. rewrite !Z.mod_small by lia. reflexivity.
    Qed.

    Definition inp_okP (i j : Z) (inp : nat) : Prop :=
      if hx <? i then inp <> 0%nat /\ inp <> 2%nat /\ inp <> 3%nat
      else if i <? hx then inp <> 0%nat /\ inp <> 2%nat /\ inp <> 1%nat
      else if j <? hy then inp <> 0%nat
      else if hy <? j then inp <> 2%nat
      else inp <> 4%nat.
    (* a destination on an East / West port is reached along its own row only *)
    Definition row_ok (j : Z) : Prop := ddx <> 0 -> j = ty.

    Theorem xy_walkP : forall M i j inp r,
      (Z.abs_nat (hx - i) + Z.abs_nat (hy - j))%nat = M -> in_grid i j -> In r (c_rts c) -> cr_name r = nm i j ->
      inp_okP i j inp -> row_ok j ->
      forall fuel rts sigs, (S M <= fuel)%nat ->
        t_out (walk fuel n nt (URt (cr_name r) inp) hP rts sigs) = Delivered (cn_name t) hP.
    Proof.
      induction M as [M IH] using lt_wf_ind. intros i j inp r HM Hij Hr Hn Hok Hrow fuel rts sigs Hfuel.
      destruct fuel as [|fuel]; [lia|].
      destruct (emitted_rt c ri n He Hnd r Hr) as (x & Hx & _).
      pose proof (select_xyP r x i j Hr Hn Hij Hx) as Hsel.
      pose proof dd_cases as Hdc. pose proof Hij as (Hi & Hj). pose proof Htg as (Htx & Hty).
      destruct (Z.eq_dec i tx) as [Ei|Ei]; [destruct (Z.eq_dec j ty) as [Ej|Ej]|].
      - (* at the destination router: leave on port kd *)
        subst i j.
        assert (Hk : xy_select (tx - ox) (ty - oy) (hx - ox) (hy - oy) 0 = kd).
        { unfold xy_select, hx, hy. destruct Hdc as [(Ek & Ex & Ey)|[(Ek & Ex & Ey)|[(Ek & Ex & Ey)|[(Ek & Ex & Ey)|(Ek & Ex & Ey)]]]];
            rewrite Ek, Ex, Ey;
            repeat match goal with |- context [?a =? ?b] => destruct (Z.eqb_spec a b) end;
            repeat match goal with |- context [?a <? ?b] => destruct (Z.ltb_spec a b) end; cbn [andb]; lia. }
        rewrite Hk in Hsel.
        assert (Hsel' : select n x hP = Ok (Z.of_nat (Z.to_nat kd), hP)) by (rewrite Z2Nat.id by lia; exact Hsel).
        assert (Hne : inp <> Z.to_nat kd /\ xy_masked (Z.of_nat inp) kd = false).
        { unfold inp_okP, hx, hy in Hok. unfold xy_masked.
          destruct Hdc as [(Ek & Ex & Ey)|[(Ek & Ex & Ey)|[(Ek & Ex & Ey)|[(Ek & Ex & Ey)|(Ek & Ex & Ey)]]]];
            rewrite Ek; rewrite Ex, Ey in Hok;
            repeat match type of Hok with context [?a <? ?b] => destruct (Z.ltb_spec a b); try lia end;
            (split; [cbn; lia|]);
            repeat match goal with |- context [?a =? ?b] => destruct (Z.eqb_spec a b) end; cbn [andb orb]; try reflexivity; lia. }
        destruct Hne as (Hne & Hmask).
        destruct (hw_step d g c ri n nt Hnt Hb Hc He Hwire r x inp hP (Z.to_nat kd) hP (cn_name t) fuel rts sigs Hr Hx Hsel'
                    ltac:(rewrite Hn; apply (HdestP r Hr Hn)) Hne ltac:(rewrite Z2Nat.id by lia; cbn [is_xy hP andb]; exact Hmask))
          as (u & Hw & [(y & Hy & -> & Hyn)|(r2 & i2 & Hr2 & -> & Hn2 & _)]).
        + rewrite Hw. destruct fuel; cbn [walk t_out]; rewrite Hyn; reflexivity.
        + exfalso. apply (ni_rt_disjoint d g c Hb Hc t r2 Ht Hr2). congruence.
      - (* in the destination column, not yet in its row *)
        assert (Hddx : ddx = 0) by (destruct (Z.eq_dec ddx 0); [assumption|exfalso; apply Ej; apply Hrow; assumption]).
        set (k := xy_select (i - ox) (j - oy) (hx - ox) (hy - oy) 0) in *.
        assert (Hdir : exists dy, (dy = 1 \/ dy = -1) /\ k = (if dy =? 1 then 0 else 2) /\ in_grid i (j + dy) /\
                  (Z.abs_nat (hx - i) + Z.abs_nat (hy - (j + dy)) < M)%nat /\
                  Z.of_nat inp <> k /\ xy_masked (Z.of_nat inp) k = false /\ inp_okP i (j + dy) (Z.to_nat (opp k))).
        { unfold inp_okP, hx, hy in Hok, HM |- *. unfold k, xy_select, xy_masked, hx, hy. subst i. rewrite Hddx in Hok, HM |- *.
          replace (tx + 0 - ox =? tx - ox) with true by lia.
          replace (tx + 0 <? tx) with false in Hok |- * by lia. replace (tx <? tx + 0) with false in Hok |- * by lia.
          destruct (Z.ltb_spec j (ty + ddy)) as [L3|L3].
          - exists 1. replace (ty + ddy - oy =? j - oy) with false by lia. cbn [andb]. replace (ty + ddy - oy <? j - oy) with false by lia.
            cbn [Z.eqb]. split; [lia|]. split; [reflexivity|]. split; [split; lia|]. split; [lia|]. split; [lia|].
            split; [rewrite !andb_false_r; reflexivity|]. solve_ok.
          - destruct (Z.ltb_spec (ty + ddy) j) as [L4|L4].
            + exists (-1). replace (ty + ddy - oy =? j - oy) with false by lia. cbn [andb]. replace (ty + ddy - oy <? j - oy) with true by lia.
              cbn [Z.eqb]. split; [lia|]. split; [reflexivity|]. split; [split; lia|]. split; [lia|]. split; [lia|].
              split; [rewrite !andb_false_r; reflexivity|]. solve_ok.
            + exfalso. assert (j = ty + ddy) by lia.
              destruct (Z.eq_dec kd 4) as [E4|E4].
              * destruct Hdc as [(? & _)|[(? & _)|[(? & _)|[(? & _)|(_ & _ & Ey)]]]]; lia.
              * apply (target_outside ltac:(lia)). unfold hx, hy. rewrite Hddx. split; lia. }
        destruct Hdir as (dy & Hdy & Hk & Hij' & HM' & Hne & Hmask & Hok').
        assert (Htc : to_coords k = Ok (0, dy)) by (rewrite Hk; destruct Hdy as [-> | ->]; reflexivity).
        assert (Hk4 : 0 <= k < 4) by (rewrite Hk; destruct Hdy as [-> | ->]; cbn; lia).
        pose proof (port_to r i j k 0 dy Hr Hn Hij Hk4 Htc ltac:(replace (i + 0) with i by lia; exact Hij')) as Hport.
        assert (Hsel' : select n x hP = Ok (Z.of_nat (Z.to_nat k), hP)) by (rewrite Z2Nat.id by lia; exact Hsel).
        destruct (hw_step d g c ri n nt Hnt Hb Hc He Hwire r x inp hP (Z.to_nat k) hP (nm (i + 0) (j + dy)) fuel rts sigs Hr Hx Hsel'
                    ltac:(rewrite Hn; exact Hport) ltac:(lia) ltac:(rewrite Z2Nat.id by lia; cbn [is_xy hP andb]; exact Hmask))
          as (u & Hw & [(y & Hy & -> & Hyn)|(r2 & i2 & Hr2 & -> & Hn2 & Hin2)]).
        + exfalso. destruct (rt_at (i + 0) (j + dy) ltac:(replace (i + 0) with i by lia; exact Hij')) as (r3 & Hr3 & Hn3 & _).
          apply (ni_rt_disjoint d g c Hb Hc y r3 Hy Hr3). congruence.
        + rewrite Hw. rewrite Hn in Hin2.
          pose proof (arrives_on r2 i j k 0 dy i2 Hij ltac:(replace (i + 0) with i by lia; exact Hij') Hk4 Htc Hr2 Hn2 Hin2) as Hi2. subst i2.
          replace (i + 0) with i in Hn2 by lia.
          apply (IH _ HM' i (j + dy) (Z.to_nat (opp k)) r2 eq_refl Hij' Hr2 Hn2 Hok'); [|lia].
          intros Hnz. contradiction.
      - (* not yet in the destination column: move along the row *)
        set (k := xy_select (i - ox) (j - oy) (hx - ox) (hy - oy) 0) in *.
        assert (Hnotcol : hx <> i).
        { intros Hq. unfold hx in Hq. destruct (Z.eq_dec ddx 0) as [Z0|NZ]; [lia|].
          pose proof (Hrow NZ) as Hj'. subst j.
          apply (target_outside ltac:(destruct Hdc as [(? & ? & _)|[(? & ? & _)|[(? & ? & _)|[(? & ? & _)|(? & ? & _)]]]]; lia)).
          unfold hx, hy. destruct Hdc as [(? & ? & ?)|[(? & ? & ?)|[(? & ? & ?)|[(? & ? & ?)|(? & ? & ?)]]]]; try lia; split; lia. }
        assert (Hdir : exists dx, (dx = 1 \/ dx = -1) /\ k = (if dx =? 1 then 1 else 3) /\ in_grid (i + dx) j /\
                  (Z.abs_nat (hx - (i + dx)) + Z.abs_nat (hy - j) < M)%nat /\
                  Z.of_nat inp <> k /\ xy_masked (Z.of_nat inp) k = false /\ inp_okP (i + dx) j (Z.to_nat (opp k))).
        { unfold inp_okP in Hok |- *. unfold k, xy_select, xy_masked.
          replace (hx - ox =? i - ox) with false by lia. cbn [andb].
          assert (Hrange : (hx < i -> 0 <= i - 1) /\ (i < hx -> i + 1 < mm)).
          { unfold hx in Hnotcol |- *. destruct Hdc as [(? & ? & ?)|[(? & ? & ?)|[(? & ? & ?)|[(? & ? & ?)|(? & ? & ?)]]]]; split; intros;
              first [lia | (assert (j = ty) by (apply Hrow; lia); lia)]. }
          destruct Hrange as (R1 & R2).
          destruct (Z.ltb_spec hx i) as [L1|L1].
          - exists (-1). replace (hx - ox <? i - ox) with true by lia. cbn [Z.eqb].
            replace (i + -1) with (i - 1) by lia.
            split; [lia|]. split; [reflexivity|]. split; [split; lia|]. split; [lia|]. split; [lia|].
            split; [destruct Hok as (A & B & C); replace (Z.of_nat inp =? 2) with false by lia; replace (Z.of_nat inp =? 0) with false by lia; reflexivity|].
            solve_ok.
          - assert (L2 : i < hx) by lia. destruct (Z.ltb_spec i hx); [|lia].
            exists 1. replace (hx - ox <? i - ox) with false by lia. cbn [Z.eqb].
            split; [lia|]. split; [reflexivity|]. split; [split; lia|]. split; [lia|]. split; [lia|].
            split; [destruct Hok as (A & B & C); replace (Z.of_nat inp =? 2) with false by lia; replace (Z.of_nat inp =? 0) with false by lia; reflexivity|].
            solve_ok. }
        destruct Hdir as (dx & Hdx & Hk & Hij' & HM' & Hne & Hmask & Hok').
        assert (Htc : to_coords k = Ok (dx, 0)) by (rewrite Hk; destruct Hdx as [-> | ->]; reflexivity).
        assert (Hk4 : 0 <= k < 4) by (rewrite Hk; destruct Hdx as [-> | ->]; cbn; lia).
        pose proof (port_to r i j k dx 0 Hr Hn Hij Hk4 Htc ltac:(replace (j + 0) with j by lia; exact Hij')) as Hport.
        assert (Hsel' : select n x hP = Ok (Z.of_nat (Z.to_nat k), hP)) by (rewrite Z2Nat.id by lia; exact Hsel).
        destruct (hw_step d g c ri n nt Hnt Hb Hc He Hwire r x inp hP (Z.to_nat k) hP (nm (i + dx) (j + 0)) fuel rts sigs Hr Hx Hsel'
                    ltac:(rewrite Hn; exact Hport) ltac:(lia) ltac:(rewrite Z2Nat.id by lia; cbn [is_xy hP andb]; exact Hmask))
          as (u & Hw & [(y & Hy & -> & Hyn)|(r2 & i2 & Hr2 & -> & Hn2 & Hin2)]).
        + exfalso. destruct (rt_at (i + dx) (j + 0) ltac:(replace (j + 0) with j by lia; exact Hij')) as (r3 & Hr3 & Hn3 & _).
          apply (ni_rt_disjoint d g c Hb Hc y r3 Hy Hr3). congruence.
        + rewrite Hw. rewrite Hn in Hin2.
          pose proof (arrives_on r2 i j k dx 0 i2 Hij ltac:(replace (j + 0) with j by lia; exact Hij') Hk4 Htc Hr2 Hn2 Hin2) as Hi2. subst i2.
          replace (j + 0) with j in Hn2 by lia.
          apply (IH _ HM' (i + dx) j (Z.to_nat (opp k)) r2 eq_refl Hij' Hr2 Hn2 Hok' Hrow). lia.
    Qed.

    (* C04 on the hardware model, any destination port: a flit injected at interface s0, which enters the array at
       router (a, b) on a port compatible with the dimension-ordered path (and, for a destination on an East / West
       port, in the destination's row), with the coordinate of t in its header, is delivered to t *)
    Theorem xy_sendP s0 a b :
      In s0 (c_nis c) -> snd (attach nt s0) = nm a b -> in_grid a b -> row_ok b ->
      (forall r i, In r (c_rts c) -> cr_name r = nm a b ->
         nth_error (cr_in r) i = Some (Some (cn_name s0, nm a b)) -> inp_okP a b i) ->
      t_out (send n nt (emit_ni d (ri_offset ri) s0) hP) = Delivered (cn_name t) hP.
    Proof.
      intros Hs0 Hatt Hab Hrow Hinp.
      destruct (inject_reader d g c ri n nt Hnt Hb Hc He Hwire s0 (nm a b) Hs0 Hatt) as (Hout & u & Hrdr & Hcases).
      unfold send. rewrite Hout. unfold Hw.follow. rewrite Hrdr.
      destruct Hcases as [(y & Hy & -> & Hyn)|(r & i & Hr & -> & Hn & Hin)].
      - exfalso. destruct (rt_at a b Hab) as (r3 & Hr3 & Hn3 & _). apply (ni_rt_disjoint d g c Hb Hc y r3 Hy Hr3). congruence.
      - apply (xy_walkP (Z.abs_nat (hx - a) + Z.abs_nat (hy - b)) a b i r eq_refl Hab Hr Hn (Hinp r i Hr Hn Hin) Hrow).
        destruct (emit_inv _ _ _ He) as (_ & axi & rts & _ & Hrts' & Hn0). rewrite Hn0. cbn [n_rts].
        rewrite (mapM_length _ _ _ Hrts'), router_count. destruct Hab as (Ha1 & Hb1). destruct Htg as (Ht1 & Ht2).
        pose proof dd_cases as Hdc. unfold hx, hy.
        destruct Hdc as [(? & ? & ?)|[(? & ? & ?)|[(? & ? & ?)|[(? & ? & ?)|(? & ? & ?)]]]]; nia.
    Qed.
  End AnyPort.

  (* ---------------------------------------------------------------- the bisimulation with the ideal grid *)
  (* For ANY target coordinate (cx, cy): stepping the hardware's decision over the emitted netlist from router (i, j)
     gives the same outcome -- delivered to whom, blocked by which ban, or lost on an open port -- as Check.ideal on a
     grid G whose attachments are what the compiled routers carry on the ports that do not lead to a neighbour. *)
  Section Bisim.
    Variable G : grid.
    Hypothesis Gm : gr_m G = mm.
    Hypothesis Gn : gr_n G = nn.
    Hypothesis att_ok : forall r i j k, In r (c_rts c) -> cr_name r = nm i j -> in_grid i j -> 0 <= k <= 4 ->
      ~ (k < 4 /\ in_grid (i + fst (dir_delta k)) (j + snd (dir_delta k))) ->
      match nth_error (cr_out r) (Z.to_nat k) with
      | Some (Some l) => exists y, In y (c_nis c) /\ l = (nm i j, cn_name y) /\ att_at G i j k = Some (cn_name y)
      | _ => att_at G i j k = None
      end.

    Lemma select_any r x i j cx cy : In r (c_rts c) -> cr_name r = nm i j -> in_grid i j -> emit_rt (c_desc c) ri r = Ok x ->
      select n x (HXY (cx - ox) (cy - oy) 0) = Ok (xy_select i j cx cy 0, HXY (cx - ox) (cy - oy) 0).
    Proof.
      intros Hr Hn Hij Hx. pose proof (rt_coords r i j Hr Hn Hij) as Hid.
      destruct (xy_coordinates_fit c xb yb ab ox oy (gri_xy _ c ri _ Hri Hxy)) as (_ & Hfit).
      destruct (Hfit r Hr) as (x0 & y0 & p0 & Hid' & Fx & Fy). rewrite Hid in Hid'. inversion Hid'; subst x0 y0 p0.
      unfold emit_rt in Hx. cbv zeta in Hx. inv_bind Hx. inversion Hx; subst x; clear Hx.
      destruct (emit_inv _ _ _ He) as (_ & axi & rts & _ & _ & Hn0).
      unfold select. cbn [r_id]. rewrite Hid. unfold ri_offset. rewrite Hxy. cbn [id_sub].
      rewrite Hn0. cbn [n_xy_bits]. rewrite Hxy. unfold trunc. rewrite !Z.mod_small by lia.
      f_equal. f_equal. unfold xy_select.
      replace (cx - ox =? i - ox) with (cx =? i) by lia. replace (cy - oy =? j - oy) with (cy =? j) by lia.
      replace (cy - oy <? j - oy) with (cy <? j) by lia. replace (cx - ox <? i - ox) with (cx <? i) by lia. reflexivity.
    Qed.

    (* how many more routers the walk can visit *)
    Definition xy_mu (i j cx cy : Z) : nat :=
      Z.to_nat ((if cx <? i then i else if i <? cx then mm - 1 - i else 0) +
                (if i =? cx then (if cy <? j then j else if j <? cy then nn - 1 - j else 0) else nn)).

    Theorem xy_bisim : forall B i j inp r cx cy,
      in_grid i j -> In r (c_rts c) -> cr_name r = nm i j -> (xy_mu i j cx cy <= B)%nat ->
      forall fi fh rts sigs, (B < fi)%nat -> (B < fh)%nat ->
        classify (t_out (walk fh n nt (URt (cr_name r) inp) (HXY (cx - ox) (cy - oy) 0) rts sigs)) =
        ideal fi G i j (Z.of_nat inp) cx cy.
    Proof.
      induction B as [B IH] using lt_wf_ind. intros i j inp r cx cy Hij Hr Hn Hmu fi fh rts sigs Hfi Hfh.
      destruct fi as [|fi]; [lia|]. destruct fh as [|fh]; [lia|].
      destruct (emitted_rt c ri n He Hnd r Hr) as (x & Hx & _).
      pose proof (select_any r x i j cx cy Hr Hn Hij Hx) as Hsel.
      set (out := xy_select i j cx cy 0) in *.
      assert (Hout : 0 <= out <= 4).
      { unfold out, xy_select. destruct ((cx =? i) && (cy =? j)); [lia|]. destruct (cx =? i); [destruct (cy <? j); lia|destruct (cx <? i); lia]. }
      assert (Hsel' : select n x (HXY (cx - ox) (cy - oy) 0) = Ok (Z.of_nat (Z.to_nat out), HXY (cx - ox) (cy - oy) 0))
        by (rewrite Z2Nat.id by lia; exact Hsel).
      pose proof (hw_stop d g c ri n nt Hnt Hb Hc He Hwire r x inp _ (Z.to_nat out) _ fh rts sigs Hr Hx Hsel') as Hstop.
      rewrite Z2Nat.id in Hstop by lia. cbn [is_xy andb] in Hstop.
      cbn [ideal]. fold out.
      destruct (Z.eqb_spec out (Z.of_nat inp)) as [Eio|Nio].
      { rewrite Hstop. replace (Nat.eqb inp (Z.to_nat out)) with true by (symmetry; apply Nat.eqb_eq; lia). reflexivity. }
      replace (Nat.eqb inp (Z.to_nat out)) with false in Hstop by (symmetry; apply Nat.eqb_neq; lia).
      destruct (xy_masked (Z.of_nat inp) out) eqn:Em; [exact Hstop|].
      pose proof Hij as (Hi & Hj).
      (* does port `out` lead to a neighbouring router? *)
      set (dx := fst (dir_delta out)). set (dy := snd (dir_delta out)).
      assert (Htc : out < 4 -> to_coords out = Ok (dx, dy)).
      { intros Hlt. unfold dx, dy, dir_delta, to_coords.
        assert (Hc4 : out = 0 \/ out = 1 \/ out = 2 \/ out = 3) by lia. destruct Hc4 as [-> | [-> | [-> | ->]]]; reflexivity. }
      destruct (Z.leb_spec 4 out) as [L4|L4].
      - (* eject *)
        assert (out = 4) by lia.
        pose proof (att_ok r i j out Hr Hn Hij Hout ltac:(intros (X & _); lia)) as Hatt.
        destruct (nth_error (cr_out r) (Z.to_nat out)) as [[l|]|] eqn:Ek.
        + destruct Hatt as (y & Hy & -> & Hat). rewrite Hat.
          destruct (hw_step d g c ri n nt Hnt Hb Hc He Hwire r x inp _ (Z.to_nat out) _ (cn_name y) fh rts sigs Hr Hx Hsel'
                      ltac:(rewrite Hn; exact Ek) ltac:(lia) ltac:(rewrite Z2Nat.id by lia; cbn [is_xy andb]; exact Em))
            as (u & Hw & [(y' & Hy' & -> & Hyn)|(r2 & i2 & Hr2 & -> & Hn2 & _)]).
          * rewrite Hw. destruct fh; cbn [walk t_out classify]; rewrite Hyn; reflexivity.
          * exfalso. apply (ni_rt_disjoint d g c Hb Hc y r2 Hy Hr2). congruence.
        + rewrite Hatt. exact Hstop.
        + rewrite Hatt. exact Hstop.
      - (* a compass port *)
        destruct (dir_delta out) as [dx0 dy0] eqn:Edd. cbn [fst snd] in dx, dy. subst dx dy.
        rewrite Gm, Gn.
        destruct ((0 <=? i + dx0) && (i + dx0 <? mm) && (0 <=? j + dy0) && (j + dy0 <? nn)) eqn:Ein.
        + (* the neighbour is in the array: one more hop *)
          assert (Hij' : in_grid (i + dx0) (j + dy0)) by (unfold in_grid; lia).
          pose proof (port_to r i j out dx0 dy0 Hr Hn Hij ltac:(lia) (Htc L4) Hij') as Hport.
          destruct (hw_step d g c ri n nt Hnt Hb Hc He Hwire r x inp _ (Z.to_nat out) _ (nm (i + dx0) (j + dy0)) fh rts sigs Hr Hx Hsel'
                      ltac:(rewrite Hn; exact Hport) ltac:(lia) ltac:(rewrite Z2Nat.id by lia; cbn [is_xy andb]; exact Em))
            as (u & Hw & [(y & Hy & -> & Hyn)|(r2 & i2 & Hr2 & -> & Hn2 & Hin2)]).
          * exfalso. destruct (rt_at (i + dx0) (j + dy0) Hij') as (r3 & Hr3 & Hn3 & _).
            apply (ni_rt_disjoint d g c Hb Hc y r3 Hy Hr3). congruence.
          * rewrite Hw. rewrite Hn in Hin2.
            pose proof (arrives_on r2 i j out dx0 dy0 i2 Hij Hij' ltac:(lia) (Htc L4) Hr2 Hn2 Hin2) as Hi2. subst i2.
            assert (Hrev : Z.of_nat (Z.to_nat (opp out)) = rev_dir out).
            { unfold opp, rev_dir. assert (Hc4 : out = 0 \/ out = 1 \/ out = 2 \/ out = 3) by lia.
              destruct Hc4 as [-> | [-> | [-> | ->]]]; reflexivity. }
            rewrite <- Hrev.
            assert (Hdec : (xy_mu (i + dx0) (j + dy0) cx cy < xy_mu i j cx cy)%nat).
            { unfold xy_mu. unfold out, xy_select in *. unfold dir_delta in Edd.
              destruct ((cx =? i) && (cy =? j)) eqn:E0; [lia|].
              destruct (Z.eqb_spec cx i) as [Ex|Nx].
              - destruct (Z.ltb_spec cy j); cbn in Edd; inversion Edd; subst dx0 dy0;
                  repeat match goal with |- context [?a <? ?b] => destruct (Z.ltb_spec a b) end;
                  repeat match goal with |- context [?a =? ?b] => destruct (Z.eqb_spec a b) end; lia.
              - destruct (Z.ltb_spec cx i); cbn in Edd; inversion Edd; subst dx0 dy0;
                  repeat match goal with |- context [?a <? ?b] => destruct (Z.ltb_spec a b) end;
                  repeat match goal with |- context [?a =? ?b] => destruct (Z.eqb_spec a b) end; lia. }
            apply (IH (B - 1)%nat ltac:(lia) (i + dx0) (j + dy0) (Z.to_nat (opp out)) r2 cx cy Hij' Hr2 Hn2 ltac:(lia)); lia.
        + (* the port leads out of the array: an attached interface, or nothing *)
          pose proof (att_ok r i j out Hr Hn Hij Hout ltac:(rewrite Edd; cbn [fst snd]; unfold in_grid; intros (_ & X); lia)) as Hatt.
          destruct (nth_error (cr_out r) (Z.to_nat out)) as [[l|]|] eqn:Ek.
          * destruct Hatt as (y & Hy & -> & Hat). rewrite Hat.
            destruct (hw_step d g c ri n nt Hnt Hb Hc He Hwire r x inp _ (Z.to_nat out) _ (cn_name y) fh rts sigs Hr Hx Hsel'
                        ltac:(rewrite Hn; exact Ek) ltac:(lia) ltac:(rewrite Z2Nat.id by lia; cbn [is_xy andb]; exact Em))
              as (u & Hw & [(y' & Hy' & -> & Hyn)|(r2 & i2 & Hr2 & -> & Hn2 & _)]).
            -- rewrite Hw. destruct fh; cbn [walk t_out classify]; rewrite Hyn; reflexivity.
            -- exfalso. apply (ni_rt_disjoint d g c Hb Hc y r2 Hy Hr2). congruence.
          * rewrite Hatt. exact Hstop.
          * rewrite Hatt. exact Hstop.
    Qed.
  End Bisim.
End Grid.

(* the header an interface builds from the identity of t is the coordinate header used above *)
Lemma xy_header sp c ri n t tx ty xb yb ab ox oy :
  gen_routing_info sp c = Ok ri -> emit c ri = Ok n -> ri_xy ri = Some (xb, (yb, (ab, (ox, oy)))) ->
  In t (c_nis c) -> cn_id t = IdXY tx ty 0 ->
  hdr_of_id n (Netlist.ni_id (emit_ni (c_desc c) (ri_offset ri) t)) = HXY (tx - ox) (ty - oy) 0.
Proof.
  intros Hri He Hxy Ht Hid.
  destruct (xy_coordinates_fit c xb yb ab ox oy (gri_xy _ c ri _ Hri Hxy)) as (Hfit & _).
  destruct (Hfit t Ht) as (x0 & y0 & p0 & Hid' & Fx & Fy). rewrite Hid in Hid'. inversion Hid'; subst x0 y0 p0.
  destruct (emit_inv _ _ _ He) as (_ & axi & rts & _ & _ & Hn0).
  cbn [emit_ni Netlist.ni_id]. rewrite Hid. unfold ri_offset. rewrite Hxy. cbn [id_sub]. unfold hdr_of_id.
  rewrite Hn0. cbn [n_xy_bits]. rewrite Hxy. unfold trunc. rewrite !Z.mod_small by lia. reflexivity.
Qed.


(* ------------------------------------------------------------------ both interfaces on local ports *)
Section Local.
  Variables (d : desc) (g : graph) (c : compiled) (rd : rt_desc) (mm nn : Z).
  Hypothesis Hb : build d = Ok g.
  Hypothesis Hc : compile d g = Ok c.
  Hypothesis Halgo : d_algo d = XY.
  Hypothesis Hrts : d_rts d = [rd].
  Hypothesis Harr : rt_array rd = Some [mm; nn].
  Hypothesis Htree : rt_tree rd = None.
  Hypothesis Hauto : rt_auto rd = true.
  Variables (sp : oracle) (ri : rinfo) (n : netlist) (nt : net).
  Hypothesis Hnt : net_ok d nt.
  Hypothesis Hri : gen_routing_info sp c = Ok ri.
  Hypothesis He : emit c ri = Ok n.
  Hypothesis Hwire : forall l, In l (n_links n) -> fst l = net_type nt -> signal_ok n l.
  Variables (xb yb ab ox oy : Z).
  Hypothesis Hxy : ri_xy ri = Some (xb, (yb, (ab, (ox, oy)))).
  Let nm (i j : Z) : string := full_name (rt_name rd) [i; j].

  (* interface x sits on the local port (Eject, index 4) of the router at (i, j): the two link edges between them
     name direction 4 at the router end *)
  Definition on_local (x : cni) (i j : Z) : Prop :=
    in_grid mm nn i j /\
    (exists e, In e (g_edges g) /\ is_link e = true /\ e_src e = nm i j /\ e_dst e = cn_name x /\ e_src_dir e = Some 4) /\
    (exists e, In e (g_edges g) /\ is_link e = true /\ e_src e = cn_name x /\ e_dst e = nm i j /\ e_dst_dir e = Some 4) /\
    attach nt x = (cn_name x, nm i j).

  Lemma local_out x i j r : on_local x i j -> In r (c_rts c) -> cr_name r = nm i j ->
    nth_error (cr_out r) 4 = Some (Some (nm i j, cn_name x)).
  Proof.
    intros (_ & (e & Hin & Hl & Hs & Hd & Hdir) & _) Hr Hn.
    destruct (crt_origin d g c Hc r Hr) as (rt & rid & Hq & Hnr).
    assert (Hef : In e (filter is_link (edges_from g (n_name rt)))).
    { apply filter_In. split; [|exact Hl]. unfold edges_from. apply filter_In. split.
      - apply (edges_view_In g e (proj2 (build_ginv d g Hb))). exact Hin.
      - apply String.eqb_eq. congruence. }
    pose proof (dir_out_slot d g rt rid r Hq e 4 Hef Hdir ltac:(lia)) as H. unfold epair in H. rewrite Hs, Hd in H. exact H.
  Qed.

  Lemma local_in x i j r k : on_local x i j -> In r (c_rts c) -> cr_name r = nm i j ->
    nth_error (cr_in r) k = Some (Some (cn_name x, nm i j)) -> k = 4%nat.
  Proof.
    intros (_ & _ & (e & Hin & Hl & Hs & Hd & Hdir) & _) Hr Hn Hk.
    destruct (crt_origin d g c Hc r Hr) as (rt & rid & Hq & Hnr).
    assert (Hef : In e (filter is_link (edges_to g (n_name rt)))).
    { apply filter_In. split; [|exact Hl]. unfold edges_to. apply filter_In. split.
      - apply (edges_view_In g e (proj2 (build_ginv d g Hb))). exact Hin.
      - apply String.eqb_eq. congruence. }
    pose proof (dir_in_slot d g rt rid r Hq e 4 Hef Hdir ltac:(lia)) as H4. unfold epair in H4. rewrite Hs, Hd in H4.
    assert (Hl' : is_link_of g (cn_name x, cr_name r)) by (exists e; cbn; repeat split; auto; congruence).
    destruct (in_slot_of d g c Hb Hc r (cn_name x) Hr Hl') as (i0 & _ & Huniq).
    rewrite <- Hn in Hk, H4. pose proof (Huniq _ Hk) as E1. pose proof (Huniq _ H4) as E2. change (Z.to_nat 4) with 4%nat in E2. lia.
  Qed.

  (* C04: any two different interfaces on local ports of the array reach each other *)
  Theorem xy_send_local s0 t a b tx ty :
    In s0 (c_nis c) -> In t (c_nis c) -> cn_name s0 <> cn_name t ->
    on_local s0 a b -> on_local t tx ty ->
    t_out (send n nt (emit_ni d (ri_offset ri) s0) (HXY (tx - ox) (ty - oy) 0)) = Delivered (cn_name t) (HXY (tx - ox) (ty - oy) 0).
  Proof.
    intros Hs0 Ht Hne Hls Hlt.
    pose proof Hls as (Hab & _ & _ & Hatt). pose proof Hlt as (Htg & _).
    apply (xy_send d g c rd mm nn Hb Hc Halgo Hrts Harr Htree Hauto sp ri n nt Hnt Hri He Hwire xb yb ab ox oy Hxy t tx ty Ht Htg
             (fun r Hr Hn => local_out t tx ty r Hlt Hr Hn) s0 a b Hs0 ltac:(rewrite Hatt; reflexivity) Hab).
    intros r i Hr Hn Hin. pose proof (local_in s0 a b r i Hls Hr Hn Hin) as ->.
    (* port 4 is compatible with every phase except arrival; arrival would put s0 and t on the same local port *)
    unfold inp_ok. destruct (Z.ltb_spec tx a); [repeat split; discriminate|]. destruct (Z.ltb_spec a tx); [repeat split; discriminate|].
    destruct (Z.ltb_spec b ty); [discriminate|]. destruct (Z.ltb_spec ty b); [discriminate|].
    exfalso. assert (a = tx) by lia. assert (b = ty) by lia. subst a b.
    pose proof (local_out t tx ty r Hlt Hr Hn) as Ho.
    destruct (crt_out_link d g c Hb Hc r 4 _ _ Hr Ho) as (_ & Hin4 & _).
    rewrite Hin4 in Hin. inversion Hin. congruence.
  Qed.
End Local.

(* ------------------------------------------------------------------ interfaces on any ports of the array *)
Section Ports.
  Variables (d : desc) (g : graph) (c : compiled) (rd : rt_desc) (mm nn : Z).
  Hypothesis Hb : build d = Ok g.
  Hypothesis Hc : compile d g = Ok c.
  Hypothesis Halgo : d_algo d = XY.
  Hypothesis Hrts : d_rts d = [rd].
  Hypothesis Harr : rt_array rd = Some [mm; nn].
  Hypothesis Htree : rt_tree rd = None.
  Hypothesis Hauto : rt_auto rd = true.
  Variables (sp : oracle) (ri : rinfo) (n : netlist) (nt : net).
  Hypothesis Hnt : net_ok d nt.
  Hypothesis Hri : gen_routing_info sp c = Ok ri.
  Hypothesis He : emit c ri = Ok n.
  Hypothesis Hwire : forall l, In l (n_links n) -> fst l = net_type nt -> signal_ok n l.
  Variables (xb yb ab ox oy : Z).
  Hypothesis Hxy : ri_xy ri = Some (xb, (yb, (ab, (ox, oy)))).
  Let nm (i j : Z) : string := full_name (rt_name rd) [i; j].

  (* interface x sits on port k (0..3 a boundary port, 4 the local port) of the router at (i, j): the two link edges
     between them name direction k at the router end *)
  Definition on_port (x : cni) (i j k : Z) : Prop :=
    in_grid mm nn i j /\ 0 <= k <= 4 /\
    (exists e, In e (g_edges g) /\ is_link e = true /\ e_src e = nm i j /\ e_dst e = cn_name x /\ e_src_dir e = Some k) /\
    (exists e, In e (g_edges g) /\ is_link e = true /\ e_src e = cn_name x /\ e_dst e = nm i j /\ e_dst_dir e = Some k) /\
    attach nt x = (cn_name x, nm i j).

  Lemma port_out x i j k r : on_port x i j k -> In r (c_rts c) -> cr_name r = nm i j ->
    nth_error (cr_out r) (Z.to_nat k) = Some (Some (nm i j, cn_name x)).
  Proof.
    intros (_ & Hk & (e & Hin & Hl & Hs & Hd & Hdir) & _) Hr Hn.
    destruct (crt_origin d g c Hc r Hr) as (rt & rid & Hq & Hnr).
    assert (Hef : In e (filter is_link (edges_from g (n_name rt)))).
    { apply filter_In. split; [|exact Hl]. unfold edges_from. apply filter_In. split.
      - apply (edges_view_In g e (proj2 (build_ginv d g Hb))). exact Hin.
      - apply String.eqb_eq. congruence. }
    pose proof (dir_out_slot d g rt rid r Hq e k Hef Hdir ltac:(lia)) as H. unfold epair in H. rewrite Hs, Hd in H. exact H.
  Qed.

  Lemma port_in x i j k r i0 : on_port x i j k -> In r (c_rts c) -> cr_name r = nm i j ->
    nth_error (cr_in r) i0 = Some (Some (cn_name x, nm i j)) -> i0 = Z.to_nat k.
  Proof.
    intros (_ & Hk & _ & (e & Hin & Hl & Hs & Hd & Hdir) & _) Hr Hn Hi0.
    destruct (crt_origin d g c Hc r Hr) as (rt & rid & Hq & Hnr).
    assert (Hef : In e (filter is_link (edges_to g (n_name rt)))).
    { apply filter_In. split; [|exact Hl]. unfold edges_to. apply filter_In. split.
      - apply (edges_view_In g e (proj2 (build_ginv d g Hb))). exact Hin.
      - apply String.eqb_eq. congruence. }
    pose proof (dir_in_slot d g rt rid r Hq e k Hef Hdir ltac:(lia)) as H4. unfold epair in H4. rewrite Hs, Hd in H4.
    assert (Hl' : is_link_of g (cn_name x, cr_name r)) by (exists e; cbn; repeat split; auto; congruence).
    destruct (in_slot_of d g c Hb Hc r (cn_name x) Hr Hl') as (i1 & _ & Huniq).
    rewrite <- Hn in Hi0, H4. pose proof (Huniq _ Hi0) as E1. pose proof (Huniq _ H4) as E2. lia.
  Qed.

  (* C04: an interface on ANY port reaches an interface on ANY port whenever dimension-ordered routing can serve the
     pair: the entry port is compatible with the path (no loop-back, no Y-to-X turn: `inp_okP`) and a destination on
     an East / West port lies in the row the flit enters (`row_ok`) *)
  Theorem xy_send_ports s0 t a b ks tx ty kd ddx ddy :
    In s0 (c_nis c) -> In t (c_nis c) ->
    on_port s0 a b ks -> on_port t tx ty kd -> to_coords kd = Ok (ddx, ddy) ->
    row_ok ty ddx b -> inp_okP tx ty ddx ddy a b (Z.to_nat ks) ->
    let h := HXY (tx + ddx - ox) (ty + ddy - oy) 0 in
    t_out (send n nt (emit_ni d (ri_offset ri) s0) h) = Delivered (cn_name t) h.
  Proof.
    intros Hs0 Ht Hls Hlt Hdd Hrow Hinp. cbv zeta.
    pose proof Hls as (Hab & _ & _ & _ & Hatt). pose proof Hlt as (Htg & Hkd & _).
    apply (xy_sendP d g c rd mm nn Hb Hc Halgo Hrts Harr Htree Hauto sp ri n nt Hnt Hri He Hwire xb yb ab ox oy Hxy t tx ty Ht Htg
             kd ddx ddy Hkd Hdd (fun r Hr Hn => port_out t tx ty kd r Hlt Hr Hn) s0 a b Hs0 ltac:(rewrite Hatt; reflexivity) Hab Hrow).
    intros r i Hr Hn Hin. rewrite (port_in s0 a b ks r i Hls Hr Hn Hin). exact Hinp.
  Qed.
End Ports.

(* ------------------------------------------------------------------ the bisimulation, from injection to outcome *)
Section BisimSend.
  Variables (d : desc) (g : graph) (c : compiled) (rd : rt_desc) (mm nn : Z).
  Hypothesis Hb : build d = Ok g.
  Hypothesis Hc : compile d g = Ok c.
  Hypothesis Halgo : d_algo d = XY.
  Hypothesis Hrts : d_rts d = [rd].
  Hypothesis Harr : rt_array rd = Some [mm; nn].
  Hypothesis Htree : rt_tree rd = None.
  Hypothesis Hauto : rt_auto rd = true.
  Variables (sp : oracle) (ri : rinfo) (n : netlist) (nt : net).
  Hypothesis Hnt : net_ok d nt.
  Hypothesis Hri : gen_routing_info sp c = Ok ri.
  Hypothesis He : emit c ri = Ok n.
  Hypothesis Hwire : forall l, In l (n_links n) -> fst l = net_type nt -> signal_ok n l.
  Variables (xb yb ab ox oy : Z).
  Hypothesis Hxy : ri_xy ri = Some (xb, (yb, (ab, (ox, oy)))).
  Variable G : grid.
  Hypothesis Gm : gr_m G = mm.
  Hypothesis Gn : gr_n G = nn.
  Hypothesis Hatt : att_okb c mm nn G = true.
  Let nm (i j : Z) : string := full_name (rt_name rd) [i; j].

  (* the decidable condition gives the hypothesis of xy_bisim *)
  Lemma att_okb_sound : forall r i j k, In r (c_rts c) -> cr_name r = nm i j -> in_grid mm nn i j -> 0 <= k <= 4 ->
    ~ (k < 4 /\ in_grid mm nn (i + fst (dir_delta k)) (j + snd (dir_delta k))) ->
    match nth_error (cr_out r) (Z.to_nat k) with
    | Some (Some l) => exists y, In y (c_nis c) /\ l = (nm i j, cn_name y) /\ att_at G i j k = Some (cn_name y)
    | _ => att_at G i j k = None
    end.
  Proof.
    intros r i j k Hr Hn Hij Hk Hnb. pose proof Hatt as Ha. unfold att_okb in Ha. rewrite forallb_forall in Ha. specialize (Ha r Hr).
    rewrite (rt_coords d g c rd mm nn Hb Hc Halgo Hrts Harr Htree r i j Hr Hn Hij) in Ha.
    rewrite forallb_forall in Ha.
    assert (Hin : In k [0; 1; 2; 3; 4]) by (cbn; lia). specialize (Ha k Hin).
    destruct (dir_delta k) as [dx dy] eqn:Edd. cbn [fst snd] in Hnb.
    destruct ((k <? 4) && ((0 <=? i + dx) && (i + dx <? mm) && (0 <=? j + dy) && (j + dy <? nn))) eqn:Enb.
    - exfalso. apply Hnb. unfold in_grid. lia.
    - destruct (nth_error (cr_out r) (Z.to_nat k)) as [[l|]|].
      + apply existsb_exists in Ha. destruct Ha as (y & Hy & Hq). apply andb_true_iff in Hq. destruct Hq as (Hq1 & Hq2).
        apply pair_eqb_eq in Hq1. destruct (att_at G i j k) as [t0|]; [|discriminate]. apply str_eqb_eq in Hq2. subst t0.
        exists y. rewrite Hq1, Hn. auto.
      + destruct (att_at G i j k); [discriminate|reflexivity].
      + destruct (att_at G i j k); [discriminate|reflexivity].
  Qed.

  (* C04, complete: for an interface on any port and ANY target coordinate, the outcome of the hardware walk over the
     emitted netlist is the outcome on the ideal grid: delivered to the same interface, blocked by the same ban, or lost
     on an open port in both *)
  Theorem xy_bisim_send s0 a b ks cx cy :
    In s0 (c_nis c) -> on_port g rd mm nn nt s0 a b ks ->
    classify (t_out (send n nt (emit_ni d (ri_offset ri) s0) (HXY (cx - ox) (cy - oy) 0))) =
    ideal (Z.to_nat (mm + nn + 4)) G a b ks cx cy.
  Proof.
    intros Hs0 Hls. pose proof Hls as (Hab & Hks & _ & _ & Hatt0).
    destruct (inject_reader d g c ri n nt Hnt Hb Hc He Hwire s0 (nm a b) Hs0 ltac:(rewrite Hatt0; reflexivity)) as (Hout & u & Hrdr & Hcases).
    unfold send. rewrite Hout. unfold Hw.follow. rewrite Hrdr.
    destruct Hcases as [(y & Hy & -> & Hyn)|(r & i & Hr & -> & Hn & Hin)].
    - exfalso. destruct (rt_at d g c rd mm nn Hb Hc Halgo Hrts Harr Htree a b Hab) as (r3 & Hr3 & Hn3 & _).
      apply (ni_rt_disjoint d g c Hb Hc y r3 Hy Hr3). unfold nm in *. congruence.
    - rewrite (port_in d g c rd mm nn Hb Hc Hauto nt s0 a b ks r i Hls Hr Hn Hin).
      pose proof Hab as (Ha1 & Hb1).
      assert (Hmu : (xy_mu mm nn a b cx cy <= Z.to_nat (mm + nn - 1))%nat).
      { unfold xy_mu. repeat match goal with |- context [?p <? ?q] => destruct (Z.ltb_spec p q) end;
          repeat match goal with |- context [?p =? ?q] => destruct (Z.eqb_spec p q) end; lia. }
      rewrite <- (Z2Nat.id ks) at 2 by lia.
      apply (xy_bisim d g c rd mm nn Hb Hc Halgo Hrts Harr Htree Hauto sp ri n nt Hnt Hri He Hwire xb yb ab ox oy Hxy G Gm Gn att_okb_sound
               (Z.to_nat (mm + nn - 1)) a b (Z.to_nat ks) r cx cy Hab Hr Hn Hmu); [lia|].
      destruct (emit_inv _ _ _ He) as (_ & axi & rts & _ & Hrts' & Hn0). rewrite Hn0. cbn [n_rts].
      rewrite (mapM_length _ _ _ Hrts'), (router_count d g c rd mm nn Hb Hc Hrts Harr Htree). nia.
  Qed.
End BisimSend.

(* the decidable form of on_port *)
Lemma on_portb_ok g rd mm nn nt x i j k : on_portb g rd mm nn x i j k = true -> on_port g rd mm nn nt x i j k.
Proof.
  unfold on_portb, on_port. cbv zeta. intros H.
  repeat (apply andb_true_iff in H; let X := fresh "B" in destruct H as (H & X)).
  apply pair_eqb_eq in B, B0.
  apply existsb_exists in B1. destruct B1 as (e2 & He2 & Q2). apply existsb_exists in B2. destruct B2 as (e1 & He1 & Q1).
  repeat (apply andb_true_iff in Q1; let X := fresh "C" in destruct Q1 as (Q1 & X)).
  repeat (apply andb_true_iff in Q2; let X := fresh "D" in destruct Q2 as (Q2 & X)).
  apply str_eqb_eq in C0, C1, D0, D1.
  destruct (e_src_dir e1) as [q1|] eqn:E1; [|discriminate]. destruct (e_dst_dir e2) as [q2|] eqn:E2; [|discriminate].
  assert (q1 = k) by lia. assert (q2 = k) by lia. subst q1 q2.
  split; [unfold in_grid; lia|]. split; [lia|]. split; [exists e1; auto 10|]. split; [exists e2; auto 10|].
  unfold attach, rev_link. destruct nt; rewrite ?B, ?B0; reflexivity.
Qed.
