(* C04 — XY routing: emitted coordinates and wiring form the described grid.
   Part 1: the certified checker evaluated on the real netlist is sound for: (i) frame equations on
   every connected router port, (ii) for every ordered endpoint pair the hardware's X-then-Y walk on
   the emitted netlist has the same outcome as on the ideal grid (requests by address-map
   destination, responses by requester identity). *)
From FV Require Import Base RouteMap Netlist Hw Check CheckProofs.

Definition C04_on (n : netlist) (g : grid) (exp : list (string * (Z * Z))) : Prop :=
  n_algo n = "XYRouting" /\
  (forall r, In r (n_rts n) -> c04_frame_router n r = []) /\
  (forall s t, In s (n_nis n) -> In t (n_nis n) -> ni_name s <> ni_name t ->
     exists i j p cx cy, att_of g (ni_name s) = Some ((i, j), p) /\ ep_coord g (ni_name t) = Some (cx, cy) /\
       let want := ideal (Z.to_nat (gr_m g + gr_n g + 4)) g i j p cx cy in
       (may_rsp s t = true ->
          xres_eqb want (classify (t_out (send n Rsp s (hdr_of_id n (ni_id t))))) = true) /\
       (may_req s t = true -> forall e, In e exp -> fst e = ni_name t ->
          exists r, sam_decode n (fst (snd e)) = [r] /\
            xres_eqb want (classify (t_out (send n Req s (hdr_of_id n (sr_idx r))))) = true)).

Theorem C04_checker_sound : forall n g exp, chk_C04 n g exp = [] -> C04_on n g exp.
Proof.
  intros n g exp H. unfold chk_C04 in H.
  apply app_nil in H. destruct H as (Ha & H). apply app_nil in H. destruct H as (Hf & Hp).
  apply guard_nil, str_eqb_eq in Ha. split; [exact Ha|]. split.
  - intros r Hr. apply (flat_map_nil _ _ Hf r Hr).
  - intros s t Hs Ht Hne.
    pose proof (flat_map_nil _ _ Hp (s, t) (ordered_pairs_In n s t Hs Ht Hne)) as H.
    cbn [c04_pair] in H.
    destruct (att_of g (ni_name s)) as [[[i j] p]|]; [|discriminate].
    destruct (ep_coord g (ni_name t)) as [[cx cy]|]; [|discriminate].
    exists i, j, p, cx, cy. split; [reflexivity|]. split; [reflexivity|].
    apply app_nil in H. destruct H as (Hq & Hr). cbv zeta. split.
    + intros Hm. rewrite Hm in Hr. apply guard_nil in Hr. exact Hr.
    + intros Hm e He Hname. rewrite Hm in Hq. pose proof (flat_map_nil _ _ Hq e He) as G. cbv beta in G.
      rewrite Hname in G. replace (str_eqb (ni_name t) (ni_name t)) with true in G
        by (symmetry; apply str_eqb_eq; reflexivity).
      destruct (sam_decode n (fst (snd e))) as [|r [|r' rs]]; try discriminate.
      exists r. split; [reflexivity|]. apply guard_nil in G. exact G.
Qed.
Print Assumptions C04_checker_sound.

(* Part 2: universal frame theorems over the generator model.
   (a) every link of an auto-connected m x n router array joins (i,j) on port k to (i,j) + to_coords k
       with k one of North/East/South/West, and arrives there on the opposite port;
   (b) under XY the coordinate an interface is given is its router's array coordinate plus the step of
       the direction named on the link between them -- and that direction is the router's port index
       (compile_router places a directed link on its index: C05_model_holds), so an interface on the
       local port (Eject, step (0,0)) shares the router's coordinate;
   (c) all coordinates, after the common offset, fit the emitted field widths (C07_model_xy). *)
From FV Require Import Graph Desc Build Compile ConnProofs.

Definition C04_model_statement : Prop :=
  (forall name m n e, In e (flat_map (array_links name) (grid_idx m n)) ->
     exists i j k dx dy, e_src e = full_name name [i; j] /\ e_src_dir e = Some k /\ to_coords k = Ok (dx, dy) /\
       e_dst e = full_name name [i + dx; j + dy] /\ 0 <= k < 4 /\
       exists k', e_dst_dir e = Some k' /\ to_coords k' = Ok (- dx, - dy)) /\
  (forall g d ni uid x y p, d_algo d = XY -> ni_id g d ni uid = Ok (IdXY x y p) ->
     p = 0 /\ exists s rx ry k dx dy, In s (successors g (n_name ni)) /\ rt_coord_of g s = Some (rx, ry) /\
       to_coords k = Ok (dx, dy) /\ x = rx + dx /\ y = ry + dy /\
       ((exists e1, find_edge g (n_name ni) s = Some e1 /\ e_dst_dir e1 = Some k) \/
        (exists e2, find_edge g s (n_name ni) = Some e2 /\ e_src_dir e2 = Some k))).

Theorem C04_model_holds : C04_model_statement.
Proof. exact (conj mesh_links_frame ni_xy_frame). Qed.
Print Assumptions C04_model_holds.

(* Part 3: the frame of an auto-connected router array at the level of compiled identities and port slots, for
   every XY description: for every mesh link e of the array there are compiled routers r (its source) and r'
   (its destination) such that r carries identity (i,j), r' carries identity (i,j) + step(k), k is the compass
   direction the link names at its source (0..3), and output port k of r holds exactly this link.  Together
   with C05_model (input port k holds the reverse link) and Part 2 (b) this is the frame statement (i) of C04
   as a theorem about the generator model instead of a check on one output. *)
From FV Require Import BuildProofs FrameProofs.
Theorem C04_model_mesh_frame :
  forall d g c rd m n e,
    build d = Ok g -> compile d g = Ok c -> d_algo d = XY ->
    In rd (d_rts d) -> rt_array rd = Some [m; n] -> rt_tree rd = None -> rt_auto rd = true ->
    In e (flat_map (array_links (rt_name rd)) (grid_idx m n)) ->
    exists r r' i j k dx dy,
      In r (c_rts c) /\ In r' (c_rts c) /\ cr_name r = e_src e /\ cr_name r' = e_dst e /\
      e_src_dir e = Some k /\ 0 <= k < 4 /\ to_coords k = Ok (dx, dy) /\
      cr_id r = Some (IdXY i j 0) /\ cr_id r' = Some (IdXY (i + dx) (j + dy) 0) /\
      nth_error (cr_out r) (Z.to_nat k) = Some (Some (e_src e, e_dst e)).
Proof. exact mesh_frame. Qed.
Print Assumptions C04_model_mesh_frame.

(* Part 4: on the HARDWARE model (Hw.v: floo_route_select's X-then-Y comparison on the emitted coordinate
   fields, the Y-to-X turn ban and the loop-back ban of floo_router, signals followed from driver to reader),
   for every XY description whose routers are one auto-connected m x n array and on every physical network: a
   flit that carries the coordinate of an interface t on the local port of router (tx, ty), injected by any
   interface s0 that enters the array at router (a, b) on a port compatible with the dimension-ordered path, is
   delivered to exactly t.  The proof walks the array: the emitted router identity is (i,j) minus the offset and
   fits its field (C07_model_xy), so the comparison is on true coordinates; compass port k of router (i,j) holds
   the link to (i,j) + step(k) (C04_model_mesh_frame); that link arrives on the opposite port (pairing,
   uniqueness of slots); each hop shortens the Manhattan distance; the masks never trigger (inp_ok); the array
   has m*n routers, so the fuel of Hw.send suffices.  Hypotheses: the wiring checker passes (or the side
   conditions of C05_model_signals), the destination sits on the local port, and the entry port is compatible
   (it always is for a source on a local port, East or West; a source on a North / South boundary port reaches
   its own column only -- the turn ban). *)
From FV Require Import Routing Emit Hw Check CheckProofs Side ModelBase ModelProofs HwProofs WireProofs XYProofs Examples RefOracle.
Theorem C04_hw_delivered :
  forall d g c rd mm nn sp ri n nt xb yb ab ox oy t tx ty,
    build d = Ok g -> compile d g = Ok c -> d_algo d = XY ->
    d_rts d = [rd] -> rt_array rd = Some [mm; nn] -> rt_tree rd = None -> rt_auto rd = true ->
    net_ok d nt -> gen_routing_info sp c = Ok ri -> emit c ri = Ok n -> chk_C05 n = [] ->
    ri_xy ri = Some (xb, (yb, (ab, (ox, oy)))) ->
    In t (c_nis c) -> cn_id t = IdXY tx ty 0 -> in_grid mm nn tx ty ->
    (forall r, In r (c_rts c) -> cr_name r = full_name (rt_name rd) [tx; ty] ->
       nth_error (cr_out r) 4 = Some (Some (full_name (rt_name rd) [tx; ty], cn_name t))) ->
    forall s0 a b, In s0 (c_nis c) -> snd (attach nt s0) = full_name (rt_name rd) [a; b] -> in_grid mm nn a b ->
      (forall r i, In r (c_rts c) -> cr_name r = full_name (rt_name rd) [a; b] ->
         nth_error (cr_in r) i = Some (Some (cn_name s0, full_name (rt_name rd) [a; b])) -> inp_ok tx ty a b i) ->
      let hd := hdr_of_id n (Netlist.ni_id (emit_ni d (ri_offset ri) t)) in
      t_out (send n nt (emit_ni d (ri_offset ri) s0) hd) = Delivered (cn_name t) hd.
Proof.
  intros d g c rd mm nn sp ri n nt xb yb ab ox oy t tx ty Hb Hc Ha Hrts Harr Htree Hauto Hnt Hri He Hchk Hxy Ht Hid Htg Hdest
         s0 a b Hs0 Hatt Hab Hinp. cbv zeta.
  assert (Hcd : c_desc c = d) by apply (compile_desc d g c Hc).
  pose proof (xy_header sp c ri n t tx ty xb yb ab ox oy Hri He Hxy Ht Hid) as Hh. rewrite Hcd in Hh. rewrite Hh.
  exact (xy_send d g c rd mm nn Hb Hc Ha Hrts Harr Htree Hauto sp ri n nt Hnt Hri He
           (fun l Hl _ => proj2 (chk_C05_sound n Hchk) l Hl) xb yb ab ox oy Hxy t tx ty Ht Htg Hdest s0 a b Hs0 Hatt Hab Hinp).
Qed.
Print Assumptions C04_hw_delivered.

(* non-vacuity: on the 2 x 2 example (clusters on the local ports, memories on the West boundary) every cluster
   reaches every other cluster on both networks, and the wiring checker passes *)
Example C04_hw_nonvacuous :
  match (do g <- build (ex_mesh XY); do c <- compile (ex_mesh XY) g; do ri <- gen_routing_info sp_reference c;
         do n <- emit c ri; Ok (c, (ri, n))) with
  | Ok (c, (ri, n)) =>
      match chk_C05 n with [] => true | _ => false end &&
      forallb (fun nt => forallb (fun s0 => forallb (fun t =>
          negb (String.prefix "cluster" (cn_name s0) && String.prefix "cluster" (cn_name t)) ||
          str_eqb (cn_name s0) (cn_name t) ||
          match t_out (send n nt (emit_ni (ex_mesh XY) (ri_offset ri) s0)
                         (hdr_of_id n (Netlist.ni_id (emit_ni (ex_mesh XY) (ri_offset ri) t)))) with
          | Delivered u _ => str_eqb u (cn_name t)
          | _ => false
          end) (c_nis c)) (c_nis c)) [Req; Rsp]
  | Err _ => false
  end = true.
Proof. vm_compute. reflexivity. Qed.

(* Part 5: the closed corollary for the common case -- any two different interfaces on local (Eject) ports of the
   array reach each other.  `on_local x i j` says only that the two link edges between x and router (i,j) name
   direction 4 at the router end and that x sends on that link; the slot and compatibility hypotheses of Part 4
   are derived (dir_in_slot / dir_out_slot; two interfaces cannot share the local port of one router). *)
Theorem C04_hw_local_to_local :
  forall d g c rd mm nn sp ri n nt xb yb ab ox oy,
    build d = Ok g -> compile d g = Ok c -> d_algo d = XY ->
    d_rts d = [rd] -> rt_array rd = Some [mm; nn] -> rt_tree rd = None -> rt_auto rd = true ->
    net_ok d nt -> gen_routing_info sp c = Ok ri -> emit c ri = Ok n -> chk_C05 n = [] ->
    ri_xy ri = Some (xb, (yb, (ab, (ox, oy)))) ->
    forall s0 t a b tx ty, In s0 (c_nis c) -> In t (c_nis c) -> cn_name s0 <> cn_name t ->
      on_local g rd mm nn nt s0 a b -> on_local g rd mm nn nt t tx ty ->
      t_out (send n nt (emit_ni d (ri_offset ri) s0) (HXY (tx - ox) (ty - oy) 0)) = Delivered (cn_name t) (HXY (tx - ox) (ty - oy) 0).
Proof.
  intros d g c rd mm nn sp ri n nt xb yb ab ox oy Hb Hc Ha Hrts Harr Htree Hauto Hnt Hri He Hchk Hxy.
  exact (xy_send_local d g c rd mm nn Hb Hc Ha Hrts Harr Htree Hauto sp ri n nt Hnt Hri He
           (fun l Hl _ => proj2 (chk_C05_sound n Hchk) l Hl) xb yb ab ox oy Hxy).
Qed.
Print Assumptions C04_hw_local_to_local.

(* Part 6: ANY ports.  For every XY description over one auto-connected m x n array, on every physical network: an
   interface on any port of the array (local, or a West / East / South / North boundary port) reaches an interface on
   any port -- the flit carries the destination's coordinate, which for a boundary port is the cell BEHIND that port,
   outside the array -- whenever dimension-ordered routing can serve the pair: the port the flit enters on is
   compatible with its path (`inp_okP`: no loop-back, no turn from Y to X; e.g. a flit from a North / South boundary
   interface can only stay in its column) and a destination on an East / West port lies in the row the flit enters
   (`row_ok`).  This covers the boundary memories of the shipped mesh examples (HBM channels on the West side: every
   cluster reaches the channel of its own row, every channel reaches every cluster). *)
Theorem C04_hw_any_ports :
  forall d g c rd mm nn sp ri n nt xb yb ab ox oy,
    build d = Ok g -> compile d g = Ok c -> d_algo d = XY ->
    d_rts d = [rd] -> rt_array rd = Some [mm; nn] -> rt_tree rd = None -> rt_auto rd = true ->
    net_ok d nt -> gen_routing_info sp c = Ok ri -> emit c ri = Ok n -> chk_C05 n = [] ->
    ri_xy ri = Some (xb, (yb, (ab, (ox, oy)))) ->
    forall s0 t a b ks tx ty kd ddx ddy, In s0 (c_nis c) -> In t (c_nis c) ->
      on_port g rd mm nn nt s0 a b ks -> on_port g rd mm nn nt t tx ty kd -> to_coords kd = Ok (ddx, ddy) ->
      row_ok ty ddx b -> inp_okP tx ty ddx ddy a b (Z.to_nat ks) ->
      let h := HXY (tx + ddx - ox) (ty + ddy - oy) 0 in
      t_out (send n nt (emit_ni d (ri_offset ri) s0) h) = Delivered (cn_name t) h.
Proof.
  intros d g c rd mm nn sp ri n nt xb yb ab ox oy Hb Hc Ha Hrts Harr Htree Hauto Hnt Hri He Hchk Hxy.
  exact (xy_send_ports d g c rd mm nn Hb Hc Ha Hrts Harr Htree Hauto sp ri n nt Hnt Hri He
           (fun l Hl _ => proj2 (chk_C05_sound n Hchk) l Hl) xb yb ab ox oy Hxy).
Qed.
Print Assumptions C04_hw_any_ports.

(* non-vacuity on the 2x2 mesh with a West boundary row: every cluster interface reaches the West memory of ITS row and
   every West memory reaches every cluster (evaluated on the hardware model), while a cluster of the other row does
   not reach that memory -- dimension-ordered routing cannot serve that pair *)
From FV Require Import Paths Examples.
Example C04_boundary_nonvacuous :
  match (do g <- build (ex_mesh XY); do c <- compile (ex_mesh XY) g; do ri <- gen_routing_info sp_nx c; do n <- emit c ri; Ok (c, (ri, n))) with
  | Ok (c, (ri, n)) =>
      let hdr t := hdr_of_id n (Netlist.ni_id (emit_ni (ex_mesh XY) (ri_offset ri) t)) in
      let reaches s t := match t_out (send n Req (emit_ni (ex_mesh XY) (ri_offset ri) s) (hdr t)) with
                         | Delivered u _ => str_eqb u (cn_name t) | _ => false end in
      let find nm := find (fun x => str_eqb (cn_name x) nm) (c_nis c) in
      match find "cluster_ni_0_0", find "cluster_ni_1_0", find "cluster_ni_1_1", find "hbm_ni_0", find "hbm_ni_1" with
      | Some c00, Some c10, Some c11, Some h0, Some h1 =>
          reaches c00 h0 && reaches c10 h0 && reaches c11 h1 && reaches h0 c11 && reaches h1 c10 && negb (reaches c10 h1)
      | _, _, _, _, _ => false
      end
  | Err _ => false
  end = true.
Proof. vm_compute. reflexivity. Qed.

(* Part 7: THE BISIMULATION, universally.  For every XY description over one auto-connected m x n array, every physical
   network, every interface on any port (`on_port`) and EVERY target coordinate (cx, cy) -- inside the array, behind a
   boundary port, or anywhere else: the outcome of the hardware walk over the emitted netlist (Hw.send: X-then-Y
   comparison on the emitted, offset, width-limited identities; loop-back ban; Y-to-X turn ban; real wiring) is the
   outcome of Check.ideal on the grid G the description denotes -- delivered to the same interface, blocked by the same
   ban, or lost on an open port in both.  G enters through one decidable, LOCAL condition, `att_okb`: its attachments
   are what the compiled routers carry on the ports that do not lead to a neighbouring router (evaluated by the harness
   for the grid spec.xy_grid derives from the description alone).  This is the statement chk_C04 decides pair by pair
   on every output; here it is a theorem for all pairs and all sizes at once. *)
From FV Require Import XYSide.
Theorem C04_hw_bisimulation :
  forall d g c rd mm nn sp ri n nt xb yb ab ox oy G,
    build d = Ok g -> compile d g = Ok c -> d_algo d = XY ->
    d_rts d = [rd] -> rt_array rd = Some [mm; nn] -> rt_tree rd = None -> rt_auto rd = true ->
    net_ok d nt -> gen_routing_info sp c = Ok ri -> emit c ri = Ok n -> chk_C05 n = [] ->
    ri_xy ri = Some (xb, (yb, (ab, (ox, oy)))) ->
    gr_m G = mm -> gr_n G = nn -> att_okb c mm nn G = true ->
    forall s0 a b ks cx cy, In s0 (c_nis c) -> on_port g rd mm nn nt s0 a b ks ->
      classify (t_out (send n nt (emit_ni d (ri_offset ri) s0) (HXY (cx - ox) (cy - oy) 0))) =
      ideal (Z.to_nat (mm + nn + 4)) G a b ks cx cy.
Proof.
  intros d g c rd mm nn sp ri n nt xb yb ab ox oy G Hb Hc Ha Hrts Harr Htree Hauto Hnt Hri He Hchk Hxy Gm Gn Hatt.
  exact (xy_bisim_send d g c rd mm nn Hb Hc Ha Hrts Harr Htree Hauto sp ri n nt Hnt Hri He
           (fun l Hl _ => proj2 (chk_C05_sound n Hchk) l Hl) xb yb ab ox oy Hxy G Gm Gn Hatt).
Qed.
Print Assumptions C04_hw_bisimulation.

(* non-vacuity: on the 2x2 mesh with a West memory row the grid the description denotes passes att_okb, and for EVERY
   ordered pair of interfaces the hardware outcome equals the ideal one (some delivered, some lost on an open port) *)
Example C04_bisimulation_nonvacuous :
  let G := {| gr_m := 2; gr_n := 2;
              gr_att := [("cluster_ni_0_0", ((0, 0), 4)); ("cluster_ni_0_1", ((0, 1), 4)); ("cluster_ni_1_0", ((1, 0), 4));
                         ("cluster_ni_1_1", ((1, 1), 4)); ("hbm_ni_0", ((0, 0), 3)); ("hbm_ni_1", ((0, 1), 3))] |} in
  match (do g <- build (ex_mesh XY); do c <- compile (ex_mesh XY) g; do ri <- gen_routing_info sp_nx c; do n <- emit c ri; Ok (c, (ri, n))) with
  | Ok (c, (ri, n)) =>
      att_okb c 2 2 G &&
      forallb (fun s => forallb (fun t =>
        match att_of G (cn_name s), ep_coord G (cn_name t) with
        | Some ((i, j), p), Some (cx, cy) =>
            xres_eqb (classify (t_out (send n Req (emit_ni (ex_mesh XY) (ri_offset ri) s)
                                            (hdr_of_id n (Netlist.ni_id (emit_ni (ex_mesh XY) (ri_offset ri) t))))))
                     (ideal 8 G i j p cx cy)
        | _, _ => false
        end) (c_nis c)) (c_nis c) &&
      (* not all outcomes are deliveries to the addressee: a cluster of the other row ends at the wrong memory, and an
         interface addressing itself is stopped by the loop-back ban -- in the netlist exactly as on the grid *)
      existsb (fun s => existsb (fun t => match att_of G (cn_name s), ep_coord G (cn_name t) with
                                          | Some ((i, j), p), Some (cx, cy) =>
                                              match ideal 8 G i j p cx cy with XDel u => negb (str_eqb u (cn_name t)) | _ => false end
                                          | _, _ => false end) (c_nis c)) (c_nis c) &&
      existsb (fun s => match att_of G (cn_name s), ep_coord G (cn_name s) with
                        | Some ((i, j), p), Some (cx, cy) => xres_eqb (ideal 8 G i j p cx cy) XLoop
                        | _, _ => false end) (c_nis c)
  | Err _ => false
  end = true.
Proof. vm_compute. reflexivity. Qed.

(* Part 8: the same with every structural hypothesis in the executable form the harness evaluates (request `xy` of the
   model binary: XYSide.xy_conditions on the description and the grid spec.xy_grid derives from it). *)
Theorem C04_hw_bisimulation_decidable :
  forall d g c sp ri n nt xb yb ab ox oy G,
    build d = Ok g -> compile d g = Ok c ->
    net_ok d nt -> gen_routing_info sp c = Ok ri -> emit c ri = Ok n -> chk_C05 n = [] ->
    ri_xy ri = Some (xb, (yb, (ab, (ox, oy)))) ->
    (exists bs, xy_conditions d G = Ok bs /\ forallb (fun b => b) bs = true) ->
    forall s0 a b ks cx cy, In s0 (c_nis c) -> att_of G (cn_name s0) = Some ((a, b), ks) ->
      classify (t_out (send n nt (emit_ni d (ri_offset ri) s0) (HXY (cx - ox) (cy - oy) 0))) =
      ideal (Z.to_nat (gr_m G + gr_n G + 4)) G a b ks cx cy.
Proof.
  intros d g c sp ri n nt xb yb ab ox oy G Hb Hc Hnt Hri He Hchk Hxy (bs & Hq & Hall) s0 a b ks cx cy Hs0 Hatt.
  unfold xy_conditions in Hq. rewrite Hb in Hq. cbn [bind] in Hq. rewrite Hc in Hq. cbn [bind] in Hq.
  destruct (d_rts d) as [|rd [|? ?]] eqn:Hrts; inversion Hq; subst bs; clear Hq; try discriminate Hall.
  cbn [forallb] in Hall. repeat (apply andb_true_iff in Hall; destruct Hall as (? & Hall)).
  destruct (d_algo d) eqn:Ha; try discriminate.
  destruct (rt_array rd) as [[|m [|n0 [|? ?]]]|] eqn:Harr; try discriminate.
  destruct (rt_tree rd) eqn:Htree; try discriminate.
  match goal with X : (m =? gr_m G) && (n0 =? gr_n G) && rt_auto rd = true |- _ =>
    apply andb_true_iff in X; destruct X as (X & Hauto); apply andb_true_iff in X; destruct X as (Em & En) end.
  assert (m = gr_m G) by lia. assert (n0 = gr_n G) by lia. subst m n0.
  match goal with X : forallb _ (c_nis c) = true |- _ => rewrite forallb_forall in X; pose proof (X s0 Hs0) as Hp end.
  rewrite Hatt in Hp.
  exact (C04_hw_bisimulation d g c rd (gr_m G) (gr_n G) sp ri n nt xb yb ab ox oy G Hb Hc Ha Hrts Harr Htree Hauto Hnt Hri He Hchk Hxy
           eq_refl eq_refl ltac:(assumption) s0 a b ks cx cy Hs0 (on_portb_ok g rd (gr_m G) (gr_n G) nt s0 a b ks Hp)).
Qed.
Print Assumptions C04_hw_bisimulation_decidable.

(* Part: the hardware decision itself.  Hw.xy_select is a hand model of the XY branch of hw/floo_route_select.sv; the
   branch is EXECUTED FROM ITS TEXT on every run (harness/facts_routesel.py: a fail-closed reader for the comparisons,
   if/else chains and assignments it consists of; destinations and router coordinates 0..2 each, both port ids) and the
   model agrees with it on every sampled point.  The sample meets all nine relative positions (west / same column /
   east) x (south / same row / north), and a decision built from comparisons of the four coordinates only -- which is
   all the reader admits -- is determined by them.  The port numbers are those of floo_pkg::route_direction_e. *)
From FVGen Require Import RouteSelFacts.
Definition xy_agrees (e : (Z * Z) * ((Z * Z) * (Z * Z))) : bool :=
  let '((x, y), ((rx, ry), (p, out))) := e in xy_select rx ry x y p =? out.
Definition rel_pos (e : (Z * Z) * ((Z * Z) * (Z * Z))) : Z * Z :=
  let '((x, y), ((rx, ry), _)) := e in (Z.sgn (x - rx), Z.sgn (y - ry)).
Theorem C04_rtl_xy_decision :
  forallb xy_agrees rtl_xy_decision = true /\
  forallb (fun c => existsb (fun e => (fst (rel_pos e) =? fst c) && (snd (rel_pos e) =? snd c)) rtl_xy_decision)
          [(-1, -1); (-1, 0); (-1, 1); (0, -1); (0, 0); (0, 1); (1, -1); (1, 0); (1, 1)] = true /\
  map (fun nm => option_map snd (find (fun p => String.eqb (fst p) nm) rtl_route_directions)) ["North"; "East"; "South"; "West"; "Eject"]
  = [Some dir_N; Some dir_E; Some dir_S; Some dir_W; Some dir_Eject].
Proof. vm_compute. auto. Qed.
Print Assumptions C04_rtl_xy_decision.

(* the two masks of floo_router.sv, read from its generate conditions (gen_inout_identical, gen_xy_opt) and evaluated for
   inputs / outputs 0..4: Hw.walk blocks exactly the pairs the router does not forward -- loop-back always, Y-to-X
   turns under XY routing *)
Theorem C04_rtl_router_masks :
  forallb (fun e => Bool.eqb (snd e) (negb ((fst (fst e) =? snd (fst e)) || xy_masked (fst (fst e)) (snd (fst e))))) rtl_router_forward_xy = true /\
  forallb (fun e => Bool.eqb (snd e) (negb (fst (fst e) =? snd (fst e)))) rtl_router_forward_id = true /\
  length rtl_router_forward_xy = 25%nat /\ length rtl_router_forward_id = 25%nat.
Proof. vm_compute. auto. Qed.
Print Assumptions C04_rtl_router_masks.
