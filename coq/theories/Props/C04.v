(* C04 — XY routing: emitted coordinates and wiring form the described grid.
   Part 1: the certified checker evaluated on the real netlist is sound for: (i) frame equations on
   every connected router port, (ii) for every ordered endpoint pair the hardware's X-then-Y walk on
   the emitted netlist has the same outcome as on the ideal grid (requests by address-map
   destination, responses by requester identity). *)
From FV Require Import Base RouteMap Netlist Hw Check CheckProofs.

Definition C04_on (n : netlist) (g : grid) (exp : list (string * (Z * Z))) : Prop :=
  n_algo n = "XYRouting" /\
  (forall r, In r (n_rts n) -> c04_frame_router n r = []) /\
  (forall s t, In s (n_nis n) -> In t (n_nis n) -> ni_name s <> ni_name t ->
     exists i j p cx cy, att_of g (ni_name s) = Some ((i, j), p) /\ ep_coord g (ni_name t) = Some (cx, cy) /\
       let want := ideal (Z.to_nat (gr_m g + gr_n g + 4)) g i j p cx cy in
       (may_rsp s t = true ->
          xres_eqb want (classify (t_out (send n Rsp s (hdr_of_id n (ni_id t))))) = true) /\
       (may_req s t = true -> forall e, In e exp -> fst e = ni_name t ->
          exists r, sam_decode n (fst (snd e)) = [r] /\
            xres_eqb want (classify (t_out (send n Req s (hdr_of_id n (sr_idx r))))) = true)).

Theorem C04_checker_sound : forall n g exp, chk_C04 n g exp = [] -> C04_on n g exp.
Proof.
  intros n g exp H. unfold chk_C04 in H.
  apply app_nil in H. destruct H as (Ha & H). apply app_nil in H. destruct H as (Hf & Hp).
  apply guard_nil, str_eqb_eq in Ha. split; [exact Ha|]. split.
  - intros r Hr. apply (flat_map_nil _ _ Hf r Hr).
  - intros s t Hs Ht Hne.
    pose proof (flat_map_nil _ _ Hp (s, t) (ordered_pairs_In n s t Hs Ht Hne)) as H.
    cbn [c04_pair] in H.
    destruct (att_of g (ni_name s)) as [[[i j] p]|]; [|discriminate].
    destruct (ep_coord g (ni_name t)) as [[cx cy]|]; [|discriminate].
    exists i, j, p, cx, cy. split; [reflexivity|]. split; [reflexivity|].
    apply app_nil in H. destruct H as (Hq & Hr). cbv zeta. split.
    + intros Hm. rewrite Hm in Hr. apply guard_nil in Hr. exact Hr.
    + intros Hm e He Hname. rewrite Hm in Hq. pose proof (flat_map_nil _ _ Hq e He) as G. cbv beta in G.
      rewrite Hname in G. replace (str_eqb (ni_name t) (ni_name t)) with true in G
        by (symmetry; apply str_eqb_eq; reflexivity).
      destruct (sam_decode n (fst (snd e))) as [|r [|r' rs]]; try discriminate.
      exists r. split; [reflexivity|]. apply guard_nil in G. exact G.
Qed.
Print Assumptions C04_checker_sound.

(* Part 2: universal frame theorems over the generator model.
   (a) every link of an auto-connected m x n router array joins (i,j) on port k to (i,j) + to_coords k
       with k one of North/East/South/West, and arrives there on the opposite port;
   (b) under XY the coordinate an interface is given is its router's array coordinate plus the step of
       the direction named on the link between them -- and that direction is the router's port index
       (compile_router places a directed link on its index: C05_model_holds), so an interface on the
       local port (Eject, step (0,0)) shares the router's coordinate;
   (c) all coordinates, after the common offset, fit the emitted field widths (C07_model_xy). *)
From FV Require Import Graph Desc Build Compile ConnProofs.

Definition C04_model_statement : Prop :=
  (forall name m n e, In e (flat_map (array_links name) (grid_idx m n)) ->
     exists i j k dx dy, e_src e = full_name name [i; j] /\ e_src_dir e = Some k /\ to_coords k = Ok (dx, dy) /\
       e_dst e = full_name name [i + dx; j + dy] /\ 0 <= k < 4 /\
       exists k', e_dst_dir e = Some k' /\ to_coords k' = Ok (- dx, - dy)) /\
  (forall g d ni uid x y p, d_algo d = XY -> ni_id g d ni uid = Ok (IdXY x y p) ->
     p = 0 /\ exists s rx ry k dx dy, In s (successors g (n_name ni)) /\ rt_coord_of g s = Some (rx, ry) /\
       to_coords k = Ok (dx, dy) /\ x = rx + dx /\ y = ry + dy /\
       ((exists e1, find_edge g (n_name ni) s = Some e1 /\ e_dst_dir e1 = Some k) \/
        (exists e2, find_edge g s (n_name ni) = Some e2 /\ e_src_dir e2 = Some k))).

Theorem C04_model_holds : C04_model_statement.
Proof. exact (conj mesh_links_frame ni_xy_frame). Qed.
Print Assumptions C04_model_holds.

(* Part 3: the frame of an auto-connected router array at the level of compiled identities and port slots, for
   every XY description: for every mesh link e of the array there are compiled routers r (its source) and r'
   (its destination) such that r carries identity (i,j), r' carries identity (i,j) + step(k), k is the compass
   direction the link names at its source (0..3), and output port k of r holds exactly this link.  Together
   with C05_model (input port k holds the reverse link) and Part 2 (b) this is the frame statement (i) of C04
   as a theorem about the generator model instead of a check on one output. *)
From FV Require Import BuildProofs FrameProofs.
Theorem C04_model_mesh_frame :
  forall d g c rd m n e,
    build d = Ok g -> compile d g = Ok c -> d_algo d = XY ->
    In rd (d_rts d) -> rt_array rd = Some [m; n] -> rt_tree rd = None -> rt_auto rd = true ->
    In e (flat_map (array_links (rt_name rd)) (grid_idx m n)) ->
    exists r r' i j k dx dy,
      In r (c_rts c) /\ In r' (c_rts c) /\ cr_name r = e_src e /\ cr_name r' = e_dst e /\
      e_src_dir e = Some k /\ 0 <= k < 4 /\ to_coords k = Ok (dx, dy) /\
      cr_id r = Some (IdXY i j 0) /\ cr_id r' = Some (IdXY (i + dx) (j + dy) 0) /\
      nth_error (cr_out r) (Z.to_nat k) = Some (Some (e_src e, e_dst e)).
Proof. exact mesh_frame. Qed.
Print Assumptions C04_model_mesh_frame.
