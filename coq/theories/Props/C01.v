(* C01 — Address map: every address of a declared range decodes to exactly one rule whose destination is the owner's identity; addresses outside decode to nothing.
   Part 1: the certified checker that is evaluated (extracted) on the netlist the REAL floogen emitted
   is sound for the semantic statement C01_on over the hardware model Hw.v. *)
From FV Require Import Base RouteMap Netlist Hw Check CheckProofs.

Theorem C01_checker_sound : forall n exp, chk_C01 n exp = [] -> C01_on n exp.
Proof. exact chk_C01_sound. Qed.
Print Assumptions C01_checker_sound.
