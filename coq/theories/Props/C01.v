(* C01 — Address map: every address of a declared range decodes to exactly one rule whose destination is the owner's identity; addresses outside decode to nothing.
   Part 1: the certified checker that is evaluated (extracted) on the netlist the REAL floogen emitted
   is sound for the semantic statement C01_on over the hardware model Hw.v. *)
From FV Require Import Base AddrRange RouteMap Graph Netlist Hw Check CheckProofs Desc Build Compile Paths Routing Emit ModelProofs Examples.

Theorem C01_checker_sound : forall n exp, chk_C01 n exp = [] -> C01_on n exp.
Proof. exact chk_C01_sound. Qed.
Print Assumptions C01_checker_sound.

(* Part 2: universal theorems over the generator model: every description, every size, every
   shortest-path oracle, all addresses (unbounded Z). *)
Definition C01_statement : Prop :=
  (* whatever is emitted decodes every address of every range of every subordinate interface to
     exactly one rule whose destination is that interface's emitted identity, and nothing else *)
  (forall sp d g c ri n, build d = Ok g -> compile d g = Ok c -> gen_routing_info sp c = Ok ri ->
     emit c ri = Ok n -> C01_model_on c ri n) /\
  (* element (i,j) of a 2-D array owns [base + (i*cols+j)*size, base + (i*cols+j+1)*size); element i of
     a 1-D array owns slot i -- for each declared range *)
  (forall d g ni x e m cols i j, compile_ni d g ni = Ok x -> find_ep d (n_desc ni) = Some e -> ep_is_sbr e = true ->
     ep_array e = Some [m; cols] -> n_arr ni = Some [i; j] ->
     Forall2 (fun s r => exists r0 b, range_of_spec s = Ok r0 /\ r_base r0 = Some b /\
                r_start r = b + (i * cols + j) * r_size r0 /\ r_end r = b + (i * cols + j + 1) * r_size r0 /\
                r_size r = r_size r0) (ep_ranges e) (cn_ranges x)) /\
  (forall d g ni x e m i, compile_ni d g ni = Ok x -> find_ep d (n_desc ni) = Some e -> ep_is_sbr e = true ->
     ep_array e = Some [m] -> n_arr ni = Some [i] ->
     Forall2 (fun s r => exists r0 b, range_of_spec s = Ok r0 /\ r_base r0 = Some b /\
                r_start r = b + i * r_size r0 /\ r_end r = b + (i + 1) * r_size r0 /\
                r_size r = r_size r0) (ep_ranges e) (cn_ranges x)) /\
  (* a description whose expanded ranges overlap is rejected *)
  (forall sp c, Forall range_wf (sam_ranges c) -> ~ ranges_disjoint (sam_ranges c) ->
     exists e, gen_routing_info sp c = Err e).

Theorem C01_holds : C01_statement.
Proof. exact (conj C01_model (conj array_slot_2d (conj array_slot_1d overlap_rejected))). Qed.
Print Assumptions C01_holds.

Example C01_nonvacuous : forallb accepted [ex_star ID; ex_mesh XY; ex_tree SRC] = true.
Proof. vm_compute. reflexivity. Qed.

(* Part: what the address-map model assumes about the network interface's lookup, over the text of
   hw/floo_route_comp.sv (harness/facts_decode.py, regenerated on every run): an `addr_decode` instance looks the
   request address up in the map it is given, over RouteCfg.NumSamRules rules, without a default index, and its result
   is the destination identity. *)
From FVGen Require Import DecodeFacts.
Definition assoc_s1 (k : string) (l : list (string * string)) : option string :=
  option_map snd (find (fun p => String.eqb (fst p) k) l).
Theorem C01_rtl_sam_lookup :
  rtl_sam_decode_module = "addr_decode" /\
  assoc_s1 "addr_i" rtl_sam_decode_ports = Some "addr_i" /\
  assoc_s1 "addr_map_i" rtl_sam_decode_ports = Some "addr_map_i" /\
  assoc_s1 "idx_o" rtl_sam_decode_ports = Some "id_o" /\
  assoc_s1 "NoRules" rtl_sam_decode_params = Some "RouteCfg.NumSamRules" /\
  assoc_s1 "en_default_idx_i" rtl_sam_decode_ports = Some "1'b0".
Proof. repeat split; reflexivity. Qed.
Print Assumptions C01_rtl_sam_lookup.
