(* C20 — Package manifests name only existing files and cover what generated code needs.
   Over facts regenerated on every run from Bender.yml, floo_noc.core, the repository tree, hw/ and
   real floogen runs of every shipped example. *)
From FV Require Import Base Manifest.
From FVGen Require Import ManifestFacts.

Definition C20_statement : Prop :=
  (* every file entry of every target / fileset exists, or is a generated file whose name is exactly
     what floogen emits for the shipped example description of that target *)
  (forall atoms p, In (atoms, p) bender_files -> entry_ok tree_files generated_names atoms p = true) /\
  (forall d, In d bender_dirs -> In d tree_dirs) /\
  (forall fs p, In (fs, p) core_files -> In p tree_files) /\
  (* every module generated networks instantiate, and every module those instantiate in turn from
     this repository, is defined in a listed file -- for both manifests *)
  (forall m, Reach inst_edges top_modules m -> forall f, In (m, f) module_file ->
     (forall f', In (m, f') module_file -> f' = f) ->
     In f (map snd bender_files) /\ In f (map snd core_files)).

Lemma C20_chk_bender : forallb (fun e => entry_ok tree_files generated_names (fst e) (snd e)) bender_files = true.
Proof. vm_compute. reflexivity. Qed.
Lemma C20_chk_dirs : forallb (fun d => mem d tree_dirs) bender_dirs = true.
Proof. vm_compute. reflexivity. Qed.
Lemma C20_chk_core : forallb (fun e => mem (snd e) tree_files) core_files = true.
Proof. vm_compute. reflexivity. Qed.
Lemma C20_chk_closure_bender : closure_ok module_file inst_edges top_modules (map snd bender_files) = true.
Proof. vm_compute. reflexivity. Qed.
Lemma C20_chk_closure_core : closure_ok module_file inst_edges top_modules (map snd core_files) = true.
Proof. vm_compute. reflexivity. Qed.

Theorem C20_holds : C20_statement.
Proof.
  split; [|split; [|split]].
  - intros atoms p Hin. exact (proj1 (forallb_forall _ _) C20_chk_bender (atoms, p) Hin).
  - intros d Hd. apply mem_In. exact (proj1 (forallb_forall _ _) C20_chk_dirs d Hd).
  - intros fs p Hin. apply mem_In. exact (proj1 (forallb_forall _ _) C20_chk_core (fs, p) Hin).
  - intros m Hr f Hf Hu. split.
    + exact (closure_sound _ _ _ _ C20_chk_closure_bender m Hr f Hf Hu).
    + exact (closure_sound _ _ _ _ C20_chk_closure_core m Hr f Hf Hu).
Qed.
Print Assumptions C20_holds.

(* non-vacuity: the closure really reaches beyond the four top modules, and generated entries exist *)
Example C20_nonvacuous :
  (8 <= length (grow (length module_file) inst_edges top_modules))%nat /\
  existsb (fun e => match strip_generated (snd e) with Some _ => true | None => false end) bender_files = true.
Proof. split; [apply Nat.leb_le; vm_compute; reflexivity|vm_compute; reflexivity]. Qed.
