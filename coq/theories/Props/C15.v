(* C15 — Generation is deterministic and its CLI modes are views of one result (partial, DESIGN 5.15).
   Proved over the step lists regenerated from /repo/floogen/cli.py for all eight combinations of
   (-o given, --only-pkg, --only-top) under --no-format: in every mode the package / top text is the
   single value returned by render_package() / render_network(), computed regardless of the mode, and
   the run emits exactly the expected views (package file, top file, or the same values printed).
   Determinism across processes, hash seeds, working directories, in-process histories and mapping
   key order has no proof content; it is established differentially by harness/c15.py. *)
From FV Require Import Base Cli.
From FVGen Require Import CliFacts.

Theorem C15_modes_are_views : forallb mode_ok cli_modes = true /\ length cli_modes = 8%nat.
Proof. vm_compute. auto. Qed.
Print Assumptions C15_modes_are_views.

Theorem C15_mode_spec : forall m, In m cli_modes ->
  assigners "rendered_pkg" (snd m) = ["network.render_package"] /\
  assigners "rendered_top" (snd m) = ["network.render_network"] /\
  list_eqb out_eqb (outputs (snd m)) (expected_outputs (fst m)) = true.
Proof.
  intros m Hm. pose proof (proj1 (forallb_forall _ _) (proj1 C15_modes_are_views) m Hm) as H.
  unfold mode_ok in H. apply andb_true_iff in H. destruct H as (H & H3). apply andb_true_iff in H.
  destruct H as (H1 & H2).
  assert (E : forall l k, list_eqb String.eqb l k = true -> l = k).
  { induction l as [|x xs IH]; intros [|y ys]; cbn; try discriminate; auto.
    rewrite andb_true_iff. intros (A & B). apply String.eqb_eq in A. subst. f_equal. auto. }
  repeat split; auto.
Qed.
Print Assumptions C15_mode_spec.

(* Part 3: the model is built and rendered without reference to the output mode.  Over the calls on the network object
   found anywhere in cli.py (regenerated each run, with their argument text): the five calls that build and render
   the network -- create_network, compile_network, gen_routing_info, render_package, render_network -- take no
   argument at all, and the description is read from args.config only; so the package / top text of every mode is
   the rendering of ONE network that does not know which mode is running (what seed C15-mut5 broke by passing
   args.only_pkg into gen_routing_info). *)
Definition mode_free (calls : list (string * string)) : bool :=
  forallb (fun f => match filter (fun c => String.eqb (fst c) f) calls with
                    | [c] => String.eqb (snd c) ""
                    | _ => false
                    end)
          ["network.create_network"; "network.compile_network"; "network.gen_routing_info";
           "network.render_package"; "network.render_network"] &&
  match filter (fun c => String.eqb (fst c) "parse_config") calls with
  | [c] => String.eqb (snd c) "Network, args.config"
  | _ => false
  end.
Theorem C15_model_built_mode_free : mode_free cli_model_calls = true.
Proof. vm_compute. reflexivity. Qed.
Print Assumptions C15_model_built_mode_free.

(* Part 4: the same over the hand model of the pipeline, for every mode (Cli.cli_model; compared with observed runs of
   the real command line by the certified chk_cli_run, see Props/C10.v part 1b): every mode emits exactly the expected
   views, and the model is built and rendered by the same six argument-free stages whatever the mode. *)
Theorem C15_cli_model_modes : forall m, outputs (cli_model m) = expected_outputs m.
Proof. exact cli_model_outputs. Qed.
Print Assumptions C15_cli_model_modes.
Theorem C15_cli_model_mode_free : forall m m',
  filter is_call (firstn 6 (cli_model m)) = filter is_call (firstn 6 (cli_model m')).
Proof. exact cli_model_mode_free. Qed.
Print Assumptions C15_cli_model_mode_free.

(* Part 5 (KeyOrder.v): "regardless of key order inside YAML mappings" as a theorem about the model.  Two YAML trees are
   similar (ysim) when a lookup by key cannot tell them apart: equal scalars, lists similar element by element,
   mappings that answer every key with similar values or both with nothing.  C15_key_permutations_are_similar: a
   mapping with distinct keys, its entries reordered in any way and their values replaced by similar ones, is similar
   to the original -- at any depth.  C15_model_key_order: on similar trees the schema layer accepts both or neither
   and builds the SAME description, so the whole model run (graph, identities, tables, address map, netlist) gives the
   same netlist or rejects both; only the text of an error message may differ.  The harness's key-permutation
   contexts (yamlout.text(..., permute=True): the keys of every mapping shuffled) are instances, compared there on the
   REAL floogen. *)
From FV Require Import Desc Emit KeyOrder.
From Coq Require Import Permutation.
Theorem C15_key_permutations_are_similar : forall m m1 m',
  NoDup (map fst m) -> Permutation m m1 -> Forall2 (fun a b => fst a = fst b /\ ysim (snd a) (snd b)) m1 m' ->
  ysim (YMap m) (YMap m').
Proof. exact ysim_perm. Qed.
Print Assumptions C15_key_permutations_are_similar.

Theorem C15_similarity_is_an_equivalence :
  (forall v, ysim v v) /\ (forall a b, ysim a b -> ysim b a) /\ (forall a b c, ysim a b -> ysim b c -> ysim a c).
Proof. exact (conj ysim_refl (conj ysim_sym ysim_trans)). Qed.
Print Assumptions C15_similarity_is_an_equivalence.

Theorem C15_model_key_order : forall sp v v', ysim v v' ->
  match run_yaml sp v, run_yaml sp v' with
  | Ok n, Ok n' => n = n'
  | Err _, Err _ => True
  | _, _ => False
  end.
Proof. exact run_yaml_sim. Qed.
Print Assumptions C15_model_key_order.

Theorem C15_model_key_order_desc : forall v v', ysim v v' ->
  match parse_desc v, parse_desc v' with
  | Ok d, Ok d' => d = d'
  | Err _, Err _ => True
  | _, _ => False
  end.
Proof. exact parse_desc_sim. Qed.
Print Assumptions C15_model_key_order_desc.

(* non-vacuity: a concrete accepted tree (two endpoints joined directly, ID routing) and the same tree with the keys of
   the network, of the routing section, of an endpoint, of its address range and of the connection reordered: they are
   similar (decided by the sound ysimb), both are accepted, and the netlists are equal *)
From FV Require Import Netlist Paths.
Example C15_key_order_nonvacuous :
  let pr (nm : string) (iw : Z) :=
    YMap [("name", YStr nm); ("protocol", YStr "AXI4"); ("data_width", YInt 64); ("addr_width", YInt 32);
          ("id_width", YInt iw); ("user_width", YInt 1)] in
  let ep (nm : string) (st : Z) :=
    YMap [("name", YStr nm); ("addr_range", YMap [("start", YInt st); ("size", YInt 4096)]);
          ("mgr_port_protocol", YList [YStr "axi_in"]); ("sbr_port_protocol", YList [YStr "axi_out"])] in
  let ep' (nm : string) (st : Z) :=
    YMap [("sbr_port_protocol", YList [YStr "axi_out"]); ("addr_range", YMap [("size", YInt 4096); ("start", YInt st)]);
          ("name", YStr nm); ("mgr_port_protocol", YList [YStr "axi_in"])] in
  let tree1 :=
    YMap [("name", YStr "d"); ("description", YStr "x"); ("network_type", YStr "axi");
          ("protocols", YList [pr "axi_in" 3; pr "axi_out" 5]);
          ("endpoints", YList [ep "epa" 0; ep "epb" 4096]);
          ("routers", YList []);
          ("connections", YList [YMap [("src", YStr "epa"); ("dst", YStr "epb")]]);
          ("routing", YMap [("route_algo", YStr "ID"); ("use_id_table", YBool true)])] in
  let tree2 :=
    YMap [("routing", YMap [("use_id_table", YBool true); ("route_algo", YStr "ID")]);
          ("description", YStr "x"); ("name", YStr "d"); ("network_type", YStr "axi");
          ("endpoints", YList [ep' "epa" 0; ep "epb" 4096]);
          ("protocols", YList [pr "axi_in" 3; pr "axi_out" 5]);
          ("routers", YList []);
          ("connections", YList [YMap [("dst", YStr "epb"); ("src", YStr "epa")]])] in
  ysim tree1 tree2 /\
  match run_yaml sp_nx tree1, run_yaml sp_nx tree2 with
  | Ok a, Ok b => Nat.eqb (length (n_nis a)) 2 && Nat.eqb (length (n_sam b)) 2
  | _, _ => false
  end = true.
Proof. cbv zeta. split; [apply (ysimb_sound 6); vm_compute; reflexivity|vm_compute; reflexivity]. Qed.
