(* C15 — Generation is deterministic and its CLI modes are views of one result (partial, DESIGN 5.15).
   Proved over the step lists regenerated from /repo/floogen/cli.py for all eight combinations of
   (-o given, --only-pkg, --only-top) under --no-format: in every mode the package / top text is the
   single value returned by render_package() / render_network(), computed regardless of the mode, and
   the run emits exactly the expected views (package file, top file, or the same values printed).
   Determinism across processes, hash seeds, working directories, in-process histories and mapping
   key order has no proof content; it is established differentially by harness/c15.py. *)
From FV Require Import Base Cli.
From FVGen Require Import CliFacts.

Theorem C15_modes_are_views : forallb mode_ok cli_modes = true /\ length cli_modes = 8%nat.
Proof. vm_compute. auto. Qed.
Print Assumptions C15_modes_are_views.

Theorem C15_mode_spec : forall m, In m cli_modes ->
  assigners "rendered_pkg" (snd m) = ["network.render_package"] /\
  assigners "rendered_top" (snd m) = ["network.render_network"] /\
  list_eqb out_eqb (outputs (snd m)) (expected_outputs (fst m)) = true.
Proof.
  intros m Hm. pose proof (proj1 (forallb_forall _ _) (proj1 C15_modes_are_views) m Hm) as H.
  unfold mode_ok in H. apply andb_true_iff in H. destruct H as (H & H3). apply andb_true_iff in H.
  destruct H as (H1 & H2).
  assert (E : forall l k, list_eqb String.eqb l k = true -> l = k).
  { induction l as [|x xs IH]; intros [|y ys]; cbn; try discriminate; auto.
    rewrite andb_true_iff. intros (A & B). apply String.eqb_eq in A. subst. f_equal. auto. }
  repeat split; auto.
Qed.
Print Assumptions C15_mode_spec.

(* Part 3: the model is built and rendered without reference to the output mode.  Over the calls on the network object
   found anywhere in cli.py (regenerated each run, with their argument text): the five calls that build and render
   the network -- create_network, compile_network, gen_routing_info, render_package, render_network -- take no
   argument at all, and the description is read from args.config only; so the package / top text of every mode is
   the rendering of ONE network that does not know which mode is running (what seed C15-mut5 broke by passing
   args.only_pkg into gen_routing_info). *)
Definition mode_free (calls : list (string * string)) : bool :=
  forallb (fun f => match filter (fun c => String.eqb (fst c) f) calls with
                    | [c] => String.eqb (snd c) ""
                    | _ => false
                    end)
          ["network.create_network"; "network.compile_network"; "network.gen_routing_info";
           "network.render_package"; "network.render_network"] &&
  match filter (fun c => String.eqb (fst c) "parse_config") calls with
  | [c] => String.eqb (snd c) "Network, args.config"
  | _ => false
  end.
Theorem C15_model_built_mode_free : mode_free cli_model_calls = true.
Proof. vm_compute. reflexivity. Qed.
Print Assumptions C15_model_built_mode_free.

(* Part 4: the same over the hand model of the pipeline, for every mode (Cli.cli_model; compared with observed runs of
   the real command line by the certified chk_cli_run, see Props/C10.v part 1b): every mode emits exactly the expected
   views, and the model is built and rendered by the same six argument-free stages whatever the mode. *)
Theorem C15_cli_model_modes : forall m, outputs (cli_model m) = expected_outputs m.
Proof. exact cli_model_outputs. Qed.
Print Assumptions C15_cli_model_modes.
Theorem C15_cli_model_mode_free : forall m m',
  filter is_call (firstn 6 (cli_model m)) = filter is_call (firstn 6 (cli_model m')).
Proof. exact cli_model_mode_free. Qed.
Print Assumptions C15_cli_model_mode_free.
