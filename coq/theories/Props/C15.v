(* C15 — Generation is deterministic and its CLI modes are views of one result (partial, DESIGN 5.15).
   Proved over the step lists regenerated from /repo/floogen/cli.py for all eight combinations of
   (-o given, --only-pkg, --only-top) under --no-format: in every mode the package / top text is the
   single value returned by render_package() / render_network(), computed regardless of the mode, and
   the run emits exactly the expected views (package file, top file, or the same values printed).
   Determinism across processes, hash seeds, working directories, in-process histories and mapping
   key order has no proof content; it is established differentially by harness/c15.py. *)
From FV Require Import Base Cli.
From FVGen Require Import CliFacts.

Theorem C15_modes_are_views : forallb mode_ok cli_modes = true /\ length cli_modes = 8%nat.
Proof. vm_compute. auto. Qed.
Print Assumptions C15_modes_are_views.

Theorem C15_mode_spec : forall m, In m cli_modes ->
  assigners "rendered_pkg" (snd m) = ["network.render_package"] /\
  assigners "rendered_top" (snd m) = ["network.render_network"] /\
  list_eqb out_eqb (outputs (snd m)) (expected_outputs (fst m)) = true.
Proof.
  intros m Hm. pose proof (proj1 (forallb_forall _ _) (proj1 C15_modes_are_views) m Hm) as H.
  unfold mode_ok in H. apply andb_true_iff in H. destruct H as (H & H3). apply andb_true_iff in H.
  destruct H as (H1 & H2).
  assert (E : forall l k, list_eqb String.eqb l k = true -> l = k).
  { induction l as [|x xs IH]; intros [|y ys]; cbn; try discriminate; auto.
    rewrite andb_true_iff. intros (A & B). apply String.eqb_eq in A. subst. f_equal. auto. }
  repeat split; auto.
Qed.
Print Assumptions C15_mode_spec.
