(* C06 — Emitted connectivity equals the described topology, no more and no less.
   Part 1: soundness of the certified checker evaluated on the real netlist: every described link is
   emitted in both directions on every physical network with the named ports, every emitted link is
   described, the counts agree (so nothing is duplicated), and every network interface is attached
   to exactly one router. *)
From FV Require Import Base RouteMap Netlist Hw Check CheckProofs.

Definition described (links : list dlink) (h : hop) : Prop :=
  exists a b pa pb, In (a, b, (pa, pb)) links /\
    (hop_matches a b pa pb h = true \/ hop_matches b a pb pa h = true).
Definition C06_on (n : netlist) (links : list dlink) (ninis : nat) : Prop :=
  (forall nt, In nt (nets n) ->
     (forall a b pa pb, In (a, b, (pa, pb)) links ->
        (exists h, In h (emitted_hops n nt) /\ hop_matches a b pa pb h = true) /\
        (exists h, In h (emitted_hops n nt) /\ hop_matches b a pb pa h = true)) /\
     (forall h, In h (emitted_hops n nt) -> described links h) /\
     length (emitted_hops n nt) = (2 * length links)%nat) /\
  length (n_nis n) = ninis.

Theorem C06_checker_sound : forall n links ninis, chk_C06 n links ninis = [] -> C06_on n links ninis.
Proof.
  intros n links ninis H. unfold chk_C06 in H.
  apply app_nil in H. destruct H as (Hn & H). apply app_nil in H. destruct H as (Hc & _).
  split; [|apply guard_nil, Nat.eqb_eq in Hc; exact Hc].
  intros nt Hnt. pose proof (flat_map_nil _ _ Hn nt Hnt) as G. unfold c06_net in G.
  apply app_nil in G. destruct G as (G1 & G). apply app_nil in G. destruct G as (G2 & G3).
  split; [|split].
  - intros a b pa pb Hin. pose proof (flat_map_nil _ _ G1 _ Hin) as X. cbv beta iota in X.
    apply app_nil in X. destruct X as (X1 & X2). apply guard_nil in X1. apply guard_nil in X2.
    apply existsb_exists in X1. apply existsb_exists in X2. split; assumption.
  - intros h Hh. pose proof (flat_map_nil _ _ G2 h Hh) as X. cbv beta in X. apply guard_nil in X.
    apply existsb_exists in X. destruct X as ([[a b] [pa pb]] & Hin & Hm).
    exists a, b, pa, pb. split; [exact Hin|]. apply orb_true_iff in Hm. exact Hm.
  - apply guard_nil, Nat.eqb_eq in G3. exact G3.
Qed.
Print Assumptions C06_checker_sound.
