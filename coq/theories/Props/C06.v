(* C06 — Emitted connectivity equals the described topology, no more and no less.
   Part 1: soundness of the certified checker evaluated on the real netlist: every described link is
   emitted in both directions on every physical network with the named ports, every emitted link is
   described, the counts agree (so nothing is duplicated), and every network interface is attached
   to exactly one router. *)
From FV Require Import Base RouteMap Netlist Hw Check CheckProofs.

Definition described (links : list dlink) (h : hop) : Prop :=
  exists a b pa pb, In (a, b, (pa, pb)) links /\
    (hop_matches a b pa pb h = true \/ hop_matches b a pb pa h = true).
Definition C06_on (n : netlist) (links : list dlink) (ninis : nat) : Prop :=
  (forall nt, In nt (nets n) ->
     (forall a b pa pb, In (a, b, (pa, pb)) links ->
        (exists h, In h (emitted_hops n nt) /\ hop_matches a b pa pb h = true) /\
        (exists h, In h (emitted_hops n nt) /\ hop_matches b a pb pa h = true)) /\
     (forall h, In h (emitted_hops n nt) -> described links h) /\
     length (emitted_hops n nt) = (2 * length links)%nat) /\
  length (n_nis n) = ninis.

Theorem C06_checker_sound : forall n links ninis, chk_C06 n links ninis = [] -> C06_on n links ninis.
Proof.
  intros n links ninis H. unfold chk_C06 in H.
  apply app_nil in H. destruct H as (Hn & H). apply app_nil in H. destruct H as (Hc & _).
  split; [|apply guard_nil, Nat.eqb_eq in Hc; exact Hc].
  intros nt Hnt. pose proof (flat_map_nil _ _ Hn nt Hnt) as G. unfold c06_net in G.
  apply app_nil in G. destruct G as (G1 & G). apply app_nil in G. destruct G as (G2 & G3).
  split; [|split].
  - intros a b pa pb Hin. pose proof (flat_map_nil _ _ G1 _ Hin) as X. cbv beta iota in X.
    apply app_nil in X. destruct X as (X1 & X2). apply guard_nil in X1. apply guard_nil in X2.
    apply existsb_exists in X1. apply existsb_exists in X2. split; assumption.
  - intros h Hh. pose proof (flat_map_nil _ _ G2 h Hh) as X. cbv beta in X. apply guard_nil in X.
    apply existsb_exists in X. destruct X as ([[a b] [pa pb]] & Hin & Hm).
    exists a, b, pa, pb. split; [exact Hin|]. apply orb_true_iff in Hm. exact Hm.
  - apply guard_nil, Nat.eqb_eq in G3. exact G3.
Qed.
Print Assumptions C06_checker_sound.

(* Part 2: universal theorems over the generator model (the graph builder), for every size.
   (a) an auto-connected m x n router array adds exactly the four-neighbour links, each in both
       directions, with compass ports (West/East between (i,j) and (i-1,j), South/North between (i,j)
       and (i,j-1));
   (b) a connection pairs its source and destination selections position by position when they have the
       same length; with allow_multi and |srcs| = k*|dsts| destination j gets the contiguous group
       srcs[j*k .. (j+1)*k), symmetrically for |dsts| = k*|srcs|; all other length combinations are
       rejected;
   (c) every link of every built graph has its mirror link (build_ginv, stated under C05);
   the selections themselves are C18_holds. *)
From FV Require Import Graph Desc Build BuildProofs ConnProofs.

Definition C06_model_statement : Prop :=
  (forall g name m n t desc g', add_nodes_as_array g name [m; n] t desc true = Ok g' ->
     g_edges g' = g_edges g ++ flat_map (array_links name) (grid_idx m n)) /\
  (forall name m n e, In e (flat_map (array_links name) (grid_idx m n)) <->
     exists i j, 0 <= i < m /\ 0 <= j < n /\
       ((0 < i /\ (e = mk_link (full_name name [i; j]) (full_name name [i - 1; j]) (Some dir_W) (Some dir_E) \/
                   e = mk_link (full_name name [i - 1; j]) (full_name name [i; j]) (Some dir_E) (Some dir_W))) \/
        (0 < j /\ (e = mk_link (full_name name [i; j]) (full_name name [i; j - 1]) (Some dir_S) (Some dir_N) \/
                   e = mk_link (full_name name [i; j - 1]) (full_name name [i; j]) (Some dir_N) (Some dir_S))))) /\
  (forall srcs dsts multi pairs, pair_up srcs dsts multi = Ok pairs ->
     let ns := length srcs in let nd := length dsts in
     (ns = nd /\ pairs = zip srcs dsts) \/
     (multi = true /\ exists k, (2 <= k)%nat /\ ns = (k * nd)%nat /\ length pairs = ns /\
        forall j s, nth_error srcs j = Some s -> exists t, nth_error dsts (j / k) = Some t /\ nth_error pairs j = Some (s, t)) \/
     (multi = true /\ exists k, (2 <= k)%nat /\ nd = (k * ns)%nat /\ length pairs = nd /\
        forall j t, nth_error dsts j = Some t -> exists s, nth_error srcs (j / k) = Some s /\ nth_error pairs j = Some (s, t))) /\
  (forall srcs dsts multi, length srcs <> length dsts ->
     (multi = false \/ length srcs = 0%nat \/ length dsts = 0%nat \/
      (Z.of_nat (length srcs) mod Z.of_nat (length dsts) <> 0 /\ Z.of_nat (length dsts) mod Z.of_nat (length srcs) <> 0)) ->
     exists e, pair_up srcs dsts multi = Err e).

Theorem C06_model_holds : C06_model_statement.
Proof. exact (conj array_edges (conj mesh_links_iff (conj pair_up_spec pair_up_rejects))). Qed.
Print Assumptions C06_model_holds.

Example C06_nonvacuous :
  match add_nodes_as_array g_empty "r" [2; 3] NRouter "r" true with
  | Ok g => Nat.eqb (length (g_edges g)) 14 && Nat.eqb (length (g_nodes g)) 6
  | Err _ => false
  end = true /\
  pair_up ["a"; "b"; "c"; "d"] ["x"; "y"] true = Ok [("a", "x"); ("b", "x"); ("c", "y"); ("d", "y")].
Proof. vm_compute. auto. Qed.

(* Part 3: a link that names a direction occupies exactly that numbered port, on the input side (direction
   named at the link's destination end) and on the output side (direction named at its source end) -- for
   every router of every description.  With array_edges (mesh links carry their compass direction at both
   ends) mesh links occupy the port of their compass direction. *)
From FV Require Import Netlist Compile Side WireProofs.
Theorem C06_model_named_port :
  forall d g rt rid r, compile_router d g rt rid = Ok r ->
    (forall e k, In e (filter is_link (edges_to g (n_name rt))) -> e_dst_dir e = Some k -> 0 <= k ->
       nth_error (cr_in r) (Z.to_nat k) = Some (Some (epair e))) /\
    (forall e k, In e (filter is_link (edges_from g (n_name rt))) -> e_src_dir e = Some k -> 0 <= k ->
       nth_error (cr_out r) (Z.to_nat k) = Some (Some (epair e))).
Proof. intros d g rt rid r H. split; [exact (dir_in_slot d g rt rid r H)|exact (dir_out_slot d g rt rid r H)]. Qed.
Print Assumptions C06_model_named_port.

(* Part 4: exactly the described links.  For every description: the link edges of the graph that build
   accepts are, in declaration order, the links of the router descriptors (four-neighbour links of an
   auto-connected array, parent-child links of an auto-connected tree, nothing otherwise) followed by the
   links of the connection entries: both directions of every pair that pair_up forms from the source and
   destination selections, with the named directions -- nothing more and nothing less (build_links); and the
   emitted top module declares one request and one response signal (and, narrow-wide, one wide signal) for
   exactly these link edges (emitted_signals_iff). *)
From FV Require Import Routing Emit ModelBase ModelProofs.
Theorem C06_model_links_exact :
  forall d g, build d = Ok g ->
    exists Ls, Forall2 (fun c L => conn_spec d g c = Ok L) (d_conns d) Ls /\
               link_edges_of g = flat_map router_links (d_rts d) ++ concat Ls.
Proof. exact build_links. Qed.
Print Assumptions C06_model_links_exact.

Theorem C06_model_signals_exact :
  forall d g c ri n, build d = Ok g -> compile d g = Ok c -> emit c ri = Ok n ->
    forall ty name, In (ty, name) (n_links n) <->
      exists e, In e (link_edges_of g) /\
        ((ty, name) = ("floo_req_t", req_name (e_src e, e_dst e)) \/ (ty, name) = ("floo_rsp_t", rsp_name (e_src e, e_dst e)) \/
         (d_nw d = true /\ (ty, name) = ("floo_wide_t", wide_name (e_src e, e_dst e)))).
Proof.
  intros d g c ri n Hb Hc He ty name.
  destruct (emit_inv _ _ _ He) as (_ & axi & rts & _ & _ & ->). cbn [n_links]. unfold emit_links.
  destruct (compile_desc d g c Hc) as (Hcd & Hcg). rewrite Hcd, Hcg.
  rewrite in_flat_map. split.
  - intros (e & Hin & Hs). apply filter_In in Hin. destruct Hin as (Hv & Hl).
    exists e. split; [apply filter_In; split; [apply (edges_view_In g e (proj2 (build_ginv d g Hb))); exact Hv|exact Hl]|].
    cbn in Hs. destruct Hs as [Hs|[Hs|Hs]]; [left; auto|right; left; auto|].
    destruct (d_nw d); [destruct Hs as [Hs|[]]; right; right; auto|destruct Hs].
  - intros (e & Hin & Hs). apply filter_In in Hin. destruct Hin as (Hg & Hl). exists e. split.
    + apply filter_In. split; [apply (edges_view_In g e (proj2 (build_ginv d g Hb))); exact Hg|exact Hl].
    + cbn. destruct Hs as [Hs|[Hs|(Hnw & Hs)]]; [left; auto|right; left; auto|]. rewrite Hnw. right. right. left. auto.
Qed.
Print Assumptions C06_model_signals_exact.
