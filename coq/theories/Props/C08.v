(* C08 — Top-level AXI ports map one-to-one onto endpoints, roles and address slots.
   Part 1: soundness of the certified comparison evaluated on the real netlist: ports, per-interface
   role enables and AXI bindings, the identity of the interface that carries each enumeration name,
   and the AXI configuration records equal what the description implies. *)
From FV Require Import Base RouteMap Netlist Hw Check CheckProofs.

Definition C08_on (n : netlist) (ports : list port_decl) (nis : list ni_expect)
           (cfgs : list (string * list (string * Z))) : Prop :=
  list_eqb port_eqb (skipn 3 (n_ports n)) ports = true /\
  length (n_nis n) = length nis /\
  (forall e, In e nis -> exists x, find_ni n (ne_name e) = Some x /\
     list_eqb flag_eqb (ni_flags x) (ne_flags e) = true /\
     list_eqb kv_eqb (ni_axi x) (ne_axi e) = true /\
     (n_algo n <> "XYRouting" -> exists v, enum_value (n_ep_enum n) (ne_enum e) = Some v /\ ni_id x = IdN v) /\
     (n_algo n = "SourceRouting" -> ni_row x = Some (ne_enum e))) /\
  list_eqb cfg_eqb (n_axi_cfgs n) cfgs = true.

Theorem C08_checker_sound : forall n ports nis cfgs, chk_C08 n ports nis cfgs = [] -> C08_on n ports nis cfgs.
Proof.
  intros n ports nis cfgs H. unfold chk_C08 in H.
  apply app_nil in H. destruct H as (H1 & H). apply app_nil in H. destruct H as (H2 & H).
  apply app_nil in H. destruct H as (H3 & H4).
  apply guard_nil in H1. apply guard_nil, Nat.eqb_eq in H2. apply guard_nil in H4.
  split; [exact H1|]. split; [exact H2|]. split; [|exact H4].
  intros e He. pose proof (flat_map_nil _ _ H3 e He) as G. unfold c08_ni in G.
  destruct (find_ni n (ne_name e)) as [x|]; [|discriminate]. exists x. split; [reflexivity|].
  apply app_nil in G. destruct G as (G1 & G). apply app_nil in G. destruct G as (G2 & G).
  apply app_nil in G. destruct G as (G3 & G4).
  apply guard_nil in G1. apply guard_nil in G2. split; [exact G1|]. split; [exact G2|]. split.
  - intros Hx. destruct (str_eqb (n_algo n) "XYRouting") eqn:E; [apply str_eqb_eq in E; contradiction|].
    destruct (enum_value (n_ep_enum n) (ne_enum e)) as [v|]; [|discriminate].
    destruct (ni_id x) as [d|]; [|discriminate]. apply guard_nil in G3. exists v. split; [reflexivity|].
    f_equal. apply Z.eqb_eq in G3. congruence.
  - intros Hs. rewrite Hs in G4. replace (str_eqb "SourceRouting" "SourceRouting") with true in G4 by reflexivity.
    apply guard_nil, opt_str_eqb_eq in G4. exact G4.
Qed.
Print Assumptions C08_checker_sound.
