(* C08 — Top-level AXI ports map one-to-one onto endpoints, roles and address slots.
   Part 1: soundness of the certified comparison evaluated on the real netlist: ports, per-interface
   role enables and AXI bindings, the identity of the interface that carries each enumeration name,
   and the AXI configuration records equal what the description implies. *)
From FV Require Import Base RouteMap Netlist Hw Check CheckProofs.

Definition C08_on (n : netlist) (ports : list port_decl) (nis : list ni_expect)
           (cfgs : list (string * list (string * Z))) : Prop :=
  list_eqb port_eqb (skipn 3 (n_ports n)) ports = true /\
  length (n_nis n) = length nis /\
  (forall e, In e nis -> exists x, find_ni n (ne_name e) = Some x /\
     list_eqb flag_eqb (ni_flags x) (ne_flags e) = true /\
     list_eqb kv_eqb (ni_axi x) (ne_axi e) = true /\
     (n_algo n <> "XYRouting" -> exists v, enum_value (n_ep_enum n) (ne_enum e) = Some v /\ ni_id x = IdN v) /\
     (n_algo n = "SourceRouting" -> ni_row x = Some (ne_enum e))) /\
  list_eqb cfg_eqb (n_axi_cfgs n) cfgs = true.

Theorem C08_checker_sound : forall n ports nis cfgs, chk_C08 n ports nis cfgs = [] -> C08_on n ports nis cfgs.
Proof.
  intros n ports nis cfgs H. unfold chk_C08 in H.
  apply app_nil in H. destruct H as (H1 & H). apply app_nil in H. destruct H as (H2 & H).
  apply app_nil in H. destruct H as (H3 & H4).
  apply guard_nil in H1. apply guard_nil, Nat.eqb_eq in H2. apply guard_nil in H4.
  split; [exact H1|]. split; [exact H2|]. split; [|exact H4].
  intros e He. pose proof (flat_map_nil _ _ H3 e He) as G. unfold c08_ni in G.
  destruct (find_ni n (ne_name e)) as [x|]; [|discriminate]. exists x. split; [reflexivity|].
  apply app_nil in G. destruct G as (G1 & G). apply app_nil in G. destruct G as (G2 & G).
  apply app_nil in G. destruct G as (G3 & G4).
  apply guard_nil in G1. apply guard_nil in G2. split; [exact G1|]. split; [exact G2|]. split.
  - intros Hx. destruct (str_eqb (n_algo n) "XYRouting") eqn:E; [apply str_eqb_eq in E; contradiction|].
    destruct (enum_value (n_ep_enum n) (ne_enum e)) as [v|]; [|discriminate].
    destruct (ni_id x) as [d|]; [|discriminate]. apply guard_nil in G3. exists v. split; [reflexivity|].
    f_equal. apply Z.eqb_eq in G3. congruence.
  - intros Hs. rewrite Hs in G4. replace (str_eqb "SourceRouting" "SourceRouting") with true in G4 by reflexivity.
    apply guard_nil, opt_str_eqb_eq in G4. exact G4.
Qed.
Print Assumptions C08_checker_sound.

(* Part 2: universal theorems over the generator model, for every description that compiles.
   (a) an interface carries one bus object per protocol its endpoint descriptor lists, manager protocols
       as inputs (requests enter), subordinate protocols as outputs, named after the descriptor, with the
       descriptor's array shape and the interface's own array index;
   (b) such a bus declares <endpoint>_<protocol>_req_i / _rsp_o (manager) resp. _req_o / _rsp_i
       (subordinate) with the protocol's request / response types and the array shape without unit
       dimensions;
   (c) the element an interface binds is [i][j] (unit dimensions skipped) of its own index -- the index in
       its enumeration name E_x<i>_y<j>, and (C01_holds, array_slot_2d) the owner of address slot i*cols+j;
   (d) on an axi network the subordinate / manager side of an interface is enabled iff the descriptor
       lists a protocol for it, and a side without bus is tied off ('0 in, open out). *)
From FV Require Import Graph Desc Build Compile Routing Emit ModelBase ModelProofs AxiProofs.

Lemma compiled_ni_origin d g c x : compile d g = Ok c -> In x (c_nis c) ->
  exists ni, In ni (nodes_of_type g NNi) /\ compile_ni d g ni = Ok x.
Proof.
  intros Hc Hx. destruct (compile_inv _ _ _ Hc) as (dirs & nis & rts & rids & Hn & _ & ->). cbn in Hx.
  destruct (mapM_In _ _ _ _ Hn Hx) as (ni & Hni & Hq). eauto.
Qed.

Theorem C08_model_buses : forall d g c x, compile d g = Ok c -> In x (c_nis c) ->
  Forall (bus_ok (cn_ep x) "input" (cn_arr x)) (cn_mgr_buses x) /\
  map (fun b => p_name (b_proto b)) (cn_mgr_buses x) = match ep_mgr (cn_ep x) with Some ns => ns | None => [] end /\
  Forall (bus_ok (cn_ep x) "output" (cn_arr x)) (cn_sbr_buses x) /\
  map (fun b => p_name (b_proto b)) (cn_sbr_buses x) = match ep_sbr (cn_ep x) with Some ns => ns | None => [] end.
Proof.
  intros d g c x Hc Hx. destruct (compiled_ni_origin d g c x Hc Hx) as (ni & _ & Hq).
  destruct (compile_ni_buses d g ni x Hq) as (Ha & _ & M1 & M2 & S1 & S2). rewrite Ha. auto.
Qed.
Print Assumptions C08_model_buses.

Definition C08_model_statement : Prop :=
  (forall e arr b, bus_ok e "input" arr b -> bus_ports b =
     [{| pd_dir := "input"; pd_type := type_name (b_proto b) +++ "_req_t"; pd_dims := bus_dims b;
         pd_name := (ep_name e +++ "_" +++ p_name (b_proto b)) +++ "_req_i" |};
      {| pd_dir := "output"; pd_type := type_name (b_proto b) +++ "_rsp_t"; pd_dims := bus_dims b;
         pd_name := (ep_name e +++ "_" +++ p_name (b_proto b)) +++ "_rsp_o" |}]) /\
  (forall e arr b, bus_ok e "output" arr b -> bus_ports b =
     [{| pd_dir := "output"; pd_type := type_name (b_proto b) +++ "_req_t"; pd_dims := bus_dims b;
         pd_name := (ep_name e +++ "_" +++ p_name (b_proto b)) +++ "_req_o" |};
      {| pd_dir := "input"; pd_type := type_name (b_proto b) +++ "_rsp_t"; pd_dims := bus_dims b;
         pd_name := (ep_name e +++ "_" +++ p_name (b_proto b)) +++ "_rsp_i" |}]) /\
  (forall e role arr b, bus_ok e role arr b ->
     bus_dims b = match ep_array e with Some a => filter (fun x => negb (x =? 1)) a | None => [] end) /\
  (forall e role i j m n b, bus_ok e role (Some [i; j]) b -> ep_array e = Some [m; n] ->
     bus_idx b = (if m =? 1 then "" else "[" +++ Z_to_string i +++ "]") +++ (if n =? 1 then "" else "[" +++ Z_to_string j +++ "]")) /\
  (forall e role i n b, bus_ok e role (Some [i]) b -> ep_array e = Some [n] ->
     bus_idx b = if n =? 1 then "" else "[" +++ Z_to_string i +++ "]") /\
  (forall x i j, cn_arr x = Some [i; j] ->
     enum_name x = ep_name (cn_ep x) +++ "_x" +++ Z_to_string i +++ "_y" +++ Z_to_string j) /\
  (forall d off x, d_nw d = false ->
     ni_flags (emit_ni d off x) =
       [("ChimneyCfg", (is_some (pick_bus false "" (cn_sbr_buses x)), is_some (pick_bus false "" (cn_mgr_buses x))))] /\
     ni_axi (emit_ni d off x) = ni_bindings "axi_" (pick_bus false "" (cn_mgr_buses x)) (pick_bus false "" (cn_sbr_buses x))) /\
  (forall l, (l = [] /\ pick_bus false "" l = None) \/ (l <> [] /\ exists b, pick_bus false "" l = Some b /\ In b l)).

Theorem C08_model_holds : C08_model_statement.
Proof.
  exact (conj bus_ports_mgr (conj bus_ports_sbr (conj bus_dims_spec (conj bus_idx_2d (conj bus_idx_1d
        (conj enum_name_2d (conj emit_ni_flags_axi pick_bus_axi))))))).
Qed.
Print Assumptions C08_model_holds.

(* Part 4: narrow-wide networks.  The narrow (wide) manager / subordinate side of an interface is the LAST bus of
   that role whose protocol carries that type; the side's enable flag is set exactly when the role lists such a
   protocol, independently for the two roles and the two types; the AXI ports of a side are bound to that bus or tied
   off ('0 / open).  (What seed C08-mut4 broke: enables taken from the endpoint's roles instead of the side's ports.) *)
Theorem C08_model_narrow_wide :
  (forall d off x, d_nw d = true ->
     let mn := pick_bus true "narrow" (cn_mgr_buses x) in let sn := pick_bus true "narrow" (cn_sbr_buses x) in
     let mw := pick_bus true "wide" (cn_mgr_buses x) in let sw := pick_bus true "wide" (cn_sbr_buses x) in
     ni_flags (emit_ni d off x) = [("ChimneyCfgN", (is_some sn, is_some mn)); ("ChimneyCfgW", (is_some sw, is_some mw))] /\
     ni_axi (emit_ni d off x) = ni_bindings "axi_narrow_" mn sn ++ ni_bindings "axi_wide_" mw sw /\
     ni_module (emit_ni d off x) = "floo_nw_chimney") /\
  (forall kind l,
     (pick_bus true kind l = None /\ forall b, In b l -> has_kind kind b = false) \/
     (exists b pre post, pick_bus true kind l = Some b /\ l = pre ++ b :: post /\ has_kind kind b = true /\
                         forall b', In b' post -> has_kind kind b' = false)) /\
  (forall kind l, is_some (pick_bus true kind l) = existsb (has_kind kind) l).
Proof. exact (conj emit_ni_flags_nw (conj pick_bus_nw nw_side_enabled)). Qed.
Print Assumptions C08_model_narrow_wide.

From FV Require Import Examples.
Example C08_nw_nonvacuous :
  match (do g <- build (ex_nw ID); do c <- compile (ex_nw ID) g; Ok c) with
  | Ok c => existsb (fun x => is_some (pick_bus true "wide" (cn_mgr_buses x))) (c_nis c) &&
            existsb (fun x => is_some (pick_bus true "narrow" (cn_sbr_buses x))) (c_nis c)
  | Err _ => false
  end = true.
Proof. vm_compute. reflexivity. Qed.

(* Part 5: the top-level port names <endpoint>_<protocol> of an accepted description are pairwise distinct (repair
   8.17: endpoint `a` with protocol `b_c` next to endpoint `a_b` with protocol `c` used to declare `a_b_c_req_i`
   twice). *)
Theorem C08_model_port_names_distinct : forall d g c, compile d g = Ok c -> NoDup (port_base_names d).
Proof. exact compile_port_names_nodup. Qed.
Print Assumptions C08_model_port_names_distinct.

(* Part 6: what the role enables MEAN is decided by floo_pkg.sv: the generator emits
   set_ports(ChimneyDefaultCfg, en_sbr, en_mgr) and the hardware model (Hw.ni_is_sbr / ni_is_mgr) reads the two
   arguments as the enables.  Over the statements of that function, regenerated from hw/floo_pkg.sv on every run
   (formal arguments renamed a1, a2, a3; fail-closed on control flow): it sets exactly these two fields from exactly
   these two arguments and returns the record -- so an interface is enabled on a side iff the emitted flag says so. *)
From FVGen Require Import RtlFacts.
Theorem C08_set_ports_semantics :
  set_ports_body = ["a1.EnSbrPort = a2"; "a1.EnMgrPort = a3"; "return a1"].
Proof. reflexivity. Qed.
Print Assumptions C08_set_ports_semantics.

(* Part 7: "the emitted AXI configuration records agree with the protocols", for every accepted description: each
   record (AxiCfg; AxiCfgN and AxiCfgW in narrow-wide mode) carries the address, data and user width of EVERY protocol of
   its kind (they agree, C10) and as InIdWidth / OutIdWidth the id width of a declared protocol of that kind. *)
From FV Require Import ParseProofs.
Theorem C08_model_axi_cfgs : forall v d g c axi,
  parse_desc v = Ok d -> compile d g = Ok c -> emit_axi_cfgs c = Ok axi ->
  forall name fields, In (name, fields) axi ->
    exists kind pi po, In pi (d_protos d) /\ In po (d_protos d) /\
      (if d_nw d then (name = "AxiCfgN" /\ kind = "narrow") \/ (name = "AxiCfgW" /\ kind = "wide") else name = "AxiCfg") /\
      (d_nw d = true -> of_kind kind pi = true /\ of_kind kind po = true) /\
      cfg_field fields "InIdWidth" = Some (p_id pi) /\ cfg_field fields "OutIdWidth" = Some (p_id po) /\
      forall p, In p (d_protos d) -> (d_nw d = true -> of_kind kind p = true) ->
        cfg_field fields "AddrWidth" = Some (p_addr p) /\ cfg_field fields "DataWidth" = Some (p_data p) /\
        cfg_field fields "UserWidth" = Some (p_user p).
Proof. exact axi_cfgs_agree. Qed.
Print Assumptions C08_model_axi_cfgs.

Example C08_axi_cfgs_nonvacuous :
  match (do g <- build (ex_nw ID); do c <- compile (ex_nw ID) g; emit_axi_cfgs c) with
  | Ok axi => map fst axi
  | Err _ => []
  end = ["AxiCfgN"; "AxiCfgW"].
Proof. vm_compute. reflexivity. Qed.
