(* C10 — Invalid descriptions are rejected and leave no output.
   Part 1 (regenerated from /repo/floogen/cli.py on every run): in the command-line pipeline no step
   that can raise comes after the first file write, hence a run that raises at any stage (parse,
   create, compile, routing info, either render) has written no package or top-module file; and the
   two files written by a successful run are the package, then the top module. *)
From FV Require Import Base Cli.
From FVGen Require Import CliFacts.

Theorem C10_no_output_on_failure : forall k s,
  nth_error cli_steps k = Some s -> is_call s = true -> written_if_fails_at cli_steps k = [].
Proof. intros k s. apply no_output_on_failure. vm_compute. reflexivity. Qed.
Print Assumptions C10_no_output_on_failure.

(* every stage of the generator is among the steps that precede the writes *)
Example C10_stages_present :
  forallb (fun nm => existsb (fun s => is_call s && str_eqb (fst (snd s)) nm) cli_steps)
          ["parse_config"; "network.create_network"; "network.compile_network"; "network.gen_routing_info";
           "network.render_package"; "network.render_network"] = true /\
  written cli_steps = ["pkg_file_name"; "top_file_name"].
Proof. vm_compute. auto. Qed.
