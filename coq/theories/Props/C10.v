(* C10 — Invalid descriptions are rejected and leave no output.
   Part 1 (regenerated from /repo/floogen/cli.py on every run): in the command-line pipeline no step
   that can reject a description (a stage of the generator, the query handler, the formatter: Cli.rejecting) comes
   after the first file write, hence a run that raises at any stage (parse,
   create, compile, routing info, either render) has written no package or top-module file; and the
   two files written by a successful run are the package, then the top module. *)
From FV Require Import Base Cli.
From FVGen Require Import CliFacts.

Theorem C10_no_output_on_failure : forall k s,
  nth_error cli_steps k = Some s -> rejecting s = true -> written_if_fails_at cli_steps k = [].
Proof. intros k s. apply no_output_on_rejection. vm_compute. reflexivity. Qed.
Print Assumptions C10_no_output_on_failure.

(* every stage of the generator is among the steps that precede the writes *)
Example C10_stages_present :
  forallb (fun nm => existsb (fun s => is_call s && str_eqb (fst (snd s)) nm) cli_steps)
          ["parse_config"; "network.create_network"; "network.compile_network"; "network.gen_routing_info";
           "network.render_package"; "network.render_network"] = true /\
  written cli_steps = ["pkg_file_name"; "top_file_name"].
Proof. vm_compute. auto. Qed.

(* Part 1b: the same statement over the HAND MODEL of the pipeline (Cli.cli_model: parse, create, compile, routing
   information, both renders, then the mode's outputs), for every mode; and the soundness of the certified comparison
   of an OBSERVED run of the real command line (stages entered with their arguments, generated files present at
   every entry, outputs emitted) with that model.  The harness observes the real command line in every mode and with a
   failure injected at the entry of every stage (chk_cli_failed); this tie does not read the text of cli.py, so it
   survives its rewrites, and decides alone when the translator above fails closed. *)
Theorem C10_cli_model_no_output_on_failure : forall m k s,
  nth_error (cli_model m) k = Some s -> is_call s = true -> written_if_fails_at (cli_model m) k = [].
Proof. exact cli_model_no_output_on_failure. Qed.
Print Assumptions C10_cli_model_no_output_on_failure.

Theorem C10_observed_run_sound : forall m r, chk_cli_run m r = [] ->
  run_steps r = cli_model m /\ outputs (run_steps r) = expected_outputs m /\ clean_at_entries r = true /\
  forall k s, nth_error (run_steps r) k = Some s -> is_call s = true -> written_if_fails_at (run_steps r) k = [].
Proof. exact chk_cli_run_sound. Qed.
Print Assumptions C10_observed_run_sound.

(* Part 2 (over the generator model, for EVERY input tree): what the model accepts is well formed.
   Read contrapositively these are rejection theorems for the property's defect classes -- an input
   with one of these defects makes run_yaml return Err, and Part 1 says an error leaves no file:
   unknown field (network, protocol, endpoint, router, connection, address range), duplicate endpoint
   or router name, subordinate endpoint without address range, invalid address range, range (or array
   stride) beyond the address width, protocols disagreeing on the address width, unidirectional
   connection, duplicate node name in the graph, link end on a node that does not exist, expanded
   address ranges that overlap (C01_holds), a port index used twice on a router (place). *)
From FV Require Import AddrRange Graph Desc Build Compile Routing Emit ModelBase BuildProofs ParseProofs ModelProofs.

Definition C10_model_statement : Prop :=
  (forall sp v n, run_yaml sp v = Ok n ->
     exists d g, parse_desc v = Ok d /\ build d = Ok g /\
       (* schema layer *)
       NoDup (map ep_name (d_eps d)) /\ NoDup (map rt_name (d_rts d)) /\
       (forall e, In e (d_eps d) -> ep_ok e) /\
       (forall e rs, In e (d_eps d) -> In rs (ep_ranges e) ->
          exists r, range_of_spec rs = Ok r /\ r_end r <= 2 ^ aw_of d /\
            (forall b, ep_array e <> None -> ep_sbr e <> None -> r_base r = Some b ->
                       b + r_size r * ep_num e <= 2 ^ aw_of d)) /\
       (forall p q, In p (d_protos d) -> In q (d_protos d) -> p_addr p = p_addr q) /\
       (* graph layer *)
       NoDup (names g) /\ ginv g /\ ni_wf g) /\
  (* unknown fields *)
  (forall v d, parse_desc v = Ok d -> exists m, v = YMap m /\ forall k x, In (k, x) m ->
     In k ["name"; "description"; "network_type"; "protocols"; "endpoints"; "routers"; "connections"; "graph"; "routing"]) /\
  (forall v e, parse_ep v = Ok e -> exists m, v = YMap m /\ forall k x, In (k, x) m ->
     In k ["name"; "description"; "array"; "num"; "addr_range"; "xy_id_offset"; "mgr_port_protocol"; "sbr_port_protocol"]) /\
  (forall v r, parse_range v = Ok r -> exists m, v = YMap m /\ forall k x, In (k, x) m ->
     In k ["start"; "end"; "size"; "base"; "idx"; "desc"]) /\
  (forall v c m, parse_conn v = Ok c -> v = YMap m -> yget "bidirectional" m <> Some (YBool false)).

Theorem C10_model_holds : C10_model_statement.
Proof.
  split; [|split; [exact parse_desc_keys|split; [exact parse_ep_keys|split; [exact parse_range_keys|]]]].
  - intros sp v n H. unfold run_yaml in H. destruct (parse_desc v) as [d|] eqn:Hp; [|discriminate]. cbn [bind] in H.
    destruct (run_inv _ _ _ H) as (g & c & ri & Hb & _).
    destruct (parse_desc_ok _ _ Hp) as (A1 & A2 & A3 & A4 & A5 & _).
    exists d, g. split; [reflexivity|]. split; [exact Hb|]. split; [exact A1|]. split; [exact A2|].
    split; [exact A3|]. split; [exact A4|]. split; [exact A5|].
    split; [exact (build_nodup d g Hb)|]. split; [exact (build_ginv d g Hb)|exact (build_ni_wf d g Hb)].
  - intros v c m Hc Hv. exact (parse_conn_bidir v c Hc m Hv).
Qed.
Print Assumptions C10_model_holds.

(* Part 3: further defect classes, read contrapositively from what the model accepts.
   (a) protocols with mismatching widths: in an axi network ALL protocols share one data and one user width, whatever
       their optional type labels (seed C10-mut4 compared only equally labelled ones); in a narrow-wide network every
       protocol has a type and the narrow (wide) ones agree among themselves;
   (b) an unconnected endpoint: every compiled interface has a link to a router and a link from a router;
   (c) two links on one router port: link edges into one router that name the same (non-negative) direction are one
       and the same connection end;
   (d) a duplicated connection: a built graph has at most one edge per (source, destination). *)
From FV Require Import Graph Compile Side ParseProofs HwProofs WireProofs.
Theorem C10_model_more :
  (forall v d, parse_desc v = Ok d ->
     (d_nw d = false -> forall p q, In p (d_protos d) -> In q (d_protos d) -> p_data p = p_data q /\ p_user p = p_user q) /\
     (d_nw d = true ->
        (forall p, In p (d_protos d) -> p_type p <> None) /\
        forall k, k = "narrow" \/ k = "wide" -> forall p q, In p (d_protos d) -> In q (d_protos d) ->
          of_kind k p = true -> of_kind k q = true -> p_data p = p_data q /\ p_user p = p_user q)) /\
  (forall d g c, compile d g = Ok c -> forall x, In x (c_nis c) ->
     fst (cn_mgr_link x) = cn_name x /\ is_link_of g (cn_mgr_link x) /\
     snd (cn_sbr_link x) = cn_name x /\ is_link_of g (cn_sbr_link x)) /\
  (forall d g rt rid r, compile_router d g rt rid = Ok r ->
     forall e1 e2 k, In e1 (filter is_link (edges_to g (n_name rt))) -> In e2 (filter is_link (edges_to g (n_name rt))) ->
       e_dst_dir e1 = Some k -> e_dst_dir e2 = Some k -> 0 <= k -> epair e1 = epair e2) /\
  (forall d g, build d = Ok g -> edges_nodup g).
Proof.
  split; [exact parse_desc_widths|]. split; [exact compile_ni_links|]. split; [|exact build_edges_nodup].
  intros d g rt rid r Hc e1 e2 k H1 H2 D1 D2 Hk.
  pose proof (dir_in_slot d g rt rid r Hc e1 k H1 D1 Hk) as S1. pose proof (dir_in_slot d g rt rid r Hc e2 k H2 D2 Hk) as S2.
  congruence.
Qed.
Print Assumptions C10_model_more.

(* Part 4 (RejectProofs.v): two more of the property's defect classes as rejection theorems over the model.
   "An array range without base": every range of a subordinate ARRAY endpoint the model accepts carries a base (the
   per-element ranges are derived from it) -- so a start/size or start/end range on such an endpoint is rejected (what
   seed C10-mut10 broke in the implementation).  "An XY connection without direction": under XY every accepted
   interface has a coordinate that is its router's plus the unit vector of a direction NAMED by one of the two link
   edges between them -- a connection without a direction names none. *)
From FV Require Import Netlist RejectProofs.
Theorem C10_model_array_needs_base : forall d g c,
  compile d g = Ok c ->
  forall x, In x (c_nis c) -> ep_array (cn_ep x) <> None -> ep_is_sbr (cn_ep x) = true ->
  forall rs, In rs (ep_ranges (cn_ep x)) -> exists r, range_of_spec rs = Ok r /\ r_base r <> None.
Proof. exact compile_array_needs_base. Qed.
Print Assumptions C10_model_array_needs_base.

Theorem C10_model_xy_needs_direction : forall d g c,
  compile d g = Ok c -> d_algo d = XY ->
  forall x, In x (c_nis c) ->
  exists tx ty s rx ry k dx dy,
    cn_id x = IdXY tx ty 0 /\ In s (successors g (cn_name x)) /\ rt_coord_of g s = Some (rx, ry) /\
    to_coords k = Ok (dx, dy) /\ tx = rx + dx /\ ty = ry + dy /\
    ((exists e1, find_edge g (cn_name x) s = Some e1 /\ e_dst_dir e1 = Some k) \/
     (exists e2, find_edge g s (cn_name x) = Some e2 /\ e_src_dir e2 = Some k)).
Proof. exact compile_xy_needs_direction. Qed.
Print Assumptions C10_model_xy_needs_direction.

(* non-vacuity: the star example has a subordinate array endpoint with based ranges; a start/size range on it is
   rejected by the model *)
From FV Require Import Examples.
Example C10_array_needs_base_nonvacuous :
  match (do g <- build (ex_star ID); compile (ex_star ID) g) with
  | Ok c => existsb (fun x => match ep_array (cn_ep x) with Some _ => ep_is_sbr (cn_ep x) && negb (Nat.eqb (length (ep_ranges (cn_ep x))) 0) | None => false end) (c_nis c)
  | Err _ => false
  end = true.
Proof. vm_compute. reflexivity. Qed.
