(* C10 — Invalid descriptions are rejected and leave no output.
   Part 1 (regenerated from /repo/floogen/cli.py on every run): in the command-line pipeline no step
   that can raise comes after the first file write, hence a run that raises at any stage (parse,
   create, compile, routing info, either render) has written no package or top-module file; and the
   two files written by a successful run are the package, then the top module. *)
From FV Require Import Base Cli.
From FVGen Require Import CliFacts.

Theorem C10_no_output_on_failure : forall k s,
  nth_error cli_steps k = Some s -> is_call s = true -> written_if_fails_at cli_steps k = [].
Proof. intros k s. apply no_output_on_failure. vm_compute. reflexivity. Qed.
Print Assumptions C10_no_output_on_failure.

(* every stage of the generator is among the steps that precede the writes *)
Example C10_stages_present :
  forallb (fun nm => existsb (fun s => is_call s && str_eqb (fst (snd s)) nm) cli_steps)
          ["parse_config"; "network.create_network"; "network.compile_network"; "network.gen_routing_info";
           "network.render_package"; "network.render_network"] = true /\
  written cli_steps = ["pkg_file_name"; "top_file_name"].
Proof. vm_compute. auto. Qed.

(* Part 2 (over the generator model, for EVERY input tree): what the model accepts is well formed.
   Read contrapositively these are rejection theorems for the property's defect classes -- an input
   with one of these defects makes run_yaml return Err, and Part 1 says an error leaves no file:
   unknown field (network, protocol, endpoint, router, connection, address range), duplicate endpoint
   or router name, subordinate endpoint without address range, invalid address range, range (or array
   stride) beyond the address width, protocols disagreeing on the address width, unidirectional
   connection, duplicate node name in the graph, link end on a node that does not exist, expanded
   address ranges that overlap (C01_holds), a port index used twice on a router (place). *)
From FV Require Import AddrRange Graph Desc Build Compile Routing Emit ModelBase BuildProofs ParseProofs ModelProofs.

Definition C10_model_statement : Prop :=
  (forall sp v n, run_yaml sp v = Ok n ->
     exists d g, parse_desc v = Ok d /\ build d = Ok g /\
       (* schema layer *)
       NoDup (map ep_name (d_eps d)) /\ NoDup (map rt_name (d_rts d)) /\
       (forall e, In e (d_eps d) -> ep_ok e) /\
       (forall e rs, In e (d_eps d) -> In rs (ep_ranges e) ->
          exists r, range_of_spec rs = Ok r /\ r_end r <= 2 ^ aw_of d /\
            (forall b, ep_array e <> None -> ep_sbr e <> None -> r_base r = Some b ->
                       b + r_size r * ep_num e <= 2 ^ aw_of d)) /\
       (forall p q, In p (d_protos d) -> In q (d_protos d) -> p_addr p = p_addr q) /\
       (* graph layer *)
       NoDup (names g) /\ ginv g /\ ni_wf g) /\
  (* unknown fields *)
  (forall v d, parse_desc v = Ok d -> exists m, v = YMap m /\ forall k x, In (k, x) m ->
     In k ["name"; "description"; "network_type"; "protocols"; "endpoints"; "routers"; "connections"; "graph"; "routing"]) /\
  (forall v e, parse_ep v = Ok e -> exists m, v = YMap m /\ forall k x, In (k, x) m ->
     In k ["name"; "description"; "array"; "num"; "addr_range"; "xy_id_offset"; "mgr_port_protocol"; "sbr_port_protocol"]) /\
  (forall v r, parse_range v = Ok r -> exists m, v = YMap m /\ forall k x, In (k, x) m ->
     In k ["start"; "end"; "size"; "base"; "idx"; "desc"]) /\
  (forall v c m, parse_conn v = Ok c -> v = YMap m -> yget "bidirectional" m <> Some (YBool false)).

Theorem C10_model_holds : C10_model_statement.
Proof.
  split; [|split; [exact parse_desc_keys|split; [exact parse_ep_keys|split; [exact parse_range_keys|]]]].
  - intros sp v n H. unfold run_yaml in H. destruct (parse_desc v) as [d|] eqn:Hp; [|discriminate]. cbn [bind] in H.
    destruct (run_inv _ _ _ H) as (g & c & ri & Hb & _).
    destruct (parse_desc_ok _ _ Hp) as (A1 & A2 & A3 & A4 & A5 & _).
    exists d, g. split; [reflexivity|]. split; [exact Hb|]. split; [exact A1|]. split; [exact A2|].
    split; [exact A3|]. split; [exact A4|]. split; [exact A5|].
    split; [exact (build_nodup d g Hb)|]. split; [exact (build_ginv d g Hb)|exact (build_ni_wf d g Hb)].
  - intros v c m Hc Hv. exact (parse_conn_bidir v c Hc m Hv).
Qed.
Print Assumptions C10_model_holds.
