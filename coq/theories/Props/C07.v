(* C07 — Identities unique, dense, representable, correctly named.
   Part 1: the certified checker that is evaluated (extracted) on the netlist the REAL floogen emitted
   is sound for the semantic statement C07_on over the hardware model Hw.v. *)
From FV Require Import Base RouteMap Netlist Hw Check CheckProofs.

Theorem C07_checker_sound : forall n names, chk_C07 n names = [] -> C07_on n names.
Proof. exact chk_C07_sound. Qed.
Print Assumptions C07_checker_sound.
