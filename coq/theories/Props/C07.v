(* C07 — Identities unique, dense, representable, correctly named.
   Part 1: the certified checker that is evaluated (extracted) on the netlist the REAL floogen emitted
   is sound for the semantic statement C07_on over the hardware model Hw.v. *)
From FV Require Import Base RouteMap Netlist Hw Check CheckProofs.

Theorem C07_checker_sound : forall n names, chk_C07 n names = [] -> C07_on n names.
Proof. exact chk_C07_sound. Qed.
Print Assumptions C07_checker_sound.

(* Part 2: over the generator model, for EVERY description that build and compile accept under ID or
   source routing: the identities of the network interfaces are pairwise distinct, each is IdN u with
   0 <= u < N, every u in [0, N) is the identity of an interface (dense), the endpoint enumeration
   has exactly N members whose values are those identities, and N <= 2 ^ id_bits. *)
From FV Require Import Graph Desc Build Compile Routing Emit ModelBase BuildProofs ModelProofs IdProofs Examples.

Definition C07_model_statement : Prop :=
  forall d g c, build d = Ok g -> compile d g = Ok c -> d_algo d <> XY ->
    let N := Z.of_nat (length (c_nis c)) in
    NoDup (map cn_id (c_nis c)) /\
    (forall n, In n (c_nis c) -> cn_id n = IdN (cn_uid n) /\ 0 <= cn_uid n < N) /\
    (forall u, 0 <= u < N -> exists n, In n (c_nis c) /\ cn_id n = IdN u) /\
    (length (emit_members c) = length (c_nis c) /\
     forall n, In n (c_nis c) -> In (snake_to_camel (enum_name n), cn_uid n) (emit_members c)) /\
    (forall sp ri, gen_routing_info sp c = Ok ri -> ri_num_ep ri = N /\ 0 < N <= 2 ^ ri_id_bits ri).

Theorem C07_model_holds : C07_model_statement.
Proof.
  intros d g c Hb Hc Hxy N. split; [|split; [|split; [|split]]].
  - exact (ids_distinct d g c Hb Hc Hxy).
  - intros n Hn. split; [exact (ids_are_uids d g c Hc Hxy n Hn)|exact (uids_range d g c Hb Hc n Hn)].
  - intros u Hu. destruct (uids_dense d g c Hb Hc u Hu) as (n & Hn & Hun). exists n. split; [exact Hn|].
    rewrite (ids_are_uids d g c Hc Hxy n Hn), Hun. reflexivity.
  - unfold emit_members. split; [rewrite sort_by_length, map_length; reflexivity|].
    intros n Hn. apply sort_by_In. apply in_map_iff. exists n. auto.
  - intros sp ri Hr. destruct (id_bits_cover sp c ri Hr) as (H1 & H2). unfold N. rewrite <- H1. auto.
Qed.
Print Assumptions C07_model_holds.

(* Part 3, XY routing: every interface and router coordinate, after the global offset, lies inside the
   emitted coordinate field widths -- for every compiled network and oracle. *)
Theorem C07_model_xy : forall sp c ri xb yb ab ox oy,
  gen_routing_info sp c = Ok ri -> ri_xy ri = Some (xb, (yb, (ab, (ox, oy)))) ->
  (forall n, In n (c_nis c) -> exists x y p, cn_id n = IdXY x y p /\ 0 <= x - ox < 2 ^ xb /\ 0 <= y - oy < 2 ^ yb) /\
  (forall r, In r (c_rts c) -> exists x y p, cr_id r = Some (IdXY x y p) /\ 0 <= x - ox < 2 ^ xb /\ 0 <= y - oy < 2 ^ yb).
Proof. intros sp c ri xb yb ab ox oy Hr Hx. apply xy_coordinates_fit with (ab := ab). eapply gri_xy; eauto. Qed.
Print Assumptions C07_model_xy.

(* and they are pairwise distinct: compile rejects two interfaces with one coordinate *)
Theorem C07_model_xy_distinct : forall d g c, compile d g = Ok c -> d_algo d = XY -> NoDup (map cn_id (c_nis c)).
Proof. exact xy_ids_distinct. Qed.
Print Assumptions C07_model_xy_distinct.

Example C07_nonvacuous :
  match (do g <- build (ex_star ID); do c <- compile (ex_star ID) g; Ok c) with
  | Ok c => list_eqb Z.eqb (map cn_uid (c_nis c)) [0; 1; 2; 3]
  | Err _ => false
  end = true.
Proof. vm_compute. reflexivity. Qed.

(* Part 4: every instance exactly once.  The nodes of every graph that build accepts are, in order, the router
   nodes of the router descriptors and then, per endpoint descriptor E, one endpoint node and one interface
   node for every element of E's array (E, E_k or E_i_j; interface E_ni, E_ni_k, E_ni_i_j) -- and node names are
   pairwise distinct (build_nodup), so every instance is named exactly once. *)
From FV Require Import FrameProofs.
Theorem C07_model_instances :
  forall d g, build d = Ok g ->
    g_nodes g = flat_map router_nodes (d_rts d) ++ flat_map endpoint_node_list (d_eps d) /\ NoDup (names g).
Proof. intros d g H. split; [exact (build_nodes d g H)|exact (build_nodup d g H)]. Qed.
Print Assumptions C07_model_instances.
