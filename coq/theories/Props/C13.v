(* C13 — Counts and dimensions agree with the tables they describe.
   Part 1: the certified checker that is evaluated (extracted) on the netlist the REAL floogen emitted
   is sound for the semantic statement C13_on over the hardware model Hw.v. *)
From FV Require Import Base RouteMap Netlist Hw Check CheckProofs.

Theorem C13_checker_sound : forall n, chk_C13 n = [] -> C13_on n.
Proof. exact chk_C13_sound. Qed.
Print Assumptions C13_checker_sound.
