(* C13 — Counts and dimensions agree with the tables they describe.
   Part 1: the certified checker that is evaluated (extracted) on the netlist the REAL floogen emitted
   is sound for the semantic statement C13_on over the hardware model Hw.v. *)
From FV Require Import Base RouteMap Netlist Hw Check CheckProofs Desc Paths Routing Emit ModelProofs Examples.

Theorem C13_checker_sound : forall n, chk_C13 n = [] -> C13_on n.
Proof. exact chk_C13_sound. Qed.
Print Assumptions C13_checker_sound.

(* Part 2: the universal theorem over the generator model -- every description (any topology, any
   size, any declaration order), every shortest-path oracle: whatever the model emits satisfies the
   statement.  The model is tied to the code by the correspondence run (bit-identical netlists). *)
Definition C13_statement : Prop := forall (sp : oracle) (d : desc) (n : netlist), run sp d = Ok n -> C13_on n.
Theorem C13_holds : C13_statement.
Proof. exact C13_model. Qed.
Print Assumptions C13_holds.

(* non-vacuity: the hypothesis is satisfiable (star with a manager-only endpoint, XY/ID/SRC mesh, tree) *)
Example C13_nonvacuous : forallb accepted [ex_star ID; ex_star SRC; ex_mesh XY; ex_mesh SRC; ex_tree ID] = true.
Proof. vm_compute. reflexivity. Qed.

(* Part 3: entry k of the address map is the rule the index enumeration names k.  `exp` lists, for every declared
   range of every subordinate instance, the member name the description implies (instance name, range tag or
   position, "SamIdx") with the range's bounds; the checker evaluated on the real output is sound for: the member
   exists and the rule at the index it denotes has exactly these bounds. *)
Theorem C13_named_entries_sound : forall n exp, chk_C13n n exp = [] -> C13_on n /\ C13_named_on n exp.
Proof. exact chk_C13n_sound. Qed.
Print Assumptions C13_named_entries_sound.
