(* C12 — Generated SystemVerilog is structurally well-formed (partial, DESIGN 5.12).
   Decided per explored output by the certified checker chk_C12 on text facts extracted from the real
   files by the fail-closed reader.  Soundness: an empty failure list implies, for the facts at hand,
   no duplicate declaration per scope, every used identifier available (file, generated package,
   floo_pkg, macro-defined), every sized literal holds its value, address bounds fit the address
   width with exactly ceil(aw/4) digits, route words have exactly the route width, and every value
   assigned to an identifier field fits it.  (Delimiter balance is the executable stack run
   balance_run; that the Mako templates produce balanced text for every description is not proved.) *)
From FV Require Import Base RouteMap Netlist Hw Check CheckProofs.
From Coq Require Import ZifyBool.

Definition C12_on (f : text_facts) : Prop :=
  (forall b, In b (tf_brackets f) -> balance_run (snd b) [] = true) /\
  (forall d, In d (tf_decl f) -> NoDup (snd d)) /\
  (forall u x, In u (tf_used f) -> In x (snd u) ->
     exists a, In a (tf_avail f) /\ fst a = fst u /\ In x (snd a)) /\
  (forall w v nd bpd, In (w, (v, (nd, bpd))) (tf_lits f) -> 0 <= v < 2 ^ w) /\
  (forall lw v nd aw, In (lw, (v, (nd, aw))) (tf_sam f) -> lw = aw /\ 0 <= v < 2 ^ aw /\ nd = cdiv aw 4) /\
  (forall w, In w (tf_words f) -> exists rb, tf_route_bits f = Some rb /\ w_width w = rb /\ w_digits w = rb /\
                                             0 <= w_val w < 2 ^ rb) /\
  (forall what w v, In (what, (w, v)) (tf_fields f) -> 0 <= v < 2 ^ w).

Lemma dups_nil l : dups l = [] -> NoDup l.
Proof.
  unfold dups. induction l as [|x xs IH]; [constructor|].
  destruct (existsb (str_eqb x) xs) eqn:E; [discriminate|].
  intros H. constructor; [|apply IH; exact H].
  intros Hin. assert (existsb (str_eqb x) xs = true).
  { apply existsb_exists. exists x. split; [exact Hin|apply str_eqb_eq; reflexivity]. }
  congruence.
Qed.

Theorem C12_checker_sound : forall f, chk_C12 f = [] -> C12_on f.
Proof.
  intros f H. unfold chk_C12 in H.
  repeat (apply app_nil in H; let G := fresh "G" in destruct H as (G & H)).
  unfold C12_on. repeat split.
  - intros b Hb. pose proof (flat_map_nil _ _ G b Hb) as X. apply guard_nil in X. exact X.
  - intros d Hd. pose proof (flat_map_nil _ _ G0 d Hd) as X. cbv beta in X.
    apply dups_nil. destruct (dups (snd d)); [reflexivity|discriminate].
  - intros u x Hu Hx. pose proof (flat_map_nil _ _ G1 u Hu) as X. cbv beta zeta in X.
    destruct (find (fun a => str_eqb (fst a) (fst u)) (tf_avail f)) as [a|] eqn:Ef; cbn [option_map opt_default] in X.
    + apply find_some in Ef. destruct Ef as (Ha & Hn). apply str_eqb_eq in Hn. exists a. split; [exact Ha|split; [exact Hn|]].
      destruct (filter _ (snd u)) as [|y ys] eqn:Ff; [|discriminate].
      destruct (existsb (str_eqb x) (snd a)) eqn:Ex.
      * apply existsb_exists in Ex. destruct Ex as (z & Hz & Ez). apply str_eqb_eq in Ez. subst. exact Hz.
      * exfalso. assert (Hin : In x (filter (fun x0 => negb (existsb (str_eqb x0) (snd a))) (snd u))).
        { apply filter_In. split; [exact Hx|]. rewrite Ex. reflexivity. }
        rewrite Ff in Hin. destruct Hin.
    + exfalso. destruct (filter _ (snd u)) as [|y ys] eqn:Ff; [|discriminate].
      assert (Hin : In x (filter (fun x0 => negb (existsb (str_eqb x0) [])) (snd u))).
      { apply filter_In. split; [exact Hx|reflexivity]. }
      rewrite Ff in Hin. destruct Hin.
  - pose proof (flat_map_nil _ _ G2 _ H0) as X. cbv beta iota in X. apply guard_nil in X. lia.
  - pose proof (flat_map_nil _ _ G2 _ H0) as X. cbv beta iota in X. apply guard_nil in X. lia.
  - pose proof (flat_map_nil _ _ G3 _ H0) as X. cbv beta iota in X. apply guard_nil in X. lia.
  - pose proof (flat_map_nil _ _ G3 _ H0) as X. cbv beta iota in X. apply guard_nil in X. lia.
  - pose proof (flat_map_nil _ _ G3 _ H0) as X. cbv beta iota in X. apply guard_nil in X. lia.
  - pose proof (flat_map_nil _ _ G3 _ H0) as X. cbv beta iota in X. apply guard_nil in X. lia.
  - intros w Hw. pose proof (flat_map_nil _ _ G4 w Hw) as X. cbv beta in X.
    destruct (tf_route_bits f) as [rb|]; [|discriminate]. apply guard_nil in X. exists rb. repeat split; lia.
  - pose proof (flat_map_nil _ _ H _ H0) as X. cbv beta iota in X. apply guard_nil in X. lia.
  - pose proof (flat_map_nil _ _ H _ H0) as X. cbv beta iota in X. apply guard_nil in X. lia.
Qed.
Print Assumptions C12_checker_sound.

(* Part 2: universal, over the generator model (schema layer included), for EVERY input tree the model
   accepts: in the emitted system address map every start bound is below 2^addr_width and every end
   bound is at most 2^addr_width.  Hence a start literal always holds its value in the address width,
   and the ONLY end literal that does not is an exclusive end bound equal to 2^addr_width exactly --
   the known finding C12:address-literal:end=2^addr_width (such a range must be accepted, C01). *)
From FV Require Import Desc Routing Emit LiteralProofs.
Theorem C12_model_address_literals : forall sp v n, run_yaml sp v = Ok n ->
  forall s, In s (n_sam n) ->
    sr_start s < sr_end s /\ sr_start s < 2 ^ n_aw n /\ (sr_end s < 2 ^ n_aw n \/ sr_end s = 2 ^ n_aw n).
Proof.
  intros sp v n H s Hs. pose proof (sam_bounds_within_aw sp v n H s Hs). lia.
Qed.
Print Assumptions C12_model_address_literals.

(* Part 3: universal, for EVERY input tree the model accepts: every rule of every router's address map has
   0 <= start < end <= 2^id_bits.  A start index always fits the identifier field; the ONLY end index that does
   not is an exclusive end equal to 2^id_bits exactly (the endpoint count is a power of two) -- the known
   finding C12:field-overflow:table-end=2^id_bits, shown here to be the only possible overflow of a table bound. *)
Theorem C12_model_table_bounds : forall sp v n, run_yaml sp v = Ok n ->
  forall r nm n1 n2 iw rules, In r (n_rts n) -> r_map r = Some (nm, (n1, (n2, (iw, rules)))) ->
  exists b, n_id_bits n = Some b /\
    forall ru, In ru rules -> 0 <= st ru < en ru /\ st ru < 2 ^ b /\ (en ru < 2 ^ b \/ en ru = 2 ^ b).
Proof.
  intros sp v n H r nm n1 n2 iw rules Hr Hm.
  destruct (netlist_table_bounds sp v n H r nm n1 n2 iw rules Hr Hm) as (b & Hb & Hall).
  exists b. split; [exact Hb|]. intros ru Hru. pose proof (Hall ru Hru). lia.
Qed.
Print Assumptions C12_model_table_bounds.

(* Part 4 (RejectProofs.v): universal, for EVERY input tree the model accepts under source routing: the route type is
   at least one bit wide, and every word of the emitted RoutingTables is written with exactly the route width and that
   many digits and holds its value in it -- "route words have exactly the route width" as a theorem about the model
   (what seed C12-mut10 broke in the implementation by dropping the zero padding). *)
From FV Require Import Compile ModelProofs RejectProofs.
Theorem C12_model_route_words : forall sp v n, run_yaml sp v = Ok n -> n_algo n = "SourceRouting" ->
  exists rb tb, n_route_bits n = Some rb /\ 1 <= rb /\ n_tables n = Some tb /\
    forall row w, In row tb -> In w row -> w_width w = rb /\ w_digits w = rb /\ 0 <= w_val w < 2 ^ rb.
Proof.
  intros sp v n H Hal. unfold run_yaml in H. destruct (parse_desc v) as [d|]; [|discriminate]. cbn [bind] in H.
  destruct (run_inv _ _ _ H) as (g & c & ri & Hb & Hc & Hri & He).
  assert (Ha : d_algo (c_desc c) = SRC).
  { destruct (emit_inv _ _ _ He) as (_ & axi & rts & _ & _ & Hn). rewrite Hn in Hal. cbn [n_algo] in Hal.
    destruct (d_algo (c_desc c)); cbn in Hal; try discriminate Hal; reflexivity. }
  destruct (netlist_route_words sp c ri n Hri He Ha) as (H1 & H2 & tb & H3 & H4).
  exists (ri_route_bits ri), tb. auto.
Qed.
Print Assumptions C12_model_route_words.
