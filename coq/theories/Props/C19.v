(* C19 — Traffic jobs only address memory that the mesh configuration maps.
   Over the regenerated facts (constants and traffic types of util/gen_jobs.py, address maps the real
   floogen emits for every shipped {axi,nw}_mesh_{xy,id,src} example): for every example, traffic
   type, direction, tile, oracle draw of the `uniform` pattern and every burst length up to MEM_SIZE,
   each transfer's source and destination byte range lies inside one mapped rule; tile (x,y)'s local
   address starts cluster (x,y)'s rule and channel c starts the c-th boundary memory's rule. *)
From FV Require Import Base Jobs JobsProofs.
From FVGen Require Import JobsFacts.

Definition C19_statement : Prop :=
  forall ex sam, In (ex, sam) example_sams ->
    (forall t x y rd ox oy L js,
       In t traffic_type_names -> 0 <= x < NUM_X -> 0 <= y < NUM_Y -> 0 <= ox < NUM_X -> 0 <= oy < NUM_Y ->
       0 <= L <= MEM_SIZE -> jobs t x y rd ox oy L = Ok js ->
       forall len src dst, In (len, (src, dst)) js -> inside sam src len /\ inside sam dst len) /\
    (forall x y, 0 <= x < NUM_X -> 0 <= y < NUM_Y -> rule_start sam (cluster_rule x y) = Some (xy_base x y)) /\
    (forall c, 0 <= c < NUM_Y -> rule_start sam (hbm_rule c) = Some (hbm_base c)).

Lemma C19_all_examples :
  forallb (fun e => c19_check (snd e) && c19_names (snd e)) example_sams = true.
Proof. vm_compute. reflexivity. Qed.

Theorem C19_holds : C19_statement.
Proof.
  intros ex sam Hin. pose proof C19_all_examples as H. rewrite forallb_forall in H.
  specialize (H (ex, sam) Hin). cbn [snd] in H. apply andb_true_iff in H. destruct H as (H1 & H2).
  split; [apply c19_check_sound; [reflexivity|exact H1]|apply c19_names_sound; exact H2].
Qed.
Print Assumptions C19_holds.

(* non-vacuity: the six examples are there, jobs exist, and every traffic type yields jobs *)
Example C19_nonvacuous :
  length example_sams = 6%nat /\
  jobs "hbm" 1 2 true 0 0 1024 = Ok [(1024, (HBM_BASE_ADDR + 2 * MEM_SIZE, xy_base 1 2))] /\
  forallb (fun t => match jobs t 0 0 false 1 1 64 with Ok (_ :: _) => true | _ => false end) traffic_type_names = true.
Proof. vm_compute. auto. Qed.
