(* C11 — Generated code binds only what the shipped RTL and macros actually offer.
   Over facts regenerated on every run: module headers of hw/, macros of typedef.svh, names of
   floo_pkg.sv, XYDirections of the generator, and the instantiations / macro invocations / floo_pkg
   names of really generated code for every template branch (axi / narrow-wide x XY / ID / SRC x
   role presence x narrow / wide presence) and every shipped example; plus what the two mesh
   testbenches take from the generated mesh networks of each shipped variant.  The branch space is
   finite: the names bound by the templates depend only on these choices. *)
From FV Require Import Base Manifest Rtl.
From FVGen Require Import RtlFacts.

Definition C11_statement : Prop :=
  (* every instantiation shape: module exists, bound parameters / ports exist, directions compatible,
     every input bound *)
  (forall i, In i gen_insts -> inst_ok hw_modules i = true) /\
  (* macros exist with that number of arguments *)
  (forall u, In u gen_macros -> macro_ok macros_defined u = true) /\
  (* configuration records name exactly the fields of the floo_pkg structs *)
  (forall u, In u gen_cfg_fields -> cfg_ok pkg_structs u = true) /\
  (* routing algorithms and helper functions / constants are declared in floo_pkg *)
  (forall a, In a gen_algos -> exists v, lookup a (opt_default [] (lookup "route_algo_e" pkg_enums)) = Some v) /\
  (forall c, In c gen_calls -> call_ok pkg_functions pkg_params c = true) /\
  (* compass numbering *)
  dirs_ok py_directions (opt_default [] (lookup "route_direction_e" pkg_enums)) = true /\
  (* the mesh testbenches touch the generated meshes only through emitted ports and package names *)
  (forall t, In t tb_missing -> snd (snd t) = ([], [])).

Lemma C11_chk_insts : forallb (inst_ok hw_modules) gen_insts = true.
Proof. vm_compute. reflexivity. Qed.
Lemma C11_chk_macros : forallb (macro_ok macros_defined) gen_macros = true.
Proof. vm_compute. reflexivity. Qed.
Lemma C11_chk_cfgs : forallb (cfg_ok pkg_structs) gen_cfg_fields = true.
Proof. vm_compute. reflexivity. Qed.
Lemma C11_chk_algos :
  forallb (fun a => is_some (lookup a (opt_default [] (lookup "route_algo_e" pkg_enums)))) gen_algos = true.
Proof. vm_compute. reflexivity. Qed.
Lemma C11_chk_calls : forallb (call_ok pkg_functions pkg_params) gen_calls = true.
Proof. vm_compute. reflexivity. Qed.
Lemma C11_chk_dirs : dirs_ok py_directions (opt_default [] (lookup "route_direction_e" pkg_enums)) = true.
Proof. vm_compute. reflexivity. Qed.
Lemma C11_chk_tb :
  forallb (fun t => match snd (snd t) with ([], []) => true | _ => false end) tb_missing = true.
Proof. vm_compute. reflexivity. Qed.

Theorem C11_holds : C11_statement.
Proof.
  split; [|split; [|split; [|split; [|split; [|split]]]]].
  - intros i Hi. exact (proj1 (forallb_forall _ _) C11_chk_insts i Hi).
  - intros u Hu. exact (proj1 (forallb_forall _ _) C11_chk_macros u Hu).
  - intros u Hu. exact (proj1 (forallb_forall _ _) C11_chk_cfgs u Hu).
  - intros a Ha. pose proof (proj1 (forallb_forall _ _) C11_chk_algos a Ha) as H. cbv beta in H.
    destruct (lookup a _) as [v|]; [eauto|discriminate].
  - intros c Hc. exact (proj1 (forallb_forall _ _) C11_chk_calls c Hc).
  - exact C11_chk_dirs.
  - intros t Ht. pose proof (proj1 (forallb_forall _ _) C11_chk_tb t Ht) as H. cbv beta in H.
    destruct (snd (snd t)) as [[|a l] [|b m]]; try discriminate. reflexivity.
Qed.
Print Assumptions C11_holds.

(* non-vacuity: the facts are populated *)
Example C11_nonvacuous :
  (10 <=? Z.of_nat (length gen_insts)) && (4 <=? Z.of_nat (length hw_modules)) && (30 <=? gen_origins) &&
  (6 <=? Z.of_nat (length tb_missing)) = true.
Proof. vm_compute. reflexivity. Qed.
