(* C05 — Ports and links paired consistently on every physical channel; one driver, one reader per signal.
   Part 1: the certified checker that is evaluated (extracted) on the netlist the REAL floogen emitted
   is sound for the semantic statement C05_on over the hardware model Hw.v.
   Part 2: over the generator model (tied to floogen by the netlist correspondence), for EVERY
   description: every graph `build` accepts has a mirror link for every link (BuildProofs.build_ginv),
   hence every compiled router holds, at each port index, a link on the input side and its reverse on
   the output side or nothing on both, and the emitted instance wires request/response/wide of that
   index to the same neighbour, or ties the inputs off and leaves the outputs open. *)
From FV Require Import Base RouteMap Graph Desc Build Netlist Compile Routing Emit Hw Check CheckProofs
     BuildProofs ModelProofs Examples.

Theorem C05_checker_sound : forall n, chk_C05 n = [] -> C05_on n.
Proof. exact chk_C05_sound. Qed.
Print Assumptions C05_checker_sound.

Definition C05_model_statement : Prop :=
  (forall d g, build d = Ok g -> ginv g) /\
  (forall d g c, build d = Ok g -> compile d g = Ok c ->
     forall r, In r (c_rts c) -> Forall2 paired (cr_in r) (cr_out r)) /\
  (forall d g c ri r x, build d = Ok g -> compile d g = Ok c -> In r (c_rts c) -> emit_rt d ri r = Ok x ->
     forall i, (i < length (cr_in r))%nat -> port_wired (d_nw d) x i).

Theorem C05_model_holds : C05_model_statement.
Proof. exact (conj build_ginv (conj C05_model C05_model_netlist)). Qed.
Print Assumptions C05_model_holds.

(* non-vacuity: the mesh example builds and compiles, its four routers have five ports each, three or four in use *)
Example C05_nonvacuous :
  match (do g <- build (ex_mesh XY); do c <- compile (ex_mesh XY) g; Ok c) with
  | Ok c => Nat.eqb (length (c_rts c)) 4 &&
            forallb (fun r => Nat.eqb (length (cr_in r)) 5 &&
                              Nat.leb 3 (length (filter (fun o : option link => is_some o) (cr_in r))) &&
                              Nat.leb (length (filter (fun o : option link => is_some o) (cr_in r))) 4) (c_rts c)
  | Err _ => false
  end = true.
Proof. vm_compute. reflexivity. Qed.

(* Part 3: the second half of C05 over the generator model, for EVERY description whose graph meets three
   decidable side conditions -- signal names determine their links (false only for node names that contain
   "_to_"), every interface has exactly one link in each direction, links join interfaces and routers only --:
   every declared link signal of the emitted top module (request, response and, in narrow-wide networks, wide) has exactly one driver and exactly
   one reader, and its name is <driver>_to_<reader>_<net>.  (Proof: every link edge into a router sits in
   exactly one input slot of that router -- WireProofs.in_complete / in_unique, from one edge per
   (source, destination) in every built graph -- and by the port pairing its mirror in exactly one output slot.) *)
From FV Require Import Side HwProofs WireProofs.
Theorem C05_model_signals :
  forall d g c ri n nt, net_ok d nt ->
    build d = Ok g -> compile d g = Ok c -> emit c ri = Ok n ->
    names_sepb g nt = true -> single_attachb g c = true -> links_typedb g c = true ->
    forall l, In l (n_links n) -> fst l = net_type nt -> signal_ok n l.
Proof.
  intros d g c ri n nt Hnt Hb Hc He H1 H2 H3.
  exact (model_signal_ok d g c ri n nt Hnt Hb Hc He (names_sepb_ok g nt H1) (single_attachb_ok g c H2) (links_typedb_ok g c H3)).
Qed.
Print Assumptions C05_model_signals.

Example C05_signals_nonvacuous :
  forallb (fun d =>
    match (do g <- build d; do c <- compile d g; Ok (g, c)) with
    | Ok (g, c) => names_sepb g Req && names_sepb g Rsp && single_attachb g c && links_typedb g c
    | Err _ => false
    end) [ex_star ID; ex_mesh XY; ex_tree SRC] = true /\
  (* a narrow-wide network: the wide signals too *)
  match (do g <- build (ex_nw ID); do c <- compile (ex_nw ID) g; Ok (g, c)) with
  | Ok (g, c) => names_sepb g Req && names_sepb g Rsp && names_sepb g Wide && single_attachb g c && links_typedb g c
  | Err _ => false
  end = true.
Proof. vm_compute. auto. Qed.

(* Part 5: single attachment is no longer a side condition.  Since the repair of defect 8.16 (an endpoint named in two
   connections was accepted: its interface was wired to the first router, the links of the second connection stayed
   declared without reader / driver) the generator -- and the model -- accept an interface only with exactly one link
   in each direction, so `single_attachb g c = true` follows from acceptance, and the signal theorem needs two side
   conditions only. *)
Theorem C05_model_single_attach :
  forall d g c, build d = Ok g -> compile d g = Ok c -> single_attachb g c = true.
Proof. exact single_attachb_holds. Qed.
Print Assumptions C05_model_single_attach.

Theorem C05_model_signals_2 :
  forall d g c ri n nt, net_ok d nt ->
    build d = Ok g -> compile d g = Ok c -> emit c ri = Ok n ->
    names_sepb g nt = true -> links_typedb g c = true ->
    forall l, In l (n_links n) -> fst l = net_type nt -> signal_ok n l.
Proof.
  intros d g c ri n nt Hnt Hb Hc He H1 H3.
  exact (model_signal_ok d g c ri n nt Hnt Hb Hc He (names_sepb_ok g nt H1) (compile_single_attach d g c Hb Hc) (links_typedb_ok g c H3)).
Qed.
Print Assumptions C05_model_signals_2.

(* Part 6: nor are distinct signal names.  Since the repair of defect 8.18 (routers x, y_to_z, x_to_y, z with links
   x - y_to_z and x_to_y - z were accepted and declared x_to_y_to_z_req twice) the generator -- and the model -- accept
   a network only if its links have pairwise distinct names, so `names_sepb g nt = true` follows from acceptance too.
   One decidable side condition is left: links join interfaces and routers only. *)
Theorem C05_model_names_sep :
  forall d g c nt, compile d g = Ok c -> names_sepb g nt = true.
Proof. exact names_sepb_holds. Qed.
Print Assumptions C05_model_names_sep.

Theorem C05_model_signals_1 :
  forall d g c ri n nt, net_ok d nt ->
    build d = Ok g -> compile d g = Ok c -> emit c ri = Ok n ->
    links_typedb g c = true ->
    forall l, In l (n_links n) -> fst l = net_type nt -> signal_ok n l.
Proof.
  intros d g c ri n nt Hnt Hb Hc He H3.
  exact (model_signal_ok d g c ri n nt Hnt Hb Hc He (compile_names_sep d g c nt Hc) (compile_single_attach d g c Hb Hc) (links_typedb_ok g c H3)).
Qed.
Print Assumptions C05_model_signals_1.
