(* C05 — Ports and links paired consistently on every physical channel; one driver, one reader per signal.
   Part 1: the certified checker that is evaluated (extracted) on the netlist the REAL floogen emitted
   is sound for the semantic statement C05_on over the hardware model Hw.v. *)
From FV Require Import Base RouteMap Netlist Hw Check CheckProofs.

Theorem C05_checker_sound : forall n, chk_C05 n = [] -> C05_on n.
Proof. exact chk_C05_sound. Qed.
Print Assumptions C05_checker_sound.
