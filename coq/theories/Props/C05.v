(* C05 — Ports and links paired consistently on every physical channel; one driver, one reader per signal.
   Part 1: the certified checker that is evaluated (extracted) on the netlist the REAL floogen emitted
   is sound for the semantic statement C05_on over the hardware model Hw.v.
   Part 2: over the generator model (tied to floogen by the netlist correspondence), for EVERY
   description: every graph `build` accepts has a mirror link for every link (BuildProofs.build_ginv),
   hence every compiled router holds, at each port index, a link on the input side and its reverse on
   the output side or nothing on both, and the emitted instance wires request/response/wide of that
   index to the same neighbour, or ties the inputs off and leaves the outputs open. *)
From FV Require Import Base RouteMap Graph Desc Build Netlist Compile Routing Emit Hw Check CheckProofs
     BuildProofs ModelProofs Examples.

Theorem C05_checker_sound : forall n, chk_C05 n = [] -> C05_on n.
Proof. exact chk_C05_sound. Qed.
Print Assumptions C05_checker_sound.

Definition C05_model_statement : Prop :=
  (forall d g, build d = Ok g -> ginv g) /\
  (forall d g c, build d = Ok g -> compile d g = Ok c ->
     forall r, In r (c_rts c) -> Forall2 paired (cr_in r) (cr_out r)) /\
  (forall d g c ri r x, build d = Ok g -> compile d g = Ok c -> In r (c_rts c) -> emit_rt d ri r = Ok x ->
     forall i, (i < length (cr_in r))%nat -> port_wired (d_nw d) x i).

Theorem C05_model_holds : C05_model_statement.
Proof. exact (conj build_ginv (conj C05_model C05_model_netlist)). Qed.
Print Assumptions C05_model_holds.

(* non-vacuity: the mesh example builds and compiles, its four routers have five ports each, three or four in use *)
Example C05_nonvacuous :
  match (do g <- build (ex_mesh XY); do c <- compile (ex_mesh XY) g; Ok c) with
  | Ok c => Nat.eqb (length (c_rts c)) 4 &&
            forallb (fun r => Nat.eqb (length (cr_in r)) 5 &&
                              Nat.leb 3 (length (filter (fun o : option link => is_some o) (cr_in r))) &&
                              Nat.leb (length (filter (fun o : option link => is_some o) (cr_in r))) 4) (c_rts c)
  | Err _ => false
  end = true.
Proof. vm_compute. reflexivity. Qed.
