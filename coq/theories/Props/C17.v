(* C17 — Address ranges are well-formed under every accepted construction.
   Statement, theorem (closed by exact), assumptions, non-vacuity. Nothing else. *)
From FV Require Import Base AddrRange AddrRangeProofs.

Definition C17_statement : Prop :=
  (* every accepted construction is well-formed, and base+size determine start *)
  (forall s e z b i r, mk_range s e z b i = Ok r ->
     0 <= r_start r < r_end r /\ r_end r - r_start r = r_size r /\ r_base r = b /\ r_idx r = i /\
     (forall b0 z0, b = Some b0 -> z = Some z0 ->
        r_start r = b0 + opt_default 0 i * z0 /\ r_size r = z0)) /\
  (* acceptance is exactly: the fields denote bounds and 0 <= start < end *)
  (forall s e z b i r, mk_range s e z b i = Ok r <->
     (spec_bounds s e z b i = Some (r_start r, r_end r, r_size r) /\
      0 <= r_start r < r_end r /\ r_base r = b /\ r_idx r = i)) /\
  (* re-indexing *)
  (forall r k b0, r_base r = Some b0 ->
     exists r', set_idx r k = Ok r' /\ r_start r' = b0 + k * r_size r /\
                r_end r' = b0 + (k + 1) * r_size r /\ r_size r' = r_size r /\
                r_base r' = Some b0 /\ r_idx r' = Some k) /\
  (forall r k, r_base r = None -> exists msg, set_idx r k = Err msg) /\
  (* rejections: insufficient, contradictory, empty / negative *)
  (forall s e z b i, sufficient s e z b = false -> exists msg, mk_range s e z b i = Err msg) /\
  (forall st en sz i, en - st <> sz ->
     exists msg, mk_range (Some st) (Some en) (Some sz) None i = Err msg) /\
  (forall s e z b i st en sz, spec_bounds s e z b i = Some (st, en, sz) -> ~ (0 <= st < en) ->
     exists msg, mk_range s e z b i = Err msg).

Theorem C17_holds : C17_statement.
Proof.
  exact (conj mk_range_wf (conj mk_range_char (conj set_idx_based (conj set_idx_unbased
        (conj mk_range_rejects_insufficient (conj mk_range_rejects_contradictory
              mk_range_rejects_bad_bounds)))))).
Qed.
Print Assumptions C17_holds.

(* non-vacuity: accepted constructions of each kind exist, and a based range re-indexes *)
Example C17_nonvacuous :
  mk_range None None (Some 16) (Some 256) (Some 3) =
    Ok {| r_start := 304; r_end := 320; r_size := 16; r_base := Some 256; r_idx := Some 3 |} /\
  mk_range (Some 4) (Some 12) None None None =
    Ok {| r_start := 4; r_end := 12; r_size := 8; r_base := None; r_idx := None |} /\
  (do r <- mk_range None None (Some 16) (Some 256) None; set_idx r 5) =
    Ok {| r_start := 336; r_end := 352; r_size := 16; r_base := Some 256; r_idx := Some 5 |}.
Proof. vm_compute. auto. Qed.
