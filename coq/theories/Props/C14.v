(* C14 — Routes are shortest paths.
   Part 1: the certified checker that is evaluated (extracted) on the netlist the REAL floogen emitted
   is sound for the semantic statement C14_on over the hardware model Hw.v. *)
From FV Require Import Base RouteMap Graph Netlist Hw Check CheckProofs Desc Compile Routing Emit PathProofs ModelProofs.

Theorem C14_checker_sound : forall n, chk_C14 n = [] -> C14_on n.
Proof. exact chk_C14_sound. Qed.
Print Assumptions C14_checker_sound.

(* Part 2: universal theorem over the generator model (compiled level): following the emitted ID
   tables from a router towards interface t IS following the shortest-path oracle's next hops, so the
   number of nodes visited equals the length of a shortest path -- for every oracle satisfying the
   shortest-path contract, every description and size. *)
Theorem C14_model_tables_shortest :
  forall (sp : oracle) (c : compiled) (ri : rinfo) (t : cni) (id : Z),
    d_algo (c_desc c) = ID -> gen_routing_info sp c = Ok ri -> In t (c_nis c) -> id_num (cn_id t) = Ok id ->
    (forall s p, sp (c_graph c) s (cn_name t) = Some p -> path_to_t (g_edge c) (cn_name t) p s) ->
    (forall s p q, sp (c_graph c) s (cn_name t) = Some p -> path_to_t (g_edge c) (cn_name t) q s -> (length p <= length q)%nat) ->
    forall B : nat, (1 <= B)%nat ->
    (forall s p, sp (c_graph c) s (cn_name t) = Some p -> (length p <= B)%nat) ->
    (forall s q, path_to_t (g_edge c) (cn_name t) q s -> (length q <= B)%nat -> sp (c_graph c) s (cn_name t) <> None) ->
    NoDup (map cr_name (c_rts c)) ->
    (forall u p, is_router c u -> sp (c_graph c) u (cn_name t) = Some p -> forall x, In x (removelast p) -> is_router c x) ->
    forall k u p, (is_router c u \/ u = cn_name t) -> sp (c_graph c) u (cn_name t) = Some p -> length p = S k ->
      cwalk k c ri (cn_name t) id u = follow (fun x => sp (c_graph c) x (cn_name t)) k u.
Proof. exact cwalk_is_follow. Qed.
Print Assumptions C14_model_tables_shortest.

(* Part 3: on the hardware model, for every description under ID routing and on every physical network (`net_ok d nt`): the number
   of routers a flit traverses from s0's router r0 to t is exactly (length of a shortest path from r0 to t)
   minus one -- `p` below is the verified reference oracle's path, minimal among all paths of the graph
   (RefOracle.sp_ref_min).  Hypotheses as for C02_hw_delivered. *)
From FV Require Import Build RefOracle HwProofs BuildProofs.
Theorem C14_hw_shortest :
  forall (d : desc) (g : graph) (c : compiled) (ri : rinfo) (n : netlist) (t : cni) (id : Z) (nt : net),
    net_ok d nt ->
    build d = Ok g -> compile d g = Ok c -> gen_routing_info sp_reference c = Ok ri -> emit c ri = Ok n ->
    d_algo d = ID -> In t (c_nis c) -> id_num (cn_id t) = Ok id ->
    (forall u p, is_router c u -> sp_reference g u (cn_name t) = Some p -> forall x, In x (removelast p) -> is_router c x) ->
    chk_C05 n = [] ->
    (forall r, In r (c_rts c) -> Z.of_nat (length (cr_out r)) <= 2 ^ 32) ->
    forall s0 r0 p, In s0 (c_nis c) -> cn_name s0 <> cn_name t -> snd (attach nt s0) = r0 -> is_router c r0 ->
      sp_reference g r0 (cn_name t) = Some p ->
      S (length (t_rts (send n nt (emit_ni d (ri_offset ri) s0) (HId id)))) = length p /\
      forall q, path_to_t (RefOracle.edge g) (cn_name t) q r0 -> (length p <= length q)%nat.
Proof.
  intros d g c ri n t id nt Hnt Hb Hc Hri He Ha Ht Hid Htr Hchk Hdeg s0 r0 p Hs0 Hne Hr0 Hrt Hsp. split.
  - exact (proj2 (hw_send_ref d g c ri n t id nt Hnt Hb Hc Hri He Ha Ht Hid Htr Hchk Hdeg s0 r0 p Hs0 Hne Hr0 Hrt Hsp)).
  - intros q Hq. exact (sp_ref_min g (cn_name t) r0 p q Hsp Hq).
Qed.
Print Assumptions C14_hw_shortest.

(* Part 4: the oracle the generator really uses.  Paths.sp_nx mirrors networkx's bidirectional breadth-first search
   line by line (it is what makes the model's netlists identical to floogen's, which the harness checks field by
   field).  For every directed graph whose edge ends are nodes and every destination node: what sp_nx returns is a
   walk from s to t, no walk from s to t is shorter, and sp_nx finds a path whenever one exists.  No bound on the
   graph.  The hypotheses of the routing theorems about "an oracle that returns shortest paths" are hence THEOREMS
   for the generator's own path choice, tie-breaking included. *)
From FV Require Import Paths NxProofs NxHw Side WireProofs.
Theorem C14_networkx_mirror_returns_shortest_paths :
  forall (g : graph),
    (forall e, In e (g_edges g) -> has_node g (e_src e) = true /\ has_node g (e_dst e) = true) ->
    forall t, has_node g t = true ->
    (forall s p, sp_nx g s t = Some p ->
       path_to_t (E g) t p s /\ (forall q, path_to_t (E g) t q s -> (length p <= length q)%nat)) /\
    (forall s q, path_to_t (E g) t q s -> sp_nx g s t <> None).
Proof.
  intros g Hends t Ht. split.
  - intros s p H. destruct (sp_nx_spec g Hends t Ht s p H) as (A & B & _). split; assumption.
  - intros s q Hq. exact (sp_nx_complete g Hends t Ht s q Hq).
Qed.
Print Assumptions C14_networkx_mirror_returns_shortest_paths.

(* Part 5: on the hardware model with the generator's own oracle, every hypothesis decidable: the routers traversed are
   those of a path no walk of the graph undercuts. *)
Theorem C14_hw_shortest_nx :
  forall (d : desc) (g : graph) (c : compiled) (ri : rinfo) (n : netlist) (t : cni) (id : Z) (nt : net),
    net_ok d nt ->
    build d = Ok g -> compile d g = Ok c -> gen_routing_info sp_nx c = Ok ri -> emit c ri = Ok n ->
    d_algo d = ID -> In t (c_nis c) -> id_num (cn_id t) = Ok id ->
    transitb sp_nx c t = true ->
    names_sepb g nt = true -> single_attachb g c = true -> links_typedb g c = true -> degrees_fitb c = true ->
    forall s0 p, In s0 (c_nis c) -> cn_name s0 <> cn_name t -> is_rtb c (snd (attach nt s0)) = true ->
      sp_nx g (snd (attach nt s0)) (cn_name t) = Some p ->
      let tr := send n nt (emit_ni d (ri_offset ri) s0) (HId id) in
      t_out tr = Delivered (cn_name t) (HId id) /\ S (length (t_rts tr)) = length p /\
      forall q, path_to_t (E g) (cn_name t) q (snd (attach nt s0)) -> (length p <= length q)%nat.
Proof. exact hw_send_nx. Qed.
Print Assumptions C14_hw_shortest_nx.

(* source routing: the routers traversed are the inner nodes of a path no walk of the graph undercuts *)
Theorem C14_hw_src_shortest_nx :
  forall (d : desc) (g : graph) (c : compiled) (ri : rinfo) (n : netlist) (t : cni) (nt : net),
    net_ok d nt ->
    build d = Ok g -> compile d g = Ok c -> gen_routing_info sp_nx c = Ok ri -> emit c ri = Ok n ->
    d_algo d = SRC -> In t (c_nis c) ->
    names_sepb g nt = true -> single_attachb g c = true -> links_typedb g c = true ->
    forall s0 id ps p, In s0 (c_nis c) -> gen_route sp_nx c s0 t = Ok (id, Some ps) ->
      sp_nx g (cn_name s0) (cn_name t) = Some p -> snd (attach nt s0) = hd "" (tl p) ->
      let tr := send n nt (emit_ni d (ri_offset ri) s0) (hdr_of_word n (word_value ps)) in
      t_out tr = Delivered (cn_name t) (HRoute 0) /\ length (t_rts tr) = length ps /\ (2 + length ps = length p)%nat /\
      forall q, path_to_t (E g) (cn_name t) q (cn_name s0) -> (length p <= length q)%nat.
Proof. exact hw_src_send_nx. Qed.
Print Assumptions C14_hw_src_shortest_nx.

From FV Require Import Examples.
Example C14_nx_nonvacuous :
  forallb (fun d =>
    match (do g <- build d; do c <- compile d g; Ok (g, c)) with
    | Ok (g, c) =>
        forallb (transitb sp_nx c) (c_nis c) && names_sepb g Req && names_sepb g Rsp &&
        single_attachb g c && links_typedb g c && degrees_fitb c &&
        forallb (fun s0 => is_rtb c (snd (attach Req s0)) && is_rtb c (snd (attach Rsp s0))) (c_nis c)
    | Err _ => false
    end) [ex_star ID; ex_tree ID; ex_mesh ID] = true.
Proof. vm_compute. reflexivity. Qed.
