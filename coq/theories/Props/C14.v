(* C14 — Routes are shortest paths.
   Part 1: the certified checker that is evaluated (extracted) on the netlist the REAL floogen emitted
   is sound for the semantic statement C14_on over the hardware model Hw.v. *)
From FV Require Import Base RouteMap Graph Netlist Hw Check CheckProofs Desc Compile Routing Emit PathProofs ModelProofs.

Theorem C14_checker_sound : forall n, chk_C14 n = [] -> C14_on n.
Proof. exact chk_C14_sound. Qed.
Print Assumptions C14_checker_sound.

(* Part 2: universal theorem over the generator model (compiled level): following the emitted ID
   tables from a router towards interface t IS following the shortest-path oracle's next hops, so the
   number of nodes visited equals the length of a shortest path -- for every oracle satisfying the
   shortest-path contract, every description and size. *)
Theorem C14_model_tables_shortest :
  forall (sp : oracle) (c : compiled) (ri : rinfo) (t : cni) (id : Z),
    d_algo (c_desc c) = ID -> gen_routing_info sp c = Ok ri -> In t (c_nis c) -> id_num (cn_id t) = Ok id ->
    (forall s p, sp (c_graph c) s (cn_name t) = Some p -> path_to_t (g_edge c) (cn_name t) p s) ->
    (forall s p q, sp (c_graph c) s (cn_name t) = Some p -> path_to_t (g_edge c) (cn_name t) q s -> (length p <= length q)%nat) ->
    forall B : nat, (1 <= B)%nat ->
    (forall s p, sp (c_graph c) s (cn_name t) = Some p -> (length p <= B)%nat) ->
    (forall s q, path_to_t (g_edge c) (cn_name t) q s -> (length q <= B)%nat -> sp (c_graph c) s (cn_name t) <> None) ->
    NoDup (map cr_name (c_rts c)) ->
    (forall u p, is_router c u -> sp (c_graph c) u (cn_name t) = Some p -> forall x, In x (removelast p) -> is_router c x) ->
    forall k u p, (is_router c u \/ u = cn_name t) -> sp (c_graph c) u (cn_name t) = Some p -> length p = S k ->
      cwalk k c ri (cn_name t) id u = follow (fun x => sp (c_graph c) x (cn_name t)) k u.
Proof. exact cwalk_is_follow. Qed.
Print Assumptions C14_model_tables_shortest.
