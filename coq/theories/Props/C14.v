(* C14 — Routes are shortest paths.
   Part 1: the certified checker that is evaluated (extracted) on the netlist the REAL floogen emitted
   is sound for the semantic statement C14_on over the hardware model Hw.v. *)
From FV Require Import Base RouteMap Netlist Hw Check CheckProofs.

Theorem C14_checker_sound : forall n, chk_C14 n = [] -> C14_on n.
Proof. exact chk_C14_sound. Qed.
Print Assumptions C14_checker_sound.
