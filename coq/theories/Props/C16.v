(* C16 — Routing-table compaction never changes what the table decodes.
   Statement, theorem (closed by exact), assumptions, non-vacuity. Nothing else. *)
From FV Require Import Base RouteMap RouteMapProofs.

Definition C16_statement : Prop :=
  (* for every overlap-free table of non-empty ranges, over all integers, no bound *)
  (forall t, Forall wf t -> pdisj t ->
     exists t', trim t = Ok t' /\
       (* every identifier goes to the same port, or to no port, as before *)
       (forall a p, decodes t' a p <-> decodes t a p) /\
       (* the result is a table of non-empty ranges, overlap-free, without touching same-port rules *)
       Forall wf t' /\ pdisj t' /\ no_touch t' /\
       (* sizes stay end - start *)
       (Forall size_ok t -> Forall size_ok t')) /\
  (* "overlap-free" is exactly what the table constructor accepts *)
  (forall t, Forall wf t -> (mk_map t = Ok t <-> pdisj t)) /\
  (* and it means: no identifier is matched by two rules *)
  (forall t a r s, pdisj t -> In r t -> In s t -> matches r a -> matches s a -> r = s).

Lemma mk_map_iff t : Forall wf t -> (mk_map t = Ok t <-> pdisj t).
Proof.
  intros Hw. unfold mk_map. rewrite <- (check_no_overlap_iff t Hw).
  destruct (check_no_overlap t); split; intros H; congruence.
Qed.

Theorem C16_holds : C16_statement.
Proof. exact (conj trim_correct (conj mk_map_iff pdisj_unique)). Qed.
Print Assumptions C16_holds.

(* the checker that is run on the implementation's real output is sound for the statement *)
Theorem C16_checker_sound : forall t t', Forall wf t -> pdisj t -> chk_C16 t t' = true ->
  (forall a p, decodes t' a p <-> decodes t a p) /\
  Forall wf t' /\ pdisj t' /\ no_touch t' /\ Forall size_ok t'.
Proof. exact chk_C16_sound. Qed.
Print Assumptions C16_checker_sound.

(* non-vacuity: a table (declared out of order) in which two merges happen *)
Definition ex_table : list rule :=
  [ {| dest := 1; st := 4; en := 6; sz := 2 |}; {| dest := 0; st := 0; en := 2; sz := 2 |};
    {| dest := 1; st := 2; en := 4; sz := 2 |}; {| dest := 0; st := 7; en := 8; sz := 1 |};
    {| dest := 1; st := 6; en := 7; sz := 1 |} ].
Example C16_nonvacuous :
  Forall wf ex_table /\ pdisj ex_table /\ Forall size_ok ex_table /\
  trim ex_table = Ok [ {| dest := 1; st := 2; en := 7; sz := 5 |};
                       {| dest := 0; st := 0; en := 2; sz := 2 |};
                       {| dest := 0; st := 7; en := 8; sz := 1 |} ].
Proof.
  repeat split; try (repeat constructor; unfold wf, size_ok, disj; cbn; lia).
Qed.
