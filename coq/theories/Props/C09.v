(* C09 — Generated routes on meshes and trees are deadlock-free (partial, see DESIGN.md 5.9).
   Proved for every netlist: the Kahn-style checker evaluated on the real emitted routes is sound
   for "the channel-dependency graph of the request / response network is acyclic", and an acyclic
   dependency graph allows no set of packets that wait for each other (any size, no bound). *)
From FV Require Import Base RouteMap Netlist Hw Check CheckProofs CdgProofs.

Theorem C09_checker_sound : forall n, chk_C09 n = [] -> C09_on n.
Proof. exact chk_C09_sound. Qed.
Print Assumptions C09_checker_sound.

Theorem C09_acyclic_no_deadlock : forall deps W : list (string * string),
  acyclic deps -> (forall e, In e W -> In e deps) -> all_wait W -> W = [].
Proof. exact acyclic_no_deadlock. Qed.
Print Assumptions C09_acyclic_no_deadlock.

Theorem C09_kahn_sound : forall E, cyclic_core E = [] -> acyclic E.
Proof. exact cyclic_core_sound. Qed.
Print Assumptions C09_kahn_sound.

(* non-vacuity: a 3-cycle is detected, a chain is accepted *)
Example C09_nonvacuous :
  cyclic_core [("a", "b"); ("b", "c"); ("c", "a"); ("x", "a")] = ["a"; "b"; "c"] /\
  cyclic_core [("a", "b"); ("b", "c"); ("x", "a")] = [].
Proof. vm_compute. auto. Qed.

(* Part 2: universal, on the HARDWARE model, for every description whose links form a tree (any size, any shape:
   router trees, stars, chains, with any endpoints): under ID-table routing the signals crossed by the flits of ALL
   ordered pairs of interfaces -- a superset of the request and of the response pairs -- on any physical network
   induce an acyclic channel-dependency graph.  The tree is given by a CHECKED certificate (a depth per unit with
   one neighbour above each unit, Side.tree_certb; the harness offers breadth-first levels); the other hypotheses
   are the decidable side conditions of C02_hw_delivered_decidable, evaluated by the harness on every tree it runs.
   Proof: a shortest-path route climbs, then descends and never turns back, so ranking up-links by falling depth
   below down-links by rising depth makes every dependency raise the rank (TreeCdg.tree_routes_acyclic). *)
From FV Require Import Graph Desc Build Compile Routing Emit Side RefOracle ModelProofs HwProofs WireProofs TreeCdg TreeProofs.
Theorem C09_hw_tree_acyclic :
  forall (d : desc) (g : graph) (c : compiled) (ri : rinfo) (n : netlist) (nt : net) (dp : list (string * Z)),
    net_ok d nt ->
    build d = Ok g -> compile d g = Ok c -> gen_routing_info sp_reference c = Ok ri -> emit c ri = Ok n -> d_algo d = ID ->
    forallb (transitb sp_reference c) (c_nis c) = true ->
    names_sepb g nt = true -> single_attachb g c = true -> links_typedb g c = true -> degrees_fitb c = true ->
    attachedb c nt = true -> tree_certb g dp = true ->
    forall pairs : list (cni * cni),
      (forall s0 t, In (s0, t) pairs -> In s0 (c_nis c) /\ In t (c_nis c) /\ cn_name s0 <> cn_name t) ->
      acyclic (id_deps d ri n nt pairs) /\
      forall W, (forall e, In e W -> In e (id_deps d ri n nt pairs)) -> all_wait W -> W = [].
Proof.
  intros d g c ri n nt dp Hnt Hb Hc Hri He Ha Htr H1 H2 H3 H4 Hatt Hcert pairs Hp.
  pose proof (hw_tree_acyclic d g c ri n nt dp Hnt Hb Hc Hri He Ha (contract_ref g c) Htr H1 H2 H3 H4 Hatt Hcert pairs Hp) as Hac.
  split; [exact Hac|]. intros W Hsub Hall. eapply acyclic_no_deadlock; eauto.
Qed.
Print Assumptions C09_hw_tree_acyclic.

(* Part 3: hence C09 exactly as the checker states it (C09_on: the dependency sets of all request pairs and of all
   response pairs are acyclic and allow no set of packets waiting for each other) for EVERY ID-routed description
   whose links form a tree -- no evaluation of the checker needed. *)
Theorem C09_model_tree :
  forall (d : desc) (g : graph) (c : compiled) (ri : rinfo) (n : netlist) (dp : list (string * Z)),
    build d = Ok g -> compile d g = Ok c -> gen_routing_info sp_reference c = Ok ri -> emit c ri = Ok n -> d_algo d = ID ->
    forallb (transitb sp_reference c) (c_nis c) = true ->
    names_sepb g Req = true -> names_sepb g Rsp = true -> single_attachb g c = true -> links_typedb g c = true ->
    degrees_fitb c = true -> attachedb c Req = true -> attachedb c Rsp = true -> tree_certb g dp = true ->
    C09_on n.
Proof. exact model_tree_C09. Qed.
Print Assumptions C09_model_tree.

(* Part 4: the hypotheses in the executable form the harness evaluates (request `tree` of the model binary,
   Side.tree_conditions with breadth-first levels as the certificate): when all of them hold, C09 holds on the
   emitted netlist. *)
Theorem C09_tree_conditions_sound :
  forall (d : desc) (g : graph) (c : compiled) (ri : rinfo) (n : netlist),
    build d = Ok g -> compile d g = Ok c -> gen_routing_info sp_reference c = Ok ri -> emit c ri = Ok n -> d_algo d = ID ->
    (exists bs, tree_conditions sp_reference d = Ok bs /\ forallb (fun b => b) bs = true) -> C09_on n.
Proof. exact tree_conditions_sound. Qed.
Print Assumptions C09_tree_conditions_sound.

(* Part 5: the same for SOURCE ROUTING, on the hardware model: the signals crossed by the flits of all pairs of
   interfaces for which a route word is emitted (a superset of the request and response pairs), each steered by its
   own emitted word, induce an acyclic channel-dependency graph whenever the links form a tree.  `first_hopb`:
   a shortest path from an interface starts with the router it injects into (decidable, evaluated by the harness). *)
Theorem C09_hw_tree_acyclic_src :
  forall (d : desc) (g : graph) (c : compiled) (ri : rinfo) (n : netlist) (nt : net) (dp : list (string * Z)),
    net_ok d nt ->
    build d = Ok g -> compile d g = Ok c -> gen_routing_info sp_reference c = Ok ri -> emit c ri = Ok n -> d_algo d = SRC ->
    first_hopb sp_reference g c nt = true ->
    names_sepb g nt = true -> single_attachb g c = true -> links_typedb g c = true ->
    tree_certb g dp = true ->
    forall pairs : list (cni * cni),
      (forall s0 t, In (s0, t) pairs -> In s0 (c_nis c) /\ In t (c_nis c)) ->
      acyclic (src_deps sp_reference c d ri n nt pairs) /\
      forall W, (forall e, In e W -> In e (src_deps sp_reference c d ri n nt pairs)) -> all_wait W -> W = [].
Proof.
  intros d g c ri n nt dp Hnt Hb Hc Hri He Ha Hfh H1 H2 H3 Hcert pairs Hp.
  pose proof (hw_tree_acyclic_src d g c ri n nt dp Hnt Hb Hc Hri He Ha (contract_ref g c) Hfh H1 H2 H3 Hcert pairs Hp) as Hac.
  split; [exact Hac|]. intros W Hsub Hall. eapply acyclic_no_deadlock; eauto.
Qed.
Print Assumptions C09_hw_tree_acyclic_src.

(* Part 6: all of the above for the oracle the generator really uses -- Paths.sp_nx, the mirror of networkx's
   bidirectional search, proved to return shortest paths (C14_networkx_mirror_returns_shortest_paths): the tables and
   route words these theorems speak about are the ones the model emits with sp_nx, which the harness compares field by
   field with floogen's.  The harness evaluates exactly these hypotheses (request `tree`, with sp_nx). *)
From FV Require Import Paths NxProofs NxHw.
Theorem C09_model_tree_nx :
  forall (d : desc) (g : graph) (c : compiled) (ri : rinfo) (n : netlist) (dp : list (string * Z)),
    build d = Ok g -> compile d g = Ok c -> gen_routing_info sp_nx c = Ok ri -> emit c ri = Ok n -> d_algo d = ID ->
    forallb (transitb sp_nx c) (c_nis c) = true ->
    names_sepb g Req = true -> names_sepb g Rsp = true -> single_attachb g c = true -> links_typedb g c = true ->
    degrees_fitb c = true -> attachedb c Req = true -> attachedb c Rsp = true -> tree_certb g dp = true ->
    C09_on n.
Proof. exact model_tree_C09_nx. Qed.
Print Assumptions C09_model_tree_nx.

Theorem C09_tree_conditions_sound_nx :
  forall (d : desc) (g : graph) (c : compiled) (ri : rinfo) (n : netlist),
    build d = Ok g -> compile d g = Ok c -> gen_routing_info sp_nx c = Ok ri -> emit c ri = Ok n -> d_algo d = ID ->
    (exists bs, tree_conditions sp_nx d = Ok bs /\ forallb (fun b => b) bs = true) -> C09_on n.
Proof. exact tree_conditions_sound_nx. Qed.
Print Assumptions C09_tree_conditions_sound_nx.

Theorem C09_hw_tree_acyclic_src_nx :
  forall (d : desc) (g : graph) (c : compiled) (ri : rinfo) (n : netlist) (nt : net) (dp : list (string * Z)),
    net_ok d nt ->
    build d = Ok g -> compile d g = Ok c -> gen_routing_info sp_nx c = Ok ri -> emit c ri = Ok n -> d_algo d = SRC ->
    first_hopb sp_nx g c nt = true ->
    names_sepb g nt = true -> single_attachb g c = true -> links_typedb g c = true ->
    tree_certb g dp = true ->
    forall pairs : list (cni * cni),
      (forall s0 t, In (s0, t) pairs -> In s0 (c_nis c) /\ In t (c_nis c)) ->
      acyclic (src_deps sp_nx c d ri n nt pairs).
Proof.
  intros d g c ri n nt dp Hnt Hb Hc Hri He Ha.
  exact (hw_tree_acyclic_src_gen sp_nx (nxB g) d g c ri n nt dp Hnt Hb Hc Hri He Ha (contract_nx d g c Hb Hc)).
Qed.
Print Assumptions C09_hw_tree_acyclic_src_nx.

(* Part 7: C09 exactly as the checker states it for SOURCE-ROUTED tree-shaped descriptions, with the generator's own
   oracle: the checker's pair enumeration (role flags of the emitted interfaces, header read back from the emitted
   RoutingTables through the row selector and the destination identity) yields exactly flits steered by the words
   gen_route produced, so its dependency sets are among those of C09_hw_tree_acyclic_src_nx. *)
Theorem C09_model_tree_src_nx :
  forall (d : desc) (g : graph) (c : compiled) (ri : rinfo) (n : netlist) (dp : list (string * Z)),
    build d = Ok g -> compile d g = Ok c -> gen_routing_info sp_nx c = Ok ri -> emit c ri = Ok n -> d_algo d = SRC ->
    first_hopb sp_nx g c Req = true -> first_hopb sp_nx g c Rsp = true ->
    names_sepb g Req = true -> names_sepb g Rsp = true -> single_attachb g c = true -> links_typedb g c = true ->
    tree_certb g dp = true ->
    C09_on n.
Proof. exact model_tree_C09_src_nx. Qed.
Print Assumptions C09_model_tree_src_nx.

Theorem C09_tree_conditions_sound_src_nx :
  forall (d : desc) (g : graph) (c : compiled) (ri : rinfo) (n : netlist),
    build d = Ok g -> compile d g = Ok c -> gen_routing_info sp_nx c = Ok ri -> emit c ri = Ok n -> d_algo d = SRC ->
    (exists bs, tree_conditions sp_nx d = Ok bs /\ forallb (fun b => b) bs = true) -> C09_on n.
Proof. exact tree_conditions_sound_src_nx. Qed.
Print Assumptions C09_tree_conditions_sound_src_nx.

(* the generic core, for any set of routes over any links *)
Theorem C09_tree_routes_acyclic :
  forall (nt : net) (L : list link) (dep : string -> Z),
    (forall u v, In (u, v) L -> 0 <= dep u /\ 0 <= dep v) ->
    (forall u v, In (u, v) L -> dep v = dep u + 1 \/ dep u = dep v + 1) ->
    (forall b a c, In (b, a) L -> In (b, c) L -> dep a < dep b -> dep c < dep b -> a = c) ->
    (forall u v, In (u, v) L -> In (v, u) L) ->
    (forall l1 l2, In l1 L -> In l2 L -> flow nt l1 = flow nt l2 -> l1 = l2) ->
    forall routes : list (list string),
      (forall p a b, In p routes -> In (a, b) (consecutive p) -> In (a, b) L) ->
      (forall p, In p routes -> NoDup p) ->
      acyclic (route_deps nt routes).
Proof. exact tree_routes_acyclic. Qed.
Print Assumptions C09_tree_routes_acyclic.

(* non-vacuity: on the tree and the star example every hypothesis holds with the breadth-first levels as the
   certificate, on the request and on the response network; the mesh is (rightly) not certified as a tree *)
From FV Require Import Examples.
Example C09_hw_tree_nonvacuous :
  forallb (fun sp => forallb (fun d =>
    match tree_conditions sp d with
    | Ok bs => forallb (fun b => b) bs && Nat.eqb (length bs) 11
    | Err _ => false
    end) [ex_star ID; ex_tree ID; ex_star SRC; ex_tree SRC]) [sp_reference; sp_nx] = true /\
  match tree_conditions sp_nx (ex_mesh ID) with Ok [false] => true | _ => false end = true.
Proof. vm_compute. auto. Qed.

(* Part 8: the tree theorems with the hypotheses that are left (TransitProofs.v).  ID: a tree certificate, links that
   join routers and interfaces, port counts within the index field, interfaces injecting into routers.  SRC: a tree
   certificate and links that join routers and interfaces -- nothing else. *)
From FV Require Import TransitProofs.
Theorem C09_model_tree_nx_min :
  forall (d : desc) (g : graph) (c : compiled) (ri : rinfo) (n : netlist) (dp : list (string * Z)),
    build d = Ok g -> compile d g = Ok c -> gen_routing_info sp_nx c = Ok ri -> emit c ri = Ok n -> d_algo d = ID ->
    links_typedb g c = true -> degrees_fitb c = true -> attachedb c Req = true -> attachedb c Rsp = true ->
    tree_certb g dp = true -> C09_on n.
Proof. exact model_tree_C09_nx_min. Qed.
Print Assumptions C09_model_tree_nx_min.
Theorem C09_model_tree_src_nx_min :
  forall (d : desc) (g : graph) (c : compiled) (ri : rinfo) (n : netlist) (dp : list (string * Z)),
    build d = Ok g -> compile d g = Ok c -> gen_routing_info sp_nx c = Ok ri -> emit c ri = Ok n -> d_algo d = SRC ->
    links_typedb g c = true -> tree_certb g dp = true -> C09_on n.
Proof. exact model_tree_C09_src_nx_min. Qed.
Print Assumptions C09_model_tree_src_nx_min.

(* Part 9: XY-routed meshes, universally (XYCdg.v).  The property's own quantifier is ID-table and source routing; the
   same statement holds -- as a THEOREM, for every size -- for the third algorithm the generator offers: for every
   XY description over one auto-connected m x n router array with interfaces on any ports, the routes AS EMITTED
   (Hw.send_free: the X-then-Y decision of Hw.xy_select on the emitted, offset and width-limited coordinates, every
   signal followed from its driver to its reader, WITHOUT relying on the router's turn masks) of all ordered pairs
   induce an acyclic channel-dependency graph on the request and on the response network.  Proof: a rank on signals
   (injection < +x links by column < -x links by column < +y links by row < -y links by row < ejection) that every two
   consecutive signals of every walk raise, for EVERY target coordinate -- inside the array or not. *)
From FV Require Import Graph Desc Build Compile Routing Emit Side XYSide XYCdg.
Theorem C09_hw_xy_mesh :
  forall d g c rd mm nn sp ri n xb yb ab ox oy G,
    build d = Ok g -> compile d g = Ok c -> d_algo d = XY ->
    d_rts d = [rd] -> rt_array rd = Some [mm; nn] -> rt_tree rd = None -> rt_auto rd = true ->
    gen_routing_info sp c = Ok ri -> emit c ri = Ok n -> chk_C05 n = [] ->
    ri_xy ri = Some (xb, (yb, (ab, (ox, oy)))) -> att_okb c mm nn G = true ->
    C09_on n.
Proof. exact hw_xy_C09. Qed.
Print Assumptions C09_hw_xy_mesh.

(* on the model alone: the wiring checker's verdict replaced by "links join routers and interfaces" *)
Theorem C09_model_xy_mesh :
  forall d g c rd mm nn sp ri n xb yb ab ox oy G,
    build d = Ok g -> compile d g = Ok c -> d_algo d = XY ->
    d_rts d = [rd] -> rt_array rd = Some [mm; nn] -> rt_tree rd = None -> rt_auto rd = true ->
    gen_routing_info sp c = Ok ri -> emit c ri = Ok n -> links_typedb g c = true ->
    ri_xy ri = Some (xb, (yb, (ab, (ox, oy)))) -> att_okb c mm nn G = true ->
    C09_on n.
Proof. exact model_xy_C09. Qed.
Print Assumptions C09_model_xy_mesh.

(* with the structural hypotheses in the executable form the harness evaluates (request `xy` of the model binary) *)
Theorem C09_xy_conditions_sound :
  forall d g c sp ri n xb yb ab ox oy G,
    build d = Ok g -> compile d g = Ok c -> gen_routing_info sp c = Ok ri -> emit c ri = Ok n -> chk_C05 n = [] ->
    ri_xy ri = Some (xb, (yb, (ab, (ox, oy)))) ->
    (exists bs, xy_conditions d G = Ok bs /\ forallb (fun b => b) bs = true) -> C09_on n.
Proof. exact xy_conditions_C09. Qed.
Print Assumptions C09_xy_conditions_sound.

(* non-vacuity: on the 2x2 mesh with a West memory row every hypothesis holds, the dependency sets are not empty,
   and the certified checker agrees with the theorem *)
Example C09_xy_mesh_nonvacuous :
  let G := {| gr_m := 2; gr_n := 2;
              gr_att := [("cluster_ni_0_0", ((0, 0), 4)); ("cluster_ni_0_1", ((0, 1), 4)); ("cluster_ni_1_0", ((1, 0), 4));
                         ("cluster_ni_1_1", ((1, 1), 4)); ("hbm_ni_0", ((0, 0), 3)); ("hbm_ni_1", ((0, 1), 3))] |} in
  match xy_conditions (ex_mesh XY) G with Ok bs => forallb (fun b => b) bs && Nat.eqb (length bs) 4 | Err _ => false end = true /\
  match (do g <- build (ex_mesh XY); do c <- compile (ex_mesh XY) g; do ri <- gen_routing_info sp_nx c; do n <- emit c ri; Ok (g, (c, n))) with
  | Ok (g, (c, n)) =>
      links_typedb g c && match chk_C05 n with [] => true | _ => false end && match chk_C09 n with [] => true | _ => false end &&
      Nat.leb 8 (length (c09_deps n Req)) && Nat.leb 8 (length (c09_deps n Rsp))
  | Err _ => false
  end = true.
Proof. vm_compute. auto. Qed.
