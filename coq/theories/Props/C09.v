(* C09 — Generated routes on meshes and trees are deadlock-free (partial, see DESIGN.md 5.9).
   Proved for every netlist: the Kahn-style checker evaluated on the real emitted routes is sound
   for "the channel-dependency graph of the request / response network is acyclic", and an acyclic
   dependency graph admits no set of packets that wait for each other (any size, no bound). *)
From FV Require Import Base RouteMap Netlist Hw Check CheckProofs CdgProofs.

Theorem C09_checker_sound : forall n, chk_C09 n = [] -> C09_on n.
Proof. exact chk_C09_sound. Qed.
Print Assumptions C09_checker_sound.

Theorem C09_acyclic_no_deadlock : forall deps W : list (string * string),
  acyclic deps -> (forall e, In e W -> In e deps) -> all_wait W -> W = [].
Proof. exact acyclic_no_deadlock. Qed.
Print Assumptions C09_acyclic_no_deadlock.

Theorem C09_kahn_sound : forall E, cyclic_core E = [] -> acyclic E.
Proof. exact cyclic_core_sound. Qed.
Print Assumptions C09_kahn_sound.

(* non-vacuity: a 3-cycle is detected, a chain is accepted *)
Example C09_nonvacuous :
  cyclic_core [("a", "b"); ("b", "c"); ("c", "a"); ("x", "a")] = ["a"; "b"; "c"] /\
  cyclic_core [("a", "b"); ("b", "c"); ("x", "a")] = [].
Proof. vm_compute. auto. Qed.
