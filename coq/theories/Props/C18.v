(* C18 — Node selectors return exactly the addressed nodes in row-major order.
   Statement, theorem (closed by exact), assumptions, non-vacuity. Nothing else. *)
From FV Require Import Base Graph GraphProofs.

Definition C18_statement : Prop :=
  (* range selection = cartesian product of the per-dimension sequences, first dimension
     outermost, for ANY node-existence predicate (so: any graph), any number of dimensions *)
  (forall has rng, rng <> [] -> forall base,
     (forall idx, In idx (cart rng) -> has (full_name base idx) = true) ->
     nodes_from_range has base rng = Ok (map (full_name base) (cart rng))) /\
  (* ... and an error, not a shorter result, as soon as one addressed node does not exist *)
  (forall has rng, rng <> [] -> forall base,
     (exists idx, In idx (cart rng) /\ has (full_name base idx) = false) ->
     exists e, nodes_from_range has base rng = Err e) /\
  (forall has base, exists e, nodes_from_range has base [] = Err e) /\
  (* each dimension runs from its first to its second bound, inclusive, ascending or descending *)
  (forall a b,
     length (py_range_incl a b) = Z.to_nat (Z.abs (b - a) + 1) /\
     forall k, (k < Z.to_nat (Z.abs (b - a) + 1))%nat ->
               nth_error (py_range_incl a b) k =
               Some (if a <=? b then a + Z.of_nat k else a - Z.of_nat k)) /\
  (* index selection: that one node, or an error *)
  (forall has base idx,
     (has (idx_joined_name base idx) = true ->
      nodes_from_idx has base idx = Ok [idx_joined_name base idx]) /\
     (has (idx_joined_name base idx) = false -> exists e, nodes_from_idx has base idx = Err e)) /\
  (forall base idx, idx <> [] -> idx_joined_name base idx = full_name base idx) /\
  (* level selection on a tree built by add_nodes_as_tree: all nodes of that level, creation order *)
  (forall parent tree desc connect g lvl,
     add_nodes_as_tree g_empty parent tree 0 desc connect = Ok g ->
     nodes_from_lvl g parent lvl = Ok (map n_name (filter (lvl_is lvl) (g_nodes g)))).

Theorem C18_holds : C18_statement.
Proof.
  exact (conj nodes_from_range_ok (conj nodes_from_range_err (conj nodes_from_range_empty
        (conj py_range_incl_spec (conj nodes_from_idx_spec (conj idx_joined_full
              nodes_from_lvl_on_tree)))))).
Qed.
Print Assumptions C18_holds.

(* non-vacuity: a 2x3 array; descending first dimension, ascending second; a tree level *)
Example C18_nonvacuous :
  (exists g, add_nodes_as_array g_empty "A" [2; 3] NRouter "d" false = Ok g /\
     nodes_from_range (has_node g) "A" [(1, 0); (0, 2)] =
       Ok ["A_1_0"; "A_1_1"; "A_1_2"; "A_0_0"; "A_0_1"; "A_0_2"] /\
     (exists e, nodes_from_range (has_node g) "A" [(0, 2); (0, 2)] = Err e)) /\
  (exists g, add_nodes_as_tree g_empty "T" [1; 2; 2] 0 "d" true = Ok g /\
     nodes_from_lvl g "T" 2 = Ok ["T_0_0_0"; "T_0_0_1"; "T_0_1_0"; "T_0_1_1"]).
Proof.
  split; eexists; (split; [vm_compute; reflexivity|]); vm_compute; eauto.
Qed.
