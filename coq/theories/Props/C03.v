(* C03 — Source routes: each route word steers from its source to exactly its destination, fully consumed.
   Part 1: the certified checker that is evaluated (extracted) on the netlist the REAL floogen emitted
   is sound for the semantic statement C03_on over the hardware model Hw.v. *)
From FV Require Import Base RouteMap Graph Netlist Hw Check CheckProofs Desc Build Compile Routing Emit ModelProofs Paths Examples.

Theorem C03_checker_sound : forall n, chk_C03 n = [] -> C03_on n.
Proof. exact chk_C03_sound. Qed.
Print Assumptions C03_checker_sound.

(* Part 2: universal theorems over the generator model, for EVERY oracle (no shortest-path assumption is
   needed here), every description and size:
   - the word rendered for any node path through routers, consumed least-significant bits first with
     clog2(#outputs) bits per router, visits exactly that path and leaves only zero bits;
   - the route gen_route emits for a communicating pair is the word of the oracle's path, so it steers
     from the source's first router to exactly the oracle path's end, and 0 <= word < 2^(bits of its hops);
   - the emitted route type covers the bits of every emitted route. *)
Definition C03_model_statement : Prop :=
  (forall c path ps, ports_along c path = Ok ps -> path <> [] ->
     src_walk (length ps) c (word_value ps) (hd "" path) = (path, 0)) /\
  (forall sp c s t id ps, gen_route sp c s t = Ok (id, Some ps) ->
     exists first inner, sp (c_graph c) (cn_name s) (cn_name t) = Some (first :: inner) /\
       (inner <> [] -> src_walk (length ps) c (word_value ps) (hd "" inner) = (inner, 0)) /\
       0 <= word_value ps < 2 ^ route_bits_of (id, Some ps)) /\
  (forall sp c ri, d_algo (c_desc c) = SRC -> gen_routing_info sp c = Ok ri ->
     forall e r, In e (ri_routes ri) -> In r (snd e) -> route_bits_of r <= ri_route_bits ri).

Theorem C03_model_holds : C03_model_statement.
Proof. exact (conj word_follows_path (conj gen_route_follows route_bits_cover)). Qed.
Print Assumptions C03_model_holds.

(* non-vacuity: on the SRC mesh example the route from cluster (0,0) to cluster (1,1) is rendered and
   steers across two routers to its destination *)
Example C03_nonvacuous :
  match (do g <- Build.build (ex_mesh SRC); do c <- compile (ex_mesh SRC) g; Ok c) with
  | Ok c => match find (fun n => str_eqb (cn_name n) "cluster_ni_0_0") (c_nis c),
                  find (fun n => str_eqb (cn_name n) "cluster_ni_1_1") (c_nis c) with
            | Some s, Some t =>
                match gen_route sp_nx c s t with
                | Ok (_, Some ps) => Nat.eqb (length ps) 3 &&
                                     list_eqb_str (fst (src_walk (length ps) c (word_value ps) "router_0_0"))
                                                  ["router_0_0"; "router_0_1"; "router_1_1"; "cluster_ni_1_1"] &&
                                     (snd (src_walk (length ps) c (word_value ps) "router_0_0") =? 0)
                | _ => false
                end
            | _, _ => false
            end
  | Err _ => false
  end = true.
Proof. vm_compute. reflexivity. Qed.
