(* C03 — Source routes: each route word steers from its source to exactly its destination, fully consumed.
   Part 1: the certified checker that is evaluated (extracted) on the netlist the REAL floogen emitted
   is sound for the semantic statement C03_on over the hardware model Hw.v. *)
From FV Require Import Base RouteMap Netlist Hw Check CheckProofs.

Theorem C03_checker_sound : forall n, chk_C03 n = [] -> C03_on n.
Proof. exact chk_C03_sound. Qed.
Print Assumptions C03_checker_sound.
