(* C03 — Source routes: each route word steers from its source to exactly its destination, fully consumed.
   Part 1: the certified checker that is evaluated (extracted) on the netlist the REAL floogen emitted
   is sound for the semantic statement C03_on over the hardware model Hw.v. *)
From FV Require Import Base RouteMap Graph Netlist Hw Check CheckProofs Desc Build Compile Routing Emit ModelProofs Paths Examples.

Theorem C03_checker_sound : forall n, chk_C03 n = [] -> C03_on n.
Proof. exact chk_C03_sound. Qed.
Print Assumptions C03_checker_sound.

(* Part 2: universal theorems over the generator model, for EVERY oracle (no shortest-path assumption is
   needed here), every description and size:
   - the word rendered for any node path through routers, consumed least-significant bits first with
     clog2(#outputs) bits per router, visits exactly that path and leaves only zero bits;
   - the route gen_route emits for a communicating pair is the word of the oracle's path, so it steers
     from the source's first router to exactly the oracle path's end, and 0 <= word < 2^(bits of its hops);
   - the emitted route type covers the bits of every emitted route. *)
Definition C03_model_statement : Prop :=
  (forall c path ps, ports_along c path = Ok ps -> path <> [] ->
     src_walk (length ps) c (word_value ps) (hd "" path) = (path, 0)) /\
  (forall sp c s t id ps, gen_route sp c s t = Ok (id, Some ps) ->
     exists first inner, sp (c_graph c) (cn_name s) (cn_name t) = Some (first :: inner) /\
       (inner <> [] -> src_walk (length ps) c (word_value ps) (hd "" inner) = (inner, 0)) /\
       0 <= word_value ps < 2 ^ route_bits_of (id, Some ps)) /\
  (forall sp c ri, d_algo (c_desc c) = SRC -> gen_routing_info sp c = Ok ri ->
     forall e r, In e (ri_routes ri) -> In r (snd e) -> route_bits_of r <= ri_route_bits ri).

Theorem C03_model_holds : C03_model_statement.
Proof. exact (conj word_follows_path (conj gen_route_follows route_bits_cover)). Qed.
Print Assumptions C03_model_holds.

(* non-vacuity: on the SRC mesh example the route from cluster (0,0) to cluster (1,1) is rendered and
   steers across two routers to its destination *)
Example C03_nonvacuous :
  match (do g <- Build.build (ex_mesh SRC); do c <- compile (ex_mesh SRC) g; Ok c) with
  | Ok c => match find (fun n => str_eqb (cn_name n) "cluster_ni_0_0") (c_nis c),
                  find (fun n => str_eqb (cn_name n) "cluster_ni_1_1") (c_nis c) with
            | Some s, Some t =>
                match gen_route sp_nx c s t with
                | Ok (_, Some ps) => Nat.eqb (length ps) 3 &&
                                     list_eqb_str (fst (src_walk (length ps) c (word_value ps) "router_0_0"))
                                                  ["router_0_0"; "router_0_1"; "router_1_1"; "cluster_ni_1_1"] &&
                                     (snd (src_walk (length ps) c (word_value ps) "router_0_0") =? 0)
                | _ => false
                end
            | _, _ => false
            end
  | Err _ => false
  end = true.
Proof. vm_compute. reflexivity. Qed.

(* Part 3: on the HARDWARE model (Hw.v: floo_route_select's SourceRouting decision -- the low
   clog2(NumRoutes) bits select the port, the word is shifted --, NoLoopback, signals followed from driver
   to reader, the word held in the emitted route_t field), for every description and on every physical network (request, response and, in narrow-wide networks, wide: `net_ok d nt`): the
   word the generator emits for the pair (s0, t), injected at s0, is delivered to exactly t, leaves only zero
   bits, and traverses exactly the routers of a shortest path.  Hypotheses (decidable, evaluated in the
   example): the wiring checker passes on the emitted netlist (C05, second half), and s0 injects into the
   router the path starts at. *)
From FV Require Import Build BuildProofs RefOracle HwProofs.
Theorem C03_hw_delivered :
  forall (d : desc) (g : graph) (c : compiled) (ri : rinfo) (n : netlist) (t : cni) (nt : net),
    net_ok d nt ->
    build d = Ok g -> compile d g = Ok c -> gen_routing_info sp_reference c = Ok ri -> emit c ri = Ok n ->
    d_algo d = SRC -> In t (c_nis c) -> chk_C05 n = [] ->
    forall s0 id ps p, In s0 (c_nis c) -> gen_route sp_reference c s0 t = Ok (id, Some ps) ->
      sp_reference g (cn_name s0) (cn_name t) = Some p -> snd (attach nt s0) = hd "" (tl p) ->
      let tr := send n nt (emit_ni d (ri_offset ri) s0) (hdr_of_word n (word_value ps)) in
      t_out tr = Delivered (cn_name t) (HRoute 0) /\ length (t_rts tr) = length ps /\ (2 + length ps = length p)%nat.
Proof. exact hw_src_send_ref. Qed.
Print Assumptions C03_hw_delivered.

Example C03_hw_nonvacuous :
  match (do g <- build (ex_tree SRC); do c <- compile (ex_tree SRC) g; do ri <- gen_routing_info sp_reference c;
         do n <- emit c ri; Ok (c, (ri, n))) with
  | Ok (c, (ri, n)) =>
      match chk_C05 n with [] => true | _ => false end &&
      forallb (fun nt => forallb (fun s0 => forallb (fun t =>
          match gen_route sp_reference c s0 t with
          | Ok (_, Some ps) =>
              match t_out (send n nt (emit_ni (ex_tree SRC) (ri_offset ri) s0) (hdr_of_word n (word_value ps))) with
              | Delivered u (HRoute 0) => str_eqb u (cn_name t)
              | _ => false
              end
          | Ok (_, None) => true
          | Err _ => false
          end) (c_nis c)) (c_nis c)) [Req; Rsp]
  | Err _ => false
  end = true.
Proof. vm_compute. reflexivity. Qed.

(* Part 4: the same with the wiring hypothesis replaced by the decidable side conditions of C05_model_signals. *)
From FV Require Import Side WireProofs.
Theorem C03_hw_delivered_model :
  forall (d : desc) (g : graph) (c : compiled) (ri : rinfo) (n : netlist) (t : cni) (nt : net),
    net_ok d nt ->
    build d = Ok g -> compile d g = Ok c -> gen_routing_info sp_reference c = Ok ri -> emit c ri = Ok n ->
    d_algo d = SRC -> In t (c_nis c) ->
    names_sepb g nt = true -> single_attachb g c = true -> links_typedb g c = true ->
    forall s0 id ps p, In s0 (c_nis c) -> gen_route sp_reference c s0 t = Ok (id, Some ps) ->
      sp_reference g (cn_name s0) (cn_name t) = Some p -> snd (attach nt s0) = hd "" (tl p) ->
      let tr := send n nt (emit_ni d (ri_offset ri) s0) (hdr_of_word n (word_value ps)) in
      t_out tr = Delivered (cn_name t) (HRoute 0) /\ length (t_rts tr) = length ps /\ (2 + length ps = length p)%nat.
Proof.
  intros d g c ri n t nt Hnt Hb Hc Hri He Ha Ht H1 H2 H3.
  exact (hw_src_send_model d g c ri n t nt Hnt Hb Hc Hri He Ha Ht
           (names_sepb_ok g nt H1) (single_attachb_ok g c H2) (links_typedb_ok g c H3)).
Qed.
Print Assumptions C03_hw_delivered_model.

(* Part 5: table indexing.  The hardware reads RoutingTables[row][column] with row = the source's identity (its
   enumeration value) and column = the destination identity, a '{...} literal listing the highest index first.
   For every description under source routing: that entry is the word generated for exactly this ordered
   pair, with the emitted route width (rows and columns are emitted sorted by identity, and identities are
   exactly 0..N-1 by C07_model_holds) -- so, with Part 4, the flit that the source's interface builds from its
   table row reaches the destination. *)
From FV Require Import TableProofs.
Theorem C03_table_indexing :
  forall sp d g c ri n, build d = Ok g -> compile d g = Ok c -> gen_routing_info sp c = Ok ri -> emit c ri = Ok n ->
    d_algo d = SRC ->
    forall s0 t i r, In s0 (c_nis c) -> In t (c_nis c) -> gen_route sp c s0 t = Ok (i, r) ->
      table_word n (cn_uid s0) (cn_uid t) = Some (emit_word (ri_route_bits ri) (i, r)).
Proof. exact table_word_spec. Qed.
Print Assumptions C03_table_indexing.

Theorem C03_hw_end_to_end :
  forall (d : desc) (g : graph) (c : compiled) (ri : rinfo) (n : netlist) (t : cni) (nt : net),
    net_ok d nt ->
    build d = Ok g -> compile d g = Ok c -> gen_routing_info sp_reference c = Ok ri -> emit c ri = Ok n ->
    d_algo d = SRC -> In t (c_nis c) ->
    names_sepb g nt = true -> single_attachb g c = true -> links_typedb g c = true ->
    forall s0 id ps p, In s0 (c_nis c) -> gen_route sp_reference c s0 t = Ok (id, Some ps) ->
      sp_reference g (cn_name s0) (cn_name t) = Some p -> snd (attach nt s0) = hd "" (tl p) ->
      exists w, table_word n (cn_uid s0) (cn_uid t) = Some w /\ w_width w = ri_route_bits ri /\
        let tr := send n nt (emit_ni d (ri_offset ri) s0) (hdr_of_word n (w_val w)) in
        t_out tr = Delivered (cn_name t) (HRoute 0) /\ length (t_rts tr) = length ps /\ (2 + length ps = length p)%nat.
Proof.
  intros d g c ri n t nt Hnt Hb Hc Hri He Ha Ht H1 H2 H3 s0 id ps p Hs0 Hgr Hsp Hatt.
  exists (emit_word (ri_route_bits ri) (id, Some ps)).
  split; [exact (table_word_spec sp_reference d g c ri n Hb Hc Hri He Ha s0 t id (Some ps) Hs0 Ht Hgr)|].
  split; [reflexivity|]. cbn [emit_word w_val snd].
  exact (C03_hw_delivered_model d g c ri n t nt Hnt Hb Hc Hri He Ha Ht H1 H2 H3 s0 id ps p Hs0 Hgr Hsp Hatt).
Qed.
Print Assumptions C03_hw_end_to_end.

(* Part 7: the same for the oracle the generator really uses (Paths.sp_nx, proved to return shortest paths in
   NxProofs.v): the emitted word of the model run that the harness compares with floogen's steers the flit to
   exactly its destination. *)
From FV Require Import NxProofs NxHw.
Theorem C03_hw_delivered_nx :
  forall (d : desc) (g : graph) (c : compiled) (ri : rinfo) (n : netlist) (t : cni) (nt : net),
    net_ok d nt ->
    build d = Ok g -> compile d g = Ok c -> gen_routing_info sp_nx c = Ok ri -> emit c ri = Ok n ->
    d_algo d = SRC -> In t (c_nis c) ->
    names_sepb g nt = true -> single_attachb g c = true -> links_typedb g c = true ->
    forall s0 id ps p, In s0 (c_nis c) -> gen_route sp_nx c s0 t = Ok (id, Some ps) ->
      sp_nx g (cn_name s0) (cn_name t) = Some p -> snd (attach nt s0) = hd "" (tl p) ->
      let tr := send n nt (emit_ni d (ri_offset ri) s0) (hdr_of_word n (word_value ps)) in
      t_out tr = Delivered (cn_name t) (HRoute 0) /\ length (t_rts tr) = length ps /\ (2 + length ps = length p)%nat.
Proof.
  intros d g c ri n t nt Hnt Hb Hc Hri He Ha Ht H1 H2 H3 s0 id ps p Hs0 Hgr Hsp Hatt.
  destruct (hw_src_send_nx d g c ri n t nt Hnt Hb Hc Hri He Ha Ht H1 H2 H3 s0 id ps p Hs0 Hgr Hsp Hatt) as (A & B & C & _).
  repeat split; assumption.
Qed.
Print Assumptions C03_hw_delivered_nx.

(* Part 8: with the hypotheses that are left (TransitProofs.v: the first hop of a shortest path between two interfaces
   IS the router the source injects into; single attachment and distinct signal names are theorems): for every
   accepted source-routed description whose links join routers and interfaces, every emitted route word steers its
   flit to exactly its destination, is consumed to zero and crosses the routers of a shortest path. *)
From FV Require Import TransitProofs TreeProofs PathProofs.
Theorem C03_hw_delivered_nx_min :
  forall (d : desc) (g : graph) (c : compiled) (ri : rinfo) (n : netlist) (t : cni) (nt : net),
    net_ok d nt ->
    build d = Ok g -> compile d g = Ok c -> gen_routing_info sp_nx c = Ok ri -> emit c ri = Ok n ->
    d_algo d = SRC -> In t (c_nis c) -> links_typedb g c = true ->
    forall s0 id ps p, In s0 (c_nis c) -> gen_route sp_nx c s0 t = Ok (id, Some ps) ->
      sp_nx g (cn_name s0) (cn_name t) = Some p ->
      let tr := send n nt (emit_ni d (ri_offset ri) s0) (hdr_of_word n (word_value ps)) in
      t_out tr = Delivered (cn_name t) (HRoute 0) /\ length (t_rts tr) = length ps /\ (2 + length ps = length p)%nat /\
      forall q, path_to_t (NxProofs.E g) (cn_name t) q (cn_name s0) -> (length p <= length q)%nat.
Proof. exact hw_src_send_nx_min. Qed.
Print Assumptions C03_hw_delivered_nx_min.

(* Part 9: what the hardware model assumes about route consumption, over the text of hw/floo_route_select.sv and
   hw/floo_route_comp.sv (harness/facts_decode.py, regenerated on every run): a router takes the low RouteSelWidth bits
   of the route word as its output and shifts the word right by as many (Hw.select, HRoute case); the network
   interface reads the word from its RoutingTables row at the destination's identity (Hw.table_word; the lookup is
   evaluated for both values of UseIdTable after substituting the branch's local signals, so its layout does not matter). *)
From FVGen Require Import DecodeFacts.
Theorem C03_rtl_route_consumption :
  In "route_sel_id=channel_i.hdr.dst_id[RouteSelWidth-1:0]" rtl_src_branch_stmts /\
  In "channel_o.hdr.dst_id=channel_i.hdr.dst_id>>RouteSelWidth" rtl_src_branch_stmts /\
  In "channel_o=channel_i" rtl_src_branch_stmts /\
  rtl_route_lookup_idtable = "route_table_i[id_o]" /\ rtl_route_lookup_noidtable = "route_table_i[id_i]".
Proof. vm_compute. tauto. Qed.
Print Assumptions C03_rtl_route_consumption.
