(* C02 — ID tables: every request/response is delivered to its addressee, one matching rule per router, no router twice.
   Part 1: the certified checker that is evaluated (extracted) on the netlist the REAL floogen emitted
   is sound for the semantic statement C02_on over the hardware model Hw.v. *)
From FV Require Import Base RouteMap Graph Netlist Hw Check CheckProofs Desc Build Compile Routing Emit PathProofs RefOracle ModelProofs Examples.

Theorem C02_checker_sound : forall n, chk_C02 n = [] -> C02_on n.
Proof. exact chk_C02_sound. Qed.
Print Assumptions C02_checker_sound.

(* Part 2: universal theorem over the generator model (compiled level, request network), for EVERY
   oracle that returns shortest paths of the graph (networkx's documented contract), every description
   and size: from any router, following the emitted tables towards any interface t visits exactly the
   nodes the oracle's next hops visit, arrives at t after (path length - 1) hops and never visits a node
   twice.  Structural hypotheses on the compiled graph (unique router names, shortest paths between routers and interfaces run through routers) are explicit. *)
Theorem C02_model_tables_deliver :
  forall (sp : oracle) (c : compiled) (ri : rinfo) (t : cni) (id : Z),
    d_algo (c_desc c) = ID -> gen_routing_info sp c = Ok ri -> In t (c_nis c) -> id_num (cn_id t) = Ok id ->
    (forall s p, sp (c_graph c) s (cn_name t) = Some p -> path_to_t (g_edge c) (cn_name t) p s) ->
    (forall s p q, sp (c_graph c) s (cn_name t) = Some p -> path_to_t (g_edge c) (cn_name t) q s -> (length p <= length q)%nat) ->
    forall B : nat, (1 <= B)%nat ->
    (forall s p, sp (c_graph c) s (cn_name t) = Some p -> (length p <= B)%nat) ->
    (forall s q, path_to_t (g_edge c) (cn_name t) q s -> (length q <= B)%nat -> sp (c_graph c) s (cn_name t) <> None) ->
    NoDup (map cr_name (c_rts c)) ->
    (forall u p, is_router c u -> sp (c_graph c) u (cn_name t) = Some p -> forall x, In x (removelast p) -> is_router c x) ->
    forall r p k, In r (c_rts c) -> sp (c_graph c) (cr_name r) (cn_name t) = Some p -> length p = S k ->
      let v := cwalk k c ri (cn_name t) id (cr_name r) in
      length v = S k /\ last v (cr_name r) = cn_name t /\ NoDup v.
Proof. exact id_tables_deliver. Qed.
Print Assumptions C02_model_tables_deliver.

(* Part 3: the same, closed: with the verified reference oracle (RefOracle.v: iterative deepening,
   proved to return shortest paths) the oracle hypotheses are theorems, so the statement is not vacuous. *)
Theorem C02_model_tables_deliver_ref :
  forall (c : compiled) (ri : rinfo) (t : cni) (id : Z),
    d_algo (c_desc c) = ID -> gen_routing_info sp_reference c = Ok ri -> In t (c_nis c) -> id_num (cn_id t) = Ok id ->
    NoDup (map cr_name (c_rts c)) ->
    (forall u p, is_router c u -> sp_reference (c_graph c) u (cn_name t) = Some p ->
                 forall x, In x (removelast p) -> is_router c x) ->
    forall r p k, In r (c_rts c) -> sp_reference (c_graph c) (cr_name r) (cn_name t) = Some p -> length p = S k ->
      let v := cwalk k c ri (cn_name t) id (cr_name r) in
      length v = S k /\ last v (cr_name r) = cn_name t /\ NoDup v.
Proof. exact id_tables_deliver_ref. Qed.
Print Assumptions C02_model_tables_deliver_ref.

(* non-vacuity: on the tree example the structural hypotheses hold (decidable forms, computed) and the
   emitted tables lead from leaf router router_0_0 to the last leaf interface across the root *)
Example C02_nonvacuous :
  match (do g <- build (ex_tree ID); do c <- compile (ex_tree ID) g; do ri <- gen_routing_info sp_reference c; Ok (c, ri)) with
  | Ok (c, ri) =>
      nodupb str_eqb (map cr_name (c_rts c)) &&
      forallb (transitb sp_reference c) (c_nis c) &&
      list_eqb_str (cwalk 3 c ri "leaf_ni_3" 3 "router_0_0") ["router_0_0"; "router_0"; "router_0_1"; "leaf_ni_3"]
  | Err _ => false
  end = true.
Proof. vm_compute. reflexivity. Qed.

(* Part 4: for descriptions -- unique router names are no longer a hypothesis: every graph that build
   accepts has pairwise distinct node names (BuildProofs.build_nodup), hence every compiled network has
   pairwise distinct router names.  What remains as a hypothesis is only that shortest paths to an
   interface run through routers (true when every endpoint is attached to one router; an endpoint
   attached to two routers could be a transit node of a shortest path, which the hardware cannot do). *)
From FV Require Import BuildProofs IdProofs.
Theorem C02_model_built :
  forall (d : desc) (g : graph) (c : compiled) (ri : rinfo) (t : cni) (id : Z),
    build d = Ok g -> compile d g = Ok c ->
    d_algo (c_desc c) = ID -> gen_routing_info sp_reference c = Ok ri -> In t (c_nis c) -> id_num (cn_id t) = Ok id ->
    (forall u p, is_router c u -> sp_reference (c_graph c) u (cn_name t) = Some p ->
                 forall x, In x (removelast p) -> is_router c x) ->
    forall r p k, In r (c_rts c) -> sp_reference (c_graph c) (cr_name r) (cn_name t) = Some p -> length p = S k ->
      let v := cwalk k c ri (cn_name t) id (cr_name r) in
      length v = S k /\ last v (cr_name r) = cn_name t /\ NoDup v.
Proof.
  intros d g c ri t id Hb Hc Ha Hr Ht Hid Htr. apply (id_tables_deliver_ref c ri t id Ha Hr Ht Hid); [|exact Htr].
  exact (built_router_names_nodup d g c Hb Hc).
Qed.
Print Assumptions C02_model_built.

(* Part 5: on the HARDWARE model (Hw.v: floo_route_select's IdTable decision with its 32-bit index field,
   NoLoopback, signals followed from their driver to their reader), for every description and on every
   physical network (request, response and, in narrow-wide networks, wide: `net_ok d nt`): a flit injected at any interface s0 with the identity of any other
   interface t is delivered to t.  Hypotheses, all decidable and all evaluated in the non-vacuity example:
   the wiring checker passes on the emitted netlist (C05, second half: every declared signal has one driver
   and one reader named by it -- the port pairing the proof also needs is C05_model, a theorem), shortest
   paths to t run through routers, port counts fit the index field, s0 is attached to a router from which
   t is reachable.  `attach nt s0` is the link s0 sends on: its first link to a router for requests, the
   reverse of its first link from a router for responses. *)
From FV Require Import HwProofs.
Theorem C02_hw_delivered :
  forall (d : desc) (g : graph) (c : compiled) (ri : rinfo) (n : netlist) (t : cni) (id : Z) (nt : net),
    net_ok d nt ->
    build d = Ok g -> compile d g = Ok c -> gen_routing_info sp_reference c = Ok ri -> emit c ri = Ok n ->
    d_algo d = ID -> In t (c_nis c) -> id_num (cn_id t) = Ok id ->
    (forall u p, is_router c u -> sp_reference g u (cn_name t) = Some p -> forall x, In x (removelast p) -> is_router c x) ->
    chk_C05 n = [] ->
    (forall r, In r (c_rts c) -> Z.of_nat (length (cr_out r)) <= 2 ^ 32) ->
    forall s0 r0 p, In s0 (c_nis c) -> cn_name s0 <> cn_name t -> snd (attach nt s0) = r0 -> is_router c r0 ->
      sp_reference g r0 (cn_name t) = Some p ->
      let tr := send n nt (emit_ni d (ri_offset ri) s0) (HId id) in
      t_out tr = Delivered (cn_name t) (HId id) /\ S (length (t_rts tr)) = length p.
Proof. exact hw_send_ref. Qed.
Print Assumptions C02_hw_delivered.

Example C02_hw_nonvacuous :
  match (do g <- build (ex_tree ID); do c <- compile (ex_tree ID) g; do ri <- gen_routing_info sp_reference c;
         do n <- emit c ri; Ok (c, (ri, n))) with
  | Ok (c, (ri, n)) =>
      match chk_C05 n with [] => true | _ => false end &&
      forallb (transitb sp_reference c) (c_nis c) &&
      forallb (fun nt => forallb (fun s0 => forallb (fun t =>
          str_eqb (cn_name s0) (cn_name t) ||
          match id_num (cn_id t), t_out (send n nt (emit_ni (ex_tree ID) (ri_offset ri) s0)
                                           (HId (match cn_id t with IdN k => k | _ => 0 end))) with
          | Ok _, Delivered u _ => str_eqb u (cn_name t)
          | _, _ => false
          end) (c_nis c)) (c_nis c)) [Req; Rsp]
  | Err _ => false
  end = true.
Proof. vm_compute. reflexivity. Qed.

(* Part 6: the same with the wiring hypothesis replaced by three decidable side conditions on the description's
   graph (C05_model_signals): signal names determine their links, every interface has one link in each
   direction, links join interfaces and routers only. *)
From FV Require Import Side WireProofs.
Theorem C02_hw_delivered_model :
  forall (d : desc) (g : graph) (c : compiled) (ri : rinfo) (n : netlist) (t : cni) (id : Z) (nt : net),
    net_ok d nt ->
    build d = Ok g -> compile d g = Ok c -> gen_routing_info sp_reference c = Ok ri -> emit c ri = Ok n ->
    d_algo d = ID -> In t (c_nis c) -> id_num (cn_id t) = Ok id ->
    (forall u p, is_router c u -> sp_reference g u (cn_name t) = Some p -> forall x, In x (removelast p) -> is_router c x) ->
    names_sepb g nt = true -> single_attachb g c = true -> links_typedb g c = true ->
    (forall r, In r (c_rts c) -> Z.of_nat (length (cr_out r)) <= 2 ^ 32) ->
    forall s0 r0 p, In s0 (c_nis c) -> cn_name s0 <> cn_name t -> snd (attach nt s0) = r0 -> is_router c r0 ->
      sp_reference g r0 (cn_name t) = Some p ->
      let tr := send n nt (emit_ni d (ri_offset ri) s0) (HId id) in
      t_out tr = Delivered (cn_name t) (HId id) /\ S (length (t_rts tr)) = length p.
Proof.
  intros d g c ri n t id nt Hnt Hb Hc Hri He Ha Ht Hid Htr H1 H2 H3.
  exact (hw_send_model d g c ri n t id nt Hnt Hb Hc Hri He Ha Ht Hid Htr
           (names_sepb_ok g nt H1) (single_attachb_ok g c H2) (links_typedb_ok g c H3)).
Qed.
Print Assumptions C02_hw_delivered_model.

(* Part 7: every hypothesis in decidable form (booleans computed from the description), evaluated on the
   examples below: nothing is assumed that a run of the extracted checker cannot establish for a concrete
   description. *)
Theorem C02_hw_delivered_decidable :
  forall (d : desc) (g : graph) (c : compiled) (ri : rinfo) (n : netlist) (t : cni) (id : Z) (nt : net),
    net_ok d nt ->
    build d = Ok g -> compile d g = Ok c -> gen_routing_info sp_reference c = Ok ri -> emit c ri = Ok n ->
    d_algo d = ID -> In t (c_nis c) -> id_num (cn_id t) = Ok id ->
    transitb sp_reference c t = true ->
    names_sepb g nt = true -> single_attachb g c = true -> links_typedb g c = true -> degrees_fitb c = true ->
    forall s0 p, In s0 (c_nis c) -> cn_name s0 <> cn_name t -> is_rtb c (snd (attach nt s0)) = true ->
      sp_reference g (snd (attach nt s0)) (cn_name t) = Some p ->
      let tr := send n nt (emit_ni d (ri_offset ri) s0) (HId id) in
      t_out tr = Delivered (cn_name t) (HId id) /\ S (length (t_rts tr)) = length p.
Proof. exact hw_send_decidable. Qed.
Print Assumptions C02_hw_delivered_decidable.

Example C02_hw_decidable_nonvacuous :
  forallb (fun d =>
    match (do g <- build d; do c <- compile d g; Ok (g, c)) with
    | Ok (g, c) =>
        forallb (transitb sp_reference c) (c_nis c) && names_sepb g Req && names_sepb g Rsp &&
        single_attachb g c && links_typedb g c && degrees_fitb c &&
        forallb (fun s0 => is_rtb c (snd (attach Req s0)) && is_rtb c (snd (attach Rsp s0))) (c_nis c)
    | Err _ => false
    end) [ex_star ID; ex_tree ID; ex_mesh ID] = true.
Proof. vm_compute. reflexivity. Qed.

(* the wide network of a narrow-wide description: every flit injected with the identity of another interface is
   delivered there (the hypotheses of C02_hw_delivered_decidable hold, and the conclusion is evaluated) *)
Example C02_hw_wide_nonvacuous :
  match (do g <- build (ex_nw ID); do c <- compile (ex_nw ID) g; do ri <- gen_routing_info sp_reference c;
         do n <- emit c ri; Ok (g, (c, (ri, n)))) with
  | Ok (g, (c, (ri, n))) =>
      forallb (transitb sp_reference c) (c_nis c) && names_sepb g Wide && single_attachb g c && links_typedb g c && degrees_fitb c &&
      forallb (fun s0 => forallb (fun t =>
          str_eqb (cn_name s0) (cn_name t) ||
          match t_out (send n Wide (emit_ni (ex_nw ID) (ri_offset ri) s0) (HId (match cn_id t with IdN k => k | _ => 0 end))) with
          | Delivered u _ => str_eqb u (cn_name t)
          | _ => false
          end) (c_nis c)) (c_nis c)
  | Err _ => false
  end = true.
Proof. vm_compute. reflexivity. Qed.

(* Part 8: the same for the oracle the generator really uses -- Paths.sp_nx, the mirror of networkx's bidirectional
   search, proved in NxProofs.v to return shortest paths (C14_networkx_mirror_returns_shortest_paths).  The tables
   this theorem speaks about are the ones the model run with sp_nx emits, which the harness compares field by field
   with floogen's on every explored description. *)
From FV Require Import Paths NxProofs NxHw.
Theorem C02_hw_delivered_nx :
  forall (d : desc) (g : graph) (c : compiled) (ri : rinfo) (n : netlist) (t : cni) (id : Z) (nt : net),
    net_ok d nt ->
    build d = Ok g -> compile d g = Ok c -> gen_routing_info sp_nx c = Ok ri -> emit c ri = Ok n ->
    d_algo d = ID -> In t (c_nis c) -> id_num (cn_id t) = Ok id ->
    transitb sp_nx c t = true ->
    names_sepb g nt = true -> single_attachb g c = true -> links_typedb g c = true -> degrees_fitb c = true ->
    forall s0 p, In s0 (c_nis c) -> cn_name s0 <> cn_name t -> is_rtb c (snd (attach nt s0)) = true ->
      sp_nx g (snd (attach nt s0)) (cn_name t) = Some p ->
      let tr := send n nt (emit_ni d (ri_offset ri) s0) (HId id) in
      t_out tr = Delivered (cn_name t) (HId id) /\ S (length (t_rts tr)) = length p.
Proof.
  intros d g c ri n t id nt Hnt Hb Hc Hri He Ha Ht Hid Htr H1 H2 H3 H4 s0 p Hs0 Hne Hrt Hsp.
  destruct (hw_send_nx d g c ri n t id nt Hnt Hb Hc Hri He Ha Ht Hid Htr H1 H2 H3 H4 s0 p Hs0 Hne Hrt Hsp) as (A & B & _).
  split; assumption.
Qed.
Print Assumptions C02_hw_delivered_nx.

Theorem C02_model_tables_deliver_nx :
  forall (d : desc) (g : graph) (c : compiled) (ri : rinfo) (t : cni) (id : Z),
    build d = Ok g -> compile d g = Ok c ->
    d_algo (c_desc c) = ID -> gen_routing_info sp_nx c = Ok ri -> In t (c_nis c) -> id_num (cn_id t) = Ok id ->
    transitb sp_nx c t = true ->
    forall r p k, In r (c_rts c) -> sp_nx (c_graph c) (cr_name r) (cn_name t) = Some p -> length p = S k ->
      let v := cwalk k c ri (cn_name t) id (cr_name r) in
      length v = S k /\ last v (cr_name r) = cn_name t /\ NoDup v.
Proof. exact id_tables_deliver_nx. Qed.
Print Assumptions C02_model_tables_deliver_nx.

(* Part: the same with the hypotheses that are left once transit, single attachment and distinct signal names are
   theorems (TransitProofs.v): a decidable condition on the description's links (they join routers and interfaces), the
   port counts fit the 32-bit index field, the source injects into a router.  Every flit carrying the identity of an
   interface is delivered to it by the emitted tables over the emitted wiring, on either network, and traverses
   |shortest path| - 1 routers, which no path undercuts. *)
From FV Require Import TransitProofs TreeProofs PathProofs.
Theorem C02_hw_delivered_nx_min :
  forall (d : desc) (g : graph) (c : compiled) (ri : rinfo) (n : netlist) (t : cni) (id : Z) (nt : net),
    net_ok d nt ->
    build d = Ok g -> compile d g = Ok c -> gen_routing_info sp_nx c = Ok ri -> emit c ri = Ok n ->
    d_algo d = ID -> In t (c_nis c) -> id_num (cn_id t) = Ok id ->
    links_typedb g c = true -> degrees_fitb c = true ->
    forall s0 p, In s0 (c_nis c) -> cn_name s0 <> cn_name t -> is_rtb c (snd (attach nt s0)) = true ->
      sp_nx g (snd (attach nt s0)) (cn_name t) = Some p ->
      let tr := send n nt (emit_ni d (ri_offset ri) s0) (HId id) in
      t_out tr = Delivered (cn_name t) (HId id) /\ S (length (t_rts tr)) = length p /\
      forall q, path_to_t (NxProofs.E g) (cn_name t) q (snd (attach nt s0)) -> (length p <= length q)%nat.
Proof. exact hw_send_nx_min. Qed.
Print Assumptions C02_hw_delivered_nx_min.

(* transit itself: in every accepted ID-routed description whose links join routers and interfaces, the generator's
   shortest path from every router to every interface exists and runs through routers only *)
Theorem C02_transit_is_a_theorem :
  forall (d : desc) (g : graph) (c : compiled) (ri : rinfo),
    build d = Ok g -> compile d g = Ok c -> gen_routing_info sp_nx c = Ok ri -> d_algo d = ID ->
    links_typedb g c = true -> transit_allb sp_nx c = true.
Proof. intros d g c ri Hb Hc Hri Ha H. exact (transit_holds sp_nx (nxB g) d g c ri Hb Hc Hri Ha (contract_nx d g c Hb Hc) H). Qed.
Print Assumptions C02_transit_is_a_theorem.

(* Part: what the hardware model assumes about the router's table lookup, over the text of hw/floo_route_select.sv
   (harness/facts_decode.py, regenerated on every run): in the IdTable branch an `addr_decode` instance looks the
   flit's destination id up in the table passed to the router, over all its rules, without a default index, and its
   result is the selected output (Hw.select, HId case). *)
From FVGen Require Import DecodeFacts.
Definition assoc_s (k : string) (l : list (string * string)) : option string :=
  option_map snd (find (fun p => String.eqb (fst p) k) l).
Theorem C02_rtl_table_lookup :
  rtl_id_decode_module = "addr_decode" /\
  assoc_s "addr_i" rtl_id_decode_ports = Some "channel_i.hdr.dst_id" /\
  assoc_s "addr_map_i" rtl_id_decode_ports = Some "id_route_map_i" /\
  assoc_s "NoRules" rtl_id_decode_params = Some "NumAddrRules" /\
  assoc_s "NoIndices" rtl_id_decode_params = Some "NumRoutes" /\
  assoc_s "en_default_idx_i" rtl_id_decode_ports = Some "'0" /\
  (exists out, assoc_s "idx_o" rtl_id_decode_ports = Some out /\ In ("route_sel_id=" ++ out)%string rtl_id_branch_stmts) /\
  In "channel_o=channel_i" rtl_id_branch_stmts.
Proof. repeat split; try reflexivity; [exists "id_table_result"; split; [reflexivity|vm_compute; tauto]|vm_compute; tauto]. Qed.
Print Assumptions C02_rtl_table_lookup.

(* non-vacuity: the remaining hypotheses hold on the star, the 2x2 mesh and the tree example (all side conditions do,
   the derived ones included -- the binary's evaluation of them agrees with the theorems) *)
From FV Require Import Examples Side.
Example C02_min_nonvacuous :
  forallb (fun d => match side_conditions sp_nx d with
                    | Ok bs => forallb (fun b => b) bs && Nat.eqb (length bs) 9
                    | Err _ => false
                    end) [ex_star ID; ex_mesh ID; ex_tree ID; ex_star SRC; ex_tree SRC] = true.
Proof. vm_compute. reflexivity. Qed.

(* where responses are sent: in the network interfaces (axi and narrow-wide chimney, branch gen_dst_field, from the RTL
   text each run) the destination of a B / R flit is the SOURCE id carried by the request it answers, and the destination
   of a request is the decoder's result -- which is why C02 quantifies over "a manager (manager-only endpoints included)
   for a subordinate's response" and walks the response network with the requester's own identity *)
Theorem C02_rtl_response_destination :
  (In "dst_id[AxiB]=aw_out_hdr_out.hdr.src_id" rtl_axi_dst_field /\ In "dst_id[AxiR]=ar_out_hdr_out.hdr.src_id" rtl_axi_dst_field /\
   In "dst_id[AxiAw]=id_out[AxiAw]" rtl_axi_dst_field /\ In "dst_id[AxiAr]=id_out[AxiAr]" rtl_axi_dst_field) /\
  (In "dst_id[NarrowB]=narrow_aw_buf_hdr_out.hdr.src_id" rtl_nw_dst_field /\ In "dst_id[NarrowR]=narrow_ar_buf_hdr_out.hdr.src_id" rtl_nw_dst_field /\
   In "dst_id[WideB]=wide_aw_buf_hdr_out.hdr.src_id" rtl_nw_dst_field /\ In "dst_id[WideR]=wide_ar_buf_hdr_out.hdr.src_id" rtl_nw_dst_field /\
   In "dst_id[NarrowAw]=id_out[NarrowAw]" rtl_nw_dst_field /\ In "dst_id[WideAr]=id_out[WideAr]" rtl_nw_dst_field).
Proof. vm_compute. tauto. Qed.
Print Assumptions C02_rtl_response_destination.
