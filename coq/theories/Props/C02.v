(* C02 — ID tables: every request/response is delivered to its addressee, one matching rule per router, no router twice.
   Part 1: the certified checker that is evaluated (extracted) on the netlist the REAL floogen emitted
   is sound for the semantic statement C02_on over the hardware model Hw.v. *)
From FV Require Import Base RouteMap Netlist Hw Check CheckProofs.

Theorem C02_checker_sound : forall n, chk_C02 n = [] -> C02_on n.
Proof. exact chk_C02_sound. Qed.
Print Assumptions C02_checker_sound.
