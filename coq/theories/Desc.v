(* Desc.v — the description (what the YAML file says) and the schema layer: which keys exist, which
   are required, enumeration parsing, the pydantic validators of EndpointDesc / RouterDesc /
   ConnectionDesc / AXI4 / Routing / Network that do not need the graph.  Definitions only.

   Wire format: a YAML-like tree.  Maps are (@ (key value) ...), lists (...), scalars atoms
   (#n null, #t/#f, integers, strings). *)
From FV Require Import Base AddrRange.

Inductive yv :=
| YNull | YBool (b : bool) | YInt (z : Z) | YStr (s : string)
| YList (l : list yv) | YMap (l : list (string * yv)).

Fixpoint yv_of_sx (x : sx) : yv :=
  match x with
  | A "#n" => YNull
  | A "#t" => YBool true
  | A "#f" => YBool false
  | A s => match Z_of_string s with Some z => YInt z | None => YStr s end
  | L (A "@" :: kvs) =>
      YMap (flat_map (fun kv => match kv with
                                | L [A k; v] => [(k, yv_of_sx v)]
                                | _ => []
                                end) kvs)
  | L items => YList (map yv_of_sx items)
  end.

(* ---------------------------------------------------------------- typed description *)
Record range_spec := { rs_start : option Z; rs_end : option Z; rs_size : option Z;
                       rs_base : option Z; rs_idx : option Z; rs_desc : option string }.
Record ep_desc := { ep_name : string; ep_array : option (list Z); ep_ranges : list range_spec;
                    ep_mgr : option (list string); ep_sbr : option (list string) }.
Record rt_desc := { rt_name : string; rt_array : option (list Z); rt_tree : option (list Z);
                    rt_auto : bool; rt_degree : option Z }.
Record conn_desc := { c_src : string; c_dst : string;
                      c_src_range : option (list (Z * Z)); c_dst_range : option (list (Z * Z));
                      c_src_idx : option (list Z); c_dst_idx : option (list Z);
                      c_src_lvl : option Z; c_dst_lvl : option Z;
                      c_src_dir : option Z; c_dst_dir : option Z;
                      c_multi : bool }.
Record proto := { p_name : string; p_type : option string; p_data : Z; p_addr : Z; p_id : Z; p_user : Z;
                  p_prefix : option string }.
Inductive algo := XY | ID | SRC.
Record desc := { d_name : string; d_nw : bool; d_algo : algo; d_use_table : bool;
                 d_protos : list proto; d_eps : list ep_desc; d_rts : list rt_desc; d_conns : list conn_desc }.

Definition ep_is_sbr (e : ep_desc) : bool := is_some (ep_sbr e).
Definition ep_is_mgr (e : ep_desc) : bool := is_some (ep_mgr e).
Definition ep_num (e : ep_desc) : Z :=
  match ep_array e with None => 1 | Some [n] => n | Some [m; n] => m * n | Some _ => 0 end.

(* ---------------------------------------------------------------- map access with extra="forbid" *)
Definition ymap (what : string) (v : yv) : res (list (string * yv)) :=
  match v with YMap l => Ok l | _ => Err (what +++ ": mapping expected") end.
Definition ylist (what : string) (v : yv) : res (list yv) :=
  match v with YList l => Ok l | _ => Err (what +++ ": list expected") end.
Fixpoint yget (k : string) (m : list (string * yv)) : option yv :=
  match m with
  | [] => None
  | (k', v) :: r => if str_eqb k k' then Some v else yget k r
  end.
Definition forbid_extra (what : string) (allowed : list string) (m : list (string * yv)) : res unit :=
  match filter (fun kv => negb (existsb (str_eqb (fst kv)) allowed)) m with
  | [] => Ok tt
  | (k, _) :: _ => Err (what +++ ": unknown field " +++ k)
  end.
(* None or null -> default *)
Definition yopt {T} (f : yv -> res T) (o : option yv) : res (option T) :=
  match o with
  | None | Some YNull => Ok None
  | Some v => do x <- f v; Ok (Some x)
  end.
Definition yreq {T} (what k : string) (f : yv -> res T) (m : list (string * yv)) : res T :=
  match yget k m with
  | Some v => f v
  | None => Err (what +++ ": missing field " +++ k)
  end.
Definition y_int (v : yv) : res Z :=
  match v with YInt z => Ok z | YBool b => Ok (if b then 1 else 0) | _ => Err "integer expected" end.
Definition y_str (v : yv) : res string := match v with YStr s => Ok s | _ => Err "string expected" end.
Definition y_bool (v : yv) : res bool :=
  match v with
  | YBool b => Ok b
  | YInt 0 => Ok false
  | YInt 1 => Ok true
  | _ => Err "bool expected"
  end.
Definition y_strlist (v : yv) : res (list string) := do l <- ylist "list" v; mapM y_str l.
(* int | [int...] -> list (the int_to_list / int_to_tuple before-validators) *)
Definition y_int_or_list (v : yv) : res (list Z) :=
  match v with
  | YInt z => Ok [z]
  | YList l => mapM y_int l
  | _ => Err "int or list of ints expected"
  end.
Definition y_pair (v : yv) : res (Z * Z) :=
  match v with
  | YList [a; b] => do a <- y_int a; do b <- y_int b; Ok (a, b)
  | _ => Err "pair of ints expected"
  end.

(* XYDirections[v.upper()] for strings; integers pass through *)
Fixpoint upper (s : string) : string :=
  match s with
  | EmptyString => EmptyString
  | String c r =>
      let n := nat_of_ascii c in
      String (if (Nat.leb 97 n && Nat.leb n 122)%bool then ascii_of_nat (n - 32) else c) (upper r)
  end.
Definition y_dir (v : yv) : res Z :=
  match v with
  | YInt z => Ok z
  | YStr s =>
      let u := upper s in
      if str_eqb u "NORTH" then Ok 0 else if str_eqb u "EAST" then Ok 1 else if str_eqb u "SOUTH" then Ok 2
      else if str_eqb u "WEST" then Ok 3 else if str_eqb u "EJECT" then Ok 4 else Err ("unknown direction " +++ s)
  | _ => Err "direction expected"
  end.

(* ---------------------------------------------------------------- components *)
Definition parse_range (v : yv) : res range_spec :=
  do m <- ymap "addr_range" v;
  do _ <- forbid_extra "addr_range" ["start"; "end"; "size"; "base"; "idx"; "desc"] m;
  do s <- yopt y_int (yget "start" m); do e <- yopt y_int (yget "end" m); do z <- yopt y_int (yget "size" m);
  do b <- yopt y_int (yget "base" m); do i <- yopt y_int (yget "idx" m); do d <- yopt y_str (yget "desc" m);
  Ok {| rs_start := s; rs_end := e; rs_size := z; rs_base := b; rs_idx := i; rs_desc := d |}.

(* the AddrRange object pydantic builds from a specification (C17's constructor) *)
Definition range_of_spec (r : range_spec) : res range :=
  mk_range (rs_start r) (rs_end r) (rs_size r) (rs_base r) (rs_idx r).

Definition parse_array (v : yv) : res (list Z) :=
  do l <- y_int_or_list v;
  match l with
  | [_] | [_; _] => Ok l
  | _ => Err "array: one or two dimensions expected"
  end.

Definition parse_ep (v : yv) : res ep_desc :=
  do m <- ymap "endpoint" v;
  do _ <- forbid_extra "endpoint" ["name"; "description"; "array"; "num"; "addr_range"; "xy_id_offset";
                                    "mgr_port_protocol"; "sbr_port_protocol"] m;
  do name <- yreq "endpoint" "name" y_str m;
  do arr <- yopt parse_array (yget "array" m);
  do rs <- match yget "addr_range" m with
           | None => Ok []
           | Some (YList l) => mapM parse_range l
           | Some x => do r <- parse_range x; Ok [r]          (* addr_range_to_list *)
           end;
  do mgr <- yopt y_strlist (yget "mgr_port_protocol" m);
  do sbr <- yopt y_strlist (yget "sbr_port_protocol" m);
  do _ <- match yget "xy_id_offset" m with
          | None | Some YNull => Ok tt
          | Some _ => Err "xy_id_offset on descriptors is not modelled"
          end;
  (* every declared range must be a valid AddrRange *)
  do _ <- mapM range_of_spec rs;
  (* check_addr_range: a subordinate needs at least one range *)
  do _ <- match sbr, rs with
          | Some _, [] => Err "Endpoint is a Subordinate and requires an address range"
          | _, _ => Ok tt
          end;
  Ok {| ep_name := name; ep_array := arr; ep_ranges := rs; ep_mgr := mgr; ep_sbr := sbr |}.

Definition parse_rt (v : yv) : res rt_desc :=
  do m <- ymap "router" v;
  do _ <- forbid_extra "router" ["name"; "array"; "tree"; "xy_id_offset"; "auto_connect"; "degree"] m;
  do name <- yreq "router" "name" y_str m;
  do arr <- yopt parse_array (yget "array" m);
  do tree <- yopt y_int_or_list (yget "tree" m);
  do auto <- yopt y_bool (yget "auto_connect" m);
  do deg <- yopt y_int (yget "degree" m);
  do _ <- match yget "xy_id_offset" m with
          | None | Some YNull => Ok tt
          | Some _ => Err "xy_id_offset on descriptors is not modelled"
          end;
  Ok {| rt_name := name; rt_array := arr; rt_tree := tree; rt_auto := opt_default true auto; rt_degree := deg |}.

Definition parse_conn (v : yv) : res conn_desc :=
  do m <- ymap "connection" v;
  do _ <- forbid_extra "connection" ["description"; "src"; "dst"; "src_range"; "dst_range"; "src_idx"; "dst_idx";
                                      "src_lvl"; "dst_lvl"; "dst_dir"; "src_dir"; "allow_multi"; "bidirectional"] m;
  do src <- yreq "connection" "src" y_str m; do dst <- yreq "connection" "dst" y_str m;
  do sr <- yopt (fun v => do l <- ylist "range" v; mapM y_pair l) (yget "src_range" m);
  do dr <- yopt (fun v => do l <- ylist "range" v; mapM y_pair l) (yget "dst_range" m);
  do si <- yopt y_int_or_list (yget "src_idx" m); do di <- yopt y_int_or_list (yget "dst_idx" m);
  do sl <- yopt y_int (yget "src_lvl" m); do dl <- yopt y_int (yget "dst_lvl" m);
  do sd <- yopt y_dir (yget "src_dir" m); do dd <- yopt y_dir (yget "dst_dir" m);
  do mu <- yopt y_bool (yget "allow_multi" m);
  do bi <- yopt y_bool (yget "bidirectional" m);
  (* check_bidirectional: only bidirectional connections are supported *)
  do _ <- match bi with Some false => Err "Unidirectional connections are not supported yet." | _ => Ok tt end;
  (* check_indexing: `if self.src_idx and self.src_lvl` (truthiness: non-empty list, non-zero level) *)
  let truthy_idx (o : option (list Z)) := match o with Some (_ :: _) => true | _ => false end in
  let truthy_lvl (o : option Z) := match o with Some z => negb (z =? 0) | None => false end in
  do _ <- if truthy_idx si && truthy_lvl sl then Err "src_idx and src_lvl are mutually exclusive" else Ok tt;
  do _ <- if truthy_idx di && truthy_lvl dl then Err "dst_idx and dst_lvl are mutually exclusive" else Ok tt;
  Ok {| c_src := src; c_dst := dst; c_src_range := sr; c_dst_range := dr; c_src_idx := si; c_dst_idx := di;
        c_src_lvl := sl; c_dst_lvl := dl; c_src_dir := sd; c_dst_dir := dd; c_multi := opt_default false mu |}.

Definition parse_proto (v : yv) : res proto :=
  do m <- ymap "protocol" v;
  do _ <- forbid_extra "protocol" ["name"; "description"; "protocol"; "type"; "direction"; "data_width"; "addr_width";
                                    "id_width"; "user_width"; "type_prefix"] m;
  do name <- yreq "protocol" "name" y_str m;
  do pr <- yreq "protocol" "protocol" y_str m;
  (* pattern=r"AXI4" is a search *)
  do _ <- if str_eqb pr "AXI4" then Ok tt else Err "protocol: AXI4 expected";
  do ty <- yopt y_str (yget "type" m);
  do _ <- match ty with
          | Some t => if str_eqb t "narrow" || str_eqb t "wide" then Ok tt else Err "protocol type: narrow|wide expected"
          | None => Ok tt
          end;
  do dw <- yreq "protocol" "data_width" y_int m; do aw <- yreq "protocol" "addr_width" y_int m;
  do iw <- yreq "protocol" "id_width" y_int m; do uw <- yreq "protocol" "user_width" y_int m;
  do pf <- match yget "type_prefix" m with
           | None => Ok (Some "axi")
           | Some YNull => Ok None
           | Some x => do s <- y_str x; Ok (Some s)
           end;
  Ok {| p_name := name; p_type := ty; p_data := dw; p_addr := aw; p_id := iw; p_user := uw; p_prefix := pf |}.

Definition parse_algo (s : string) : res algo :=
  if str_eqb s "XY" then Ok XY else if str_eqb s "ID" then Ok ID else if str_eqb s "SRC" then Ok SRC
  else if str_eqb s "YX" then Err "Routing algorithm YX is not supported yet"
  else Err ("unknown routing algorithm " +++ s).

Definition all_equal (l : list Z) : bool :=
  match l with [] => false | x :: xs => forallb (Z.eqb x) xs end.   (* len(set(...)) != 1 -> error *)

(* Network: field validators and model validators that do not need the graph *)
Definition parse_desc (v : yv) : res desc :=
  do m <- ymap "network" v;
  do _ <- forbid_extra "network" ["name"; "description"; "network_type"; "protocols"; "endpoints"; "routers";
                                   "connections"; "graph"; "routing"] m;
  do name <- yreq "network" "name" y_str m;
  do _ <- match yget "description" m with Some _ => Ok tt | None => Err "network: missing field description" end;
  do nt <- yreq "network" "network_type" y_str m;
  do nw <- if str_eqb nt "axi" then Ok false else if str_eqb nt "narrow-wide" then Ok true
           else Err "network_type: axi|narrow-wide expected";
  do protos <- yreq "network" "protocols" (fun v => do l <- ylist "protocols" v; mapM parse_proto l) m;
  do eps <- yreq "network" "endpoints" (fun v => do l <- ylist "endpoints" v; mapM parse_ep l) m;
  do rts <- yreq "network" "routers" (fun v => do l <- ylist "routers" v; mapM parse_rt l) m;
  do conns <- yreq "network" "connections" (fun v => do l <- ylist "connections" v; mapM parse_conn l) m;
  do rm <- yreq "network" "routing" (ymap "routing") m;
  do _ <- forbid_extra "routing" ["route_algo"; "use_id_table"; "sam"; "table"; "addr_offset_bits"; "xy_id_offset";
                                   "num_endpoints"; "num_id_bits"; "num_x_bits"; "num_y_bits"; "num_route_bits";
                                   "addr_width"; "rob_idx_bits"; "port_id_bits"; "num_vc_id_bits"] rm;
  do al <- yreq "routing" "route_algo" (fun v => do s <- y_str v; parse_algo s) rm;
  do ut <- yopt y_bool (yget "use_id_table" rm);
  do _ <- if opt_default true ut then Ok tt else Err "use_id_table: false is not modelled";
  (* validate_endpoints / validate_routers *)
  do _ <- if nodupb str_eqb (map ep_name eps) then Ok tt else Err "Endpoint names must be unique";
  do _ <- if nodupb str_eqb (map rt_name rts) then Ok tt else Err "router names must be unique";
  (* validate_protocols *)
  do _ <- if all_equal (map p_addr protos) then Ok tt else Err "All protocols must have the same address width";
  let of_type (t : string) := filter (fun p => match p_type p with Some x => str_eqb x t | None => false end) protos in
  do _ <- if nw then
            if negb (all_equal (map p_data (of_type "narrow"))) then Err "narrow data width"
            else if negb (all_equal (map p_data (of_type "wide"))) then Err "wide data width"
            else if negb (all_equal (map p_user (of_type "narrow"))) then Err "narrow user width"
            else if negb (all_equal (map p_user (of_type "wide"))) then Err "wide user width"
            else if negb (forallb (fun p => is_some (p_type p)) protos) then Err "Protocols must define type"
            else Ok tt
          else
            if negb (all_equal (map p_data protos)) then Err "All protocols must have the same data width"
            else if negb (all_equal (map p_user protos)) then Err "All protocols must have the same user width"
            else Ok tt;
  (* validate_addr_ranges: every range, expanded over the array, fits the address width *)
  let aw := match protos with p :: _ => p_addr p | [] => 0 end in
  do _ <- mapM (fun e =>
            mapM (fun rs =>
              do r <- range_of_spec rs;
              let en_ := match ep_array e, ep_sbr e, r_base r with
                         | Some _, Some _, Some b => Z.max (r_end r) (b + r_size r * ep_num e)
                         | _, _, _ => r_end r
                         end in
              if 2 ^ aw <? en_ then Err "Address range exceeds the address width" else Ok tt) (ep_ranges e)) eps;
  Ok {| d_name := name; d_nw := nw; d_algo := al; d_use_table := true; d_protos := protos; d_eps := eps;
        d_rts := rts; d_conns := conns |}.
