(* Hw.v — hand model of how the shipped RTL consumes an emitted network: who drives / reads a link
   signal, one routing step of floo_route_select (IdTable / SourceRouting / XYRouting) with the
   masks of floo_router (NoLoopback, XYRouteOpt), and the walk of one flit.  Definitions only.

   Trusted (DESIGN.md section 6): common_cells addr_decode matches rule r on a iff
   start <= a < end; a '{...} literal fills [N-1:0] left to right. *)
From FV Require Import Base RouteMap Netlist.

Inductive net := Req | Rsp | Wide.
Definition net_name (nt : net) : string :=
  match nt with Req => "req" | Rsp => "rsp" | Wide => "wide" end.

(* the response router's inputs are the rsp_in array (indexed like the outgoing links),
   its outputs the rsp_out array (indexed like the incoming links) *)
Definition rt_ins (nt : net) (r : rt_inst) : list (list src) :=
  match nt with Req => r_req_in r | Rsp => r_rsp_in r | Wide => r_wide_in r end.
Definition rt_outs (nt : net) (r : rt_inst) : list (list string) :=
  match nt with Req => r_req_out r | Rsp => r_rsp_out r | Wide => r_wide_out r end.
Definition ni_out (nt : net) (x : ni_inst) : option string :=
  match nt with Req => Some (ni_req_o x) | Rsp => Some (ni_rsp_o x) | Wide => ni_wide_o x end.
Definition ni_in (nt : net) (x : ni_inst) : option string :=
  match nt with Req => Some (ni_req_i x) | Rsp => Some (ni_rsp_i x) | Wide => ni_wide_i x end.

Inductive uref := UNi (name : string) | URt (name : string) (idx : nat).
Definition uref_name (u : uref) : string := match u with UNi s => s | URt s _ => s end.

Definition src_is (s : string) (x : src) : bool :=
  match x with SSig t => str_eqb s t | SZero => false end.
Definition opt_is (s : string) (o : option string) : bool :=
  match o with Some t => str_eqb s t | None => false end.

Definition slot_refs {T} (hit : T -> bool) (name : string) (slots : list (list T)) : list uref :=
  flat_map (fun p => if existsb hit (snd p) then [URt name (fst p)] else []) (enumerate slots).

Definition readers (n : netlist) (nt : net) (s : string) : list uref :=
  flat_map (fun x => if opt_is s (ni_in nt x) then [UNi (ni_name x)] else []) (n_nis n) ++
  flat_map (fun r => slot_refs (src_is s) (r_name r) (rt_ins nt r)) (n_rts n).
Definition drivers (n : netlist) (nt : net) (s : string) : list uref :=
  flat_map (fun x => if opt_is s (ni_out nt x) then [UNi (ni_name x)] else []) (n_nis n) ++
  flat_map (fun r => slot_refs (str_eqb s) (r_name r) (rt_outs nt r)) (n_rts n).

Definition find_rt (n : netlist) (name : string) : option rt_inst :=
  find (fun r => str_eqb (r_name r) name) (n_rts n).
Definition find_ni (n : netlist) (name : string) : option ni_inst :=
  find (fun x => str_eqb (ni_name x) name) (n_nis n).

(* roles, from set_ports(ChimneyDefaultCfg, EnSbrPort, EnMgrPort) *)
Definition ni_is_sbr (x : ni_inst) : bool := existsb (fun f => fst (snd f)) (ni_flags x).
Definition ni_is_mgr (x : ni_inst) : bool := existsb (fun f => snd (snd f)) (ni_flags x).

(* ---------------------------------------------------------------- routing decision *)
Inductive hdr := HId (d : Z) | HRoute (w : Z) | HXY (x y p : Z).

(* floo_route_select.sv gen_xy_routing: ports North=0 East=1 South=2 West=3 Eject=4 *)
Definition xy_select (rx ry x y p : Z) : Z :=
  if (x =? rx) && (y =? ry) then 4 + p
  else if x =? rx then (if y <? ry then 2 else 0)
  else (if x <? rx then 3 else 1).
(* floo_router.sv gen_xy_opt: a flit that came in from North/South may not leave East/West *)
Definition xy_masked (inp out : Z) : bool :=
  ((inp =? 2) || (inp =? 0)) && ((out =? 1) || (out =? 3)).

(* identifiers, coordinates and route words live in fixed-width fields of the flit header and of
   the id_i / table parameters: a value that does not fit is truncated by the hardware *)
Definition trunc (b v : Z) : Z := v mod 2 ^ b.

Definition select (n : netlist) (r : rt_inst) (h : hdr) : res (Z * hdr) :=
  match h with
  | HId d =>
      match r_map r with
      | Some (_, (_, (_, (iw, rules)))) =>
          match filter (fun ru => matchesb ru d) rules with
          | [ru] => Ok (trunc iw (dest ru), h)   (* the port index lives in a field of iw bits *)
          | [] => Err "no rule matches"
          | _ => Err "several rules match"
          end
      | None => Err "router has no table"
      end
  | HRoute w =>
      let b := clog2 (r_nout r) in
      Ok (w mod 2 ^ b, HRoute (w / 2 ^ b))
  | HXY x y p =>
      match r_id r, n_xy_bits n with
      | Some (IdXY rx ry _), Some (xb, (yb, _)) => Ok (xy_select (trunc xb rx) (trunc yb ry) x y p, h)
      | _, _ => Err "router has no XY id"
      end
  end.

Inductive outcome :=
| Delivered (ni : string) (rest : hdr)
| Failed (why : string) (at_ : string).

Record trace := { t_out : outcome; t_rts : list string; t_sigs : list string }.

Definition is_xy (h : hdr) : bool := match h with HXY _ _ _ => true | _ => false end.

(* follow signal s to its unique reader *)
Definition follow (n : netlist) (nt : net) (s : string) (from : string) : res uref :=
  match readers n nt s with
  | [u] => Ok u
  | [] => Err ("signal " +++ s +++ " has no reader")
  | _ => Err ("signal " +++ s +++ " has several readers")
  end.

Fixpoint walk (fuel : nat) (n : netlist) (nt : net) (cur : uref) (h : hdr)
         (rts sigs : list string) : trace :=
  let fail why at_ := {| t_out := Failed why at_; t_rts := rev rts; t_sigs := rev sigs |} in
  match cur with
  | UNi t => {| t_out := Delivered t h; t_rts := rev rts; t_sigs := rev sigs |}
  | URt rn inp =>
      match fuel with
      | O => fail "out of fuel (longer than the number of routers: a router is revisited)" rn
      | S fuel' =>
          match find_rt n rn with
          | None => fail "unknown router" rn
          | Some r =>
              match select n r h with
              | Err e => fail e rn
              | Ok (p, h') =>
                  if p <? 0 then fail "negative port" rn
                  else if Z.of_nat inp =? p then fail "loopback blocked (input index = output index)" rn
                  else if is_xy h && xy_masked (Z.of_nat inp) p
                  then fail "Y-to-X turn blocked" rn
                  else
                    match nth_error (rt_outs nt r) (Z.to_nat p) with
                    | None => fail "output port out of range" rn
                    | Some [] => fail "output port not connected" rn
                    | Some [s] =>
                        match follow n nt s rn with
                        | Ok u => walk fuel' n nt u h' (rn :: rts) (s :: sigs)
                        | Err e => fail e rn
                        end
                    | Some _ => fail "output port drives several signals" rn
                    end
              end
          end
      end
  end.

(* inject at network interface x *)
Definition send (n : netlist) (nt : net) (x : ni_inst) (h : hdr) : trace :=
  match ni_out nt x with
  | None => {| t_out := Failed "interface has no such channel" (ni_name x); t_rts := []; t_sigs := [] |}
  | Some s =>
      match follow n nt s (ni_name x) with
      | Ok u => walk (S (length (n_rts n))) n nt u h [] [s]
      | Err e => {| t_out := Failed e (ni_name x); t_rts := []; t_sigs := [s] |}
      end
  end.

(* The same walk WITHOUT the two masks of floo_router: the route as emitted.  C09 speaks about the routes (the union of
   consecutive-link pairs): a masked turn blocks the flit for ever, it does not remove the dependency, and what the
   route asks for after it still counts.  Where `send` delivers, the two coincide (FreeWalk.send_free_eq). *)
Fixpoint walk_free (fuel : nat) (n : netlist) (nt : net) (cur : uref) (h : hdr)
         (rts sigs : list string) : trace :=
  let fail why at_ := {| t_out := Failed why at_; t_rts := rev rts; t_sigs := rev sigs |} in
  match cur with
  | UNi t => {| t_out := Delivered t h; t_rts := rev rts; t_sigs := rev sigs |}
  | URt rn inp =>
      match fuel with
      | O => fail "out of fuel (longer than the number of routers: a router is revisited)" rn
      | S fuel' =>
          match find_rt n rn with
          | None => fail "unknown router" rn
          | Some r =>
              match select n r h with
              | Err e => fail e rn
              | Ok (p, h') =>
                  if p <? 0 then fail "negative port" rn
                  else
                    match nth_error (rt_outs nt r) (Z.to_nat p) with
                    | None => fail "output port out of range" rn
                    | Some [] => fail "output port not connected" rn
                    | Some [s] =>
                        match follow n nt s rn with
                        | Ok u => walk_free fuel' n nt u h' (rn :: rts) (s :: sigs)
                        | Err e => fail e rn
                        end
                    | Some _ => fail "output port drives several signals" rn
                    end
              end
          end
      end
  end.

Definition send_free (n : netlist) (nt : net) (x : ni_inst) (h : hdr) : trace :=
  match ni_out nt x with
  | None => {| t_out := Failed "interface has no such channel" (ni_name x); t_rts := []; t_sigs := [] |}
  | Some s =>
      match follow n nt s (ni_name x) with
      | Ok u => walk_free (S (length (n_rts n))) n nt u h [] [s]
      | Err e => {| t_out := Failed e (ni_name x); t_rts := []; t_sigs := [s] |}
      end
  end.

(* ---------------------------------------------------------------- address map *)
Definition sam_matches (r : sam_rule) (a : Z) : bool := (sr_start r <=? a) && (a <? sr_end r).
Definition sam_decode (n : netlist) (a : Z) : list sam_rule := filter (fun r => sam_matches r a) (n_sam n).

Definition hdr_of_id (n : netlist) (i : idv) : hdr :=
  match i with
  | IdN d => HId (match n_id_bits n with Some b => trunc b d | None => d end)
  | IdXY x y p =>
      match n_xy_bits n with
      | Some (xb, (yb, pb)) => HXY (trunc xb x) (trunc yb y) (trunc pb p)
      | None => HXY x y p
      end
  end.
Definition hdr_of_word (n : netlist) (w : Z) : hdr :=
  HRoute (match n_route_bits n with Some b => trunc b w | None => w end).

(* ---------------------------------------------------------------- source-route tables *)
(* RoutingTables[v][d]: both dimensions are declared [NumEndpoints-1:0] and a '{...} literal fills them left to
   right, index NumEndpoints-1 first -- whatever the number of elements the literal has (a literal that is too short
   leaves the low indices without an entry) *)
Definition table_word (n : netlist) (row col : Z) : option word :=
  match n_tables n with
  | None => None
  | Some rows =>
      let N := Z.of_nat (length (n_nis n)) in
      if (row <? 0) || (N <=? row) then None else
      match nth_error rows (Z.to_nat (N - 1 - row)) with
      | None => None
      | Some ws => if (col <? 0) || (N <=? col) then None else nth_error ws (Z.to_nat (N - 1 - col))
      end
  end.
Definition enum_value (e : Z * list (string * Z)) (name : string) : option Z :=
  option_map snd (find (fun p => str_eqb (fst p) name) (snd e)).

(* ---------------------------------------------------------------- topology distance (BFS) *)
Definition unit_succ (n : netlist) (nt : net) (u : string) : list string :=
  match find_ni n u with
  | Some x => match ni_out nt x with
              | Some s => map uref_name (readers n nt s)
              | None => []
              end
  | None =>
      match find_rt n u with
      | Some r => flat_map (fun sl => flat_map (fun s => map uref_name (readers n nt s)) sl) (rt_outs nt r)
      | None => []
      end
  end.

Fixpoint bfs (fuel : nat) (succ : string -> list string) (frontier seen : list string)
         (target : string) (d : nat) : option nat :=
  if existsb (str_eqb target) frontier then Some d else
  match fuel with
  | O => None
  | S f =>
      let nxt := fold_left (fun acc u =>
                   fold_left (fun acc v => if existsb (str_eqb v) (acc ++ seen) then acc else acc ++ [v])
                             (succ u) acc) frontier [] in
      match nxt with
      | [] => None
      | _ => bfs f succ nxt (seen ++ nxt) target (S d)
      end
  end.
Definition dist (n : netlist) (nt : net) (s t : string) : option nat :=
  bfs (length (n_rts n) + length (n_nis n)) (unit_succ n nt) [s] [s] t 0.
