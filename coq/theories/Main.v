(* Main.v — request dispatcher of the extracted model binary: one s-expression request per line,
   one s-expression answer per line. Definitions only. *)
From FV Require Import Base AddrRange RouteMap Graph Netlist Hw Check Jobs Desc Build Paths Compile Routing Emit Side XYSide RefOracle Cli.

Definition sx_expected (x : sx) : res (string * (Z * Z)) :=
  match x with
  | L [A nm; s; e] => do s <- sx_Z s; do e <- sx_Z e; Ok (nm, (s, e))
  | _ => Err "(name start end) expected"
  end.

(* (chk <netlist> (C01 (exp...)) (C07 (names...)) C02 C03 C05 C09 C13 C14 ...) -> ((Cxx fails)...) *)
Definition run_check (n : netlist) (c : sx) : res sx :=
  match c with
  | A "C02" => Ok (L [A "C02"; fails_to_sx (chk_C02 n)])
  | A "C03" => Ok (L [A "C03"; fails_to_sx (chk_C03 n)])
  | A "C05" => Ok (L [A "C05"; fails_to_sx (chk_C05 n)])
  | A "C09" => Ok (L [A "C09"; fails_to_sx (chk_C09 n)])
  | A "C13" => Ok (L [A "C13"; fails_to_sx (chk_C13 n)])
  | L [A "C13"; exp] => do exp <- sx_listof sx_expected exp; Ok (L [A "C13"; fails_to_sx (chk_C13n n exp)])
  | A "C14" => Ok (L [A "C14"; fails_to_sx (chk_C14 n)])
  | L [A "C01"; exp] => do exp <- sx_listof sx_expected exp; Ok (L [A "C01"; fails_to_sx (chk_C01 n exp)])
  | L [A "C04"; L [m; nn; atts]; exp] =>
      do m <- sx_Z m; do nn <- sx_Z nn;
      do atts <- sx_listof (fun x => match x with
                                     | L [A nm; i; j; q] => do i <- sx_Z i; do j <- sx_Z j; do q <- sx_Z q;
                                                            Ok (nm, ((i, j), q))
                                     | _ => Err "attachment expected"
                                     end) atts;
      do exp <- sx_listof sx_expected exp;
      Ok (L [A "C04"; fails_to_sx (chk_C04 n {| gr_m := m; gr_n := nn; gr_att := atts |} exp)])
  | L [A "C06"; links; cnt] =>
      do links <- sx_listof (fun x => match x with
                                      | L [A a; A b; pa; pb] => do pa <- sx_opt sx_Z pa; do pb <- sx_opt sx_Z pb;
                                                                Ok (a, b, (pa, pb))
                                      | _ => Err "link expected"
                                      end) links;
      do cnt <- sx_nat cnt;
      Ok (L [A "C06"; fails_to_sx (chk_C06 n links cnt)])
  | L [A "C08"; ports; nis; cfgs] =>
      do ports <- sx_listof sx_port ports;
      do nis <- sx_listof (fun x => match x with
                                    | L [A nm; fl; ax; A en] =>
                                        do fl <- sx_listof sx_flag fl; do ax <- sx_listof (sx_kv sx_str) ax;
                                        Ok {| ne_name := nm; ne_flags := fl; ne_axi := ax; ne_enum := en |}
                                    | _ => Err "ni expectation"
                                    end) nis;
      do cfgs <- sx_listof (sx_kv (sx_listof (sx_kv sx_Z))) cfgs;
      Ok (L [A "C08"; fails_to_sx (chk_C08 n ports nis cfgs)])
  | L [A "C07"; names] => do names <- sx_listof sx_str names; Ok (L [A "C07"; fails_to_sx (chk_C07 n names)])
  | _ => Err "unknown check"
  end.

Definition sx_named {T} (f : sx -> res T) (x : sx) : res (string * T) :=
  match x with L [A k; v] => do v <- f v; Ok (k, v) | _ => Err "(name value) expected" end.
Definition sx_quad (x : sx) : res (Z * (Z * (Z * Z))) :=
  match x with
  | L [a; b; c; d] => do a <- sx_Z a; do b <- sx_Z b; do c <- sx_Z c; do d <- sx_Z d; Ok (a, (b, (c, d)))
  | _ => Err "quadruple expected"
  end.
Definition sx_text_facts (args : list sx) : res text_facts :=
  match args with
  | [br; de; us; av; li; fi; sa; rb; wo] =>
      do br <- sx_listof (sx_named (sx_listof sx_Z)) br; do de <- sx_listof (sx_named (sx_listof sx_str)) de;
      do us <- sx_listof (sx_named (sx_listof sx_str)) us; do av <- sx_listof (sx_named (sx_listof sx_str)) av;
      do li <- sx_listof sx_quad li;
      do fi <- sx_listof (fun x => match x with
                                   | L [A nm; w; v] => do w <- sx_Z w; do v <- sx_Z v; Ok (nm, (w, v))
                                   | _ => Err "field expected"
                                   end) fi;
      do sa <- sx_listof sx_quad sa; do rb <- sx_opt sx_Z rb; do wo <- sx_listof sx_word wo;
      Ok {| tf_brackets := br; tf_decl := de; tf_used := us; tf_avail := av; tf_lits := li; tf_fields := fi;
            tf_sam := sa; tf_route_bits := rb; tf_words := wo |}
  | _ => Err "c12: arity"
  end.

Definition dispatch (cmd : string) (args : list sx) : res sx :=
  if str_eqb cmd "c17" then handle_c17 args
  else if str_eqb cmd "c16" then handle_c16 args
  else if str_eqb cmd "c18" then handle_c18 args
  else if str_eqb cmd "c19" then handle_c19 args
  else if str_eqb cmd "c12" then do f <- sx_text_facts args; Ok (fails_to_sx (chk_C12 f))
  else if str_eqb cmd "chk" then
    match args with
    | nl :: checks => do n <- sx_netlist nl; do rs <- mapM (run_check n) checks; Ok (L rs)
    | _ => Err "chk: arity"
    end
  else if str_eqb cmd "model" then
    (* (model <description tree>) -> (ok <netlist>) | (err) *)
    match args with
    | [x] => match run_yaml sp_nx (yv_of_sx x) with
             | Ok n => Ok (L [A "ok"; x_netlist n])
             | Err e => Ok (L [A "err"; A (sanitize e)])
             end
    | _ => Err "model: arity"
    end
  else if str_eqb cmd "model-graph" then
    match args with
    | [x] => match (do d <- parse_desc (yv_of_sx x); build d) with
             | Ok g => Ok (L [A "ok"; x_graph g])
             | Err e => Ok (L [A "err"; A (sanitize e)])
             end
    | _ => Err "model-graph: arity"
    end
  else if str_eqb cmd "side" then
    (* (side <description tree>) -> (ok #t/#f ...) | (err): the side conditions of the hardware-level theorems *)
    match args with
    | [x] => match (do d <- parse_desc (yv_of_sx x); side_conditions sp_nx d) with
             | Ok bs => Ok (L (A "ok" :: map (fun b : bool => A (if b then "#t" else "#f")) bs))
             | Err e => Ok (L [A "err"; A (sanitize e)])
             end
    | _ => Err "side: arity"
    end
  else if str_eqb cmd "tree" then
    (* (tree <description tree>) -> (ok #t/#f ...) | (err): the hypotheses of C09_model_tree_nx (tree certificate first),
       with the generator's own oracle *)
    match args with
    | [x] => match (do d <- parse_desc (yv_of_sx x); tree_conditions sp_nx d) with
             | Ok bs => Ok (L (A "ok" :: map (fun b : bool => A (if b then "#t" else "#f")) bs))
             | Err e => Ok (L [A "err"; A (sanitize e)])
             end
    | _ => Err "tree: arity"
    end
  else if str_eqb cmd "xy" then
    (* (xy <description tree> (m n ((name i j port) ...))) -> (ok #t/#f ...) | (err): the hypotheses of
       C04_hw_bisimulation_decidable for the description and the grid it denotes *)
    match args with
    | [x; L [m; nn; atts]] =>
        match (do m <- sx_Z m; do nn <- sx_Z nn;
               do atts <- sx_listof (fun x => match x with
                                              | L [A nm; i; j; q] => do i <- sx_Z i; do j <- sx_Z j; do q <- sx_Z q;
                                                                     Ok (nm, ((i, j), q))
                                              | _ => Err "attachment expected"
                                              end) atts;
               do d <- parse_desc (yv_of_sx x);
               xy_conditions d {| gr_m := m; gr_n := nn; gr_att := atts |}) with
        | Ok bs => Ok (L (A "ok" :: map (fun b : bool => A (if b then "#t" else "#f")) bs))
        | Err e => Ok (L [A "err"; A (sanitize e)])
        end
    | _ => Err "xy: arity"
    end
  else if str_eqb cmd "clirun" then
    (* (clirun (od op ot) ((stage args (file ...)) ...) ((channel content) ...)) -> failures: an observed run of the real
       command line against the hand model of the pipeline (Cli.chk_cli_run) *)
    match args with
    | [L [od; op; ot]; calls; outs] =>
        do od <- sx_bool od; do op <- sx_bool op; do ot <- sx_bool ot;
        do calls <- sx_listof (fun x => match x with
                                        | L [A nm; A ar; fs] =>
                                            (* atoms carry no blanks: "-" = no argument, "Network,args.config" = the model's text *)
                                            let ar := if str_eqb ar "-" then "" else if str_eqb ar "Network,args.config"
                                                      then "Network, args.config" else ar in
                                            do fs <- sx_listof sx_str fs; Ok (nm, (ar, fs))
                                        | _ => Err "stage expected"
                                        end) calls;
        do outs <- sx_listof (fun x => match x with L [A ch; A co] => Ok (ch, co) | _ => Err "output expected" end) outs;
        Ok (fails_to_sx (chk_cli_run (od, (op, ot)) {| cr_calls := calls; cr_outs := outs |}))
    | _ => Err "clirun: arity"
    end
  else if str_eqb cmd "clifail" then
    (* (clifail rc (file ...)) -> failures: a run whose stage raised *)
    match args with
    | [rc; fs] => do rc <- sx_Z rc; do fs <- sx_listof sx_str fs; Ok (fails_to_sx (chk_cli_failed rc fs))
    | _ => Err "clifail: arity"
    end
  else if str_eqb cmd "nl-echo" then
    match args with [x] => do n <- sx_netlist x; Ok (x_netlist n) | _ => Err "nl-echo: arity" end
  else Err ("unknown command " +++ cmd).

Definition run_line (line : string) : string :=
  match parse_sx line with
  | Ok [L (A cmd :: args)] =>
      match dispatch cmd args with
      | Ok x => print_sx x
      | Err e => "(fail " +++ print_sx (L [A "msg"]) +++ ") ; " +++ e
      end
  | Ok _ => "(fail (msg)) ; expected exactly one (cmd args...)"
  | Err e => "(fail (msg)) ; " +++ e
  end.
