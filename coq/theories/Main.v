(* Main.v — request dispatcher of the extracted model binary: one s-expression request per line,
   one s-expression answer per line. Definitions only. *)
From FV Require Import Base AddrRange RouteMap Graph Netlist.

Definition dispatch (cmd : string) (args : list sx) : res sx :=
  if str_eqb cmd "c17" then handle_c17 args
  else if str_eqb cmd "c16" then handle_c16 args
  else if str_eqb cmd "c18" then handle_c18 args
  else if str_eqb cmd "nl-echo" then
    match args with [x] => do n <- sx_netlist x; Ok (x_netlist n) | _ => Err "nl-echo: arity" end
  else Err ("unknown command " +++ cmd).

Definition run_line (line : string) : string :=
  match parse_sx line with
  | Ok [L (A cmd :: args)] =>
      match dispatch cmd args with
      | Ok x => print_sx x
      | Err e => "(fail " +++ print_sx (L [A "msg"]) +++ ") ; " +++ e
      end
  | Ok _ => "(fail (msg)) ; expected exactly one (cmd args...)"
  | Err e => "(fail (msg)) ; " +++ e
  end.
