(* WireProofs.v — C05, second half, on the model: which port slots the links of a router occupy.
   Every link edge into a router sits in exactly one input slot of that router (and, by the port pairing,
   its mirror in exactly one output slot). *)
From FV Require Import Base AddrRange Graph Desc Build Netlist Compile Routing Emit ModelBase BuildProofs ModelProofs IdProofs.
From Coq Require Import ZifyBool.

(* ------------------------------------------------------------------ edges are unique per (source, destination) *)
Definition epair (e : edge) : string * string := (e_src e, e_dst e).
Definition edges_nodup (g : graph) : Prop := NoDup (map epair (g_edges g)).

Lemma has_edge_false g u v : has_edge g u v = false -> ~ In (u, v) (map epair (g_edges g)).
Proof.
  unfold has_edge, find_edge. intros H Hin. apply in_map_iff in Hin. destruct Hin as (e & He & Hine).
  destruct (find _ (g_edges g)) eqn:F; [discriminate|]. pose proof (find_none _ _ F e Hine) as Hf. cbv beta in Hf.
  unfold epair in He. inversion He; subst. rewrite !(proj2 (String.eqb_eq _ _) eq_refl) in Hf. discriminate.
Qed.

Theorem build_edges_nodup d g : build d = Ok g -> edges_nodup g.
Proof.
  apply (build_preserves edges_nodup (fun _ => True)); try exact I.
  - intros g0 n g' Hn _ H. unfold add_node in H. destruct (has_node g0 (n_name n)); [discriminate|]. inversion H; subst. exact Hn.
  - intros g0 e g' Hn H. unfold add_edge in H. destruct (has_edge g0 (e_src e) (e_dst e)) eqn:Hh; [discriminate|].
    destruct (negb _); [discriminate|]. inversion H; subst. unfold edges_nodup. cbn. rewrite map_app. cbn.
    apply NoDup_snoc; [exact Hn|]. apply has_edge_false. exact Hh.
  - constructor.
Qed.

(* the edge view lists every edge once *)
Lemma NoDup_app_disjoint {A} (l m : list A) : NoDup l -> NoDup m -> (forall x, In x l -> ~ In x m) -> NoDup (l ++ m).
Proof.
  induction 1 as [|a l Ha Hl IH]; intros Hm Hd; cbn; [exact Hm|]. constructor.
  - rewrite in_app_iff. intros [H|H]; [contradiction|]. apply (Hd a); [left; reflexivity|exact H].
  - apply IH; [exact Hm|]. intros x Hx. apply Hd. right. exact Hx.
Qed.

Lemma NoDup_map_filter {A B} (f : A -> B) (p : A -> bool) l : NoDup (map f l) -> NoDup (map f (filter p l)).
Proof.
  induction l as [|x xs IH]; cbn; intros H; [constructor|]. inversion H; subst.
  destruct (p x); cbn; [constructor|]; auto. intros Hin. apply H2. apply in_map_iff in Hin.
  destruct Hin as (y & Hy & Hyin). apply filter_In in Hyin. rewrite <- Hy. apply in_map. tauto.
Qed.

Lemma edges_view_nodup g : edges_nodup g -> NoDup (names g) -> NoDup (map epair (edges_view g)).
Proof.
  unfold edges_nodup, names, edges_view. intros He Hn. induction (g_nodes g) as [|n ns IH]; cbn; [constructor|].
  inversion Hn as [|? ? Hnn Hns]; subst. rewrite map_app. apply NoDup_app_disjoint.
  - apply NoDup_map_filter. exact He.
  - apply IH. exact Hns.
  - intros x Hx Hx'. apply in_map_iff in Hx. destruct Hx as (e & <- & Hf). apply filter_In in Hf. destruct Hf as (_ & Hs).
    apply String.eqb_eq in Hs. apply in_map_iff in Hx'. destruct Hx' as (e' & Hp & Hf').
    apply in_flat_map in Hf'. destruct Hf' as (n' & Hn' & Hf'). apply filter_In in Hf'. destruct Hf' as (_ & Hs').
    apply String.eqb_eq in Hs'. unfold epair in Hp. inversion Hp. apply Hnn. apply in_map_iff. exists n'. split; [congruence|exact Hn'].
Qed.

(* ------------------------------------------------------------------ slots *)
Lemma fill_free_keeps : forall s ls i l, nth_error s i = Some (Some l) -> nth_error (fst (fill_free s ls)) i = Some (Some l).
Proof.
  induction s as [|a s IH]; intros ls i l H; [destruct i; discriminate|].
  destruct a as [x|]; cbn [fill_free].
  - specialize (IH ls). destruct (fill_free s ls) as [r m]. cbn [fst] in *. destruct i; [exact H|]. cbn in *. apply IH. exact H.
  - destruct ls as [|y ys]; [exact H|]. specialize (IH ys). destruct (fill_free s ys) as [r m]. cbn [fst] in *.
    destruct i; [discriminate|]. cbn in *. apply IH. exact H.
Qed.

Lemma fill_free_placed : forall s ls, snd (fill_free s ls) = [] -> forall l, In l ls -> In (Some l) (fst (fill_free s ls)).
Proof.
  induction s as [|a s IH]; intros ls H l Hl; cbn [fill_free] in *.
  - cbn in H. subst. destruct Hl.
  - destruct a as [x|].
    + specialize (IH ls). destruct (fill_free s ls) as [r m]. cbn [fst snd] in *. right. apply IH; assumption.
    + destruct ls as [|y ys]; [destruct Hl|]. specialize (IH ys). destruct (fill_free s ys) as [r m]. cbn [fst snd] in *.
      destruct Hl as [<-|Hl]; [left; reflexivity|right; apply IH; assumption].
Qed.

(* the new entries of fill_free come from ls, in order; an entry is old or new *)
Lemma fill_free_origin : forall s ls i l, nth_error (fst (fill_free s ls)) i = Some (Some l) ->
  nth_error s i = Some (Some l) \/ (nth_error s i = Some None /\ In l ls).
Proof.
  induction s as [|a s IH]; intros ls i l H; [cbn in H; destruct i; discriminate|].
  destruct a as [x|]; cbn [fill_free] in H.
  - specialize (IH ls). destruct (fill_free s ls) as [r m]. cbn [fst] in *. destruct i; [left; exact H|]. cbn in *.
    destruct (IH i l H) as [H1|(H1 & H2)]; auto.
  - destruct ls as [|y ys]; [left; exact H|]. specialize (IH ys). destruct (fill_free s ys) as [r m]. cbn [fst] in *.
    destruct i; [cbn in H; inversion H; subst; right; cbn; auto|]. cbn in *.
    destruct (IH i l H) as [H1|(H1 & H2)]; auto.
Qed.

(* two different free slots receive different elements of a duplicate-free list *)
Lemma fill_free_new_inj : forall s ls i j l, NoDup ls ->
  nth_error s i = Some None -> nth_error s j = Some None ->
  nth_error (fst (fill_free s ls)) i = Some (Some l) -> nth_error (fst (fill_free s ls)) j = Some (Some l) -> i = j.
Proof.
  induction s as [|a s IH]; intros ls i j l Hnd Hi Hj Fi Fj; [destruct i; discriminate|].
  destruct a as [x|]; cbn [fill_free] in Fi, Fj.
  - specialize (IH ls). destruct (fill_free s ls) as [r m]. cbn [fst] in *.
    destruct i; [discriminate|]. destruct j; [discriminate|]. cbn in *. f_equal. eapply IH; eauto.
  - destruct ls as [|y ys]; [cbn [fst] in Fi; rewrite Hi in Fi; discriminate|]. inversion Hnd as [|? ? Hy Hys]; subst.
    pose proof (fill_free_origin s ys) as Ho. specialize (IH ys). destruct (fill_free s ys) as [r m]. cbn [fst] in *.
    destruct i as [|i], j as [|j]; cbn in *; auto.
    + inversion Fi; subst. exfalso. destruct (Ho j l Fj) as [H1|(_ & H2)]; [congruence|contradiction].
    + inversion Fj; subst. exfalso. destruct (Ho i l Fi) as [H1|(_ & H2)]; [congruence|contradiction].
    + f_equal. eapply IH; eauto.
Qed.

Lemma nth_some_iff {A} (l : list (option A)) i x : nth_error l i = Some (Some x) <-> nth i l None = Some x.
Proof.
  revert i. induction l as [|a l IH]; intros i; destruct i; cbn; try (split; discriminate).
  - split; intros H; [inversion H; reflexivity|congruence].
  - apply IH.
Qed.

Lemma fold_place_index {E} what (dirf : E -> Z) (pairf : E -> link) : forall es init res,
  foldM (fun sl e => place what sl (dirf e) (pairf e)) es init = Ok res ->
  forall e, In e es -> exists i, py_index (Z.of_nat (length init)) (dirf e) = Ok i.
Proof.
  induction es as [|x es IH]; intros init res H e He; [destruct He|]. cbn [foldM] in H. inv_bind H.
  destruct (place_inv _ _ _ _ _ E0) as (k & Hk & _ & ->). destruct He as [<-|He]; [eauto|].
  destruct (IH _ _ H e He) as (i & Hi). rewrite update_nth_length in Hi. eauto.
Qed.

Section RouterSlots.
  Variables (d : desc) (g : graph) (rt : node) (rid : option idv) (r : crt).
  Hypothesis Hcr : compile_router d g rt rid = Ok r.
  Let ins := filter is_link (edges_to g (n_name rt)).

  (* every link edge into the router sits in one of its input slots *)
  Theorem in_complete : forall e, In e ins -> In (Some (epair e)) (cr_in r).
  Proof.
    unfold compile_router in Hcr. cbv zeta in Hcr. fold ins in Hcr.
    match type of Hcr with (if ?c then _ else _) = _ => destruct c; [discriminate|] end.
    inv_bind Hcr.
    set (nd_in := map (fun e => (e_src e, e_dst e)) (filter (fun e => negb (is_some (e_dst_dir e))) ins)) in *.
    destruct (fold_place_spec (fun e : edge => opt_default 0 (e_dst_dir e)) (fun e => (e_src e, e_dst e)) _ _ _ _ E) as (L1 & _ & K2 & _).
    pose proof (fold_place_index _ _ _ _ _ _ E) as Hidx.
    pose proof (fill_free_keeps a nd_in) as Hkeep. pose proof (fill_free_placed a nd_in) as Hpl.
    destruct (fill_free a nd_in) as [inc li]. destruct (fill_free a0 a1) as [out lo]. cbn [fst snd] in *.
    destruct li; [|discriminate]. destruct lo; [|discriminate]. inversion Hcr; subst r; cbn [cr_in]. clear Hcr.
    intros e He. destruct (is_some (e_dst_dir e)) eqn:Ed.
    - assert (Hin : In e (filter (fun e => is_some (e_dst_dir e)) ins)) by (apply filter_In; auto).
      destruct (Hidx e Hin) as (i & Hi).
      assert (Hn : nth i a None = Some (e_src e, e_dst e)) by (apply K2; exists e; auto).
      apply nth_some_iff in Hn. eapply nth_error_In. apply Hkeep. exact Hn.
    - apply (Hpl eq_refl). unfold nd_in. apply in_map_iff. exists e. split; [reflexivity|]. apply filter_In. rewrite Ed. auto.
  Qed.

  (* and in only one, when the graph has one edge per (source, destination) *)
  Theorem in_unique : NoDup (map epair ins) ->
    forall i j l, nth_error (cr_in r) i = Some (Some l) -> nth_error (cr_in r) j = Some (Some l) -> i = j.
  Proof.
    intros Hnd. unfold compile_router in Hcr. cbv zeta in Hcr. fold ins in Hcr.
    match type of Hcr with (if ?c then _ else _) = _ => destruct c; [discriminate|] end.
    inv_bind Hcr.
    set (dir_in := filter (fun e => is_some (e_dst_dir e)) ins) in *.
    set (nds := filter (fun e => negb (is_some (e_dst_dir e))) ins) in *.
    set (nd_in := map (fun e => (e_src e, e_dst e)) nds) in *.
    destruct (fold_place_spec (fun e : edge => opt_default 0 (e_dst_dir e)) (fun e => (e_src e, e_dst e)) _ _ _ _ E) as (L1 & _ & _ & K3).
    pose proof (fill_free_origin a nd_in) as Hor. pose proof (fill_free_new_inj a nd_in) as Hinj.
    destruct (fill_free a nd_in) as [inc li]. destruct (fill_free a0 a1) as [out lo]. cbn [fst snd] in *.
    destruct li; [|discriminate]. destruct lo; [|discriminate]. inversion Hcr; subst r; cbn [cr_in]. clear Hcr.
    assert (Hndn : NoDup nd_in) by (apply (NoDup_map_filter epair _ ins Hnd)).
    set (init := repeat (@None link) _) in *.
    (* an old entry comes from a directed edge *)
    assert (Hold : forall i l, nth_error a i = Some (Some l) ->
              exists e, In e dir_in /\ epair e = l /\ py_index (Z.of_nat (length init)) (opt_default 0 (e_dst_dir e)) = Ok i).
    { intros i l Hi. apply nth_some_iff in Hi. destruct (K3 i l Hi) as [Hn|(e & He & Hp & Hl)].
      - unfold init in Hn. rewrite nth_repeat_none in Hn. discriminate.
      - exists e. auto. }
    assert (Hnone : forall i l, nth_error a i = Some None -> ~ (nth_error a i = Some (Some l))) by (intros; congruence).
    intros i j l Hi Hj.
    destruct (Hor i l Hi) as [Oi|(Ni & Li)]; destruct (Hor j l Hj) as [Oj|(Nj & Lj)].
    - destruct (Hold i l Oi) as (e1 & He1 & P1 & I1). destruct (Hold j l Oj) as (e2 & He2 & P2 & I2).
      assert (e1 = e2).
      { eapply (NoDup_map_eq epair ins); [exact Hnd| | |congruence]; [apply filter_In in He1|apply filter_In in He2]; tauto. }
      subst e2. congruence.
    - exfalso. destruct (Hold i l Oi) as (e1 & He1 & P1 & _). unfold nd_in in Lj. apply in_map_iff in Lj.
      destruct Lj as (e2 & P2 & He2). apply filter_In in He1. apply filter_In in He2.
      assert (e1 = e2) by (eapply (NoDup_map_eq epair ins); [exact Hnd| | |unfold epair in *; congruence]; tauto).
      subst e2. destruct He1 as (_ & A1). destruct He2 as (_ & A2). rewrite A1 in A2. discriminate.
    - exfalso. destruct (Hold j l Oj) as (e1 & He1 & P1 & _). unfold nd_in in Li. apply in_map_iff in Li.
      destruct Li as (e2 & P2 & He2). apply filter_In in He1. apply filter_In in He2.
      assert (e1 = e2) by (eapply (NoDup_map_eq epair ins); [exact Hnd| | |unfold epair in *; congruence]; tauto).
      subst e2. destruct He1 as (_ & A1). destruct He2 as (_ & A2). rewrite A1 in A2. discriminate.
    - eapply Hinj; eauto.
  Qed.
End RouterSlots.
