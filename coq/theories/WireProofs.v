(* WireProofs.v — C05, second half, on the model: which port slots the links of a router occupy.
   Every link edge into a router sits in exactly one input slot of that router (and, by the port pairing,
   its mirror in exactly one output slot). *)
From FV Require Import Base AddrRange Graph Desc Build Netlist Compile Routing Emit Hw Side ModelBase BuildProofs ModelProofs IdProofs.
From Coq Require Import ZifyBool.

(* ------------------------------------------------------------------ edges are unique per (source, destination) *)
Definition edges_nodup (g : graph) : Prop := NoDup (map epair (g_edges g)).

Lemma has_edge_false g u v : has_edge g u v = false -> ~ In (u, v) (map epair (g_edges g)).
Proof.
  unfold has_edge, find_edge. intros H Hin. apply in_map_iff in Hin. destruct Hin as (e & He & Hine).
  destruct (find _ (g_edges g)) eqn:F; [discriminate|]. pose proof (find_none _ _ F e Hine) as Hf. cbv beta in Hf.
  unfold epair in He. inversion He; subst. rewrite !(proj2 (String.eqb_eq _ _) eq_refl) in Hf. discriminate.
Qed.

Theorem build_edges_nodup d g : build d = Ok g -> edges_nodup g.
Proof.
  apply (build_preserves edges_nodup (fun _ => True)); try exact I.
  - intros g0 n g' Hn _ H. unfold add_node in H. destruct (has_node g0 (n_name n)); [discriminate|]. inversion H; subst. exact Hn.
  - intros g0 e g' Hn H. unfold add_edge in H. destruct (has_edge g0 (e_src e) (e_dst e)) eqn:Hh; [discriminate|].
    destruct (negb _); [discriminate|]. inversion H; subst. unfold edges_nodup. cbn. rewrite map_app. cbn.
    apply NoDup_snoc; [exact Hn|]. apply has_edge_false. exact Hh.
  - constructor.
Qed.

(* the edge view lists every edge once *)
Lemma NoDup_app_disjoint {A} (l m : list A) : NoDup l -> NoDup m -> (forall x, In x l -> ~ In x m) -> NoDup (l ++ m).
Proof.
  induction 1 as [|a l Ha Hl IH]; intros Hm Hd; cbn; [exact Hm|]. constructor.
  - rewrite in_app_iff. intros [H|H]; [contradiction|]. apply (Hd a); [left; reflexivity|exact H].
  - apply IH; [exact Hm|]. intros x Hx. apply Hd. right. exact Hx.
Qed.

Lemma NoDup_map_filter {A B} (f : A -> B) (p : A -> bool) l : NoDup (map f l) -> NoDup (map f (filter p l)).
Proof.
  induction l as [|x xs IH]; cbn; intros H; [constructor|]. inversion H; subst.
  destruct (p x); cbn; [constructor|]; auto. intros Hin. apply H2. apply in_map_iff in Hin.
  destruct Hin as (y & Hy & Hyin). apply filter_In in Hyin. rewrite <- Hy. apply in_map. tauto.
Qed.

Lemma edges_view_nodup g : edges_nodup g -> NoDup (names g) -> NoDup (map epair (edges_view g)).
Proof.
  unfold edges_nodup, names, edges_view. intros He Hn. induction (g_nodes g) as [|n ns IH]; cbn; [constructor|].
  inversion Hn as [|? ? Hnn Hns]; subst. rewrite map_app. apply NoDup_app_disjoint.
  - apply NoDup_map_filter. exact He.
  - apply IH. exact Hns.
  - intros x Hx Hx'. apply in_map_iff in Hx. destruct Hx as (e & <- & Hf). apply filter_In in Hf. destruct Hf as (_ & Hs).
    apply String.eqb_eq in Hs. apply in_map_iff in Hx'. destruct Hx' as (e' & Hp & Hf').
    apply in_flat_map in Hf'. destruct Hf' as (n' & Hn' & Hf'). apply filter_In in Hf'. destruct Hf' as (_ & Hs').
    apply String.eqb_eq in Hs'. unfold epair in Hp. inversion Hp. apply Hnn. apply in_map_iff. exists n'. split; [congruence|exact Hn'].
Qed.

(* ------------------------------------------------------------------ slots *)
Lemma fill_free_keeps : forall s ls i l, nth_error s i = Some (Some l) -> nth_error (fst (fill_free s ls)) i = Some (Some l).
Proof.
  induction s as [|a s IH]; intros ls i l H; [destruct i; discriminate|].
  destruct a as [x|]; cbn [fill_free].
  - specialize (IH ls). destruct (fill_free s ls) as [r m]. cbn [fst] in *. destruct i; [exact H|]. cbn in *. apply IH. exact H.
  - destruct ls as [|y ys]; [exact H|]. specialize (IH ys). destruct (fill_free s ys) as [r m]. cbn [fst] in *.
    destruct i; [discriminate|]. cbn in *. apply IH. exact H.
Qed.

Lemma fill_free_placed : forall s ls, snd (fill_free s ls) = [] -> forall l, In l ls -> In (Some l) (fst (fill_free s ls)).
Proof.
  induction s as [|a s IH]; intros ls H l Hl; cbn [fill_free] in *.
  - cbn in H. subst. destruct Hl.
  - destruct a as [x|].
    + specialize (IH ls). destruct (fill_free s ls) as [r m]. cbn [fst snd] in *. right. apply IH; assumption.
    + destruct ls as [|y ys]; [destruct Hl|]. specialize (IH ys). destruct (fill_free s ys) as [r m]. cbn [fst snd] in *.
      destruct Hl as [<-|Hl]; [left; reflexivity|right; apply IH; assumption].
Qed.

(* the new entries of fill_free come from ls, in order; an entry is old or new *)
Lemma fill_free_origin : forall s ls i l, nth_error (fst (fill_free s ls)) i = Some (Some l) ->
  nth_error s i = Some (Some l) \/ (nth_error s i = Some None /\ In l ls).
Proof.
  induction s as [|a s IH]; intros ls i l H; [cbn in H; destruct i; discriminate|].
  destruct a as [x|]; cbn [fill_free] in H.
  - specialize (IH ls). destruct (fill_free s ls) as [r m]. cbn [fst] in *. destruct i; [left; exact H|]. cbn in *.
    destruct (IH i l H) as [H1|(H1 & H2)]; auto.
  - destruct ls as [|y ys]; [left; exact H|]. specialize (IH ys). destruct (fill_free s ys) as [r m]. cbn [fst] in *.
    destruct i; [cbn in H; inversion H; subst; right; cbn; auto|]. cbn in *.
    destruct (IH i l H) as [H1|(H1 & H2)]; auto.
Qed.

(* two different free slots receive different elements of a duplicate-free list *)
Lemma fill_free_new_inj : forall s ls i j l, NoDup ls ->
  nth_error s i = Some None -> nth_error s j = Some None ->
  nth_error (fst (fill_free s ls)) i = Some (Some l) -> nth_error (fst (fill_free s ls)) j = Some (Some l) -> i = j.
Proof.
  induction s as [|a s IH]; intros ls i j l Hnd Hi Hj Fi Fj; [destruct i; discriminate|].
  destruct a as [x|]; cbn [fill_free] in Fi, Fj.
  - specialize (IH ls). destruct (fill_free s ls) as [r m]. cbn [fst] in *.
    destruct i; [discriminate|]. destruct j; [discriminate|]. cbn in *. f_equal. eapply IH; eauto.
  - destruct ls as [|y ys]; [cbn [fst] in Fi; rewrite Hi in Fi; discriminate|]. inversion Hnd as [|? ? Hy Hys]; subst.
    pose proof (fill_free_origin s ys) as Ho. specialize (IH ys). destruct (fill_free s ys) as [r m]. cbn [fst] in *.
    destruct i as [|i], j as [|j]; cbn in *; auto.
    + inversion Fi; subst. exfalso. destruct (Ho j l Fj) as [H1|(_ & H2)]; [congruence|contradiction].
    + inversion Fj; subst. exfalso. destruct (Ho i l Fi) as [H1|(_ & H2)]; [congruence|contradiction].
    + f_equal. eapply IH; eauto.
Qed.

Lemma nth_some_iff {A} (l : list (option A)) i x : nth_error l i = Some (Some x) <-> nth i l None = Some x.
Proof.
  revert i. induction l as [|a l IH]; intros i; destruct i; cbn; try (split; discriminate).
  - split; intros H; [inversion H; reflexivity|congruence].
  - apply IH.
Qed.

Lemma fold_place_index {E} what (dirf : E -> Z) (pairf : E -> link) : forall es init res,
  foldM (fun sl e => place what sl (dirf e) (pairf e)) es init = Ok res ->
  forall e, In e es -> exists i, py_index (Z.of_nat (length init)) (dirf e) = Ok i.
Proof.
  induction es as [|x es IH]; intros init res H e He; [destruct He|]. cbn [foldM] in H. inv_bind H.
  destruct (place_inv _ _ _ _ _ E0) as (k & Hk & _ & ->). destruct He as [<-|He]; [eauto|].
  destruct (IH _ _ H e He) as (i & Hi). rewrite update_nth_length in Hi. eauto.
Qed.

Section RouterSlots.
  Variables (d : desc) (g : graph) (rt : node) (rid : option idv) (r : crt).
  Hypothesis Hcr : compile_router d g rt rid = Ok r.
  Let ins := filter is_link (edges_to g (n_name rt)).

  (* every link edge into the router sits in one of its input slots *)
  Theorem in_complete : forall e, In e ins -> In (Some (epair e)) (cr_in r).
  Proof.
    unfold compile_router in Hcr. cbv zeta in Hcr. fold ins in Hcr.
    match type of Hcr with (if ?c then _ else _) = _ => destruct c; [discriminate|] end.
    inv_bind Hcr.
    set (nd_in := map (fun e => (e_src e, e_dst e)) (filter (fun e => negb (is_some (e_dst_dir e))) ins)) in *.
    destruct (fold_place_spec (fun e : edge => opt_default 0 (e_dst_dir e)) (fun e => (e_src e, e_dst e)) _ _ _ _ E) as (L1 & _ & K2 & _).
    pose proof (fold_place_index _ _ _ _ _ _ E) as Hidx.
    pose proof (fill_free_keeps a nd_in) as Hkeep. pose proof (fill_free_placed a nd_in) as Hpl.
    destruct (fill_free a nd_in) as [inc li]. destruct (fill_free a0 a1) as [out lo]. cbn [fst snd] in *.
    destruct li; [|discriminate]. destruct lo; [|discriminate]. inversion Hcr; subst r; cbn [cr_in]. clear Hcr.
    intros e He. destruct (is_some (e_dst_dir e)) eqn:Ed.
    - assert (Hin : In e (filter (fun e => is_some (e_dst_dir e)) ins)) by (apply filter_In; auto).
      destruct (Hidx e Hin) as (i & Hi).
      assert (Hn : nth i a None = Some (e_src e, e_dst e)) by (apply K2; exists e; auto).
      apply nth_some_iff in Hn. eapply nth_error_In. apply Hkeep. exact Hn.
    - apply (Hpl eq_refl). unfold nd_in. apply in_map_iff. exists e. split; [reflexivity|]. apply filter_In. rewrite Ed. auto.
  Qed.

  (* and in only one, when the graph has one edge per (source, destination) *)
  Theorem in_unique : NoDup (map epair ins) ->
    forall i j l, nth_error (cr_in r) i = Some (Some l) -> nth_error (cr_in r) j = Some (Some l) -> i = j.
  Proof.
    intros Hnd. unfold compile_router in Hcr. cbv zeta in Hcr. fold ins in Hcr.
    match type of Hcr with (if ?c then _ else _) = _ => destruct c; [discriminate|] end.
    inv_bind Hcr.
    set (dir_in := filter (fun e => is_some (e_dst_dir e)) ins) in *.
    set (nds := filter (fun e => negb (is_some (e_dst_dir e))) ins) in *.
    set (nd_in := map (fun e => (e_src e, e_dst e)) nds) in *.
    destruct (fold_place_spec (fun e : edge => opt_default 0 (e_dst_dir e)) (fun e => (e_src e, e_dst e)) _ _ _ _ E) as (L1 & _ & _ & K3).
    pose proof (fill_free_origin a nd_in) as Hor. pose proof (fill_free_new_inj a nd_in) as Hinj.
    destruct (fill_free a nd_in) as [inc li]. destruct (fill_free a0 a1) as [out lo]. cbn [fst snd] in *.
    destruct li; [|discriminate]. destruct lo; [|discriminate]. inversion Hcr; subst r; cbn [cr_in]. clear Hcr.
    assert (Hndn : NoDup nd_in) by (apply (NoDup_map_filter epair _ ins Hnd)).
    set (init := repeat (@None link) _) in *.
    (* an old entry comes from a directed edge *)
    assert (Hold : forall i l, nth_error a i = Some (Some l) ->
              exists e, In e dir_in /\ epair e = l /\ py_index (Z.of_nat (length init)) (opt_default 0 (e_dst_dir e)) = Ok i).
    { intros i l Hi. apply nth_some_iff in Hi. destruct (K3 i l Hi) as [Hn|(e & He & Hp & Hl)].
      - unfold init in Hn. rewrite nth_repeat_none in Hn. discriminate.
      - exists e. auto. }
    assert (Hnone : forall i l, nth_error a i = Some None -> ~ (nth_error a i = Some (Some l))) by (intros; congruence).
    intros i j l Hi Hj.
    destruct (Hor i l Hi) as [Oi|(Ni & Li)]; destruct (Hor j l Hj) as [Oj|(Nj & Lj)].
    - destruct (Hold i l Oi) as (e1 & He1 & P1 & I1). destruct (Hold j l Oj) as (e2 & He2 & P2 & I2).
      assert (e1 = e2).
      { eapply (NoDup_map_eq epair ins); [exact Hnd| | |congruence]; [apply filter_In in He1|apply filter_In in He2]; tauto. }
      subst e2. congruence.
    - exfalso. destruct (Hold i l Oi) as (e1 & He1 & P1 & _). unfold nd_in in Lj. apply in_map_iff in Lj.
      destruct Lj as (e2 & P2 & He2). apply filter_In in He1. apply filter_In in He2.
      assert (e1 = e2) by (eapply (NoDup_map_eq epair ins); [exact Hnd| | |unfold epair in *; congruence]; tauto).
      subst e2. destruct He1 as (_ & A1). destruct He2 as (_ & A2). rewrite A1 in A2. discriminate.
    - exfalso. destruct (Hold j l Oj) as (e1 & He1 & P1 & _). unfold nd_in in Li. apply in_map_iff in Li.
      destruct Li as (e2 & P2 & He2). apply filter_In in He1. apply filter_In in He2.
      assert (e1 = e2) by (eapply (NoDup_map_eq epair ins); [exact Hnd| | |unfold epair in *; congruence]; tauto).
      subst e2. destruct He1 as (_ & A1). destruct He2 as (_ & A2). rewrite A1 in A2. discriminate.
    - eapply Hinj; eauto.
  Qed.
End RouterSlots.

(* ------------------------------------------------------------------ lists with one contributor *)
Lemma flat_map_all_nil {A B} (f : A -> list B) L : (forall x, In x L -> f x = []) -> flat_map f L = [].
Proof. induction L as [|a L IH]; intros H; [reflexivity|]. cbn. rewrite (H a (or_introl eq_refl)). cbn. apply IH. intros x Hx. apply H. right. exact Hx. Qed.

Lemma flat_map_unique {A B} (f : A -> list B) L x0 y :
  NoDup L -> In x0 L -> f x0 = [y] -> (forall x, In x L -> x <> x0 -> f x = []) -> flat_map f L = [y].
Proof.
  induction L as [|a L IH]; intros Hnd Hin Hf Hrest; [destruct Hin|]. inversion Hnd as [|? ? Ha Hnd']; subst. cbn.
  destruct Hin as [->|Hin].
  - rewrite Hf. cbn. f_equal. apply flat_map_all_nil. intros x Hx. apply Hrest; [right; exact Hx|].
    intros ->. contradiction.
  - rewrite (Hrest a (or_introl eq_refl)) by (intros ->; contradiction). cbn.
    apply IH; auto. intros x Hx Hne. apply Hrest; [right; exact Hx|exact Hne].
Qed.

Lemma enumerate_from_nodup {A} (l : list A) : forall k, NoDup (enumerate_from k l).
Proof.
  induction l as [|x xs IH]; intros k; cbn; [constructor|]. constructor; [|apply IH].
  intros Hin. apply enumerate_from_snd_lt in Hin. cbn in Hin. lia.
Qed.

(* ------------------------------------------------------------------ one driver and one reader per link signal *)
From FV Require Import RouteMap Hw Check CheckProofs HwProofs.

Lemma Forall2_paired_fwd l m k a : Forall2 paired l m -> nth_error l k = Some (Some a) -> nth_error m k = Some (Some (rev_link a)).
Proof.
  intros H. revert k. induction H as [|x y l m Hxy _ IH]; intros [|k] Hk; cbn in *; try discriminate.
  - inversion Hk; subst. destruct y; cbn in Hxy; [subst; reflexivity|contradiction].
  - apply IH. exact Hk.
Qed.

Section ModelWire.
  Variables (d : desc) (g : graph) (c : compiled) (ri : rinfo) (n : netlist).
  Variable nt : net.
  Hypothesis Hnt : net_ok d nt.
  Hypothesis Hb : build d = Ok g.
  Hypothesis Hc : compile d g = Ok c.
  Hypothesis He : emit c ri = Ok n.
  (* side conditions on the description's graph, all decidable *)
  (* signal names determine their links (fails only for node names that contain "_to_") *)
  Hypothesis Hsep : forall l1 l2, is_link_of g l1 -> is_link_of g l2 -> flow nt l1 = flow nt l2 -> l1 = l2.
  (* every interface has exactly one link in each direction *)
  Hypothesis Hsingle : forall x e, In x (c_nis c) -> In e (g_edges g) -> is_link e = true ->
    (e_src e = cn_name x -> epair e = cn_mgr_link x) /\ (e_dst e = cn_name x -> epair e = cn_sbr_link x).
  (* links join interfaces and routers only *)
  Hypothesis Htyped : forall u v, is_link_of g (u, v) ->
    (is_router c u \/ exists x, In x (c_nis c) /\ cn_name x = u) /\ (is_router c v \/ exists x, In x (c_nis c) /\ cn_name x = v).

  Let Hnd : NoDup (map cr_name (c_rts c)) := built_router_names_nodup d g c Hb Hc.
  Let Hcd : c_desc c = d := proj1 (compile_desc d g c Hc).
  Let Hcg : c_graph c = g := proj2 (compile_desc d g c Hc).

  Lemma link_sym u v : is_link_of g (u, v) -> is_link_of g (v, u).
  Proof.
    intros (e & Hin & Hl & Hs & Hd'). cbn in Hs, Hd'. destruct (build_ginv d g Hb) as (Hsym & _).
    destruct (Hsym e Hin Hl) as (e' & He' & M1 & M2 & M3 & _). exists e'. cbn. repeat split; auto; congruence.
  Qed.

  (* the router a compiled router record came from, and its incoming link edges *)
  Lemma crt_origin r : In r (c_rts c) ->
    exists rt rid, compile_router d g rt rid = Ok r /\ n_name rt = cr_name r.
  Proof.
    intros Hr. destruct (compile_inv _ _ _ Hc) as (dirs & nis & rts & rids & _ & Hrts & Hceq). rewrite Hceq in Hr. cbn in Hr.
    destruct (mapM_In _ _ _ _ Hrts Hr) as (p & _ & Hq). cbv beta in Hq. exists (fst p), (snd p). split; [exact Hq|].
    destruct (compile_router_in_ends _ _ _ _ _ Hq) as (-> & _). reflexivity.
  Qed.

  Lemma ins_nodup nm : NoDup (map epair (filter is_link (edges_to g nm))).
  Proof.
    apply NoDup_map_filter. unfold edges_to. apply NoDup_map_filter.
    apply edges_view_nodup; [exact (build_edges_nodup d g Hb)|exact (build_nodup d g Hb)].
  Qed.

  Lemma link_in_ins u v : is_link_of g (u, v) -> exists e, In e (filter is_link (edges_to g v)) /\ epair e = (u, v).
  Proof.
    intros (e & Hin & Hl & Hs & Hd'). cbn in Hs, Hd'. exists e. split; [|unfold epair; congruence].
    apply filter_In. split; [|exact Hl]. unfold edges_to. apply filter_In. split.
    - apply (edges_view_In g e (proj2 (build_ginv d g Hb))). exact Hin.
    - apply str_eqb_eq. exact Hd'.
  Qed.

  (* slot of a link at the router it enters / leaves *)
  Lemma in_slot_of r u : In r (c_rts c) -> is_link_of g (u, cr_name r) ->
    exists i, nth_error (cr_in r) i = Some (Some (u, cr_name r)) /\
              forall j, nth_error (cr_in r) j = Some (Some (u, cr_name r)) -> j = i.
  Proof.
    intros Hr Hl. destruct (crt_origin r Hr) as (rt & rid & Hq & Hn).
    destruct (link_in_ins _ _ Hl) as (e & He' & Hp). rewrite <- Hn in He'.
    pose proof (in_complete d g rt rid r Hq e He') as Hin. rewrite Hp in Hin.
    apply In_nth_error in Hin. destruct Hin as (i & Hi). exists i. split; [exact Hi|].
    intros j Hj. eapply (in_unique d g rt rid r Hq (ins_nodup (n_name rt))); eauto.
  Qed.

  Lemma out_slot_of r v : In r (c_rts c) -> is_link_of g (cr_name r, v) ->
    exists k, nth_error (cr_out r) k = Some (Some (cr_name r, v)) /\
              forall j, nth_error (cr_out r) j = Some (Some (cr_name r, v)) -> j = k.
  Proof.
    intros Hr Hl. destruct (in_slot_of r v Hr (link_sym _ _ Hl)) as (k & Hk & Hu). exists k.
    destruct (crt_facts d g c Hb Hc r Hr) as (Hp & _). split.
    - apply (Forall2_paired_fwd _ _ _ _ Hp) in Hk. exact Hk.
    - intros j Hj. apply Hu. destruct (crt_out_link d g c Hb Hc r j _ _ Hr Hj) as (_ & Hin & _). exact Hin.
  Qed.

  (* what the slots of the emitted instance carry, both directions *)
  Lemma out_slot_bwd r x k sl s : In r (c_rts c) -> emit_rt (c_desc c) ri r = Ok x ->
    nth_error (rt_outs nt x) k = Some sl -> In s sl ->
    exists l, nth_error (cr_out r) k = Some (Some l) /\ sl = [flow nt l].
  Proof.
    intros Hr Hx Hk Hs. destruct (emitted_rt c ri n He Hnd r Hr) as (x' & Hx' & _ & _ & O1 & _ & O2 & _ & O3 & _).
    rewrite Hx in Hx'. inversion Hx'; subst x'. destruct (crt_facts d g c Hb Hc r Hr) as (Hp & _).
    destruct Hnt as [-> | [-> | (-> & Hnw)]]; cbn [rt_outs] in Hk.
    - rewrite O1 in Hk. unfold out_sig in Hk. rewrite nth_error_map in Hk.
      destruct (nth_error (cr_out r) k) as [o|]; [|discriminate]. cbn in Hk. inversion Hk; subst sl.
      destruct o as [l|]; [|destruct Hs]. exists l. auto.
    - rewrite O2 in Hk. unfold out_sig in Hk. rewrite nth_error_map in Hk.
      destruct (nth_error (cr_in r) k) as [o|] eqn:Eo; [|discriminate]. cbn in Hk. inversion Hk; subst sl.
      destruct o as [l|]; [|destruct Hs]. exists (rev_link l). split; [apply (Forall2_paired_fwd _ _ _ _ Hp Eo)|].
      destruct l; reflexivity.
    - rewrite O3, Hcd, Hnw in Hk. unfold out_sig in Hk. rewrite nth_error_map in Hk.
      destruct (nth_error (cr_out r) k) as [o|]; [|discriminate]. cbn in Hk. inversion Hk; subst sl.
      destruct o as [l|]; [|destruct Hs]. exists l. auto.
  Qed.

  Lemma in_slot_fwd r x i l : In r (c_rts c) -> emit_rt (c_desc c) ri r = Ok x ->
    nth_error (cr_in r) i = Some (Some l) -> nth_error (rt_ins nt x) i = Some [SSig (flow nt l)].
  Proof.
    intros Hr Hx Hi. destruct (emitted_rt c ri n He Hnd r Hr) as (x' & Hx' & _ & _ & _ & I1 & _ & I2 & _ & I3).
    rewrite Hx in Hx'. inversion Hx'; subst x'. destruct (crt_facts d g c Hb Hc r Hr) as (Hp & _).
    destruct Hnt as [-> | [-> | (-> & Hnw)]]; cbn [rt_ins].
    - rewrite I1. unfold in_src. rewrite nth_error_map, Hi. reflexivity.
    - rewrite I2. unfold in_src. rewrite nth_error_map, (Forall2_paired_fwd _ _ _ _ Hp Hi). destruct l; reflexivity.
    - rewrite I3, Hcd, Hnw. unfold in_src. rewrite nth_error_map, Hi. reflexivity.
  Qed.

  Lemma rts_nodup : NoDup (n_rts n).
  Proof.
    destruct (emit_inv _ _ _ He) as (_ & axi & rts & _ & Hrts & Hn). rewrite Hn. cbn [n_rts].
    assert (Hkeys : map r_name rts = map cr_name (c_rts c)).
    { apply mapM_Forall2 in Hrts. clear -Hrts. induction Hrts as [|a b l l' Hab _ IH]; cbn; [reflexivity|].
      rewrite IH. f_equal. unfold emit_rt in Hab. cbv zeta in Hab. inv_bind Hab. inversion Hab; subst. reflexivity. }
    apply (NoDup_of_map r_name). rewrite Hkeys. exact Hnd.
  Qed.

  Lemma nis_nodup : NoDup (map cn_name (c_nis c)).
  Proof.
    destruct (compile_inv _ _ _ Hc) as (dirs & nis & rts & rids & Hn & _ & Hceq). rewrite Hceq. cbn.
    assert (Hmap : forall l l', Forall2 (fun ni x => compile_ni d g ni = Ok x) l l' -> map cn_name l' = map n_name l).
    { intros l l' HF. induction HF as [|a b l l' Hab _ IH]; cbn; [reflexivity|]. rewrite IH. f_equal.
      apply (compile_ni_spec _ _ _ _ Hab). }
    rewrite (Hmap _ _ (mapM_Forall2 _ _ _ Hn)). unfold nodes_of_type. apply NoDup_map_filter. exact (build_nodup d g Hb).
  Qed.

  Lemma rt_instance x : In x (n_rts n) -> exists r, In r (c_rts c) /\ emit_rt (c_desc c) ri r = Ok x /\ r_name x = cr_name r.
  Proof.
    intros Hx. destruct (emit_inv _ _ _ He) as (_ & axi & rts & _ & Hrts & Hn). rewrite Hn in Hx. cbn [n_rts] in Hx.
    destruct (mapM_In _ _ _ _ Hrts Hx) as (r & Hr & Hq). exists r. split; [exact Hr|]. split; [exact Hq|].
    destruct (emitted_rt c ri n He Hnd r Hr) as (x' & Hx' & _ & Hn' & _). rewrite Hq in Hx'. inversion Hx'; subst x'. exact Hn'.
  Qed.

  (* an output slot that carries the signal of link (u,v) is the slot of that link at router u *)
  Lemma rt_slot_hit r x k sl u v : In r (c_rts c) -> emit_rt (c_desc c) ri r = Ok x -> is_link_of g (u, v) ->
    nth_error (rt_outs nt x) k = Some sl -> existsb (str_eqb (flow nt (u, v))) sl = true ->
    nth_error (cr_out r) k = Some (Some (u, v)) /\ sl = [flow nt (u, v)] /\ cr_name r = u.
  Proof.
    intros Hr Hx Hl Hk Hhit. apply existsb_exists in Hhit. destruct Hhit as (z & Hz & Hs). apply str_eqb_eq in Hs. subst z.
    destruct (out_slot_bwd r x k sl _ Hr Hx Hk Hz) as ([a b] & Hout & ->).
    destruct Hz as [Hz|[]]. destruct (crt_out_link d g c Hb Hc r k a b Hr Hout) as (Ha & _ & Hlab).
    assert (E : (a, b) = (u, v)) by (apply Hsep; auto). injection E as Ea Eb. rewrite Ea, Eb in *.
    split; [exact Hout|]. split; [reflexivity|congruence].
  Qed.

  Lemma in_slot_hit r x i sl u v : In r (c_rts c) -> emit_rt (c_desc c) ri r = Ok x -> is_link_of g (u, v) ->
    nth_error (rt_ins nt x) i = Some sl -> existsb (src_is (flow nt (u, v))) sl = true ->
    nth_error (cr_in r) i = Some (Some (u, v)) /\ sl = [SSig (flow nt (u, v))] /\ cr_name r = v.
  Proof.
    intros Hr Hx Hl Hi Hhit. apply existsb_exists in Hhit. destruct Hhit as (z & Hz & Hs). destruct z as [z|]; [|discriminate].
    cbn in Hs. apply str_eqb_eq in Hs. subst z.
    destruct (in_slot d g c ri n nt Hnt Hb Hc He r x i sl _ Hr Hx Hi Hz) as ([a b] & Hin & Hfl).
    destruct (crt_facts d g c Hb Hc r Hr) as (_ & Hends & Hlinks).
    pose proof (Hlinks (a, b) (nth_error_In _ _ Hin)) as Hlab. pose proof (Hends (a, b) (nth_error_In _ _ Hin)) as Hbn. cbn in Hbn.
    assert (E : (u, v) = (a, b)) by (apply Hsep; auto). injection E as Ea Eb. rewrite <- Ea, <- Eb in *.
    split; [exact Hin|]. split; [|congruence]. rewrite (in_slot_fwd r x i (u, v) Hr Hx Hin) in Hi. inversion Hi. reflexivity.
  Qed.

  Lemma nis_inst_nodup : NoDup (n_nis n).
  Proof.
    rewrite (emitted_nis c ri n He). apply (NoDup_of_map ni_name). rewrite map_map. cbn [emit_ni ni_name]. exact nis_nodup.
  Qed.

  Lemma ni_out_inst x : In x (c_nis c) -> ni_out nt (emit_ni (c_desc c) (ri_offset ri) x) = Some (flow nt (attach nt x)).
  Proof. intros Hx. rewrite Hcd. apply (attach_link d g c ri nt Hnt Hb Hc x Hx). Qed.

  (* what interface x reads on net nt *)
  Definition attach_in (x : cni) : link := match nt with Rsp => rev_link (cn_mgr_link x) | _ => cn_sbr_link x end.
  Lemma ni_in_inst x : In x (c_nis c) ->
    ni_in nt (emit_ni (c_desc c) (ri_offset ri) x) = Some (flow nt (attach_in x)) /\
    snd (attach_in x) = cn_name x /\ is_link_of g (attach_in x).
  Proof.
    intros Hx. destruct (compile_ni_links d g c Hc x Hx) as (M1 & M2 & S1 & S2). unfold attach_in.
    destruct Hnt as [-> | [-> | (-> & Hnw)]]; cbn [ni_in emit_ni ni_req_i ni_rsp_i ni_wide_i];
      [| |rewrite Hcd, Hnw; split; [reflexivity|]; split; [exact S1|exact S2]].
    - split; [reflexivity|]. split; [exact S1|exact S2].
    - split; [destruct (cn_mgr_link x); reflexivity|]. split; [destruct (cn_mgr_link x); exact M1|].
      destruct (cn_mgr_link x) as [a b]. apply link_sym. exact M2.
  Qed.

  (* the attachment of an interface is the link that touches it *)
  Lemma attach_of_link x u v : In x (c_nis c) -> is_link_of g (u, v) -> cn_name x = u -> attach nt x = (u, v).
  Proof.
    intros Hx Hl Hu. unfold attach.
    assert (Hreq : cn_mgr_link x = (u, v)).
    { destruct Hl as (e & Hin & Hle & Hs & Hd'). cbn in Hs, Hd'.
      destruct (Hsingle x e Hx Hin Hle) as (H1 & _). rewrite <- (H1 ltac:(congruence)). unfold epair. congruence. }
    destruct Hnt as [-> | [-> | (-> & Hnw)]]; [exact Hreq| |exact Hreq].
    destruct (link_sym _ _ Hl) as (e & Hin & Hle & Hs & Hd'). cbn in Hs, Hd'.
    destruct (Hsingle x e Hx Hin Hle) as (_ & H2). rewrite <- (H2 ltac:(congruence)). unfold epair, rev_link. cbn. congruence.
  Qed.
  Lemma attach_in_of_link x u v : In x (c_nis c) -> is_link_of g (u, v) -> cn_name x = v -> attach_in x = (u, v).
  Proof.
    intros Hx Hl Hv. unfold attach_in.
    assert (Hreq : cn_sbr_link x = (u, v)).
    { destruct Hl as (e & Hin & Hle & Hs & Hd'). cbn in Hs, Hd'.
      destruct (Hsingle x e Hx Hin Hle) as (_ & H2). rewrite <- (H2 ltac:(congruence)). unfold epair. congruence. }
    destruct Hnt as [-> | [-> | (-> & Hnw)]]; [exact Hreq| |exact Hreq].
    destruct (link_sym _ _ Hl) as (e & Hin & Hle & Hs & Hd'). cbn in Hs, Hd'.
    destruct (Hsingle x e Hx Hin Hle) as (H1 & _). rewrite <- (H1 ltac:(congruence)). unfold epair, rev_link. cbn. congruence.
  Qed.

  Theorem drivers_single u v : is_link_of g (u, v) ->
    exists dd, drivers n nt (flow nt (u, v)) = [dd] /\ uref_name dd = u.
  Proof.
    intros Hl. set (s := flow nt (u, v)). unfold drivers.
    destruct (proj1 (Htyped u v Hl)) as [(r & Hr & Hru)|(xu & Hxu & Hxn)].
    - (* u is a router *)
      destruct (emitted_rt c ri n He Hnd r Hr) as (x & Hx & Hfind & Hname & _).
      assert (Hxin : In x (n_rts n)) by (apply find_some in Hfind; tauto).
      rewrite <- Hru in Hl. destruct (out_slot_of r v Hr Hl) as (k0 & Hk0 & Huniq). rewrite Hru in Hl, Hk0, Huniq.
      exists (URt (r_name x) k0). split; [|cbn; congruence].
      rewrite (flat_map_all_nil _ (n_nis n)).
      + cbn [app]. apply (flat_map_unique _ (n_rts n) x); [exact rts_nodup|exact Hxin| |].
        * unfold slot_refs.
          apply (flat_map_unique _ (enumerate (rt_outs nt x)) (k0, [s])); [apply enumerate_from_nodup| | |].
          -- apply enumerate_nth. apply (out_slot d g c ri n nt Hnt Hb Hc He r x k0 (u, v) Hr Hx Hk0).
          -- cbn [fst snd existsb]. rewrite (proj2 (str_eqb_eq s s) eq_refl). reflexivity.
          -- intros [k sl] Hin Hne. cbn [fst snd]. destruct (existsb (str_eqb s) sl) eqn:Eh; [|reflexivity].
             exfalso. apply enumerate_nth in Hin. destruct (rt_slot_hit r x k sl u v Hr Hx Hl Hin Eh) as (Hk & -> & _).
             apply Hne. rewrite (Huniq k Hk). reflexivity.
        * intros x' Hx' Hne. unfold slot_refs. apply flat_map_all_nil. intros [k sl] Hin. cbn [fst snd].
          destruct (existsb (str_eqb s) sl) eqn:Eh; [|reflexivity]. exfalso. apply enumerate_nth in Hin.
          destruct (rt_instance x' Hx') as (r' & Hr' & Hq' & _).
          destruct (rt_slot_hit r' x' k sl u v Hr' Hq' Hl Hin Eh) as (_ & _ & Hn').
          assert (r' = r) by (eapply NoDup_map_eq; [exact Hnd|exact Hr'|exact Hr|congruence]). subst r'.
          apply Hne. congruence.
      + intros y Hy. rewrite (emitted_nis c ri n He) in Hy. apply in_map_iff in Hy. destruct Hy as (x' & <- & Hx').
        rewrite (ni_out_inst x' Hx'). unfold opt_is. destruct (str_eqb s (flow nt (attach nt x'))) eqn:Eh; [|reflexivity].
        exfalso. apply str_eqb_eq in Eh. destruct (attach_link d g c ri nt Hnt Hb Hc x' Hx') as (Hf & Hla & _).
        assert (E : (u, v) = attach nt x') by (apply Hsep; auto). rewrite <- E in Hf. cbn in Hf.
        apply (ni_rt_disjoint d g c Hb Hc x' r Hx' Hr). congruence.
    - (* u is an interface *)
      exists (UNi (cn_name xu)). split; [|exact Hxn].
      rewrite (flat_map_all_nil _ (n_rts n)).
      + rewrite app_nil_r. apply (flat_map_unique _ (n_nis n) (emit_ni (c_desc c) (ri_offset ri) xu)); [exact nis_inst_nodup| | |].
        * rewrite (emitted_nis c ri n He). apply in_map. exact Hxu.
        * rewrite (ni_out_inst xu Hxu), (attach_of_link xu u v Hxu Hl Hxn). unfold opt_is. fold s.
          rewrite (proj2 (str_eqb_eq s s) eq_refl). reflexivity.
        * intros y Hy Hne. rewrite (emitted_nis c ri n He) in Hy. apply in_map_iff in Hy. destruct Hy as (x' & <- & Hx').
          rewrite (ni_out_inst x' Hx'). unfold opt_is. destruct (str_eqb s (flow nt (attach nt x'))) eqn:Eh; [|reflexivity].
          exfalso. apply str_eqb_eq in Eh. destruct (attach_link d g c ri nt Hnt Hb Hc x' Hx') as (Hf & Hla & _).
          assert (E : (u, v) = attach nt x') by (apply Hsep; auto). rewrite <- E in Hf. cbn in Hf.
          assert (x' = xu) by (eapply NoDup_map_eq; [exact nis_nodup|exact Hx'|exact Hxu|congruence]). subst x'. apply Hne. reflexivity.
      + intros x' Hx'. unfold slot_refs. apply flat_map_all_nil. intros [k sl] Hin. cbn [fst snd].
        destruct (existsb (str_eqb s) sl) eqn:Eh; [|reflexivity]. exfalso. apply enumerate_nth in Hin.
        destruct (rt_instance x' Hx') as (r' & Hr' & Hq' & _).
        destruct (rt_slot_hit r' x' k sl u v Hr' Hq' Hl Hin Eh) as (_ & _ & Hn').
        apply (ni_rt_disjoint d g c Hb Hc xu r' Hxu Hr'). congruence.
  Qed.

  Theorem readers_single u v : is_link_of g (u, v) ->
    exists rr, readers n nt (flow nt (u, v)) = [rr] /\ uref_name rr = v.
  Proof.
    intros Hl. set (s := flow nt (u, v)). unfold readers.
    destruct (proj2 (Htyped u v Hl)) as [(r & Hr & Hrv)|(xv & Hxv & Hxn)].
    - (* v is a router *)
      destruct (emitted_rt c ri n He Hnd r Hr) as (x & Hx & Hfind & Hname & _).
      assert (Hxin : In x (n_rts n)) by (apply find_some in Hfind; tauto).
      rewrite <- Hrv in Hl. destruct (in_slot_of r u Hr Hl) as (i0 & Hi0 & Huniq). rewrite Hrv in Hl, Hi0, Huniq.
      exists (URt (r_name x) i0). split; [|cbn; congruence].
      rewrite (flat_map_all_nil _ (n_nis n)).
      + cbn [app]. apply (flat_map_unique _ (n_rts n) x); [exact rts_nodup|exact Hxin| |].
        * unfold slot_refs.
          apply (flat_map_unique _ (enumerate (rt_ins nt x)) (i0, [SSig s])); [apply enumerate_from_nodup| | |].
          -- apply enumerate_nth. apply (in_slot_fwd r x i0 (u, v) Hr Hx Hi0).
          -- cbn [fst snd existsb src_is]. rewrite (proj2 (str_eqb_eq s s) eq_refl). reflexivity.
          -- intros [k sl] Hin Hne. cbn [fst snd]. destruct (existsb (src_is s) sl) eqn:Eh; [|reflexivity].
             exfalso. apply enumerate_nth in Hin. destruct (in_slot_hit r x k sl u v Hr Hx Hl Hin Eh) as (Hk & -> & _).
             apply Hne. rewrite (Huniq k Hk). reflexivity.
        * intros x' Hx' Hne. unfold slot_refs. apply flat_map_all_nil. intros [k sl] Hin. cbn [fst snd].
          destruct (existsb (src_is s) sl) eqn:Eh; [|reflexivity]. exfalso. apply enumerate_nth in Hin.
          destruct (rt_instance x' Hx') as (r' & Hr' & Hq' & _).
          destruct (in_slot_hit r' x' k sl u v Hr' Hq' Hl Hin Eh) as (_ & _ & Hn').
          assert (r' = r) by (eapply NoDup_map_eq; [exact Hnd|exact Hr'|exact Hr|congruence]). subst r'.
          apply Hne. congruence.
      + intros y Hy. rewrite (emitted_nis c ri n He) in Hy. apply in_map_iff in Hy. destruct Hy as (x' & <- & Hx').
        destruct (ni_in_inst x' Hx') as (Hni & Hsn & Hla). rewrite Hni. unfold opt_is.
        destruct (str_eqb s (flow nt (attach_in x'))) eqn:Eh; [|reflexivity].
        exfalso. apply str_eqb_eq in Eh.
        assert (E : (u, v) = attach_in x') by (apply Hsep; auto). rewrite <- E in Hsn. cbn in Hsn.
        apply (ni_rt_disjoint d g c Hb Hc x' r Hx' Hr). congruence.
    - (* v is an interface *)
      exists (UNi (cn_name xv)). split; [|exact Hxn].
      rewrite (flat_map_all_nil _ (n_rts n)).
      + rewrite app_nil_r. apply (flat_map_unique _ (n_nis n) (emit_ni (c_desc c) (ri_offset ri) xv)); [exact nis_inst_nodup| | |].
        * rewrite (emitted_nis c ri n He). apply in_map. exact Hxv.
        * destruct (ni_in_inst xv Hxv) as (Hni & _ & _). rewrite Hni, (attach_in_of_link xv u v Hxv Hl Hxn). unfold opt_is. fold s.
          rewrite (proj2 (str_eqb_eq s s) eq_refl). reflexivity.
        * intros y Hy Hne. rewrite (emitted_nis c ri n He) in Hy. apply in_map_iff in Hy. destruct Hy as (x' & <- & Hx').
          destruct (ni_in_inst x' Hx') as (Hni & Hsn & Hla). rewrite Hni. unfold opt_is.
          destruct (str_eqb s (flow nt (attach_in x'))) eqn:Eh; [|reflexivity].
          exfalso. apply str_eqb_eq in Eh.
          assert (E : (u, v) = attach_in x') by (apply Hsep; auto). rewrite <- E in Hsn. cbn in Hsn.
          assert (x' = xv) by (eapply NoDup_map_eq; [exact nis_nodup|exact Hx'|exact Hxv|congruence]). subst x'. apply Hne. reflexivity.
      + intros x' Hx'. unfold slot_refs. apply flat_map_all_nil. intros [k sl] Hin. cbn [fst snd].
        destruct (existsb (src_is s) sl) eqn:Eh; [|reflexivity]. exfalso. apply enumerate_nth in Hin.
        destruct (rt_instance x' Hx') as (r' & Hr' & Hq' & _).
        destruct (in_slot_hit r' x' k sl u v Hr' Hq' Hl Hin Eh) as (_ & _ & Hn').
        apply (ni_rt_disjoint d g c Hb Hc xv r' Hxv Hr'). congruence.
  Qed.

  (* C05, second half, for the request / response signals: every declared signal of net nt has exactly one
     driver and one reader, and its name is <driver>_to_<reader>_<net> *)
  Theorem model_signal_ok : forall l, In l (n_links n) -> fst l = net_type nt -> signal_ok n l.
  Proof.
    intros [ty sname] Hin Hty. cbn in Hty. subst ty.
    destruct (emit_inv _ _ _ He) as (_ & axi & rts & _ & _ & Hn). rewrite Hn in Hin. cbn [n_links] in Hin.
    unfold emit_links in Hin. apply in_flat_map in Hin. destruct Hin as (e & Hein & Hl).
    apply filter_In in Hein. destruct Hein as (Hev & Hle). rewrite Hcg in Hev. apply edges_view_sub in Hev.
    assert (Hlk : is_link_of g (e_src e, e_dst e)) by (exists e; cbn; auto).
    (* which of the declarations of this edge it is *)
    assert (Hcase : exists u v, is_link_of g (u, v) /\ sname = flow nt (u, v)).
    { cbn in Hl. destruct Hnt as [-> | [-> | (-> & Hnw)]]; cbn [net_type] in Hl.
      - destruct Hl as [Hl|[Hl|Hl]]; [inversion Hl; exists (e_src e), (e_dst e); auto|inversion Hl|].
        destruct (d_nw (c_desc c)); [destruct Hl as [Hl|[]]; inversion Hl|destruct Hl].
      - destruct Hl as [Hl|[Hl|Hl]]; [inversion Hl| |].
        + inversion Hl. exists (e_dst e), (e_src e). split; [apply link_sym; exact Hlk|reflexivity].
        + destruct (d_nw (c_desc c)); [destruct Hl as [Hl|[]]; inversion Hl|destruct Hl].
      - destruct Hl as [Hl|[Hl|Hl]]; [inversion Hl|inversion Hl|].
        destruct (d_nw (c_desc c)); [destruct Hl as [Hl|[]]; inversion Hl; exists (e_src e), (e_dst e); auto|destruct Hl]. }
    destruct Hcase as (u & v & Huv & ->).
    destruct (drivers_single u v Huv) as (dd & Hd & Hdn). destruct (readers_single u v Huv) as (rr & Hr & Hrn).
    exists nt, dd, rr. cbn [fst snd]. split; [apply net_of_type_nt|]. split; [exact Hd|]. split; [exact Hr|].
    rewrite Hdn, Hrn. reflexivity.
  Qed.
End ModelWire.

(* ------------------------------------------------------------------ the hardware-level theorems without the wiring check *)
From FV Require Import RefOracle.

Definition names_sep (g : graph) (nt : net) : Prop :=
  forall l1 l2, is_link_of g l1 -> is_link_of g l2 -> flow nt l1 = flow nt l2 -> l1 = l2.
Definition single_attach (g : graph) (c : compiled) : Prop :=
  forall x e, In x (c_nis c) -> In e (g_edges g) -> is_link e = true ->
    (e_src e = cn_name x -> epair e = cn_mgr_link x) /\ (e_dst e = cn_name x -> epair e = cn_sbr_link x).
Definition links_typed (g : graph) (c : compiled) : Prop :=
  forall u v, is_link_of g (u, v) ->
    (is_router c u \/ exists x, In x (c_nis c) /\ cn_name x = u) /\ (is_router c v \/ exists x, In x (c_nis c) /\ cn_name x = v).

Theorem hw_send_model (d : desc) (g : graph) (c : compiled) (ri : rinfo) (n : netlist) (t : cni) (id : Z) (nt : net) :
  net_ok d nt ->
  build d = Ok g -> compile d g = Ok c -> gen_routing_info sp_reference c = Ok ri -> emit c ri = Ok n ->
  d_algo d = ID -> In t (c_nis c) -> id_num (cn_id t) = Ok id ->
  (forall u p, is_router c u -> sp_reference g u (cn_name t) = Some p -> forall x, In x (removelast p) -> is_router c x) ->
  names_sep g nt -> single_attach g c -> links_typed g c ->
  (forall r, In r (c_rts c) -> Z.of_nat (length (cr_out r)) <= 2 ^ 32) ->
  forall s0 r0 p, In s0 (c_nis c) -> cn_name s0 <> cn_name t -> snd (attach nt s0) = r0 -> is_router c r0 ->
    sp_reference g r0 (cn_name t) = Some p ->
    let tr := send n nt (emit_ni d (ri_offset ri) s0) (HId id) in
    t_out tr = Delivered (cn_name t) (HId id) /\ S (length (t_rts tr)) = length p.
Proof.
  intros Hnt Hb Hc Hri He Ha Ht Hid Htr Hsep Hsingle Htyped Hdeg s0 r0 p.
  apply (hw_send sp_reference d g c ri n t id nt Hnt Hb Hc Hri He Ha Ht Hid
           (fun s p H => sp_ref_path g (cn_name t) s p H)
           (fun s p q H Hq => sp_ref_min g (cn_name t) s p q H Hq)
           (bound g)
           (fun s p H => sp_ref_bound g (cn_name t) s p H)
           (fun s q Hq Hl => sp_ref_complete g (cn_name t) s q Hq Hl) Htr
           (model_signal_ok d g c ri n nt Hnt Hb Hc He Hsep Hsingle Htyped) Hdeg).
Qed.

Theorem hw_src_send_model (d : desc) (g : graph) (c : compiled) (ri : rinfo) (n : netlist) (t : cni) (nt : net) :
  net_ok d nt ->
  build d = Ok g -> compile d g = Ok c -> gen_routing_info sp_reference c = Ok ri -> emit c ri = Ok n ->
  d_algo d = SRC -> In t (c_nis c) ->
  names_sep g nt -> single_attach g c -> links_typed g c ->
  forall s0 id ps p, In s0 (c_nis c) -> gen_route sp_reference c s0 t = Ok (id, Some ps) ->
    sp_reference g (cn_name s0) (cn_name t) = Some p -> snd (attach nt s0) = hd "" (tl p) ->
    let tr := send n nt (emit_ni d (ri_offset ri) s0) (hdr_of_word n (word_value ps)) in
    t_out tr = Delivered (cn_name t) (HRoute 0) /\ length (t_rts tr) = length ps /\ (2 + length ps = length p)%nat.
Proof.
  intros Hnt Hb Hc Hri He Ha Ht Hsep Hsingle Htyped s0 id ps p Hs0 Hgr Hsp Hatt.
  assert (Hcd : c_desc c = d) by apply (compile_desc d g c Hc).
  rewrite (hdr_of_word_fits sp_reference c ri n s0 t id ps ltac:(rewrite Hcd; exact Ha) Hri He Hs0 Ht Hgr).
  apply (hw_src_send sp_reference d g c ri n t nt Hnt Hb Hc He Ht
           (model_signal_ok d g c ri n nt Hnt Hb Hc He Hsep Hsingle Htyped) s0 id ps p Hs0 Hgr Hsp); [|exact Hatt].
  split; [exact (sp_ref_path g (cn_name t) _ _ Hsp)|]. intros q Hq. exact (sp_ref_min g (cn_name t) _ _ q Hsp Hq).
Qed.

(* ------------------------------------------------------------------ decidable forms of the side conditions *)
Lemma pair_eqb_eq a b : pair_eqb a b = true -> a = b.
Proof. destruct a, b. unfold pair_eqb. cbn. intros H. apply andb_true_iff in H. destruct H as (H1 & H2).
  apply str_eqb_eq in H1. apply str_eqb_eq in H2. congruence. Qed.

Lemma is_link_of_edge g l : is_link_of g l -> exists e, In e (link_edges g) /\ epair e = l.
Proof. intros (e & Hin & Hl & Hs & Hd). exists e. split; [apply filter_In; auto|]. destruct l. unfold epair. cbn in *. congruence. Qed.
Lemma names_sepb_ok g nt : names_sepb g nt = true -> names_sep g nt.
Proof.
  unfold names_sepb, names_sep. intros H l1 l2 H1 H2 Hf. rewrite forallb_forall in H.
  destruct (is_link_of_edge g l1 H1) as (e1 & He1 & <-). destruct (is_link_of_edge g l2 H2) as (e2 & He2 & <-).
  specialize (H e1 He1). rewrite forallb_forall in H. specialize (H e2 He2).
  apply orb_true_iff in H. destruct H as [H|H]; [|apply pair_eqb_eq; exact H].
  apply negb_true_iff in H. rewrite Hf in H. rewrite (proj2 (str_eqb_eq _ _) eq_refl) in H. discriminate.
Qed.

Lemma single_attachb_ok g c : single_attachb g c = true -> single_attach g c.
Proof.
  unfold single_attachb, single_attach. intros H x e Hx He Hl. rewrite forallb_forall in H. specialize (H x Hx).
  rewrite forallb_forall in H. specialize (H e ltac:(apply filter_In; auto)). apply andb_true_iff in H. destruct H as (H1 & H2).
  split; intros Heq.
  - apply orb_true_iff in H1. destruct H1 as [H1|H1]; [|apply pair_eqb_eq; exact H1].
    apply negb_true_iff in H1. rewrite Heq, (proj2 (str_eqb_eq _ _) eq_refl) in H1. discriminate.
  - apply orb_true_iff in H2. destruct H2 as [H2|H2]; [|apply pair_eqb_eq; exact H2].
    apply negb_true_iff in H2. rewrite Heq, (proj2 (str_eqb_eq _ _) eq_refl) in H2. discriminate.
Qed.

Lemma is_unitb_ok c u : is_unitb c u = true -> is_router c u \/ exists x, In x (c_nis c) /\ cn_name x = u.
Proof.
  unfold is_unitb, is_rtb. intros H. apply orb_true_iff in H. destruct H as [H|H]; apply existsb_exists in H; destruct H as (y & Hy & Hn); apply str_eqb_eq in Hn.
  - left. exists y. auto.
  - right. exists y. auto.
Qed.
Lemma links_typedb_ok g c : links_typedb g c = true -> links_typed g c.
Proof.
  unfold links_typedb, links_typed. intros H u v Hl. rewrite forallb_forall in H.
  destruct (is_link_of_edge g (u, v) Hl) as (e & He & Hp). specialize (H e He). apply andb_true_iff in H. destruct H as (H1 & H2).
  unfold epair in Hp. inversion Hp; subst. split; apply is_unitb_ok; assumption.
Qed.

Lemma degrees_fitb_ok c : degrees_fitb c = true -> forall r, In r (c_rts c) -> Z.of_nat (length (cr_out r)) <= 2 ^ 32.
Proof. unfold degrees_fitb. intros H r Hr. rewrite forallb_forall in H. specialize (H r Hr). lia. Qed.

Lemma is_rtb_ok c u : is_rtb c u = true -> is_router c u.
Proof. unfold is_rtb. intros H. apply existsb_exists in H. destruct H as (r & Hr & Hn). apply str_eqb_eq in Hn. exists r. auto. Qed.

Lemma transitb_ok sp c t : transitb sp c t = true ->
  forall u p, is_router c u -> sp (c_graph c) u (cn_name t) = Some p -> forall x, In x (removelast p) -> is_router c x.
Proof.
  unfold transitb. intros H u p (r & Hr & <-) Hsp x Hx. rewrite forallb_forall in H. specialize (H r Hr).
  rewrite Hsp in H. rewrite forallb_forall in H. specialize (H x Hx). unfold is_routerb in H.
  apply existsb_exists in H. destruct H as (r' & Hr' & Hn). apply str_eqb_eq in Hn. exists r'. auto.
Qed.

(* the hardware-level theorems with every hypothesis in decidable form *)
Theorem hw_send_decidable (d : desc) (g : graph) (c : compiled) (ri : rinfo) (n : netlist) (t : cni) (id : Z) (nt : net) :
  net_ok d nt ->
  build d = Ok g -> compile d g = Ok c -> gen_routing_info sp_reference c = Ok ri -> emit c ri = Ok n ->
  d_algo d = ID -> In t (c_nis c) -> id_num (cn_id t) = Ok id ->
  transitb sp_reference c t = true ->
  names_sepb g nt = true -> single_attachb g c = true -> links_typedb g c = true -> degrees_fitb c = true ->
  forall s0 p, In s0 (c_nis c) -> cn_name s0 <> cn_name t -> is_rtb c (snd (attach nt s0)) = true ->
    sp_reference g (snd (attach nt s0)) (cn_name t) = Some p ->
    let tr := send n nt (emit_ni d (ri_offset ri) s0) (HId id) in
    t_out tr = Delivered (cn_name t) (HId id) /\ S (length (t_rts tr)) = length p.
Proof.
  intros Hnt Hb Hc Hri He Ha Ht Hid Htr H1 H2 H3 H4 s0 p Hs0 Hne Hrt Hsp.
  assert (Hcg : c_graph c = g) by apply (compile_desc d g c Hc).
  apply (hw_send_model d g c ri n t id nt Hnt Hb Hc Hri He Ha Ht Hid
           (fun u p0 Hu Hp0 => transitb_ok sp_reference c t Htr u p0 Hu (eq_ind_r (fun gg => sp_reference gg u (cn_name t) = Some p0) Hp0 Hcg))
           (names_sepb_ok g nt H1) (single_attachb_ok g c H2) (links_typedb_ok g c H3) (degrees_fitb_ok c H4)
           s0 (snd (attach nt s0)) p Hs0 Hne eq_refl (is_rtb_ok c _ Hrt) Hsp).
Qed.

(* ------------------------------------------------------------------ C06: a named direction is the port *)
Lemma py_index_nonneg len k : 0 <= k < len -> py_index len k = Ok (Z.to_nat k).
Proof. intros H. unfold py_index. destruct ((0 <=? k) && (k <? len)) eqn:E; [reflexivity|lia]. Qed.

Section DirectedSlots.
  Variables (d : desc) (g : graph) (rt : node) (rid : option idv) (r : crt).
  Hypothesis Hcr : compile_router d g rt rid = Ok r.

  (* a link that names a (non-negative) direction at this router sits on exactly that input / output port *)
  Theorem dir_in_slot e k : In e (filter is_link (edges_to g (n_name rt))) -> e_dst_dir e = Some k -> 0 <= k ->
    nth_error (cr_in r) (Z.to_nat k) = Some (Some (epair e)).
  Proof.
    intros He Hk Hk0. unfold compile_router in Hcr. cbv zeta in Hcr.
    set (ins := filter is_link (edges_to g (n_name rt))) in *.
    match type of Hcr with (if ?c then _ else _) = _ => destruct c; [discriminate|] end.
    inv_bind Hcr.
    destruct (fold_place_spec (fun e : Graph.edge => opt_default 0 (e_dst_dir e)) (fun e => (e_src e, e_dst e)) _ _ _ _ E) as (L1 & _ & K2 & _).
    assert (Hin : In e (filter (fun e => is_some (e_dst_dir e)) ins)) by (apply filter_In; rewrite Hk; auto).
    destruct (fold_place_index _ _ _ _ _ _ E e Hin) as (i & Hi).
    assert (Hi' : i = Z.to_nat k).
    { rewrite Hk in Hi. cbn [opt_default] in Hi. unfold py_index in Hi.
      destruct ((0 <=? k) && (k <? _)) eqn:A; [inversion Hi; reflexivity|].
      destruct ((k <? 0) && _) eqn:B; [lia|discriminate]. }
    subst i.
    assert (Hn : nth (Z.to_nat k) a None = Some (e_src e, e_dst e)) by (apply K2; exists e; auto).
    apply nth_some_iff in Hn.
    pose proof (fill_free_keeps a (map (fun e => (e_src e, e_dst e)) (filter (fun e => negb (is_some (e_dst_dir e))) ins)) _ _ Hn) as Hkeep.
    destruct (fill_free a _) as [inc li]. destruct (fill_free a0 a1) as [out lo]. cbn [fst] in Hkeep.
    destruct li; [|discriminate]. destruct lo; [|discriminate]. inversion Hcr; subst r; cbn [cr_in]. exact Hkeep.
  Qed.

  Theorem dir_out_slot e k : In e (filter is_link (edges_from g (n_name rt))) -> e_src_dir e = Some k -> 0 <= k ->
    nth_error (cr_out r) (Z.to_nat k) = Some (Some (epair e)).
  Proof.
    intros He Hk Hk0. unfold compile_router in Hcr. cbv zeta in Hcr.
    set (outs := filter is_link (edges_from g (n_name rt))) in *.
    match type of Hcr with (if ?c then _ else _) = _ => destruct c; [discriminate|] end.
    inv_bind Hcr.
    destruct (fold_place_spec (fun e : Graph.edge => opt_default 0 (e_src_dir e)) (fun e => (e_src e, e_dst e)) _ _ _ _ E0) as (L1 & _ & K2 & _).
    assert (Hin : In e (filter (fun e => is_some (e_src_dir e)) outs)) by (apply filter_In; rewrite Hk; auto).
    destruct (fold_place_index _ _ _ _ _ _ E0 e Hin) as (i & Hi).
    assert (Hi' : i = Z.to_nat k).
    { rewrite Hk in Hi. cbn [opt_default] in Hi. unfold py_index in Hi.
      destruct ((0 <=? k) && (k <? _)) eqn:A; [inversion Hi; reflexivity|].
      destruct ((k <? 0) && _) eqn:B; [lia|discriminate]. }
    subst i.
    assert (Hn : nth (Z.to_nat k) a0 None = Some (e_src e, e_dst e)) by (apply K2; exists e; auto).
    apply nth_some_iff in Hn.
    pose proof (fill_free_keeps a0 a1 _ _ Hn) as Hkeep.
    destruct (fill_free a _) as [inc li]. destruct (fill_free a0 a1) as [out lo]. cbn [fst] in Hkeep.
    destruct li; [|discriminate]. destruct lo; [|discriminate]. inversion Hcr; subst r; cbn [cr_out]. exact Hkeep.
  Qed.
End DirectedSlots.

(* ------------------------------------------------------------------ single attachment is a consequence of acceptance *)
Theorem compile_single_attach d g c : build d = Ok g -> compile d g = Ok c -> single_attach g c.
Proof.
  intros Hb Hc x e Hx He Hl. unfold epair. exact (compile_ni_single d g c Hb Hc x e Hx He Hl).
Qed.

Lemma pair_eqb_refl a : pair_eqb a a = true.
Proof. destruct a. unfold pair_eqb. cbn. rewrite !(proj2 (str_eqb_eq _ _) eq_refl). reflexivity. Qed.

Theorem single_attachb_holds d g c : build d = Ok g -> compile d g = Ok c -> single_attachb g c = true.
Proof.
  intros Hb Hc. pose proof (compile_single_attach d g c Hb Hc) as Hs. unfold single_attachb.
  apply forallb_forall. intros x Hx. apply forallb_forall. intros e He. unfold link_edges in He. apply filter_In in He.
  destruct He as (He & Hl). destruct (Hs x e Hx He Hl) as (S1 & S2). apply andb_true_iff. split.
  - destruct (str_eqb (e_src e) (cn_name x)) eqn:Eq; [|reflexivity]. apply str_eqb_eq in Eq. rewrite (S1 Eq). cbn. apply pair_eqb_refl.
  - destruct (str_eqb (e_dst e) (cn_name x)) eqn:Eq; [|reflexivity]. apply str_eqb_eq in Eq. rewrite (S2 Eq). cbn. apply pair_eqb_refl.
Qed.

(* ------------------------------------------------------------------ signal names determine their links: a consequence of acceptance *)
Theorem compile_names_sep d g c nt : compile d g = Ok c -> names_sep g nt.
Proof.
  unfold compile. intros H. inv_bind H.
  match goal with E : (if nodupb str_eqb (map _ (filter is_link (g_edges g))) then _ else _) = Ok _ |- _ =>
    destruct (nodupb str_eqb (map (fun e => e_src e +++ "_to_" +++ e_dst e) (filter is_link (g_edges g)))) eqn:N; [|discriminate E] end.
  apply nodupb_str in N. intros l1 l2 (e1 & H1 & L1 & S1 & D1) (e2 & H2 & L2 & S2 & D2) Hf.
  assert (Hb : (fun e => e_src e +++ "_to_" +++ e_dst e) e1 = (fun e => e_src e +++ "_to_" +++ e_dst e) e2).
  { cbv beta. unfold flow in Hf. rewrite <- S1, <- D1, <- S2, <- D2 in Hf.
    apply (sapp_inj_r ("_" +++ net_name nt)).
    rewrite !sapp_assoc'. exact Hf. }
  assert (e1 = e2).
  { eapply (NoDup_map_eq (fun e => e_src e +++ "_to_" +++ e_dst e)); [exact N| | |exact Hb]; apply filter_In; split; assumption. }
  subst e2. destruct l1, l2. cbn in *. congruence.
Qed.

Theorem names_sepb_holds d g c nt : compile d g = Ok c -> names_sepb g nt = true.
Proof.
  intros Hc. pose proof (compile_names_sep d g c nt Hc) as Hs. unfold names_sepb.
  apply forallb_forall. intros e1 H1. apply forallb_forall. intros e2 H2.
  destruct (str_eqb (flow nt (epair e1)) (flow nt (epair e2))) eqn:Eq; [|reflexivity]. cbn [negb orb].
  apply str_eqb_eq in Eq. unfold link_edges in H1, H2. apply filter_In in H1, H2.
  assert (A : is_link_of g (epair e1)) by (exists e1; unfold epair; cbn; tauto).
  assert (B : is_link_of g (epair e2)) by (exists e2; unfold epair; cbn; tauto).
  rewrite (Hs _ _ A B Eq). apply pair_eqb_refl.
Qed.
