(* HwStep.v — one step of Hw.walk on the emitted netlist, for any routing decision: if the emitted router
   selects output port k, slot k of the compiled router holds the link to nxt, the port is not the input port
   and the turn is not masked, then the walk continues at the unique reader of that link's signal -- the
   interface nxt, or the input slot of router nxt that holds this link. *)
From FV Require Import Base AddrRange RouteMap Graph Desc Build Netlist Compile Routing Emit Hw Side
     ModelBase BuildProofs Check CheckProofs ModelProofs IdProofs HwProofs.
From Coq Require Import ZifyBool.

Section Step.
  Variables (d : desc) (g : graph) (c : compiled) (ri : rinfo) (n : netlist).
  Variable nt : net.
  Hypothesis Hnt : net_ok d nt.
  Hypothesis Hb : build d = Ok g.
  Hypothesis Hc : compile d g = Ok c.
  Hypothesis He : emit c ri = Ok n.
  Hypothesis Hwire : forall l, In l (n_links n) -> fst l = net_type nt -> signal_ok n l.
  Let Hnd : NoDup (map cr_name (c_rts c)) := built_router_names_nodup d g c Hb Hc.
  Let Hcd : c_desc c = d := proj1 (compile_desc d g c Hc).

  (* who reads the signal of link (u, v), once its driver is known to be named u *)
  Lemma reader_of_link u v dd : is_link_of g (u, v) -> In dd (drivers n nt (flow nt (u, v))) -> uref_name dd = u ->
    exists rr, readers n nt (flow nt (u, v)) = [rr] /\
      ((exists y, In y (c_nis c) /\ rr = UNi (cn_name y) /\ cn_name y = v) \/
       (exists r2 i, In r2 (c_rts c) /\ rr = URt (cr_name r2) i /\ cr_name r2 = v /\
                     nth_error (cr_in r2) i = Some (Some (u, v)))).
  Proof.
    intros Hl Hdin Hdn. set (s := flow nt (u, v)).
    pose proof (link_declared d g c ri n nt Hnt Hb Hc He u v Hl) as Hdecl. fold s in Hdecl.
    destruct (Hwire _ Hdecl eq_refl) as (nt' & d0 & rr & Hnt' & Hdrv & Hrd & Hnm); cbn [fst snd] in Hnt', Hdrv, Hrd, Hnm.
    assert (nt' = nt) by (rewrite net_of_type_nt in Hnt'; congruence); subst nt'.
    fold s in Hdin. rewrite Hdrv in Hdin. destruct Hdin as [<-|[]]. rewrite Hdn in Hnm.
    assert (Hu : v = uref_name rr) by (apply (flow_dst nt u); exact Hnm).
    exists rr. split; [exact Hrd|].
    assert (Hcase := reader_cases_nt n nt s rr); rewrite Hrd in Hcase; specialize (Hcase (or_introl eq_refl)).
    destruct Hcase as [(y & Hy & -> & _)|(x2 & i & sl & Hx2 & -> & Hsl & Hs)].
    - left. cbn [uref_name] in Hu. rewrite (emitted_nis c ri n He) in Hy. apply in_map_iff in Hy.
      destruct Hy as (x' & <- & Hx'). exists x'. cbn [emit_ni ni_name] in *. auto.
    - right. cbn [uref_name] in Hu. destruct (rt_of_instance c ri n He x2 Hx2) as (r2 & Hr2 & Hq2).
      destruct (emitted_rt c ri n He Hnd r2 Hr2) as (x2' & Hx2' & _ & Hn2 & _). rewrite Hq2 in Hx2'. inversion Hx2'; subst x2'.
      destruct (in_slot d g c ri n nt Hnt Hb Hc He r2 x2 i sl s Hr2 Hq2 Hsl Hs) as ([a0 b0] & Eo & Hs').
      destruct (crt_facts d g c Hb Hc r2 Hr2) as (_ & Hends2 & _).
      pose proof (Hends2 (a0, b0) (nth_error_In _ _ Eo)) as Hb2. cbn in Hb2.
      assert (Hbn : b0 = v) by congruence. rewrite Hbn in Hs', Eo.
      assert (a0 = u) by (symmetry; apply (flow_src nt u v a0); exact Hs'). subst a0.
      exists r2, i. rewrite Hn2. repeat split; auto. congruence.
  Qed.

  Theorem hw_step r x inp h k h' nxt fuel rts sigs :
    In r (c_rts c) -> emit_rt (c_desc c) ri r = Ok x -> select n x h = Ok (Z.of_nat k, h') ->
    nth_error (cr_out r) k = Some (Some (cr_name r, nxt)) -> inp <> k ->
    is_xy h && xy_masked (Z.of_nat inp) (Z.of_nat k) = false ->
    exists u, walk (S fuel) n nt (URt (cr_name r) inp) h rts sigs =
              walk fuel n nt u h' (cr_name r :: rts) (flow nt (cr_name r, nxt) :: sigs) /\
      ((exists y, In y (c_nis c) /\ u = UNi (cn_name y) /\ cn_name y = nxt) \/
       (exists r2 i, In r2 (c_rts c) /\ u = URt (cr_name r2) i /\ cr_name r2 = nxt /\
                     nth_error (cr_in r2) i = Some (Some (cr_name r, nxt)))).
  Proof.
    intros Hr Hx Hsel Hk Hne Hmask.
    destruct (emitted_rt c ri n He Hnd r Hr) as (x' & Hx' & Hfind & Hname & _). rewrite Hx in Hx'. inversion Hx'; subst x'.
    destruct (crt_out_link d g c Hb Hc r k (cr_name r) nxt Hr Hk) as (_ & _ & Hlink).
    pose proof (out_slot d g c ri n nt Hnt Hb Hc He r x k _ Hr Hx Hk) as Hslot.
    assert (Hxin : In x (n_rts n)) by (apply find_some in Hfind; tauto).
    pose proof (driver_rt_nt n nt x k _ Hxin Hslot) as Hdrv. rewrite Hname in Hdrv.
    destruct (reader_of_link (cr_name r) nxt _ Hlink Hdrv eq_refl) as (u & Hrd & Hcases).
    exists u. split; [|exact Hcases].
    cbn [walk]. rewrite Hfind, Hsel.
    destruct (Z.of_nat k <? 0) eqn:Eneg; [lia|].
    destruct (Z.of_nat inp =? Z.of_nat k) eqn:Eeq; [lia|].
    rewrite Hmask. rewrite Nat2Z.id, Hslot. cbv beta iota. unfold Hw.follow. rewrite Hrd. reflexivity.
  Qed.
  (* ---- the steps at which the walk stops ---- *)
  Lemma out_slot_empty r x k : In r (c_rts c) -> emit_rt (c_desc c) ri r = Ok x ->
    nth_error (cr_out r) k = Some None -> nth_error (rt_outs nt x) k = Some [].
  Proof.
    intros Hr Hx Hk. destruct (emitted_rt c ri n He Hnd r Hr) as (x' & Hx' & _ & _ & O1 & _ & O2 & _ & O3 & _).
    rewrite Hx in Hx'. inversion Hx'; subst x'.
    pose proof (C05_model d g c Hb Hc r Hr) as Hp.
    assert (Hin : nth_error (cr_in r) k = Some None).
    { clear -Hp Hk. revert k Hk. induction Hp as [|a b l l' Hab _ IH]; intros [|k] Hk; cbn in *; try discriminate.
      - inversion Hk; subst b. destruct a; [contradiction|reflexivity].
      - apply IH. exact Hk. }
    destruct Hnt as [-> | [-> | (-> & Hnw)]]; cbn [rt_outs].
    - rewrite O1. unfold out_sig. rewrite nth_error_map, Hk. reflexivity.
    - rewrite O2. unfold out_sig. rewrite nth_error_map, Hin. reflexivity.
    - rewrite O3, Hcd, Hnw. unfold out_sig. rewrite nth_error_map, Hk. reflexivity.
  Qed.
  Lemma out_slot_none r x k : In r (c_rts c) -> emit_rt (c_desc c) ri r = Ok x ->
    nth_error (cr_out r) k = None -> nth_error (rt_outs nt x) k = None.
  Proof.
    intros Hr Hx Hk. destruct (emitted_rt c ri n He Hnd r Hr) as (x' & Hx' & _ & _ & O1 & _ & O2 & _ & O3 & _).
    rewrite Hx in Hx'. inversion Hx'; subst x'.
    pose proof (C05_model d g c Hb Hc r Hr) as Hp.
    assert (Hlen : length (cr_in r) = length (cr_out r)) by (clear -Hp; induction Hp; cbn; congruence).
    apply nth_error_None in Hk.
    destruct Hnt as [-> | [-> | (-> & Hnw)]]; cbn [rt_outs]; apply nth_error_None.
    - rewrite O1. unfold out_sig. rewrite map_length. exact Hk.
    - rewrite O2. unfold out_sig. rewrite map_length. lia.
    - rewrite O3, Hcd, Hnw. unfold out_sig. rewrite map_length. exact Hk.
  Qed.

  Theorem hw_stop r x inp h k h' fuel rts sigs :
    In r (c_rts c) -> emit_rt (c_desc c) ri r = Ok x -> select n x h = Ok (Z.of_nat k, h') ->
    classify (t_out (walk (S fuel) n nt (URt (cr_name r) inp) h rts sigs)) =
      if Nat.eqb inp k then XLoop
      else if is_xy h && xy_masked (Z.of_nat inp) (Z.of_nat k) then XTurn
      else match nth_error (cr_out r) k with
           | Some (Some _) => classify (t_out (walk (S fuel) n nt (URt (cr_name r) inp) h rts sigs))
           | _ => XOpen
           end.
  Proof.
    intros Hr Hx Hsel.
    destruct (emitted_rt c ri n He Hnd r Hr) as (x' & Hx' & Hfind & Hname & _). rewrite Hx in Hx'. inversion Hx'; subst x'.
    destruct (Nat.eqb_spec inp k) as [->|Hne].
    - cbn [walk]. rewrite Hfind, Hsel. destruct (Z.of_nat k <? 0) eqn:Eneg; [lia|]. rewrite Z.eqb_refl. reflexivity.
    - destruct (is_xy h && xy_masked (Z.of_nat inp) (Z.of_nat k)) eqn:Em.
      + cbn [walk]. rewrite Hfind, Hsel. destruct (Z.of_nat k <? 0) eqn:Eneg; [lia|].
        destruct (Z.of_nat inp =? Z.of_nat k) eqn:Eeq; [lia|]. rewrite Em. reflexivity.
      + destruct (nth_error (cr_out r) k) as [[l|]|] eqn:Ek; [reflexivity| |].
        * cbn [walk]. rewrite Hfind, Hsel. destruct (Z.of_nat k <? 0) eqn:Eneg; [lia|].
          destruct (Z.of_nat inp =? Z.of_nat k) eqn:Eeq; [lia|]. rewrite Em, Nat2Z.id.
          rewrite (out_slot_empty r x k Hr Hx Ek). reflexivity.
        * cbn [walk]. rewrite Hfind, Hsel. destruct (Z.of_nat k <? 0) eqn:Eneg; [lia|].
          destruct (Z.of_nat inp =? Z.of_nat k) eqn:Eeq; [lia|]. rewrite Em, Nat2Z.id.
          rewrite (out_slot_none r x k Hr Hx Ek). reflexivity.
  Qed.
End Step.
