(* Build.v — model of Network.create_routers / create_endpoints / create_connections:
   description -> ordered graph.  Definitions only. *)
From FV Require Import Base AddrRange Graph Desc.

(* ---------------------------------------------------------------- routers *)
Definition create_router (g : graph) (r : rt_desc) : res graph :=
  match rt_array r, rt_tree r with
  | None, None =>
      add_node g {| n_name := rt_name r; n_type := NRouter; n_arr := None; n_lvl := None; n_desc := rt_name r |}
  | Some [m; n], None => add_nodes_as_array g (rt_name r) [m; n] NRouter (rt_name r) (rt_auto r)
  | None, Some tree => add_nodes_as_tree g (rt_name r) tree 0 (rt_name r) (rt_auto r)
  | _, _ => Err "Invalid router description"
  end.

(* ---------------------------------------------------------------- endpoints *)
(* get_ni_name: name.replace(ep.name, ep.name + "_ni") -- all occurrences *)
Fixpoint replace_all_fuel (fuel : nat) (pat rep s : string) : string :=
  match fuel with
  | O => s
  | S f =>
      match s with
      | EmptyString => EmptyString
      | String c r =>
          if String.prefix pat s && negb (str_eqb pat "")
          then rep +++ replace_all_fuel f pat rep (substring (String.length pat) (String.length s - String.length pat) s)
          else String c (replace_all_fuel f pat rep r)
      end
  end.
Definition ni_name_of (ep : string) (node : string) : string :=
  replace_all_fuel (S (String.length node)) ep (ep +++ "_ni") node.

Definition prot_edge (u v : string) : edge :=
  {| e_src := u; e_dst := v; e_type := EProt; e_has_dirs := false; e_src_dir := None; e_dst_dir := None |}.

Definition ep_indices (arr : list Z) : list (list Z) :=
  match arr with
  | [n] => map (fun i => [i]) (zrange0 n)
  | [m; n] => flat_map (fun i => map (fun j => [i; j]) (zrange0 n)) (zrange0 m)
  | _ => []
  end.

Definition create_endpoint (g : graph) (e : ep_desc) : res graph :=
  let nm := ep_name e in
  let nin := nm +++ "_ni" in
  match ep_array e with
  | None =>
      do g <- add_node g {| n_name := nm; n_type := NEndpoint; n_arr := None; n_lvl := None; n_desc := nm |};
      do g <- add_node g {| n_name := nin; n_type := NNi; n_arr := None; n_lvl := None; n_desc := nm |};
      do g <- (if ep_is_sbr e then add_edge g (prot_edge nin nm) else Ok g);
      if ep_is_mgr e then add_edge g (prot_edge nm nin) else Ok g
  | Some arr =>
      do g <- add_nodes_as_array g nm arr NEndpoint nm false;
      do g <- add_nodes_as_array g nin arr NNi nm false;
      (* get_nodes_from_range over the full array: row-major; existence is guaranteed *)
      let idxs := ep_indices arr in
      do g <- (if ep_is_sbr e
               then foldM (fun g i => add_edge g (prot_edge (full_name nin i) (full_name nm i))) idxs g else Ok g);
      if ep_is_mgr e
      then foldM (fun g i => add_edge g (prot_edge (full_name nm i) (full_name nin i))) idxs g else Ok g
  end.

(* ---------------------------------------------------------------- connections *)
Definition select_nodes (g : graph) (name : string) (idx : option (list Z)) (rng : option (list (Z * Z)))
           (lvl : option Z) : res (list string) :=
  match idx, rng, lvl with
  | None, None, None => Ok [name]
  | Some i, None, None => nodes_from_idx (has_node g) name i
  | None, Some r, None => nodes_from_range (has_node g) name r
  | None, None, Some l => nodes_from_lvl g name l
  | _, _, _ => Err "idx, range and lvl are mutually exclusive"
  end.

(* get_ni_of_ep: self.graph.is_ep_node(ep) raises KeyError for an unknown node *)
Definition ni_of_ep (g : graph) (d : desc) (n : string) : res string :=
  match find_node g n with
  | None => Err ("KeyError: " +++ n)
  | Some nd =>
      match n_type nd with
      | NEndpoint => Ok (ni_name_of (n_desc nd) n)
      | _ => Ok n
      end
  end.

Definition pair_up (srcs dsts : list string) (multi : bool) : res (list (string * string)) :=
  let ns := Z.of_nat (length srcs) in
  let nd := Z.of_nat (length dsts) in
  if ns =? nd then Ok (zip srcs dsts)
  else if multi && (0 <? nd) && (ns mod nd =? 0) && (nd <? ns)
  then Ok (zip srcs (repeat_each (Z.to_nat (ns / nd)) dsts))
  else if multi && (0 <? ns) && (nd mod ns =? 0) && (ns <? nd)
  then Ok (zip (repeat_each (Z.to_nat (nd / ns)) srcs) dsts)
  else Err "srcs and dsts must have the same length or allow_multi and dividable lengths".

Definition create_connection (d : desc) (g : graph) (c : conn_desc) : res graph :=
  do srcs <- select_nodes g (c_src c) (c_src_idx c) (c_src_range c) (c_src_lvl c);
  do dsts <- select_nodes g (c_dst c) (c_dst_idx c) (c_dst_range c) (c_dst_lvl c);
  do srcs <- mapM (ni_of_ep g d) srcs;
  do dsts <- mapM (ni_of_ep g d) dsts;
  do pairs <- pair_up srcs dsts (c_multi c);
  foldM (fun g p =>
           do g <- add_edge g (mk_link (fst p) (snd p) (c_src_dir c) (c_dst_dir c));
           add_edge g (mk_link (snd p) (fst p) (c_dst_dir c) (c_src_dir c))) pairs g.

Definition build (d : desc) : res graph :=
  do g <- foldM create_router (d_rts d) g_empty;
  do g <- foldM create_endpoint (d_eps d) g;
  foldM (create_connection d) (d_conns d) g.

(* ---------------------------------------------------------------- wire format (debugging / correspondence) *)
Definition x_optZ (o : option Z) : sx := xO xZ o.
Definition x_node (n : node) : sx :=
  L [A (n_name n); A (match n_type n with NRouter => "router" | NEndpoint => "endpoint" | NNi => "network_interface" end);
     xO (xL xZ) (n_arr n); x_optZ (n_lvl n)].
Definition x_edge (e : edge) : sx :=
  L [A (e_src e); A (e_dst e); A (match e_type e with ELink => "link" | EProt => "protocol" end);
     x_optZ (e_src_dir e); x_optZ (e_dst_dir e)].
Definition x_graph (g : graph) : sx := L [xL x_node (g_nodes g); xL x_edge (edges_view g)].
