(* NxHw.v — the routing theorems for the oracle the generator really uses: Paths.sp_nx, the line-by-line mirror of
   networkx's bidirectional search, proved to meet the oracle contract (NxProofs.v).  The model run with sp_nx is the
   one whose netlists the harness compares, field by field, with floogen's; these theorems therefore speak about the
   very tables and route words that comparison pins down, not about another shortest-path choice. *)
From FV Require Import Base AddrRange RouteMap Graph Desc Build Netlist Compile Routing Emit Hw Side Check CheckProofs
     ModelBase BuildProofs ModelProofs IdProofs Paths PathProofs NxProofs HwProofs WireProofs.
From Coq Require Import ZifyBool.

Lemma ni_is_node d g c t : compile d g = Ok c -> In t (c_nis c) -> has_node g (cn_name t) = true.
Proof.
  intros Hc Ht. destruct (compile_inv _ _ _ Hc) as (dirs & nis & rts & rids & Hn & _ & Hceq). rewrite Hceq in Ht. cbn in Ht.
  destruct (mapM_In _ _ _ _ Hn Ht) as (ni & Hni & Hq). unfold compile_ni in Hq.
  destruct (find_ep d (n_desc ni)); [|discriminate]. inv_bind Hq. inversion Hq; subst t; clear Hq. cbn [cn_name].
  unfold nodes_of_type in Hni. apply filter_In in Hni. destruct Hni as (Hni & _).
  unfold has_node, find_node. destruct (find (fun x => str_eqb (n_name x) (n_name ni)) (g_nodes g)) eqn:F; [reflexivity|].
  pose proof (find_none _ _ F ni Hni) as X. cbv beta in X. rewrite (proj2 (str_eqb_eq _ _) eq_refl) in X. discriminate.
Qed.

Section NxContract.
  Variables (d : desc) (g : graph) (c : compiled) (t : cni).
  Hypothesis Hb : build d = Ok g.
  Hypothesis Hc : compile d g = Ok c.
  Hypothesis Ht : In t (c_nis c).
  Let ends := proj2 (build_ginv d g Hb).
  Let tn := ni_is_node d g c t Hc Ht.
  Definition nxB : nat := 2 * S (length (g_nodes g)).

  Lemma nx_path s p : sp_nx g s (cn_name t) = Some p -> path_to_t (E g) (cn_name t) p s.
  Proof. intros H. exact (proj1 (sp_nx_spec g ends (cn_name t) tn s p H)). Qed.
  Lemma nx_min s p q : sp_nx g s (cn_name t) = Some p -> path_to_t (E g) (cn_name t) q s -> (length p <= length q)%nat.
  Proof. intros H Hq. exact (proj1 (proj2 (sp_nx_spec g ends (cn_name t) tn s p H)) q Hq). Qed.
  Lemma nx_bound s p : sp_nx g s (cn_name t) = Some p -> (length p <= nxB)%nat.
  Proof. intros H. exact (proj2 (proj2 (sp_nx_spec g ends (cn_name t) tn s p H))). Qed.
  Lemma nx_complete s q : path_to_t (E g) (cn_name t) q s -> (length q <= nxB)%nat -> sp_nx g s (cn_name t) <> None.
  Proof. intros Hq _. exact (sp_nx_complete g ends (cn_name t) tn s q Hq). Qed.
End NxContract.

(* C02 / C14 on the hardware model, for the oracle the generator uses *)
Theorem hw_send_nx (d : desc) (g : graph) (c : compiled) (ri : rinfo) (n : netlist) (t : cni) (id : Z) (nt : net) :
  net_ok d nt ->
  build d = Ok g -> compile d g = Ok c -> gen_routing_info sp_nx c = Ok ri -> emit c ri = Ok n ->
  d_algo d = ID -> In t (c_nis c) -> id_num (cn_id t) = Ok id ->
  transitb sp_nx c t = true ->
  names_sepb g nt = true -> single_attachb g c = true -> links_typedb g c = true -> degrees_fitb c = true ->
  forall s0 p, In s0 (c_nis c) -> cn_name s0 <> cn_name t -> is_rtb c (snd (attach nt s0)) = true ->
    sp_nx g (snd (attach nt s0)) (cn_name t) = Some p ->
    let tr := send n nt (emit_ni d (ri_offset ri) s0) (HId id) in
    t_out tr = Delivered (cn_name t) (HId id) /\ S (length (t_rts tr)) = length p /\
    forall q, path_to_t (E g) (cn_name t) q (snd (attach nt s0)) -> (length p <= length q)%nat.
Proof.
  intros Hnt Hb Hc Hri He Ha Ht Hid Htr H1 H2 H3 H4 s0 p Hs0 Hne Hrt Hsp.
  assert (Hcg : c_graph c = g) by apply (compile_desc d g c Hc).
  destruct (hw_send sp_nx d g c ri n t id nt Hnt Hb Hc Hri He Ha Ht Hid
           (nx_path d g c t Hb Hc Ht) (nx_min d g c t Hb Hc Ht) (nxB g) (nx_bound d g c t Hb Hc Ht) (nx_complete d g c t Hb Hc Ht)
           (fun u p0 Hu Hp0 => transitb_ok sp_nx c t Htr u p0 Hu (eq_ind_r (fun gg => sp_nx gg u (cn_name t) = Some p0) Hp0 Hcg))
           (model_signal_ok d g c ri n nt Hnt Hb Hc He (names_sepb_ok g nt H1) (single_attachb_ok g c H2) (links_typedb_ok g c H3))
           (degrees_fitb_ok c H4)
           s0 (snd (attach nt s0)) p Hs0 Hne eq_refl (is_rtb_ok c _ Hrt) Hsp) as (A & B).
  split; [exact A|]. split; [exact B|]. intros q Hq. exact (nx_min d g c t Hb Hc Ht _ p q Hsp Hq).
Qed.

(* C03 on the hardware model, for the oracle the generator uses *)
Theorem hw_src_send_nx (d : desc) (g : graph) (c : compiled) (ri : rinfo) (n : netlist) (t : cni) (nt : net) :
  net_ok d nt ->
  build d = Ok g -> compile d g = Ok c -> gen_routing_info sp_nx c = Ok ri -> emit c ri = Ok n ->
  d_algo d = SRC -> In t (c_nis c) ->
  names_sepb g nt = true -> single_attachb g c = true -> links_typedb g c = true ->
  forall s0 id ps p, In s0 (c_nis c) -> gen_route sp_nx c s0 t = Ok (id, Some ps) ->
    sp_nx g (cn_name s0) (cn_name t) = Some p -> snd (attach nt s0) = hd "" (tl p) ->
    let tr := send n nt (emit_ni d (ri_offset ri) s0) (hdr_of_word n (word_value ps)) in
    t_out tr = Delivered (cn_name t) (HRoute 0) /\ length (t_rts tr) = length ps /\ (2 + length ps = length p)%nat /\
    forall q, path_to_t (E g) (cn_name t) q (cn_name s0) -> (length p <= length q)%nat.
Proof.
  intros Hnt Hb Hc Hri He Ha Ht H1 H2 H3 s0 id ps p Hs0 Hgr Hsp Hatt.
  assert (Hcd : c_desc c = d) by apply (compile_desc d g c Hc).
  rewrite (hdr_of_word_fits sp_nx c ri n s0 t id ps ltac:(rewrite Hcd; exact Ha) Hri He Hs0 Ht Hgr).
  destruct (hw_src_send sp_nx d g c ri n t nt Hnt Hb Hc He Ht
           (model_signal_ok d g c ri n nt Hnt Hb Hc He (names_sepb_ok g nt H1) (single_attachb_ok g c H2) (links_typedb_ok g c H3))
           s0 id ps p Hs0 Hgr Hsp
           (conj (nx_path d g c t Hb Hc Ht _ _ Hsp) (fun q Hq => nx_min d g c t Hb Hc Ht _ _ q Hsp Hq)) Hatt) as (A & B & C).
  repeat split; try assumption. intros q Hq. exact (nx_min d g c t Hb Hc Ht _ p q Hsp Hq).
Qed.

(* the model-level table walk, for the oracle the generator uses *)
Theorem id_tables_deliver_nx (d : desc) (g : graph) (c : compiled) (ri : rinfo) (t : cni) (id : Z) :
  build d = Ok g -> compile d g = Ok c ->
  d_algo (c_desc c) = ID -> gen_routing_info sp_nx c = Ok ri -> In t (c_nis c) -> id_num (cn_id t) = Ok id ->
  transitb sp_nx c t = true ->
  forall r p k, In r (c_rts c) -> sp_nx (c_graph c) (cr_name r) (cn_name t) = Some p -> length p = S k ->
    let v := cwalk k c ri (cn_name t) id (cr_name r) in
    length v = S k /\ last v (cr_name r) = cn_name t /\ NoDup v.
Proof.
  intros Hb Hc Ha Hri Ht Hid Htr.
  assert (Hcg : c_graph c = g) by apply (compile_desc d g c Hc). rewrite Hcg.
  pose proof (id_tables_deliver sp_nx c ri t id Ha Hri Ht Hid) as X. unfold g_edge in X. rewrite Hcg in X.
  apply (X (nx_path d g c t Hb Hc Ht) (nx_min d g c t Hb Hc Ht) (nxB g) ltac:(unfold nxB; lia) (nx_bound d g c t Hb Hc Ht) (nx_complete d g c t Hb Hc Ht)
           (built_router_names_nodup d g c Hb Hc)).
  intros u p0 Hu Hp0. apply (transitb_ok sp_nx c t Htr u p0 Hu). rewrite Hcg. exact Hp0.
Qed.
