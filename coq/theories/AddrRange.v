(* AddrRange.v — model of floogen/model/routing.py: class AddrRange
   (validate_input, pydantic field constraints, validate_output, set_idx). Definitions only. *)
From FV Require Import Base.

Record range := { r_start : Z; r_end : Z; r_size : Z; r_base : option Z; r_idx : option Z }.

(* validate_input: the five ordered mapping patterns of the `match addr_dict` statement.
   A mapping pattern matches when its keys are present (other keys may be present too);
   keys whose value is None were filtered out before. *)
Definition validate_input (s e z b i : option Z) : res (option Z * option Z * option Z) :=
  match z, b, i with
  | Some sz, Some ba, Some ix => Ok (Some (ba + sz * ix), Some (ba + sz * ix + sz), Some sz)
  | Some sz, Some ba, None => Ok (Some ba, Some (ba + sz), Some sz)
  | _, _, _ =>
      match s, e, z with
      | Some st, Some en, Some sz =>
          if en - st =? sz then Ok (s, e, z) else Err "Invalid address range specification"
      | Some st, Some en, None => Ok (s, e, Some (en - st))
      | Some st, None, Some sz => Ok (s, Some (st + sz), z)
      | _, _, _ => Err "Invalid address range specification"
      end
  end.

(* the whole constructor: before-validator, field validation (start, end, size required;
   start >= 0, end >= 0), after-validator (start < end) *)
Definition mk_range (s e z b i : option Z) : res range :=
  do t <- validate_input s e z b i;
  match t with
  | (Some st, Some en, Some sz) =>
      if st <? 0 then Err "start: greater_than_equal 0"
      else if en <? 0 then Err "end: greater_than_equal 0"
      else if en <=? st then Err "Address range start must be less than end"
      else Ok {| r_start := st; r_end := en; r_size := sz; r_base := b; r_idx := i |}
  | _ => Err "missing field"
  end.

(* set_idx: no re-validation *)
Definition set_idx (r : range) (k : Z) : res range :=
  match r_base r with
  | Some ba =>
      let st := ba + r_size r * k in
      Ok {| r_start := st; r_end := st + r_size r; r_size := r_size r;
            r_base := r_base r; r_idx := Some k |}
  | None => Err "Address range base not set"
  end.

(* ---- wire format *)
Definition range_to_sx (r : range) : sx :=
  L [xZ (r_start r); xZ (r_end r); xZ (r_size r); xO xZ (r_base r); xO xZ (r_idx r)].
Definition res_to_sx {T} (f : T -> sx) (r : res T) : sx :=
  match r with Ok v => L [A "ok"; f v] | Err _ => L [A "err"] end.

(* request: (c17 s e z b i) | (c17 s e z b i k) | (c17 s e z b i (k...) all), #n for absent *)
Definition handle_c17 (args : list sx) : res sx :=
  match args with
  | [s; e; z; b; i] =>
      do s <- sx_opt sx_Z s; do e <- sx_opt sx_Z e; do z <- sx_opt sx_Z z;
      do b <- sx_opt sx_Z b; do i <- sx_opt sx_Z i;
      Ok (res_to_sx range_to_sx (mk_range s e z b i))
  | [s; e; z; b; i; k] =>
      do s <- sx_opt sx_Z s; do e <- sx_opt sx_Z e; do z <- sx_opt sx_Z z;
      do b <- sx_opt sx_Z b; do i <- sx_opt sx_Z i; do k <- sx_Z k;
      Ok (res_to_sx range_to_sx (do r <- mk_range s e z b i; set_idx r k))
  | [s; e; z; b; i; L ks; A "all"] =>
      do s <- sx_opt sx_Z s; do e <- sx_opt sx_Z e; do z <- sx_opt sx_Z z;
      do b <- sx_opt sx_Z b; do i <- sx_opt sx_Z i; do ks <- mapM sx_Z ks;
      Ok (L (res_to_sx range_to_sx (mk_range s e z b i)
             :: map (fun k => res_to_sx range_to_sx (do r <- mk_range s e z b i; set_idx r k)) ks))
  | _ => Err "c17: bad arity"
  end.
