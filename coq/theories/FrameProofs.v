(* FrameProofs.v — the nodes of every built graph in closed form, and the XY frame of an auto-connected router
   array at the level of compiled port slots (C04 (i), C06, C07): router (i,j) carries identity (i,j), its compass
   port k holds the link to router (i,j) + step(k), and that router carries identity (i,j) + step(k). *)
From FV Require Import Base AddrRange Graph Desc Build Netlist Compile Routing Emit Hw Side ModelBase BuildProofs
     ModelProofs IdProofs ConnProofs HwProofs WireProofs.
From Coq Require Import ZifyBool.

(* ------------------------------------------------------------------ nodes in closed form *)
Lemma array_nodes_any g name m n t desc connect g' :
  add_nodes_as_array g name [m; n] t desc connect = Ok g' ->
  g_nodes g' = g_nodes g ++ map (mk_arr_node name t desc) (ep_indices [m; n]).
Proof.
  unfold add_nodes_as_array, ep_indices. rewrite <- pairs_lists.
  generalize (flat_map (fun i => map (fun j => (i, j)) (zrange0 n)) (zrange0 m)). intros l. revert g.
  induction l as [|[i j] l IH]; intros g H; cbn [foldM map] in *.
  - inversion H; subst. rewrite app_nil_r. reflexivity.
  - inv_bind H. rewrite (IH _ H). clear IH H. unfold add_array_node in E. inv_bind E.
    unfold add_node in E0. destruct (has_node g _); [discriminate|]. inversion E0; subst a0; clear E0.
    assert (N1 : g_nodes a1 = g_nodes g ++ [mk_arr_node name t desc [i; j]]).
    { destruct ((0 <? i) && connect); [|inversion E1; subst; reflexivity].
      inv_bind E1. apply add_edge_spec in E0. destruct E0 as (-> & _). apply add_edge_spec in E1. destruct E1 as (-> & _). reflexivity. }
    assert (N2 : g_nodes a = g_nodes a1).
    { destruct ((0 <? j) && connect); [|inversion E; subst; reflexivity].
      inv_bind E. apply add_edge_spec in E0. destruct E0 as (-> & _). apply add_edge_spec in E. destruct E as (-> & _). reflexivity. }
    rewrite N2, N1, <- app_assoc. reflexivity.
Qed.

Fixpoint tree_node_list (parent : string) (tree : list Z) (lvl : Z) (desc : string) : list node :=
  match tree with
  | [] => []
  | t :: rest =>
      flat_map (fun i => let nm := idx_name parent i in
                  {| n_name := nm; n_type := NRouter; n_arr := None; n_lvl := Some lvl; n_desc := desc |} ::
                  tree_node_list nm rest (lvl + 1) desc) (zrange0 t)
  end.

Lemma tree_nodes connect tree : forall g parent lvl desc g',
  add_nodes_as_tree g parent tree lvl desc connect = Ok g' -> g_nodes g' = g_nodes g ++ tree_node_list parent tree lvl desc.
Proof.
  induction tree as [|t rest IH]; intros g parent lvl desc g' H; cbn [add_nodes_as_tree tree_node_list] in *.
  - inversion H; subst. rewrite app_nil_r. reflexivity.
  - revert g H. generalize (zrange0 t). intros l. induction l as [|i l IHl]; intros g H; cbn [foldM flat_map] in *.
    + inversion H; subst. rewrite app_nil_r. reflexivity.
    + inv_bind H. rewrite (IHl _ H). clear IHl H. inv_bind E. apply IH in E. rewrite E. clear E.
      unfold add_node in E0. destruct (has_node g _); [discriminate|]. inversion E0; subst a0; clear E0.
      assert (N : g_nodes a1 = g_nodes g ++ [{| n_name := idx_name parent i; n_type := NRouter; n_arr := None; n_lvl := Some lvl; n_desc := desc |}]).
      { destruct (connect && (0 <? lvl)); [|inversion E1; subst; reflexivity].
        inv_bind E1. apply add_edge_spec in E. destruct E as (-> & _). apply add_edge_spec in E1. destruct E1 as (-> & _). reflexivity. }
      rewrite N, <- !app_assoc. reflexivity.
Qed.

Definition router_nodes (r : rt_desc) : list node :=
  match rt_array r, rt_tree r with
  | None, None => [{| n_name := rt_name r; n_type := NRouter; n_arr := None; n_lvl := None; n_desc := rt_name r |}]
  | Some [m; n], None => map (mk_arr_node (rt_name r) NRouter (rt_name r)) (ep_indices [m; n])
  | None, Some tree => tree_node_list (rt_name r) tree 0 (rt_name r)
  | _, _ => []
  end.
Definition endpoint_node_list (e : ep_desc) : list node :=
  map (mk_ep_node (ep_name e)) (arr_opts e) ++ map (mk_ni_node (ep_name e)) (arr_opts e).

Lemma router_nodes_spec g r g' : create_router g r = Ok g' -> g_nodes g' = g_nodes g ++ router_nodes r.
Proof.
  unfold create_router, router_nodes. destruct (rt_array r) as [[|m [|n [|x xs]]]|], (rt_tree r) as [tree|]; try discriminate; intros H.
  - apply array_nodes_any in H. exact H.
  - apply tree_nodes in H. exact H.
  - unfold add_node in H. destruct (has_node g _); [discriminate|]. inversion H; subst. reflexivity.
Qed.

(* C06 / C07: the nodes of every built graph are the router nodes of its router descriptors followed by, per
   endpoint descriptor, one endpoint node and one interface node for every element of its array *)
Theorem build_nodes d g : build d = Ok g ->
  g_nodes g = flat_map router_nodes (d_rts d) ++ flat_map endpoint_node_list (d_eps d).
Proof.
  unfold build. intros H. inv_bind H.
  assert (R : forall l g0 g1, foldM create_router l g0 = Ok g1 -> g_nodes g1 = g_nodes g0 ++ flat_map router_nodes l).
  { induction l as [|r l IH]; intros g0 g1 Hf; cbn [foldM flat_map] in *; [inversion Hf; subst; rewrite app_nil_r; reflexivity|].
    inv_bind Hf. rewrite (IH _ _ Hf). apply router_nodes_spec in E1. rewrite E1, <- app_assoc. reflexivity. }
  assert (P : forall l g0 g1, foldM create_endpoint l g0 = Ok g1 -> g_nodes g1 = g_nodes g0 ++ flat_map endpoint_node_list l).
  { induction l as [|e l IH]; intros g0 g1 Hf; cbn [foldM flat_map] in *; [inversion Hf; subst; rewrite app_nil_r; reflexivity|].
    inv_bind Hf. rewrite (IH _ _ Hf). apply endpoint_nodes in E1. rewrite E1. unfold endpoint_node_list. rewrite <- !app_assoc. reflexivity. }
  assert (C : forall l g0 g1, foldM (create_connection d) l g0 = Ok g1 -> g_nodes g1 = g_nodes g0).
  { induction l as [|c l IH]; intros g0 g1 Hf; cbn [foldM] in *; [inversion Hf; reflexivity|].
    inv_bind Hf. rewrite (IH _ _ Hf). destruct (connection_edges _ _ _ _ E1) as (? & ? & ? & ? & ? & _ & _ & _ & _ & _ & _ & Hn). exact Hn. }
  rewrite (C _ _ _ H), (P _ _ _ E0), (R _ _ _ E). reflexivity.
Qed.

(* ------------------------------------------------------------------ compiled routers under XY *)
Lemma mapM_zip_In {A B} (f : A -> res B) l l' x : mapM f l = Ok l' -> In x l -> exists y, f x = Ok y /\ In (x, y) (zip l l').
Proof.
  intros H. apply mapM_Forall2 in H. induction H as [|a b l l' Hab _ IH]; intros Hin; [destruct Hin|].
  destruct Hin as [<-|Hin]; [exists b; cbn; auto|]. destruct (IH Hin) as (y & Hy & Hz). exists y. cbn. auto.
Qed.

Lemma crt_of_router_node d g c rt : compile d g = Ok c -> d_algo d = XY -> In rt (nodes_of_type g NRouter) ->
  exists r x y, In r (c_rts c) /\ n_arr rt = Some [x; y] /\ compile_router d g rt (Some (IdXY x y 0)) = Ok r /\
                cr_name r = n_name rt /\ cr_id r = Some (IdXY x y 0).
Proof.
  intros Hc Ha Hin. unfold compile in Hc. inv_bind Hc. inversion Hc; subst c; clear Hc. cbn [c_rts].
  match goal with E : mapM _ (nodes_of_type g NRouter) = Ok ?l |- _ => rename E into Hrid; rename l into rids end.
  match goal with E : mapM (fun p => compile_router d g (fst p) (snd p)) _ = Ok ?l |- _ => rename E into Hrts; rename l into rts end.
  destruct (mapM_zip_In _ _ _ rt Hrid Hin) as (rid & Hr & Hz). rewrite Ha in Hr. inv_bind Hr. inversion Hr; subst rid; clear Hr.
  unfold router_coord in E. destruct (n_arr rt) as [[|x [|y [|? ?]]]|] eqn:Earr; try discriminate. inversion E; subst a. cbn [fst snd] in *.
  destruct (mapM_In_l _ _ _ _ Hrts Hz) as (r & Hrin & Hq). cbn [fst snd] in Hq.
  exists r, x, y. split; [exact Hrin|]. split; [reflexivity|]. split; [exact Hq|].
  destruct (compile_router_in_ends _ _ _ _ _ Hq) as (Hn & _). split; [exact Hn|].
  unfold compile_router in Hq. cbv zeta in Hq. match type of Hq with (if ?b then _ else _) = _ => destruct b; [discriminate|] end.
  inv_bind Hq. destruct (fill_free _ _) as [? li]. destruct (fill_free _ _) as [? lo]. destruct li; [|discriminate]. destruct lo; [|discriminate].
  inversion Hq; reflexivity.
Qed.

(* mesh links with the ranges of their ends *)
Lemma mesh_links_frame_range name m n e :
  In e (flat_map (array_links name) (grid_idx m n)) ->
  exists i j k dx dy, e_src e = full_name name [i; j] /\ e_src_dir e = Some k /\ to_coords k = Ok (dx, dy) /\
                      e_dst e = full_name name [i + dx; j + dy] /\ 0 <= k < 4 /\
                      0 <= i < m /\ 0 <= j < n /\ 0 <= i + dx < m /\ 0 <= j + dy < n.
Proof.
  intros H. apply mesh_links_iff in H. destruct H as (i & j & Hi & Hj & [(H0 & [-> | ->]) | (H0 & [-> | ->])]).
  - exists i, j, dir_W, (-1), 0. cbn. replace (i + -1) with (i - 1) by lia. replace (j + 0) with j by lia.
    repeat split; try reflexivity; try (cbv; congruence); lia.
  - exists (i - 1), j, dir_E, 1, 0. cbn. replace (i - 1 + 1) with i by lia. replace (j + 0) with j by lia.
    repeat split; try reflexivity; try (cbv; congruence); lia.
  - exists i, j, dir_S, 0, (-1). cbn. replace (i + 0) with i by lia. replace (j + -1) with (j - 1) by lia.
    repeat split; try reflexivity; try (cbv; congruence); lia.
  - exists i, (j - 1), dir_N, 0, 1. cbn. replace (i + 0) with i by lia. replace (j - 1 + 1) with j by lia.
    repeat split; try reflexivity; try (cbv; congruence); lia.
Qed.

(* C04 (i) for mesh links, over the model: identities and port slots form the grid *)
Theorem mesh_frame d g c rd m n e :
  build d = Ok g -> compile d g = Ok c -> d_algo d = XY ->
  In rd (d_rts d) -> rt_array rd = Some [m; n] -> rt_tree rd = None -> rt_auto rd = true ->
  In e (flat_map (array_links (rt_name rd)) (grid_idx m n)) ->
  exists r r' i j k dx dy,
    In r (c_rts c) /\ In r' (c_rts c) /\ cr_name r = e_src e /\ cr_name r' = e_dst e /\
    e_src_dir e = Some k /\ 0 <= k < 4 /\ to_coords k = Ok (dx, dy) /\
    cr_id r = Some (IdXY i j 0) /\ cr_id r' = Some (IdXY (i + dx) (j + dy) 0) /\
    nth_error (cr_out r) (Z.to_nat k) = Some (Some (e_src e, e_dst e)).
Proof.
  intros Hb Hc Ha Hrd Harr Htree Hauto He.
  destruct (mesh_links_frame_range (rt_name rd) m n e He) as (i & j & k & dx & dy & Hs & Hk & Htc & Hd & Hk4 & Ri & Rj & Ri' & Rj').
  (* the edge is in the graph *)
  destruct (build_links d g Hb) as (Ls & _ & Hlinks).
  assert (Hel : In e (link_edges_of g)).
  { rewrite Hlinks. apply in_app_iff. left. apply in_flat_map. exists rd. split; [exact Hrd|].
    unfold router_links. rewrite Harr, Htree, Hauto. exact He. }
  unfold link_edges_of in Hel. apply filter_In in Hel. destruct Hel as (Hein & Hlink).
  (* both ends are router nodes of the array, with their indices *)
  pose proof (build_nodes d g Hb) as Hnodes.
  assert (Hnode : forall a b, 0 <= a < m -> 0 <= b < n ->
            In (mk_arr_node (rt_name rd) NRouter (rt_name rd) [a; b]) (nodes_of_type g NRouter)).
  { intros a b Ha' Hb'. unfold nodes_of_type. apply filter_In. split; [|reflexivity]. rewrite Hnodes. apply in_app_iff. left.
    apply in_flat_map. exists rd. split; [exact Hrd|]. unfold router_nodes. rewrite Harr, Htree. apply in_map.
    unfold ep_indices. apply in_flat_map. exists a. split; [apply zrange0_In; exact Ha'|]. apply in_map_iff. exists b. split; [reflexivity|]. apply zrange0_In. exact Hb'. }
  destruct (crt_of_router_node d g c _ Hc Ha (Hnode i j Ri Rj)) as (r & x & y & Hr & Harr1 & Hq & Hn1 & Hid1).
  destruct (crt_of_router_node d g c _ Hc Ha (Hnode (i + dx) (j + dy) Ri' Rj')) as (r' & x' & y' & Hr' & Harr2 & _ & Hn2 & Hid2).
  cbn [mk_arr_node n_arr n_name] in Harr1, Harr2, Hn1, Hn2, Hq. inversion Harr1; subst x y. inversion Harr2; subst x' y'.
  exists r, r', i, j, k, dx, dy. split; [exact Hr|]. split; [exact Hr'|]. split; [congruence|]. split; [congruence|].
  split; [exact Hk|]. split; [exact Hk4|]. split; [exact Htc|]. split; [exact Hid1|]. split; [exact Hid2|].
  assert (Hef : In e (filter is_link (edges_from g (full_name (rt_name rd) [i; j])))).
  { apply filter_In. split; [|exact Hlink]. unfold edges_from. apply filter_In. split.
    - apply (edges_view_In g e (proj2 (build_ginv d g Hb))). exact Hein.
    - apply String.eqb_eq. exact Hs. }
  pose proof (dir_out_slot d g _ _ r Hq e k Hef Hk ltac:(lia)) as Hslot. exact Hslot.
Qed.
