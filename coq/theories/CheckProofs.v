(* CheckProofs.v — soundness of the certified checkers of Check.v: an empty failure list implies the
   semantic statement over the hardware model Hw.v, for the netlist at hand. *)
From FV Require Import Base RouteMap RouteMapProofs Netlist Hw Check.
From Coq Require Import ZifyBool.

(* ------------------------------------------------------------------ generic *)
Lemma guard_nil b k m : guard b k m = [] -> b = true.
Proof. unfold guard, one. destruct b; [auto|discriminate]. Qed.
Lemma app_nil {T} (a b : list T) : a ++ b = [] -> a = [] /\ b = [].
Proof. destruct a; cbn; [auto|discriminate]. Qed.
Lemma flat_map_nil {S T} (f : S -> list T) l : flat_map f l = [] -> forall x, In x l -> f x = [].
Proof.
  induction l as [|y ys IH]; cbn; intros H x []; apply app_nil in H; destruct H as (H1 & H2); subst; auto.
Qed.
Lemma str_eqb_eq a b : str_eqb a b = true <-> a = b.
Proof. apply String.eqb_eq. Qed.
Lemma nodupb_str l : nodupb str_eqb l = true -> NoDup l.
Proof.
  induction l as [|x xs IH]; cbn; [constructor|].
  rewrite andb_true_iff, negb_true_iff. intros (H1 & H2). constructor; auto.
  intros Hin. assert (E : existsb (str_eqb x) xs = true).
  { apply existsb_exists. exists x. split; auto. apply str_eqb_eq. reflexivity. }
  congruence.
Qed.

Lemma ordered_pairs_In n s t :
  In s (n_nis n) -> In t (n_nis n) -> ni_name s <> ni_name t -> In (s, t) (ordered_pairs n).
Proof.
  intros Hs Ht Hne. unfold ordered_pairs. apply in_flat_map. exists s. split; auto.
  apply in_flat_map. exists t. split; auto.
  destruct (str_eqb (ni_name s) (ni_name t)) eqn:E; [apply str_eqb_eq in E; contradiction|cbn; auto].
Qed.

(* ------------------------------------------------------------------ delivery *)
Definition delivers (n : netlist) (nt : net) (s t : ni_inst) (h : hdr) : Prop :=
  exists rest, t_out (send n nt s h) = Delivered (ni_name t) rest /\ NoDup (t_rts (send n nt s h)).

Lemma expect_delivery_nil what s t tr :
  expect_delivery what s t tr = [] ->
  exists rest, t_out tr = Delivered (ni_name t) rest /\ NoDup (t_rts tr).
Proof.
  unfold expect_delivery. destruct (t_out tr) as [u rest|why at_]; [|discriminate].
  intros H. apply app_nil in H. destruct H as (H1 & H2).
  apply guard_nil in H1. apply guard_nil in H2. apply str_eqb_eq in H1. subst u.
  exists rest. split; auto using nodupb_str.
Qed.

(* C02: every request and every response of an ID-routed netlist is delivered to its addressee,
   without revisiting a router.  (By definition of Hw.select a walk fails with "no rule matches" /
   "several rules match" unless exactly one rule of each crossed router matches.) *)
Definition C02_on (n : netlist) : Prop :=
  n_algo n = "IdTable" /\
  forall s t, In s (n_nis n) -> In t (n_nis n) -> ni_name s <> ni_name t ->
    (may_req s t = true -> delivers n Req s t (hdr_of_id n (ni_id t))) /\
    (may_rsp s t = true -> delivers n Rsp s t (hdr_of_id n (ni_id t))).

Theorem chk_C02_sound n : chk_C02 n = [] -> C02_on n.
Proof.
  unfold chk_C02. intros H. apply app_nil in H. destruct H as (Ha & Hp).
  apply guard_nil, str_eqb_eq in Ha. split; [exact Ha|].
  intros s t Hs Ht Hne. pose proof (flat_map_nil _ _ Hp (s, t) (ordered_pairs_In n s t Hs Ht Hne)) as H.
  cbn [c02_pair] in H. apply app_nil in H. destruct H as (H1 & H2).
  split; intros Hm; rewrite Hm in *; [apply (expect_delivery_nil _ _ _ _ H1)|apply (expect_delivery_nil _ _ _ _ H2)].
Qed.

(* C14: every flit is delivered and traverses exactly (hop distance - 1) routers *)
Definition shortest_on (n : netlist) (nt : net) (s t : ni_inst) (h : hdr) : Prop :=
  exists u rest, t_out (send n nt s h) = Delivered u rest /\
                 dist n nt (ni_name s) (ni_name t) = Some (S (length (t_rts (send n nt s h)))).
Definition C14_on (n : netlist) : Prop :=
  forall s t h, In s (n_nis n) -> In t (n_nis n) -> ni_name s <> ni_name t -> hdr_for n s t = Ok h ->
    (may_req s t = true -> shortest_on n Req s t h) /\ (may_rsp s t = true -> shortest_on n Rsp s t h).

Lemma expect_shortest_nil n nt what s t h :
  expect_shortest n nt what s t (send n nt s h) = [] -> shortest_on n nt s t h.
Proof.
  unfold expect_shortest, shortest_on. intros H. destruct (t_out (send n nt s h)) as [u rest|why at_] eqn:E; [|discriminate].
  exists u, rest. split; [reflexivity|].
  destruct (dist n nt (ni_name s) (ni_name t)) as [d|]; [|discriminate].
  apply guard_nil in H. apply Nat.eqb_eq in H. congruence.
Qed.

Theorem chk_C14_sound n : chk_C14 n = [] -> C14_on n.
Proof.
  unfold chk_C14, C14_on. intros Hp s t h Hs Ht Hne Hh.
  pose proof (flat_map_nil _ _ Hp (s, t) (ordered_pairs_In n s t Hs Ht Hne)) as H.
  cbn [c14_pair] in H. rewrite Hh in H. apply app_nil in H. destruct H as (H1 & H2).
  split; intros Hm; rewrite Hm in *; eauto using expect_shortest_nil.
Qed.

(* C03: the emitted route word of every communicating pair steers the flit to exactly its
   destination, is fully consumed (only zero bits left) and fits the route type *)
Definition word_fits (n : netlist) (s t : ni_inst) : Prop :=
  forall e d v w rb, ni_row s = Some e -> ni_id t = IdN d -> enum_value (n_ep_enum n) e = Some v ->
    table_word n v d = Some w -> n_route_bits n = Some rb ->
    w_width w = rb /\ w_digits w = rb /\ 0 <= w_val w < 2 ^ rb \/ w_val w < 0.
Definition consumed (n : netlist) (nt : net) (s : ni_inst) (h : hdr) : Prop :=
  forall u rest, t_out (send n nt s h) = Delivered u rest -> rest = HRoute 0.
Definition C03_on (n : netlist) : Prop :=
  n_algo n = "SourceRouting" /\
  forall s t, In s (n_nis n) -> In t (n_nis n) -> ni_name s <> ni_name t ->
    may_req s t || may_rsp s t = true ->
    exists h, hdr_for n s t = Ok h /\
      (may_req s t = true -> delivers n Req s t h /\ consumed n Req s h) /\
      (may_rsp s t = true -> delivers n Rsp s t h /\ consumed n Rsp s h).

Lemma expect_consumed_nil what s t n nt h :
  expect_consumed what s t (send n nt s h) = [] -> consumed n nt s h.
Proof.
  unfold expect_consumed, consumed. intros H u rest E. rewrite E in H.
  destruct rest as [d|w|x y p]; try discriminate. destruct w; try discriminate. reflexivity.
Qed.

Theorem chk_C03_sound n : chk_C03 n = [] -> C03_on n.
Proof.
  unfold chk_C03. intros H. apply app_nil in H. destruct H as (Ha & Hp). apply app_nil in Hp. destruct Hp as (Hp & _).
  apply guard_nil, str_eqb_eq in Ha. split; [exact Ha|].
  intros s t Hs Ht Hne Hm.
  pose proof (flat_map_nil _ _ Hp (s, t) (ordered_pairs_In n s t Hs Ht Hne)) as H.
  cbn [c03_pair] in H. rewrite Hm in H. cbn [negb] in H.
  destruct (hdr_for n s t) as [h|e]; [|discriminate]. exists h. split; [reflexivity|].
  apply app_nil in H. destruct H as (_ & H). apply app_nil in H. destruct H as (H1 & H2).
  split; intros Hr; rewrite Hr in *.
  - apply app_nil in H1. destruct H1 as (A1 & A2). split;
      [apply (expect_delivery_nil _ _ _ _ A1)|apply (expect_consumed_nil _ _ _ _ _ _ A2)].
  - apply app_nil in H2. destruct H2 as (A1 & A2). split;
      [apply (expect_delivery_nil _ _ _ _ A1)|apply (expect_consumed_nil _ _ _ _ _ _ A2)].
Qed.

(* ------------------------------------------------------------------ C05 *)
(* all slots of port i on every physical channel see the same neighbour, or none of them any *)
Definition port_paired (n : netlist) (r : rt_inst) (i : nat) : Prop :=
  exists v, Forall (fun p => snd p = Ok v) (port_far_ends n r i).
Definition signal_ok (n : netlist) (l : string * string) : Prop :=
  exists nt d r, net_of_type (fst l) = Some nt /\ drivers n nt (snd l) = [d] /\ readers n nt (snd l) = [r] /\
                 snd l = uref_name d +++ "_to_" +++ uref_name r +++ "_" +++ net_name nt.
Definition C05_on (n : netlist) : Prop :=
  (forall r, In r (n_rts n) -> forall i, (i < Z.to_nat (r_nin r))%nat -> port_paired n r i) /\
  (forall l, In l (n_links n) -> signal_ok n l).

Lemma opt_str_eqb_eq a b : opt_str_eqb a b = true -> a = b.
Proof.
  destruct a, b; cbn; try discriminate; auto. intros H. apply str_eqb_eq in H. congruence.
Qed.

Lemma c05_port_nil n r i : c05_port n r i = [] -> port_paired n r i.
Proof.
  unfold c05_port, port_paired. set (ends := port_far_ends n r i).
  destruct (flat_map _ ends) as [|x xs] eqn:E; [|discriminate].
  assert (Hok : forall p, In p ends -> exists v, snd p = Ok v).
  { intros p Hp. pose proof (flat_map_nil _ _ E p Hp) as H. cbv beta in H. destruct (snd p); [eauto|discriminate H]. }
  destruct ends as [|p0 rest] eqn:Eends.
  - intros _. exists None. constructor.
  - cbn [map]. intros H. apply guard_nil in H. rewrite forallb_forall in H.
    destruct (Hok p0 (or_introl eq_refl)) as (v0 & Hv0). exists v0.
    constructor; [exact Hv0|]. apply Forall_forall. intros p Hp.
    destruct (Hok p (or_intror Hp)) as (v & Hv). rewrite Hv. f_equal.
    specialize (H v). rewrite Hv0 in H. symmetry. apply opt_str_eqb_eq. apply H.
    apply in_map_iff. exists p. rewrite Hv. auto.
Qed.

Lemma c05_signal_nil n l : c05_signal n l = [] -> signal_ok n l.
Proof.
  unfold c05_signal, signal_ok. destruct l as [ty s]. cbn [fst snd].
  destruct (net_of_type ty) as [nt|]; [|discriminate].
  destruct (drivers n nt s) as [|d [|d' ds]] eqn:Ed; try discriminate;
    destruct (readers n nt s) as [|r [|r' rs]] eqn:Er; try discriminate.
  intros H. apply guard_nil, str_eqb_eq in H. exists nt, d, r. auto.
Qed.

Theorem chk_C05_sound n : chk_C05 n = [] -> C05_on n.
Proof.
  unfold chk_C05. intros H. apply app_nil in H. destruct H as (H1 & H2). split.
  - intros r Hr i Hi. pose proof (flat_map_nil _ _ H1 r Hr) as H. unfold c05_router in H.
    apply app_nil in H. destruct H as (_ & H). apply c05_port_nil.
    apply (flat_map_nil _ _ H i). apply in_seq. lia.
  - intros l Hl. apply c05_signal_nil. apply (flat_map_nil _ _ H2 l Hl).
Qed.

(* ------------------------------------------------------------------ C01 *)
Definition owns (n : netlist) (e : string * (Z * Z)) (a : Z) : Prop := fst (snd e) <= a < snd (snd e).
Definition C01_on (n : netlist) (exp : list (string * (Z * Z))) : Prop :=
  (* every address of a declared range decodes to exactly one rule, whose destination is the
     identity configured on that endpoint's network interface *)
  (forall e, In e exp -> exists x, find_ni n (fst e) = Some x /\
     forall a, owns n e a -> exists r, sam_decode n a = [r] /\ sr_idx r = ni_id x) /\
  (* addresses outside every declared range match no rule *)
  (forall a, (forall e, In e exp -> ~ owns n e a) -> sam_decode n a = []).

Lemma sam_matches_iff r a : sam_matches r a = true <-> sr_start r <= a < sr_end r.
Proof. unfold sam_matches. lia. Qed.

Definition as_rule (r : sam_rule) : rule :=
  {| dest := 0; st := sr_start r; en := sr_end r; sz := sr_end r - sr_start r |}.

Lemma decode_at_most_one l a :
  pdisj (map as_rule l) -> (length (filter (fun r => sam_matches r a) l) <= 1)%nat.
Proof.
  induction l as [|r l IH]; cbn [map filter length]; [lia|].
  intros (H1 & H2). specialize (IH H2). destruct (sam_matches r a) eqn:E; [|exact IH].
  cbn [length]. apply sam_matches_iff in E.
  assert (Hn : filter (fun r0 => sam_matches r0 a) l = []).
  { destruct (filter _ l) as [|x xs] eqn:F; [reflexivity|exfalso].
    assert (Hx : In x (filter (fun r0 => sam_matches r0 a) l)) by (rewrite F; cbn; auto).
    apply filter_In in Hx. destruct Hx as (Hx & Hm). apply sam_matches_iff in Hm.
    rewrite Forall_forall in H1. specialize (H1 (as_rule x) (in_map as_rule l x Hx)).
    unfold disj, as_rule in H1; cbn in H1. lia. }
  rewrite Hn. cbn. lia.
Qed.

Theorem chk_C01_sound n exp : chk_C01 n exp = [] -> C01_on n exp.
Proof.
  unfold chk_C01. intros H.
  apply app_nil in H. destruct H as (Hw & H). apply app_nil in H. destruct H as (Ho & H).
  apply app_nil in H. destruct H as (He & Hr). apply app_nil in Hr. destruct Hr as (Hr & _).
  apply guard_nil in Hw. apply guard_nil in Ho. rewrite forallb_forall in Hw.
  assert (Hwf : Forall wf (sam_as_rules n)).
  { apply Forall_forall. intros x Hx. apply in_map_iff in Hx. destruct Hx as (r & <- & Hr').
    specialize (Hw r Hr'). unfold wf; cbn. lia. }
  pose proof (proj1 (check_no_overlap_iff _ Hwf) Ho) as Hd.
  split.
  - intros e Hin. pose proof (flat_map_nil _ _ He e Hin) as H. unfold c01_expected in H.
    destruct e as [name [s en_]]. cbn [fst snd] in *.
    destruct (find_ni n name) as [x|]; [|discriminate]. exists x. split; [reflexivity|].
    apply guard_nil in H. apply existsb_exists in H. destruct H as (r & Hrin & Hb).
    intros a Ha. unfold owns in Ha; cbn in Ha. exists r.
    assert (Hm : sam_matches r a = true) by (apply sam_matches_iff; lia).
    assert (Hin' : In r (sam_decode n a)) by (apply filter_In; auto).
    pose proof (decode_at_most_one (n_sam n) a Hd) as Hle. unfold sam_decode in *.
    assert (Hf : filter (fun r0 => sam_matches r0 a) (n_sam n) = [r]).
    { destruct (filter _ (n_sam n)) as [|r1 [|r2 rs]]; cbn in Hle, Hin'; [destruct Hin'| |lia].
      destruct Hin' as [->|[]]. reflexivity. }
    split; [exact Hf|].
    apply andb_true_iff in Hb. destruct Hb as (_ & Hb).
    destruct (sr_idx r), (ni_id x); cbn in Hb; try discriminate; f_equal; lia.
  - intros a Hout. unfold sam_decode. destruct (filter _ (n_sam n)) as [|r rs] eqn:F; [reflexivity|exfalso].
    assert (Hr' : In r (filter (fun r0 => sam_matches r0 a) (n_sam n))) by (rewrite F; cbn; auto).
    apply filter_In in Hr'. destruct Hr' as (Hrin & Hm). apply sam_matches_iff in Hm.
    pose proof (flat_map_nil _ _ Hr r Hrin) as H. unfold c01_rule in H. apply guard_nil in H.
    apply existsb_exists in H. destruct H as (e & Hein & Hb).
    apply (Hout e Hein). unfold owns. lia.
Qed.

(* ------------------------------------------------------------------ C13 *)
Definition router_counts_ok (n : netlist) (r : rt_inst) : Prop :=
  r_nroutes r = r_nin r /\ r_nin r = r_nout r /\
  Z.of_nat (length (r_req_in r)) = r_nin r /\ Z.of_nat (length (r_rsp_out r)) = r_nin r /\
  Z.of_nat (length (r_req_out r)) = r_nin r /\ Z.of_nat (length (r_rsp_in r)) = r_nin r /\
  (n_nw n = true -> Z.of_nat (length (r_wide_in r)) = r_nin r /\ Z.of_nat (length (r_wide_out r)) = r_nin r) /\
  match r_map r with
  | Some (_, (n1, (n2, (_, rules)))) => n1 = Z.of_nat (length rules) /\ n2 = n1
  | None => n_algo n <> "IdTable"
  end.
Definition C13_on (n : netlist) : Prop :=
  n_sam_num n = Z.of_nat (length (n_sam n)) /\
  cfg_get n "NumSamRules" = Some (ZS (Z.of_nat (length (n_sam n)))) /\
  map snd (snd (n_sam_enum n)) = zseq (length (n_sam n)) 0 /\
  (forall p, In p (snd (n_ep_enum n)) -> 0 <= snd p < 2 ^ fst (n_ep_enum n)) /\
  (forall p, In p (snd (n_sam_enum n)) -> 0 <= snd p < 2 ^ fst (n_sam_enum n)) /\
  (n_algo n = "SourceRouting" ->
     cfg_get n "NumRoutes" = Some (ZS (Z.of_nat (length (n_nis n)))) /\
     exists rows, n_tables n = Some rows /\ length rows = length (n_nis n) /\
                  Forall (fun w => length w = length (n_nis n)) rows) /\
  (forall r, In r (n_rts n) -> router_counts_ok n r).

Lemma list_eqb_Z_eq l m : list_eqb_Z l m = true -> l = m.
Proof.
  unfold list_eqb_Z. revert m. induction l as [|x xs IH]; intros [|y ys]; cbn; try discriminate; auto.
  rewrite andb_true_iff, Z.eqb_eq. intros (-> & H). f_equal. auto.
Qed.
Lemma enum_width_ok_sound e : enum_width_ok e = true -> forall p, In p (snd e) -> 0 <= snd p < 2 ^ fst e.
Proof. unfold enum_width_ok, pow2. rewrite forallb_forall. intros H p Hp. specialize (H p Hp). lia. Qed.

Lemma c13_router_nil n r : c13_router n r = [] -> router_counts_ok n r.
Proof.
  unfold c13_router, router_counts_ok. intros H. apply app_nil in H. destruct H as (H1 & H2).
  apply guard_nil in H1. rewrite !andb_true_iff in H1. destruct H1 as ((A1 & A2) & A3).
  rewrite forallb_forall in A3.
  assert (L : forall l, In l ([length (r_req_in r); length (r_rsp_out r); length (r_req_out r); length (r_rsp_in r)] ++
                  (if n_nw n then [length (r_wide_in r); length (r_wide_out r)] else [])) -> Z.of_nat l = r_nin r).
  { intros l Hl. specialize (A3 l Hl). lia. }
  repeat split; try lia; try (apply L; cbn; tauto);
    try (match goal with Hn : n_nw n = true |- _ => rewrite Hn in L; apply L; cbn; tauto end).
  destruct (r_map r) as [[nm [n1 [n2 [iw rules]]]]|].
  - apply guard_nil in H2. lia.
  - apply guard_nil in H2. intros E. rewrite E in H2. cbn in H2. discriminate.
Qed.

Theorem chk_C13_sound n : chk_C13 n = [] -> C13_on n.
Proof.
  unfold chk_C13, C13_on. intros H.
  repeat (apply app_nil in H; let Hx := fresh "G" in destruct H as (Hx & H)).
  apply guard_nil in G, G0, G1, G2, G3, G4.
  split; [lia|]. split; [apply opt_str_eqb_eq; exact G0|]. split; [apply list_eqb_Z_eq; exact G2|].
  split; [apply enum_width_ok_sound; exact G3|]. split; [apply enum_width_ok_sound; exact G4|]. split.
  - intros E. rewrite E in G5. cbn [str_eqb String.eqb] in G5.
    replace (str_eqb "SourceRouting" "SourceRouting") with true in G5 by reflexivity.
    apply app_nil in G5. destruct G5 as (A & B). apply guard_nil in A. split; [apply opt_str_eqb_eq; exact A|].
    destruct (n_tables n) as [rows|]; [|discriminate]. exists rows. split; [reflexivity|].
    apply guard_nil in B. rewrite andb_true_iff, forallb_forall in B. destruct B as (B1 & B2).
    split; [lia|]. apply Forall_forall. intros w Hw. specialize (B2 w Hw). lia.
  - intros r Hr. apply c13_router_nil. apply (flat_map_nil _ _ H r Hr).
Qed.

Definition C13_named_on (n : netlist) (exp : list (string * (Z * Z))) : Prop :=
  forall nm s e, In (nm, (s, e)) exp ->
    exists k r, enum_value (n_sam_enum n) nm = Some k /\ sam_at n k = Some r /\ sr_start r = s /\ sr_end r = e.
Theorem chk_C13n_sound n exp : chk_C13n n exp = [] -> C13_on n /\ C13_named_on n exp.
Proof.
  unfold chk_C13n. intros H. apply app_nil in H. destruct H as (H1 & H2). split; [apply chk_C13_sound; exact H1|].
  intros nm s e Hin. pose proof (flat_map_nil _ _ H2 _ Hin) as X. unfold c13_named in X. cbn [fst snd] in X.
  destruct (enum_value (n_sam_enum n) nm) as [k|] eqn:Ek; [|discriminate]. destruct (sam_at n k) as [r|] eqn:Er; [|discriminate].
  apply guard_nil in X. apply andb_true_iff in X. destruct X as (X1 & X2). apply Z.eqb_eq in X1, X2.
  exists k, r. split; [reflexivity|]. split; [exact Er|]. split; assumption.
Qed.

(* ------------------------------------------------------------------ C07 *)
Lemma idv_eqb_eq a b : idv_eqb a b = true -> a = b.
Proof. destruct a, b; cbn; try discriminate; intros H; f_equal; lia. Qed.
Lemma nodupb_idv l : nodupb idv_eqb l = true -> NoDup l.
Proof.
  induction l as [|x xs IH]; cbn; [constructor|].
  rewrite andb_true_iff, negb_true_iff. intros (H1 & H2). constructor; auto.
  intros Hin. assert (E : existsb (idv_eqb x) xs = true).
  { apply existsb_exists. exists x. split; auto. destruct x; cbn; lia. }
  congruence.
Qed.
Lemma list_eqb_str_eq l m : list_eqb_str l m = true -> l = m.
Proof.
  unfold list_eqb_str. revert m. induction l as [|x xs IH]; intros [|y ys]; cbn; try discriminate; auto.
  rewrite andb_true_iff. intros (E & H). apply String.eqb_eq in E. subst. f_equal. auto.
Qed.

Definition xy_fits (n : netlist) (i : idv) : Prop :=
  exists x y p xb yb pb, i = IdXY x y p /\ n_xy_bits n = Some (xb, (yb, pb)) /\
    0 <= x < 2 ^ xb /\ 0 <= y < 2 ^ yb /\ 0 <= p < 2 ^ pb.

Definition C07_on (n : netlist) (names : list string) : Prop :=
  (* pairwise distinct identities; every instance named exactly once, numbered 0..N-1, N emitted *)
  NoDup (map ni_id (n_nis n)) /\ NoDup (map fst (snd (n_ep_enum n))) /\
  map fst (snd (n_ep_enum n)) = names ++ ["NumEndpoints"] /\
  map snd (snd (n_ep_enum n)) = zseq (S (length names)) 0 /\
  length (n_nis n) = length names /\
  (n_algo n = "XYRouting" ->
     (forall x, In x (n_nis n) -> xy_fits n (ni_id x)) /\
     (forall r, In r (n_rts n) -> exists i, r_id r = Some i /\ xy_fits n i) /\
     (forall r, In r (n_sam n) -> xy_fits n (sr_idx r))) /\
  (n_algo n <> "XYRouting" ->
     exists b, n_id_bits n = Some b /\ Z.of_nat (length names) <= 2 ^ b /\
       forall x m, In (x, m) (zip (n_nis n) (snd (n_ep_enum n))) ->
                   ni_id x = IdN (snd m) /\ 0 <= snd m < 2 ^ b).

Lemma c07_xy_fit_nil n what i : c07_xy_fit n what i = [] -> xy_fits n i.
Proof.
  unfold c07_xy_fit, xy_fits, pow2. destruct i as [d|x y p]; [discriminate|].
  destruct (n_xy_bits n) as [[xb [yb pb]]|]; [|discriminate].
  intros H. apply guard_nil in H. exists x, y, p, xb, yb, pb. repeat split; try reflexivity; lia.
Qed.

Theorem chk_C07_sound n names : chk_C07 n names = [] -> C07_on n names.
Proof.
  unfold chk_C07, C07_on. intros H. apply app_nil in H. destruct H as (_ & H).
  repeat (apply app_nil in H; let Hx := fresh "G" in destruct H as (Hx & H)).
  apply guard_nil in G, G0, G1, G2, G3.
  split; [apply nodupb_idv; exact G|]. split; [apply nodupb_str; exact G0|].
  split; [apply list_eqb_str_eq; exact G1|]. split; [apply list_eqb_Z_eq; exact G2|].
  split; [apply Nat.eqb_eq; exact G3|].
  destruct (str_eqb (n_algo n) "XYRouting") eqn:E.
  - apply str_eqb_eq in E. split; [|congruence]. intros _.
    apply app_nil in H. destruct H as (A & H). apply app_nil in H. destruct H as (B & C).
    split; [|split].
    + intros x Hx. apply (c07_xy_fit_nil n (ni_name x)). apply (flat_map_nil _ _ A x Hx).
    + intros r Hr. pose proof (flat_map_nil _ _ B r Hr) as Hb. cbv beta in Hb.
      destruct (r_id r) as [i|]; [|discriminate]. exists i. split; [reflexivity|].
      apply (c07_xy_fit_nil n (r_name r)). exact Hb.
    + intros r Hr. apply (c07_xy_fit_nil n "address-map destination"). apply (flat_map_nil _ _ C r Hr).
  - split; [intros E'; apply str_eqb_eq in E'; congruence|]. intros _.
    destruct (n_id_bits n) as [b|]; [|discriminate]. exists b. split; [reflexivity|].
    apply app_nil in H. destruct H as (A & B). apply guard_nil in A. unfold pow2 in A. split; [lia|].
    intros x m Hin. pose proof (flat_map_nil _ _ B (x, m) Hin) as Hb. cbv beta in Hb.
    destruct m as [nm v]. cbn [snd]. destruct (ni_id x) as [d|]; [|discriminate].
    apply guard_nil in Hb. unfold pow2 in Hb. split; [f_equal; lia|lia].
Qed.
