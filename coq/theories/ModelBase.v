(* ModelBase.v — inversion principles for the res monad and list lemmas used by the proofs about the
   generator model. *)
From FV Require Import Base.
From Coq Require Import ZifyBool.

Lemma bind_ok {A B} (r : res A) (f : A -> res B) b :
  bind r f = Ok b -> exists a, r = Ok a /\ f a = Ok b.
Proof. destruct r; cbn; [eauto|discriminate]. Qed.

(* destruct every leading `do x <- e; k = Ok y` of hypothesis H (the remainder keeps the name H) *)
Ltac inv_bind H :=
  cbv beta in H;
  repeat (match type of H with
          | bind ?r ?f = Ok ?b =>
              let a := fresh "a" in let E := fresh "E" in let H' := fresh "Hx" in
              destruct (bind_ok r f b H) as (a & E & H'); clear H; rename H' into H; cbv beta in H
          | (if ?c then Err _ else _) = Ok _ =>
              let C := fresh "C" in destruct c eqn:C; [discriminate H|]
          | (if ?c then _ else Err _) = Ok _ =>
              let C := fresh "C" in destruct c eqn:C; [|discriminate H]
          end).

Lemma mapM_length {A B} (f : A -> res B) l l' : mapM f l = Ok l' -> length l' = length l.
Proof.
  revert l'. induction l as [|x xs IH]; cbn [mapM]; intros l' H.
  - inversion H; reflexivity.
  - destruct (f x); cbn [bind] in H; [|discriminate].
    destruct (mapM f xs) as [ys|]; cbn [bind] in H; [|discriminate].
    inversion H; subst; cbn. f_equal. apply IH. reflexivity.
Qed.

Lemma mapM_Forall2 {A B} (f : A -> res B) l l' :
  mapM f l = Ok l' -> Forall2 (fun x y => f x = Ok y) l l'.
Proof.
  revert l'. induction l as [|x xs IH]; cbn [mapM]; intros l' H.
  - inversion H; constructor.
  - destruct (f x) eqn:E; cbn [bind] in H; [|discriminate].
    destruct (mapM f xs) as [ys|]; cbn [bind] in H; [|discriminate].
    inversion H; subst. constructor; auto.
Qed.

Lemma mapM_In {A B} (f : A -> res B) l l' y :
  mapM f l = Ok l' -> In y l' -> exists x, In x l /\ f x = Ok y.
Proof.
  intros H. apply mapM_Forall2 in H. induction H as [|x y' l l' Hxy _ IH]; cbn; [tauto|].
  intros [<-|Hin]; [eauto|]. destruct (IH Hin) as (x' & Hx' & E). eauto.
Qed.

Lemma mapM_In_l {A B} (f : A -> res B) l l' x :
  mapM f l = Ok l' -> In x l -> exists y, In y l' /\ f x = Ok y.
Proof.
  intros H. apply mapM_Forall2 in H. induction H as [|x' y l l' Hxy _ IH]; cbn; [tauto|].
  intros [<-|Hin]; [eauto|]. destruct (IH Hin) as (y' & Hy' & E). eauto.
Qed.

Lemma insert_by_length {A} (lt : A -> A -> bool) x l : length (insert_by lt x l) = S (length l).
Proof. induction l as [|y ys IH]; cbn; [reflexivity|]. destruct (lt y x); cbn; auto. Qed.
Lemma sort_by_length {A} (lt : A -> A -> bool) l : length (sort_by lt l) = length l.
Proof. unfold sort_by. induction l as [|x xs IH]; cbn; [reflexivity|]. rewrite insert_by_length. auto. Qed.

Lemma insert_by_In {A} (lt : A -> A -> bool) x l y : In y (insert_by lt x l) <-> y = x \/ In y l.
Proof.
  induction l as [|z zs IH]; cbn; [intuition|]. destruct (lt z x); cbn; [rewrite IH|]; intuition.
Qed.
Lemma sort_by_In {A} (lt : A -> A -> bool) l y : In y (sort_by lt l) <-> In y l.
Proof.
  unfold sort_by. induction l as [|x xs IH]; cbn; [tauto|]. rewrite insert_by_In, IH. intuition.
Qed.

Lemma enumerate_from_length {A} n (l : list A) : length (enumerate_from n l) = length l.
Proof. revert n. induction l; intros; cbn; auto. Qed.
Lemma enumerate_from_fst {A} n (l : list A) :
  map (fun p => Z.of_nat (fst p)) (enumerate_from n l) =
  (fix zs (k : nat) (from : Z) := match k with O => [] | S k' => from :: zs k' (from + 1) end) (length l) (Z.of_nat n).
Proof.
  revert n. induction l as [|x xs IH]; intros n; cbn; [reflexivity|]. f_equal. rewrite IH. f_equal. lia.
Qed.

Lemma clog2_spec n : 0 < n -> n <= 2 ^ clog2 n.
Proof.
  intros H. unfold clog2. destruct (n <=? 1) eqn:E.
  - rewrite Z.pow_0_r. lia.
  - apply Z.log2_up_spec. lia.
Qed.
Lemma clog2_nonneg n : 0 <= clog2 n.
Proof. unfold clog2. destruct (n <=? 1); [lia|apply Z.log2_up_nonneg]. Qed.

Lemma fold_max_init l init : init <= fold_left Z.max l init.
Proof. revert init. induction l as [|y ys IH]; intros init; cbn; [lia|]. specialize (IH (Z.max init y)). lia. Qed.
Lemma fold_max_ge l init x : In x l -> x <= fold_left Z.max l init.
Proof.
  revert init. induction l as [|y ys IH]; intros init; cbn; [tauto|].
  intros [<-|H]; [|apply IH; exact H].
  pose proof (fold_max_init ys (Z.max init y)). lia.
Qed.
