(* Paths.v — shortest paths on the model graph.
   sp_nx mirrors networkx 3.x `bidirectional_shortest_path` (what nx.shortest_path(G, s, t) runs)
   line by line: fringe-size alternation, Gsucc / Gpred insertion order, endpoint and protocol
   edges included.  It is executable only (used for the bit-exact correspondence); the theorems
   quantify over any oracle that returns shortest paths (see Routing.v).  Definitions only. *)
From FV Require Import Base Graph.

Definition amap := list (string * option string).
Definition amem (k : string) (m : amap) : bool := existsb (fun p => str_eqb (fst p) k) m.
Definition aget (k : string) (m : amap) : option (option string) :=
  option_map snd (find (fun p => str_eqb (fst p) k) m).

(* one level of the forward search: for v in this_level: for w in Gsucc[v]: ... *)
Definition fwd_level (g : graph) (level : list string) (pred succ : amap)
  : option string * (amap * list string) :=
  fold_left (fun (acc : option string * (amap * list string)) v =>
    fold_left (fun (acc : option string * (amap * list string)) w =>
      match acc with
      | (Some _, _) => acc
      | (None, (pred, fringe)) =>
          let '(pred, fringe) := if amem w pred then (pred, fringe) else (pred ++ [(w, Some v)], fringe ++ [w]) in
          if amem w succ then (Some w, (pred, fringe)) else (None, (pred, fringe))
      end) (successors g v) acc) level (None, (pred, [])).

Definition rev_level (g : graph) (level : list string) (pred succ : amap)
  : option string * (amap * list string) :=
  fold_left (fun (acc : option string * (amap * list string)) v =>
    fold_left (fun (acc : option string * (amap * list string)) w =>
      match acc with
      | (Some _, _) => acc
      | (None, (succ, fringe)) =>
          let '(succ, fringe) := if amem w succ then (succ, fringe) else (succ ++ [(w, Some v)], fringe ++ [w]) in
          if amem w pred then (Some w, (succ, fringe)) else (None, (succ, fringe))
      end) (predecessors g v) acc) level (None, (succ, [])).

Fixpoint bidir (fuel : nat) (g : graph) (pred succ : amap) (ff rf : list string)
  : option (amap * amap * string) :=
  match fuel with
  | O => None
  | S f =>
      match ff, rf with
      | [], _ | _, [] => None          (* NetworkXNoPath *)
      | _, _ =>
          if Nat.leb (length ff) (length rf) then
            match fwd_level g ff pred succ with
            | (Some w, (pred', _)) => Some (pred', succ, w)
            | (None, (pred', ff')) => bidir f g pred' succ ff' rf
            end
          else
            match rev_level g rf pred succ with
            | (Some w, (succ', _)) => Some (pred, succ', w)
            | (None, (succ', rf')) => bidir f g pred succ' ff rf'
            end
      end
  end.

Fixpoint chase (fuel : nat) (m : amap) (w : string) : list string :=
  match fuel with
  | O => []
  | S f => match aget w m with
           | Some (Some nxt) => w :: chase f m nxt
           | Some None => [w]
           | None => [w]
           end
  end.

Definition sp_nx (g : graph) (s t : string) : option (list string) :=
  if negb (has_node g s && has_node g t) then None
  else if str_eqb s t then Some [s]
  else
    let n := length (g_nodes g) in
    match bidir (2 * S n) g [(s, None)] [(t, None)] [s] [t] with
    | None => None
    | Some (pred, succ, w) =>
        let back := rev (chase (S n) pred w) in             (* source ... w *)
        match aget w succ with
        | Some (Some nxt) => Some (back ++ chase (S n) succ nxt)
        | _ => Some back
        end
    end.
