(* ModelProofs.v — universal theorems about the generator model (every description, every size):
   what `run sp d = Ok n` implies for the emitted netlist n, for ANY shortest-path oracle sp. *)
From FV Require Import Base AddrRange AddrRangeProofs RouteMap RouteMapProofs Graph Desc Build Netlist Compile Routing Emit
     Hw Check CheckProofs ModelBase.
From Coq Require Import ZifyBool.

(* ------------------------------------------------------------------ run, taken apart *)
Lemma run_inv sp d n : run sp d = Ok n ->
  exists g c ri, build d = Ok g /\ compile d g = Ok c /\ gen_routing_info sp c = Ok ri /\ emit c ri = Ok n.
Proof.
  unfold run. intros H. inv_bind H. eauto 10.
Qed.

Lemma compile_desc d g c : compile d g = Ok c -> c_desc c = d /\ c_graph c = g.
Proof. unfold compile. intros H. inv_bind H. inversion H; subst; cbn; auto. Qed.

Lemma emit_inv c ri n : emit c ri = Ok n ->
  ri_sam ri <> [] /\
  exists axi rts, emit_axi_cfgs c = Ok axi /\ mapM (emit_rt (c_desc c) ri) (c_rts c) = Ok rts /\
    n = {| nl_name := "floo_" +++ d_name (c_desc c) +++ "_noc"; n_nw := d_nw (c_desc c);
           n_algo := algo_name (d_algo (c_desc c));
           n_ep_enum := emit_ep_enum c; n_sam_enum := emit_sam_enum (ri_sam ri);
           n_id_bits := match d_algo (c_desc c) with XY => None | _ => Some (ri_id_bits ri) end;
           n_xy_bits := match ri_xy ri with Some (xb, (yb, _)) => Some (xb, (yb, 1)) | None => None end;
           n_route_bits := match d_algo (c_desc c) with SRC => Some (ri_route_bits ri) | _ => None end;
           n_aw := desc_aw (c_desc c); n_sam_num := Z.of_nat (length (ri_sam ri));
           n_sam := map (emit_sam_rule (desc_aw (c_desc c))) (ri_sam ri);
           n_tables := match d_algo (c_desc c) with SRC => Some (emit_tables c ri) | _ => None end;
           n_route_cfg := emit_route_cfg (c_desc c) ri (Z.of_nat (length (ri_sam ri)));
           n_axi_cfgs := axi; n_ports := emit_ports c; n_links := emit_links c;
           n_nis := map (emit_ni (c_desc c) (ri_offset ri)) (c_nis c); n_rts := rts |}.
Proof.
  unfold emit. intros H. cbv zeta in H.
  destruct (Z.of_nat (length (ri_sam ri)) =? 0) eqn:E; [discriminate|]. cbn [bind] in H.
  inv_bind H. split.
  - intros Hs. rewrite Hs in E. cbn in E. discriminate.
  - inversion H; subst. eauto.
Qed.

(* ------------------------------------------------------------------ routing info, taken apart *)
Lemma gri_inv sp c ri : gen_routing_info sp c = Ok ri ->
  ri_num_ep ri = Z.of_nat (length (c_nis c)) /\ 0 < ri_num_ep ri /\
  ri_id_bits ri = clog2 (Z.of_nat (length (c_nis c))) /\
  (d_algo (c_desc c) = ID ->
     mapM (fun r => do t <- gen_table sp c r; Ok (cr_name r, t)) (c_rts c) = Ok (ri_tables ri)) /\
  (d_algo (c_desc c) = SRC ->
     mapM (fun s => do rs <- mapM (gen_route sp c s) (c_nis c); Ok (cn_name s, rs)) (c_nis c) = Ok (ri_routes ri)) /\
  ri_sam ri = gen_sam c (ri_offset ri) /\
  check_no_overlap (map (fun e => {| dest := 0; st := r_start (fst (snd e)); en := r_end (fst (snd e));
                                     sz := r_size (fst (snd e)) |}) (ri_sam ri)) = true.
Proof.
  unfold gen_routing_info. intros H.
  destruct (Z.of_nat (length (c_nis c)) =? 0) eqn:E0; [discriminate|].
  inv_bind H.
  match goal with E : mk_map _ = Ok _ |- _ => unfold mk_map in E;
    match type of E with (if ?b then _ else _) = _ => destruct b eqn:Eo; [|discriminate] end end.
  inversion H; subst; clear H. unfold ri_offset. cbn [ri_num_ep ri_id_bits ri_tables ri_routes ri_sam ri_xy].
  repeat split; try lia; auto.
  - intros Ha. rewrite Ha in *. match goal with E : bind (check_identifiers _ _) _ = Ok _ |- _ => inv_bind E; exact E end.
  - intros Ha. rewrite Ha in *. match goal with E : mapM _ (c_nis c) = Ok _ |- _ => exact E end.
Qed.

(* Network.check_identifiers: what every accepted network satisfies *)
Lemma check_identifiers_ok names what u : check_identifiers names what = Ok u -> nodupb str_eqb (map snake_to_camel names) = true.
Proof. unfold check_identifiers. destruct (nodupb _ _); [reflexivity|discriminate]. Qed.
Lemma gri_names sp c ri : gen_routing_info sp c = Ok ri ->
  nodupb str_eqb (map snake_to_camel (map enum_name (c_nis c) ++ ["num_endpoints"])) = true /\
  (d_algo (c_desc c) = ID -> nodupb str_eqb (map snake_to_camel (map (fun r => cr_name r +++ "_map") (c_rts c))) = true) /\
  nodupb str_eqb (map snake_to_camel (map (fun e => snd (snd e)) (ri_sam ri))) = true.
Proof.
  unfold gen_routing_info. intros H.
  destruct (Z.of_nat (length (c_nis c)) =? 0) eqn:E0; [discriminate|].
  inv_bind H. inversion H; subst; clear H. cbn [ri_sam].
  split; [|split].
  - match goal with E : check_identifiers (map enum_name _ ++ _) _ = Ok _ |- _ => exact (check_identifiers_ok _ _ _ E) end.
  - intros Ha. rewrite Ha in *. match goal with E : bind (check_identifiers _ _) _ = Ok _ |- _ => inv_bind E end.
    match goal with E : check_identifiers (map (fun r => cr_name r +++ "_map") _) _ = Ok _ |- _ => exact (check_identifiers_ok _ _ _ E) end.
  - match goal with E : check_identifiers (map (fun e => snd (snd e)) _) _ = Ok _ |- _ => exact (check_identifiers_ok _ _ _ E) end.
Qed.

(* ------------------------------------------------------------------ compile, taken apart *)
Lemma compile_inv d g c : compile d g = Ok c ->
  exists dirs nis rts rids,
    mapM (compile_ni d g) (nodes_of_type g NNi) = Ok nis /\
    mapM (fun p => compile_router d g (fst p) (snd p)) (zip (nodes_of_type g NRouter) rids) = Ok rts /\
    c = {| c_graph := g; c_desc := d; c_nis := nis; c_rts := rts; c_dirs := dirs |}.
Proof. unfold compile. intros H. inv_bind H. inversion H; subst. eauto 10. Qed.

Lemma compile_ni_uid d g ni n : compile_ni d g ni = Ok n -> 0 <= cn_uid n.
Proof.
  unfold compile_ni. destruct (find_ep d (n_desc ni)) as [e|]; [|discriminate].
  intros H. inv_bind H. unfold uid_of in E.
  destruct (index_of _ _ _) as [i|]; [|discriminate]. inversion E; subst.
  inversion H; subst; cbn. lia.
Qed.

Lemma fill_free_length slots ls : length (fst (fill_free slots ls)) = length slots.
Proof.
  revert ls. induction slots as [|[x|] rest IH]; intros ls; cbn [fill_free]; [reflexivity| |].
  - specialize (IH ls). destruct (fill_free rest ls). cbn in *. f_equal. exact IH.
  - destruct ls as [|l ls']; [reflexivity|]. specialize (IH ls'). destruct (fill_free rest ls'). cbn in *. f_equal. exact IH.
Qed.

Lemma update_nth_length {A} n (x : A) l : length (update_nth n x l) = length l.
Proof. revert n. induction l as [|y ys IH]; intros [|n]; cbn; auto. Qed.

Lemma place_length what slots dir l slots' : place what slots dir l = Ok slots' -> length slots' = length slots.
Proof.
  unfold place. intros H. inv_bind H. destruct (nth a slots None); [discriminate|].
  inversion H; subst. apply update_nth_length.
Qed.

Lemma foldM_place_length {E} what (f : E -> Z) (gl : E -> link) es slots slots' :
  foldM (fun sl e => place what sl (f e) (gl e)) es slots = Ok slots' -> length slots' = length slots.
Proof.
  revert slots. induction es as [|e es IH]; cbn [foldM]; intros slots H.
  - inversion H; reflexivity.
  - inv_bind H. rewrite (IH _ H). eapply place_length; eauto.
Qed.

Lemma compile_router_lengths d g rt rid r : compile_router d g rt rid = Ok r ->
  0 <= cr_degree r /\ length (cr_in r) = Z.to_nat (cr_degree r) /\ length (cr_out r) = Z.to_nat (cr_degree r).
Proof.
  unfold compile_router. cbv zeta.
  set (degree := match find_rtd d (n_desc rt) with
                 | Some r0 => match rt_degree r0 with Some k => k | None => _ end
                 | None => _ end).
  destruct (degree <? 0) eqn:Ed; [discriminate|]. intros H. inv_bind H.
  pose proof (foldM_place_length _ _ _ _ _ _ E) as L1.
  pose proof (foldM_place_length _ _ _ _ _ _ E0) as L2.
  rewrite repeat_length in L1, L2.
  match type of H with context [fill_free a ?x] => pose proof (fill_free_length a x) as F1; destruct (fill_free a x) as [inc li] end.
  match type of H with context [fill_free a0 ?x] => pose proof (fill_free_length a0 x) as F2; destruct (fill_free a0 x) as [out lo] end.
  cbn [fst] in F1, F2. destruct li; [|discriminate]. destruct lo; [|discriminate].
  inversion H; subst; cbn. repeat split; try lia.
Qed.

(* ------------------------------------------------------------------ C13 on the model *)
Lemma enumerate_from_snd_lt {A} n (l : list A) p : In p (enumerate_from n l) -> (n <= fst p < n + length l)%nat.
Proof.
  revert n. induction l as [|x xs IH]; intros n; cbn; [tauto|].
  intros [<-|H]; cbn; [lia|]. specialize (IH _ H). lia.
Qed.

Lemma enumerate_from_zseq {A} n (l : list A) :
  map (fun p => Z.of_nat (fst p)) (enumerate_from n l) = zseq (length l) (Z.of_nat n).
Proof.
  revert n. induction l as [|x xs IH]; intros n; cbn; [reflexivity|]. f_equal. rewrite IH. f_equal. lia.
Qed.

Lemma algo_name_inj a s : algo_name a = s ->
  (s = "IdTable" -> a = ID) /\ (s = "SourceRouting" -> a = SRC) /\ (s = "XYRouting" -> a = XY).
Proof. intros <-. destruct a; cbn; repeat split; intros H; try reflexivity; discriminate. Qed.

Lemma emit_rt_counts d ri r x : emit_rt d ri r = Ok x ->
  r_nroutes x = cr_degree r /\ r_nin x = Z.of_nat (length (cr_in r)) /\ r_nout x = Z.of_nat (length (cr_out r)) /\
  length (r_req_in x) = length (cr_in r) /\ length (r_rsp_out x) = length (cr_in r) /\
  length (r_req_out x) = length (cr_out r) /\ length (r_rsp_in x) = length (cr_out r) /\
  (d_nw d = true -> length (r_wide_in x) = length (cr_in r) /\ length (r_wide_out x) = length (cr_out r)) /\
  r_algo x = algo_name (d_algo d) /\
  r_map x = match d_algo d with
            | ID => match find (fun p => str_eqb (fst p) (cr_name r)) (ri_tables ri) with
                    | Some (_, rules) => Some (snake_to_camel (cr_name r +++ "_map"),
                                               (Z.of_nat (length rules), (Z.of_nat (length rules), (32, rules))))
                    | None => None
                    end
            | _ => None
            end.
Proof.
  unfold emit_rt. cbv zeta. destruct (existsb _ (cr_in r)); [|discriminate]. cbn [bind].
  intros H. inversion H; subst; clear H. cbn. unfold in_src, out_sig. rewrite !map_length.
  do 7 (split; [reflexivity|]).
  split; [intros Hn; rewrite Hn, !map_length; split; reflexivity|].
  split; reflexivity.
Qed.

Theorem C13_model sp d n : run sp d = Ok n -> C13_on n.
Proof.
  intros H. destruct (run_inv _ _ _ H) as (g & c & ri & Hb & Hc & Hr & He).
  destruct (compile_desc _ _ _ Hc) as (Hd & Hg).
  destruct (emit_inv _ _ _ He) as (Hne & axi & rts & Ha & Hrts & ->).
  destruct (gri_inv _ _ _ Hr) as (Hnum & Hpos & Hidb & Htab & Hrou & Hsam & Hov).
  destruct (compile_inv _ _ _ Hc) as (dirs & nis & crts & rids & Hnis & Hcrts & Hceq).
  unfold C13_on. cbn [n_sam_num n_sam n_sam_enum n_ep_enum n_algo n_tables n_nis n_rts n_route_cfg n_nw].
  assert (Hlen : 0 < Z.of_nat (length (ri_sam ri))) by (destruct (ri_sam ri); [congruence|cbn; lia]).
  split; [rewrite map_length; reflexivity|].
  split; [unfold cfg_get, emit_route_cfg; cbn; rewrite map_length; reflexivity|].
  split.
  { unfold emit_sam_enum. cbn [snd]. rewrite map_map. cbn [snd]. unfold enumerate.
    rewrite (enumerate_from_zseq 0 (rev (ri_sam ri))). rewrite rev_length, map_length. reflexivity. }
  split.
  { (* ep_id_e width *)
    unfold emit_ep_enum. cbn [fst snd]. intros p Hp. apply in_app_or in Hp.
    set (members := emit_members c) in *. set (nmem := Z.of_nat (length members)) in *.
    set (mx := fold_left Z.max (map snd members) 0).
    assert (Hw : Z.max mx nmem + 1 <= 2 ^ clog2 (Z.max mx nmem + 1)) by (apply clog2_spec; unfold nmem; lia).
    destruct Hp as [Hp|[<-|[]]].
    - assert (Hge : snd p <= mx) by (apply fold_max_ge; apply in_map; exact Hp).
      assert (H0 : 0 <= snd p).
      { unfold members, emit_members in Hp. apply sort_by_In in Hp. apply in_map_iff in Hp.
        destruct Hp as (x & <- & Hx). cbn [snd]. rewrite Hceq in Hx. cbn [c_nis] in Hx.
        destruct (mapM_In _ _ _ _ Hnis Hx) as (nd & _ & Hnd). eapply compile_ni_uid; eauto. }
      lia.
    - cbn [snd]. unfold nmem in *. lia. }
  split.
  { unfold emit_sam_enum. cbn [fst snd]. intros p Hp. apply in_map_iff in Hp. destruct Hp as (q & <- & Hq).
    cbn [snd]. unfold enumerate in Hq. apply enumerate_from_snd_lt in Hq. rewrite rev_length in Hq.
    pose proof (clog2_spec _ Hlen). lia. }
  split.
  { (* source routing: NumRoutes and table dimensions *)
    intros Halgo. destruct (algo_name_inj _ _ Halgo) as (_ & Hs & _). specialize (Hs eq_refl).
    rewrite Hs. split.
    - unfold cfg_get, emit_route_cfg. rewrite Hs. cbn. unfold ZS. rewrite Hnum.
      f_equal. f_equal. f_equal. symmetry. apply map_length.
    - specialize (Hrou Hs). eexists. split; [reflexivity|].
      unfold emit_tables, by_id_desc. repeat rewrite ?map_length, ?rev_length, ?sort_by_length. split; [reflexivity|].
      apply Forall_forall. intros w Hw. apply in_map_iff in Hw. destruct Hw as (x & <- & Hx).
      repeat rewrite ?map_length, ?rev_length, ?sort_by_length.
      apply in_rev in Hx. apply sort_by_In in Hx.
      (* every entry of ri_routes has one route per interface, and x has an entry *)
      assert (Hall : forall e, In e (ri_routes ri) -> length (snd e) = length (c_nis c)).
      { intros e He'. destruct (mapM_In _ _ _ _ Hrou He') as (s & _ & Es). inv_bind Es. inversion Es; subst. cbn.
        eapply mapM_length; eauto. }
      destruct (mapM_In_l _ _ _ _ Hrou Hx) as (e & Hein & Ee). inv_bind Ee. inversion Ee; subst.
      unfold routes_of.
      destruct (find (fun p => str_eqb (fst p) (cn_name x)) (ri_routes ri)) as [[nm rs]|] eqn:Ef.
      + apply find_some in Ef. destruct Ef as (Hin & _). apply (Hall _ Hin).
      + exfalso. pose proof (find_none _ _ Ef _ Hein) as Hn. cbn in Hn.
        assert (str_eqb (cn_name x) (cn_name x) = true) by (apply str_eqb_eq; reflexivity). congruence. }
  (* routers *)
  intros r Hr'. destruct (mapM_In _ _ _ _ Hrts Hr') as (cr & Hcr & Er).
  destruct (emit_rt_counts _ _ _ _ Er) as (E1 & E2 & E3 & L1 & L2 & L3 & L4 & Lw & Ealg & Emap).
  rewrite Hceq in Hcr. cbn [c_rts] in Hcr.
  destruct (mapM_In _ _ _ _ Hcrts Hcr) as (pr & _ & Ecr).
  destruct (compile_router_lengths _ _ _ _ _ Ecr) as (D0 & D1 & D2).
  unfold router_counts_ok. cbn [n_nw n_algo].
  rewrite E1, E2, E3, L1, L2, L3, L4. do 6 (split; [lia|]).
  split; [intros Hnw; destruct (Lw Hnw) as (W1 & W2); rewrite W1, W2; lia|].
  rewrite Emap. destruct (d_algo (c_desc c)) eqn:Ea; cbn; try discriminate.
  specialize (Htab eq_refl).
  assert (Hcr' : In cr (c_rts c)) by (rewrite Hceq; exact Hcr).
  destruct (mapM_In_l _ _ _ _ Htab Hcr') as (e & Hein & Ee). inv_bind Ee. inversion Ee; subst.
  destruct (find (fun p => str_eqb (fst p) (cr_name cr)) (ri_tables ri)) as [[nm rules]|] eqn:Ef; [split; reflexivity|].
  exfalso. pose proof (find_none _ _ Ef _ Hein) as Hn. cbn in Hn.
  assert (str_eqb (cr_name cr) (cr_name cr) = true) by (apply str_eqb_eq; reflexivity). congruence.
Qed.

(* ------------------------------------------------------------------ C01 on the model *)
Lemma pairwise_map {S T} (R : T -> T -> Prop) (f : S -> T) l :
  pairwise R (map f l) <-> pairwise (fun x y => R (f x) (f y)) l.
Proof.
  induction l as [|x xs IH]; cbn [map pairwise]; [tauto|]. rewrite IH, Forall_map. tauto.
Qed.

Lemma at_most_one {T} (lo hi : T -> Z) (l : list T) a :
  pairwise (fun x y => hi x <= lo y \/ hi y <= lo x) l ->
  Nat.le (length (filter (fun x => (lo x <=? a) && (a <? hi x)) l)) 1.
Proof.
  induction l as [|x xs IH]; cbn [pairwise filter length]; [lia|].
  intros (H1 & H2). specialize (IH H2). destruct ((lo x <=? a) && (a <? hi x)) eqn:E; [|exact IH].
  cbn [length]. assert (Hn : filter (fun y => (lo y <=? a) && (a <? hi y)) xs = []).
  { destruct (filter _ xs) as [|y ys] eqn:F; [reflexivity|exfalso].
    assert (Hy : In y (filter (fun y => (lo y <=? a) && (a <? hi y)) xs)) by (rewrite F; cbn; auto).
    apply filter_In in Hy. destruct Hy as (Hy & Hm). rewrite Forall_forall in H1. specialize (H1 y Hy). lia. }
  rewrite Hn. cbn. lia.
Qed.

Definition range_wf (r : range) : Prop := r_start r < r_end r /\ r_end r - r_start r = r_size r.

Lemma range_of_spec_wf s r : range_of_spec s = Ok r -> range_wf r.
Proof.
  unfold range_of_spec. intros H. apply mk_range_wf in H. unfold range_wf. lia.
Qed.
Lemma set_idx_wf r k r' : range_wf r -> set_idx r k = Ok r' -> range_wf r'.
Proof.
  unfold set_idx, range_wf. destruct (r_base r); [|discriminate]. intros Hw H. inversion H; subst; cbn. lia.
Qed.

Lemma mapM_Forall_out {A B} (P : B -> Prop) (f : A -> res B) l l' :
  (forall x y, In x l -> f x = Ok y -> P y) -> mapM f l = Ok l' -> Forall P l'.
Proof.
  intros Hp H. apply Forall_forall. intros y Hy. destruct (mapM_In _ _ _ _ H Hy) as (x & Hx & E). eauto.
Qed.

Lemma compile_ni_ranges d g ni x : compile_ni d g ni = Ok x ->
  Forall range_wf (cn_ranges x) /\ length (cn_ranges x) = length (ep_ranges (cn_ep x)).
Proof.
  unfold compile_ni. destruct (find_ep d (n_desc ni)) as [e|]; [|discriminate].
  intros H. inv_bind H.
  assert (W0 : Forall range_wf a1) by (eapply mapM_Forall_out; [|exact E1]; intros s r _ Hr; eapply range_of_spec_wf; eauto).
  assert (L0 : length a1 = length (ep_ranges e)) by (eapply mapM_length; eauto).
  assert (W : Forall range_wf a2 /\ length a2 = length (ep_ranges e)).
  { destruct (ep_array e) as [[|p [|q [|? ?]]]|]; try discriminate.
    - destruct (n_arr ni) as [[|i [|? ?]]|]; try discriminate. destruct (ep_is_sbr e).
      + split; [|rewrite (mapM_length _ _ _ E2); exact L0]. eapply mapM_Forall_out; [|exact E2].
        intros r r' Hr Hs. cbv beta in Hs. rewrite Forall_forall in W0. eapply set_idx_wf; [apply W0; exact Hr|exact Hs].
      + inversion E2; subst. auto.
    - destruct (n_arr ni) as [[|i [|j [|? ?]]]|]; try discriminate. destruct (ep_is_sbr e).
      + split; [|rewrite (mapM_length _ _ _ E2); exact L0]. eapply mapM_Forall_out; [|exact E2].
        intros r r' Hr Hs. cbv beta in Hs. rewrite Forall_forall in W0. eapply set_idx_wf; [apply W0; exact Hr|exact Hs].
      + inversion E2; subst. auto.
    - inversion E2; subst. auto. }
  inversion H; subst; cbn. exact W.
Qed.

(* the rule gen_sam emits for range r of interface x *)
Lemma gen_sam_In c off x r :
  In x (c_nis c) -> ni_sbr x = true -> In r (cn_ranges x) -> length (cn_ranges x) = length (ep_ranges (cn_ep x)) ->
  exists nm, In (id_sub (cn_id x) off, (r, nm)) (gen_sam c off).
Proof.
  intros Hx Hs Hr Hl. unfold gen_sam.
  assert (Hz : exists s, In (r, s) (zip (cn_ranges x) (ep_ranges (cn_ep x)))).
  { revert Hr Hl. generalize (ep_ranges (cn_ep x)). induction (cn_ranges x) as [|r0 rs IH]; intros sp [] Hl; try discriminate.
    - destruct sp as [|s0 ss]; [discriminate|]. subst. exists s0. cbn. auto.
    - destruct sp as [|s0 ss]; [discriminate|]. cbn in Hl. destruct (IH ss H ltac:(lia)) as (s & Hin). exists s. cbn. auto. }
  destruct Hz as (s & Hz).
  assert (He : exists i, In (i, (r, s)) (enumerate (zip (cn_ranges x) (ep_ranges (cn_ep x))))).
  { unfold enumerate. generalize 0%nat. induction (zip (cn_ranges x) (ep_ranges (cn_ep x))) as [|p ps IH]; intros k; [destruct Hz|].
    destruct Hz as [->|Hz]; [exists k; cbn; auto|]. destruct (IH Hz (S k)) as (i & Hi). exists i. cbn. auto. }
  destruct He as (i & He). eexists. apply in_flat_map. exists x. split.
  - apply in_rev. rewrite rev_involutive. apply filter_In. auto.
  - apply in_map_iff. exists (i, (r, s)). split; [reflexivity|exact He].
Qed.

Lemma gen_sam_inv c off e : In e (gen_sam c off) ->
  exists x, In x (c_nis c) /\ ni_sbr x = true /\ In (fst (snd e)) (cn_ranges x) /\ fst e = id_sub (cn_id x) off.
Proof.
  unfold gen_sam. intros H. apply in_flat_map in H. destruct H as (x & Hx & He).
  apply in_rev in Hx. apply filter_In in Hx. destruct Hx as (Hx & Hs).
  apply in_map_iff in He. destruct He as ([i [r s]] & <- & Hi). cbn [fst snd].
  exists x. repeat split; auto.
  unfold enumerate in Hi. revert Hi. generalize 0%nat.
  assert (G : forall l k, In (i, (r, s)) (enumerate_from k l) -> In (r, s) l).
  { induction l as [|p ps IH]; intros k; cbn; [tauto|]. intros [E|H]; [inversion E; auto|right; eapply IH; eauto]. }
  intros k Hi. apply G in Hi. clear G. revert Hi. generalize (ep_ranges (cn_ep x)).
  induction (cn_ranges x) as [|r0 rs IH]; intros sp Hi; [destruct Hi|]. destruct sp as [|s0 ss]; [destruct Hi|].
  cbn in Hi. destruct Hi as [E|Hi]; [inversion E; cbn; auto|right; eapply IH; eauto].
Qed.

Definition C01_model_on (c : compiled) (ri : rinfo) (n : netlist) : Prop :=
  (* every address of every range of every subordinate interface decodes to exactly one rule, whose
     destination is the identity emitted for that interface *)
  (forall x r a, In x (c_nis c) -> ni_sbr x = true -> In r (cn_ranges x) -> r_start r <= a < r_end r ->
     exists sr, sam_decode n a = [sr] /\ sr_idx sr = id_sub (cn_id x) (ri_offset ri) /\
                exists y, In y (n_nis n) /\ ni_name y = cn_name x /\ Netlist.ni_id y = sr_idx sr) /\
  (* addresses outside every such range match no rule *)
  (forall a, (forall x r, In x (c_nis c) -> ni_sbr x = true -> In r (cn_ranges x) -> ~ (r_start r <= a < r_end r)) ->
     sam_decode n a = []).

Lemma pairwise_impl {T} (R R' : T -> T -> Prop) l :
  (forall x y, R x y -> R' x y) -> pairwise R l -> pairwise R' l.
Proof.
  intros Hi. induction l as [|x xs IH]; cbn [pairwise]; [tauto|]. intros (H1 & H2). split; auto.
  eapply Forall_impl; [|exact H1]. intros y; apply Hi.
Qed.

Lemma emit_sam_rule_bounds aw e :
  sr_start (emit_sam_rule aw e) = r_start (fst (snd e)) /\ sr_end (emit_sam_rule aw e) = r_end (fst (snd e)) /\
  sr_idx (emit_sam_rule aw e) = fst e.
Proof. destruct e as [dst [r nm]]. cbn. auto. Qed.

Lemma decode_model_unique aw (sam : list (idv * (range * string))) a :
  pairwise (fun e f => r_end (fst (snd e)) <= r_start (fst (snd f)) \/ r_end (fst (snd f)) <= r_start (fst (snd e))) sam ->
  Nat.le (length (filter (fun r => sam_matches r a) (map (emit_sam_rule aw) sam))) 1.
Proof.
  intros Hd. unfold sam_matches. apply (at_most_one sr_start sr_end). apply pairwise_map.
  eapply pairwise_impl; [|exact Hd]. intros x y H.
  destruct (emit_sam_rule_bounds aw x) as (-> & -> & _). destruct (emit_sam_rule_bounds aw y) as (-> & -> & _). exact H.
Qed.

Theorem C01_model sp d g c ri n :
  build d = Ok g -> compile d g = Ok c -> gen_routing_info sp c = Ok ri -> emit c ri = Ok n -> C01_model_on c ri n.
Proof.
  intros Hb Hc Hr He.
  destruct (emit_inv _ _ _ He) as (Hne & axi & rts & Ha & Hrts & ->).
  destruct (gri_inv _ _ _ Hr) as (Hnum & Hpos & Hidb & Htab & Hrou & Hsam & Hov).
  destruct (compile_inv _ _ _ Hc) as (dirs & nis & crts & rids & Hnis & Hcrts & Hceq).
  assert (Hni : forall x, In x (c_nis c) ->
            Forall range_wf (cn_ranges x) /\ length (cn_ranges x) = length (ep_ranges (cn_ep x))).
  { intros x Hx. rewrite Hceq in Hx. cbn [c_nis] in Hx. destruct (mapM_In _ _ _ _ Hnis Hx) as (nd & _ & E).
    eapply compile_ni_ranges; eauto. }
  (* all emitted ranges are non-empty, hence the overlap check means pairwise disjointness *)
  set (mk := fun e : idv * (range * string) =>
               {| dest := 0; st := r_start (fst (snd e)); en := r_end (fst (snd e)); sz := r_size (fst (snd e)) |}) in *.
  assert (Hwf : Forall wf (map mk (ri_sam ri))).
  { apply Forall_forall. intros q Hq. apply in_map_iff in Hq. destruct Hq as (e & <- & Hein).
    rewrite Hsam in Hein. destruct (gen_sam_inv _ _ _ Hein) as (x & Hx & _ & Hrin & _).
    destruct (Hni x Hx) as (W & _). rewrite Forall_forall in W. specialize (W _ Hrin).
    unfold wf, range_wf, mk in *; cbn. lia. }
  pose proof (proj1 (check_no_overlap_iff _ Hwf) Hov) as Hd.
  unfold pdisj in Hd. apply (proj1 (pairwise_map disj mk (ri_sam ri))) in Hd.
  assert (Hd' : pairwise (fun e f => r_end (fst (snd e)) <= r_start (fst (snd f)) \/
                                     r_end (fst (snd f)) <= r_start (fst (snd e))) (ri_sam ri))
    by (eapply pairwise_impl; [|exact Hd]; intros x y H; exact H).
  set (aw := desc_aw (c_desc c)) in *.
  unfold C01_model_on, sam_decode. cbn [n_sam n_nis]. split.
  - intros x r a Hx Hs Hrin Hra.
    destruct (Hni x Hx) as (_ & Hl).
    destruct (gen_sam_In c (ri_offset ri) x r Hx Hs Hrin Hl) as (nm & Hin). rewrite <- Hsam in Hin.
    set (sr := emit_sam_rule aw (id_sub (cn_id x) (ri_offset ri), (r, nm))).
    assert (Hm : sam_matches sr a = true) by (unfold sam_matches, sr; cbn; lia).
    assert (Hf : In sr (filter (fun r0 => sam_matches r0 a) (map (emit_sam_rule aw) (ri_sam ri)))).
    { apply filter_In. split; [apply in_map; exact Hin|exact Hm]. }
    pose proof (decode_model_unique aw (ri_sam ri) a Hd') as Hle.
    exists sr. split; [|split].
    + destruct (filter _ (map (emit_sam_rule aw) (ri_sam ri))) as [|r1 [|r2 rs]]; cbn in Hle, Hf; [destruct Hf| |lia].
      destruct Hf as [->|[]]. reflexivity.
    + reflexivity.
    + exists (emit_ni (c_desc c) (ri_offset ri) x). split; [apply in_map; exact Hx|]. split; reflexivity.
  - intros a Hout. destruct (filter _ (map (emit_sam_rule aw) (ri_sam ri))) as [|sr rs] eqn:F; [reflexivity|exfalso].
    assert (Hf : In sr (filter (fun r0 => sam_matches r0 a) (map (emit_sam_rule aw) (ri_sam ri)))) by (rewrite F; cbn; auto).
    apply filter_In in Hf. destruct Hf as (Hin & Hm). apply in_map_iff in Hin. destruct Hin as (e & <- & Hein).
    rewrite Hsam in Hein. destruct (gen_sam_inv _ _ _ Hein) as (x & Hx & Hs & Hrin & _).
    apply (Hout x (fst (snd e)) Hx Hs Hrin).
    destruct (emit_sam_rule_bounds aw e) as (B1 & B2 & _). unfold sam_matches in Hm. rewrite B1, B2 in Hm. lia.
Qed.

(* the address ranges of the map, independent of the destination encoding *)
Definition sam_ranges (c : compiled) : list range :=
  flat_map (fun x => firstn (length (ep_ranges (cn_ep x))) (cn_ranges x)) (rev (filter ni_sbr (c_nis c))).

Lemma zip_map_fst {A B} (l : list A) (m : list B) : map fst (zip l m) = firstn (length m) l.
Proof.
  revert m. induction l as [|x xs IH]; intros [|y ys]; cbn; try reflexivity. f_equal. apply IH.
Qed.

Lemma map_enumerate_from {A B} (F : nat * A -> B) (G : A -> B) k l :
  (forall i a, F (i, a) = G a) -> map F (enumerate_from k l) = map G l.
Proof. intros H. revert k. induction l as [|a l IH]; intros k; cbn; [reflexivity|]. rewrite H, IH. reflexivity. Qed.

Lemma gen_sam_ranges c off : map (fun e => fst (snd e)) (gen_sam c off) = sam_ranges c.
Proof.
  unfold gen_sam, sam_ranges. induction (rev (filter ni_sbr (c_nis c))) as [|x xs IH]; cbn [flat_map map]; [reflexivity|].
  rewrite map_app, IH. f_equal. rewrite map_map. unfold enumerate.
  rewrite <- (zip_map_fst (cn_ranges x) (ep_ranges (cn_ep x))).
  apply map_enumerate_from. intros i [r s]. reflexivity.
Qed.

Definition ranges_disjoint (l : list range) : Prop :=
  pairwise (fun r s => r_end r <= r_start s \/ r_end s <= r_start r) l.

(* a description whose expanded ranges overlap is rejected: nothing is emitted *)
Theorem overlap_rejected sp c :
  Forall range_wf (sam_ranges c) -> ~ ranges_disjoint (sam_ranges c) -> exists e, gen_routing_info sp c = Err e.
Proof.
  intros Hw Hn. destruct (gen_routing_info sp c) as [ri|e] eqn:E; [exfalso|eauto].
  destruct (gri_inv _ _ _ E) as (_ & _ & _ & _ & _ & Hsam & Hov).
  set (mk := fun e : idv * (range * string) =>
               {| dest := 0; st := r_start (fst (snd e)); en := r_end (fst (snd e)); sz := r_size (fst (snd e)) |}) in *.
  assert (Hwf : Forall wf (map mk (ri_sam ri))).
  { apply Forall_forall. intros q Hq. apply in_map_iff in Hq. destruct Hq as (e0 & <- & Hein).
    assert (Hr : In (fst (snd e0)) (sam_ranges c)).
    { rewrite <- (gen_sam_ranges c (ri_offset ri)), <- Hsam. apply in_map_iff. exists e0. auto. }
    rewrite Forall_forall in Hw. specialize (Hw _ Hr). unfold wf, range_wf, mk in *; cbn. lia. }
  pose proof (proj1 (check_no_overlap_iff _ Hwf) Hov) as Hd.
  unfold pdisj in Hd. apply (proj1 (pairwise_map disj mk (ri_sam ri))) in Hd.
  apply Hn. unfold ranges_disjoint. rewrite <- (gen_sam_ranges c (ri_offset ri)), <- Hsam.
  apply pairwise_map. eapply pairwise_impl; [|exact Hd]. intros x y H. exact H.
Qed.

(* element (i, j) of a 2-D subordinate array owns slot i*cols + j of every declared range; element i of
   a 1-D array owns slot i *)
Theorem array_slot_2d d g ni x e m cols i j :
  compile_ni d g ni = Ok x -> find_ep d (n_desc ni) = Some e -> ep_is_sbr e = true ->
  ep_array e = Some [m; cols] -> n_arr ni = Some [i; j] ->
  Forall2 (fun s r => exists r0 b, range_of_spec s = Ok r0 /\ r_base r0 = Some b /\
                      r_start r = b + (i * cols + j) * r_size r0 /\ r_end r = b + (i * cols + j + 1) * r_size r0 /\
                      r_size r = r_size r0) (ep_ranges e) (cn_ranges x).
Proof.
  unfold compile_ni. intros H He Hs Ha Hn. rewrite He in H. inv_bind H.
  rewrite Ha, Hn, Hs in E2. inversion H; subst; cbn [cn_ranges]. clear H.
  apply mapM_Forall2 in E1. apply mapM_Forall2 in E2.
  revert a2 E2. induction E1 as [|s r0 ss rs Hsr _ IH]; intros a2 E2; inversion E2; subst; constructor.
  - match goal with H : set_idx r0 _ = Ok ?y |- _ => rename H into Hset end.
    unfold set_idx in Hset. destruct (r_base r0) as [b|] eqn:Eb; [|discriminate]. inversion Hset; subst; cbn.
    exists r0, b. repeat split; auto; lia.
  - apply IH. assumption.
Qed.

Theorem array_slot_1d d g ni x e m i :
  compile_ni d g ni = Ok x -> find_ep d (n_desc ni) = Some e -> ep_is_sbr e = true ->
  ep_array e = Some [m] -> n_arr ni = Some [i] ->
  Forall2 (fun s r => exists r0 b, range_of_spec s = Ok r0 /\ r_base r0 = Some b /\
                      r_start r = b + i * r_size r0 /\ r_end r = b + (i + 1) * r_size r0 /\
                      r_size r = r_size r0) (ep_ranges e) (cn_ranges x).
Proof.
  unfold compile_ni. intros H He Hs Ha Hn. rewrite He in H. inv_bind H.
  rewrite Ha, Hn, Hs in E2. inversion H; subst; cbn [cn_ranges]. clear H.
  apply mapM_Forall2 in E1. apply mapM_Forall2 in E2.
  revert a2 E2. induction E1 as [|s r0 ss rs Hsr _ IH]; intros a2 E2; inversion E2; subst; constructor.
  - match goal with H : set_idx r0 _ = Ok ?y |- _ => rename H into Hset end.
    unfold set_idx in Hset. destruct (r_base r0) as [b|] eqn:Eb; [|discriminate]. inversion Hset; subst; cbn.
    exists r0, b. repeat split; auto; lia.
  - apply IH. assumption.
Qed.

(* ------------------------------------------------------------------ C02 / C14 on the model: ID tables *)
From FV Require Import PathProofs.

(* what a router's table does with a destination identifier, and where that leads *)
Definition table_of (ri : rinfo) (rname : string) : option (list rule) :=
  option_map snd (find (fun p => str_eqb (fst p) rname) (ri_tables ri)).
Definition table_port (ri : rinfo) (rname : string) (id : Z) : option Z :=
  match table_of ri rname with
  | Some rules => match filter (fun ru => matchesb ru id) rules with [ru] => Some (dest ru) | _ => None end
  | None => None
  end.
Definition hop (c : compiled) (ri : rinfo) (rname : string) (id : Z) : option string :=
  match find_crt c rname, table_port ri rname id with
  | Some r, Some k => if k <? 0 then None else
                      match nth_error (cr_out r) (Z.to_nat k) with Some (Some l) => Some (snd l) | _ => None end
  | _, _ => None
  end.
(* follow the tables from node u towards the interface named tname with identifier id *)
Fixpoint cwalk (fuel : nat) (c : compiled) (ri : rinfo) (tname : string) (id : Z) (u : string) : list string :=
  match fuel with
  | O => [u]
  | S f => match hop c ri u id with
           | Some nxt => u :: cwalk f c ri tname id nxt
           | None => [u]
           end
  end.

Lemma slot_index_nth l slots k : slot_index l slots = Some k -> exists l', nth_error slots k = Some (Some l') /\ link_eqb l l' = true.
Proof.
  revert k. induction slots as [|o r IH]; cbn [slot_index]; intros k H; [discriminate|].
  destruct o as [z|].
  - destruct (link_eqb l z) eqn:E.
    + inversion H; subst. exists z. cbn. auto.
    + destruct (slot_index l r) as [k'|]; [|discriminate]. inversion H; subst. destruct (IH k' eq_refl) as (l' & A & B).
      exists l'. cbn. auto.
  - destruct (slot_index l r) as [k'|]; [|discriminate]. inversion H; subst. destruct (IH k' eq_refl) as (l' & A & B).
    exists l'. cbn. auto.
Qed.
Lemma link_eqb_eq a b : link_eqb a b = true -> a = b.
Proof.
  unfold link_eqb. destruct a, b; cbn. rewrite andb_true_iff. intros (A & B).
  apply str_eqb_eq in A. apply str_eqb_eq in B. congruence.
Qed.

Lemma matchesb_iff r a : matchesb r a = true <-> matches r a.
Proof. unfold matchesb, matches. lia. Qed.

Lemma unique_match l a r : pdisj l -> In r l -> matches r a -> filter (fun ru => matchesb ru a) l = [r].
Proof.
  intros Hd Hin Hm.
  assert (Hall : forall x, In x (filter (fun ru => matchesb ru a) l) -> x = r).
  { intros x Hx. apply filter_In in Hx. destruct Hx as (Hx & Hmx). apply matchesb_iff in Hmx.
    eapply pdisj_unique; eauto. }
  assert (Hr : In r (filter (fun ru => matchesb ru a) l)) by (apply filter_In; split; [auto|apply matchesb_iff; auto]).
  (* a list of copies of r, containing r, within a pairwise disjoint list, is [r] *)
  induction l as [|y ys IH]; [destruct Hin|]. cbn [filter] in *. destruct Hd as (Hd1 & Hd2).
  destruct (matchesb y a) eqn:Ey.
  - assert (y = r) by (apply Hall; cbn; auto). subst y. f_equal.
    destruct (filter (fun ru => matchesb ru a) ys) as [|z zs] eqn:F; [reflexivity|exfalso].
    assert (Hz : In z (filter (fun ru => matchesb ru a) ys)) by (rewrite F; cbn; auto).
    apply filter_In in Hz. destruct Hz as (Hz & Hmz). apply matchesb_iff in Hmz.
    rewrite Forall_forall in Hd1. specialize (Hd1 z Hz). eapply disj_no_common; eauto.
  - destruct Hin as [->|Hin]; [apply matchesb_iff in Hm; congruence|]. apply IH; auto.
Qed.

(* the table that gen_table builds sends the identifier of interface t to the port whose link leads to
   the oracle's next hop *)
Lemma gen_table_port sp c r tbl t id :
  gen_table sp c r = Ok tbl -> In t (c_nis c) -> id_num (cn_id t) = Ok id ->
  exists h nxt rest k ru,
    sp (c_graph c) (cr_name r) (cn_name t) = Some (h :: nxt :: rest) /\
    nth_error (cr_out r) k = Some (Some (cr_name r, nxt)) /\
    filter (fun ru => matchesb ru id) tbl = [ru] /\ dest ru = Z.of_nat k.
Proof.
  unfold gen_table. intros H Ht Hid. inv_bind H.
  destruct (mapM_In_l _ _ _ _ E Ht) as (ru & Hru & Eru). cbv beta in Eru.
  destruct (sp (c_graph c) (cr_name r) (cn_name t)) as [[|h [|nxt rest]]|] eqn:Esp; try discriminate.
  destruct (out_index r (cr_name r, nxt)) as [k|] eqn:Ek; [|discriminate].
  rewrite Hid in Eru. cbn [bind] in Eru. inversion Eru; subst ru; clear Eru.
  unfold out_index in Ek. destruct (slot_index_nth _ _ _ Ek) as (l' & Hn & Hl). apply link_eqb_eq in Hl. subst l'.
  (* the untrimmed rules are non-empty ranges, pairwise disjoint since the constructor accepted them *)
  assert (Hwf : Forall wf a).
  { apply Forall_forall. intros x Hx. destruct (mapM_In _ _ _ _ E Hx) as (n0 & _ & En0). cbv beta in En0.
    destruct (sp (c_graph c) (cr_name r) (cn_name n0)) as [[|? [|? ?]]|]; try discriminate.
    destruct (out_index r _); [|discriminate]. destruct (id_num (cn_id n0)); [|discriminate].
    inversion En0; subst; unfold wf; cbn; lia. }
  unfold mk_map in E0. destruct (check_no_overlap a) eqn:Eo; [|discriminate]. inversion E0; subst a0; clear E0.
  pose proof (proj1 (check_no_overlap_iff _ Hwf) Eo) as Hd.
  destruct (trim_correct a Hwf Hd) as (t' & Ht' & Hdec & Hwf' & Hd' & _). rewrite H in Ht'. inversion Ht'; subst t'; clear Ht'.
  assert (Hdec1 : decodes tbl id (Z.of_nat k)).
  { apply Hdec. exists {| dest := Z.of_nat k; st := id; en := id + 1; sz := 1 |}. split; [exact Hru|].
    split; [unfold matches; cbn; lia|reflexivity]. }
  destruct Hdec1 as (q & Hq & Hmq & Hdq).
  exists h, nxt, rest, k, q. split; [reflexivity|]. split; [exact Hn|]. split; [apply (unique_match tbl id q Hd' Hq Hmq)|exact Hdq].
Qed.

Lemma find_key_unique {A} (key : A -> string) (l : list A) x :
  NoDup (map key l) -> In x l -> find (fun y => str_eqb (key y) (key x)) l = Some x.
Proof.
  induction l as [|y ys IH]; cbn [map find]; intros Hnd Hin; [destruct Hin|].
  inversion Hnd as [|? ? Hni Hnd']; subst. destruct Hin as [->|Hin].
  - replace (str_eqb (key x) (key x)) with true by (symmetry; apply str_eqb_eq; reflexivity). reflexivity.
  - destruct (str_eqb (key y) (key x)) eqn:E; [|apply IH; auto].
    apply str_eqb_eq in E. exfalso. apply Hni. rewrite E. apply in_map. exact Hin.
Qed.

Lemma mapM_keys {A V} (key : A -> string) (f : A -> res (string * V)) l l' :
  mapM f l = Ok l' -> (forall x y, f x = Ok y -> fst y = key x) -> map fst l' = map key l.
Proof.
  intros H Hk. apply mapM_Forall2 in H. induction H as [|x y l l' Hxy _ IH]; cbn; [reflexivity|].
  rewrite (Hk _ _ Hxy), IH. reflexivity.
Qed.

Definition is_router (c : compiled) (u : string) : Prop := exists r, In r (c_rts c) /\ cr_name r = u.

(* one hop of the emitted tables = one hop of the oracle *)
Lemma id_hop sp c ri t id r :
  d_algo (c_desc c) = ID -> gen_routing_info sp c = Ok ri -> NoDup (map cr_name (c_rts c)) ->
  In t (c_nis c) -> id_num (cn_id t) = Ok id -> In r (c_rts c) ->
  exists h nxt rest, sp (c_graph c) (cr_name r) (cn_name t) = Some (h :: nxt :: rest) /\
                     hop c ri (cr_name r) id = Some nxt.
Proof.
  intros Ha Hr Hnd Ht Hid Hin.
  destruct (gri_inv _ _ _ Hr) as (_ & _ & _ & Htab & _). specialize (Htab Ha).
  destruct (mapM_In_l _ _ _ _ Htab Hin) as (e & Hein & Ee). inv_bind Ee. inversion Ee; subst e; clear Ee.
  destruct (gen_table_port _ _ _ _ _ _ E Ht Hid) as (h & nxt & rest & k & ru & Hsp & Hn & Hf & Hd).
  exists h, nxt, rest. split; [exact Hsp|].
  unfold hop, find_crt. rewrite (find_key_unique cr_name (c_rts c) r Hnd Hin).
  unfold table_port, table_of.
  assert (Hkeys : map fst (ri_tables ri) = map cr_name (c_rts c)).
  { eapply mapM_keys; [exact Htab|]. intros x y Hy. cbv beta in Hy. inv_bind Hy. inversion Hy. reflexivity. }
  assert (Hfind : find (fun p => str_eqb (fst p) (cr_name r)) (ri_tables ri) = Some (cr_name r, a)).
  { assert (Hnd' : NoDup (map fst (ri_tables ri))) by (rewrite Hkeys; exact Hnd).
    apply (find_key_unique fst (ri_tables ri) (cr_name r, a) Hnd' Hein). }
  rewrite Hfind. cbn [option_map snd]. rewrite Hf, Hd.
  destruct (Z.of_nat k <? 0) eqn:Ek; [lia|]. rewrite Nat2Z.id, Hn. reflexivity.
Qed.

Section IdDelivery.
  Variables (sp : oracle) (c : compiled) (ri : rinfo) (t : cni) (id : Z).
  Let g := c_graph c.
  Let tname := cn_name t.
  Definition g_edge (u v : string) : Prop := exists e, In e (g_edges g) /\ e_src e = u /\ e_dst e = v.
  Let sp' (u : string) := sp g u tname.

  Hypothesis Halgo : d_algo (c_desc c) = ID.
  Hypothesis Hri : gen_routing_info sp c = Ok ri.
  Hypothesis Ht : In t (c_nis c).
  Hypothesis Hid : id_num (cn_id t) = Ok id.
  (* the oracle returns shortest paths of the graph (networkx's documented contract) *)
  Hypothesis sp_path : forall s p, sp' s = Some p -> path_to_t g_edge tname p s.
  Hypothesis sp_min : forall s p q, sp' s = Some p -> path_to_t g_edge tname q s -> (length p <= length q)%nat.
  Variable B : nat.
  Hypothesis HB : (1 <= B)%nat.
  Hypothesis sp_bound : forall s p, sp' s = Some p -> (length p <= B)%nat.
  Hypothesis sp_complete : forall s q, path_to_t g_edge tname q s -> (length q <= B)%nat -> sp' s <> None.
  (* structure of the compiled graph: router names are unique and
     shortest paths from a router run through routers only *)
  Hypothesis Hnd : NoDup (map cr_name (c_rts c)).
  Hypothesis Htransit : forall u p, is_router c u -> sp' u = Some p -> forall x, In x (removelast p) -> is_router c x.

  Lemma sp_target : sp' tname = Some [tname].
  Proof.
    assert (Hp : path_to_t g_edge tname [tname] tname) by (repeat split; cbn; auto; discriminate).
    destruct (sp' tname) as [p|] eqn:E; [|exfalso; eapply (sp_complete tname [tname]); eauto].
    pose proof (sp_min _ _ _ E Hp) as Hl. pose proof (sp_path _ _ E) as Hq.
    destruct (path_head _ _ _ _ Hq) as (rest & ->). destruct rest; [reflexivity|cbn in Hl; lia].
  Qed.

  (* following the emitted tables is following the oracle *)
  Theorem cwalk_is_follow : forall k u p,
    (is_router c u \/ u = tname) -> sp' u = Some p -> length p = S k ->
    cwalk k c ri tname id u = follow sp' k u.
  Proof.
    induction k as [|k IH]; intros u p Hu Hs Hl; [reflexivity|].
    cbn [cwalk follow]. destruct Hu as [(r & Hr & <-)| ->].
    - destruct (id_hop sp c ri t id r Halgo Hri Hnd Ht Hid Hr) as (h & nxt & rest & Hsp & Hhop).
      fold g tname in Hsp. change (sp g (cr_name r) tname) with (sp' (cr_name r)) in Hsp.
      rewrite Hhop, Hsp. f_equal.
      rewrite Hs in Hsp. inversion Hsp; subst p.
      destruct (next_shorter g_edge tname sp' sp_path sp_min B sp_bound sp_complete (cr_name r) nxt rest _ Hs
                  ltac:(destruct (path_head _ _ _ _ (sp_path _ _ Hs)) as (rr & Er); inversion Er; reflexivity))
        as (p' & Hn & Hlen).
      apply (IH nxt p'); [|exact Hn|cbn [length] in *; lia].
      destruct rest as [|x xs].
      + (* nxt is the last node of the path: the destination *)
        right. destruct (sp_path _ _ Hs) as (_ & _ & Hlast & _). cbn in Hlast. exact Hlast.
      + left. apply (Htransit (cr_name r) _ ltac:(exists r; auto) Hs). cbn. auto.
    - rewrite sp_target in Hs. inversion Hs; subst p. cbn in Hl. lia.
  Qed.

  (* C02 (request network) and C14: from any router the tables deliver to t in exactly the hop distance,
     never visiting a node twice *)
  Theorem id_tables_deliver r p k :
    In r (c_rts c) -> sp' (cr_name r) = Some p -> length p = S k ->
    let v := cwalk k c ri tname id (cr_name r) in
    length v = S k /\ last v (cr_name r) = tname /\ NoDup v.
  Proof.
    intros Hr Hs Hl. cbv zeta. rewrite (cwalk_is_follow k (cr_name r) p (or_introl (ex_intro _ r (conj Hr eq_refl))) Hs Hl).
    destruct (follow_delivers g_edge tname sp' sp_path sp_min B sp_bound sp_complete k _ p Hs Hl) as (A1 & A2 & _ & _).
    repeat split; auto. eapply (follow_nodup g_edge tname sp' sp_path sp_min B sp_bound sp_complete); eauto.
  Qed.
End IdDelivery.


(* ------------------------------------------------------------------ closed corollary with the verified reference oracle *)
From FV Require Import RefOracle.

Theorem id_tables_deliver_ref (c : compiled) (ri : rinfo) (t : cni) (id : Z) :
  d_algo (c_desc c) = ID -> gen_routing_info sp_reference c = Ok ri -> In t (c_nis c) -> id_num (cn_id t) = Ok id ->
  NoDup (map cr_name (c_rts c)) ->
  (forall u p, is_router c u -> sp_reference (c_graph c) u (cn_name t) = Some p ->
               forall x, In x (removelast p) -> is_router c x) ->
  forall r p k, In r (c_rts c) -> sp_reference (c_graph c) (cr_name r) (cn_name t) = Some p -> length p = S k ->
    let v := cwalk k c ri (cn_name t) id (cr_name r) in
    length v = S k /\ last v (cr_name r) = cn_name t /\ NoDup v.
Proof.
  intros Ha Hr Ht Hid Hnd Htr.
  apply (id_tables_deliver sp_reference c ri t id Ha Hr Ht Hid
           (fun s p H => sp_ref_path (c_graph c) (cn_name t) s p H)
           (fun s p q H Hq => sp_ref_min (c_graph c) (cn_name t) s p q H Hq)
           (bound (c_graph c)) ltac:(unfold bound; lia)
           (fun s p H => sp_ref_bound (c_graph c) (cn_name t) s p H)
           (fun s q Hq Hl => sp_ref_complete (c_graph c) (cn_name t) s q Hq Hl) Hnd Htr).
Qed.

(* decidable forms of the structural hypotheses, for the non-vacuity examples *)
Definition is_routerb (c : compiled) (u : string) : bool := existsb (fun r => str_eqb (cr_name r) u) (c_rts c).
Definition transitb (sp : oracle) (c : compiled) (t : cni) : bool :=
  forallb (fun r => match sp (c_graph c) (cr_name r) (cn_name t) with
                    | Some p => forallb (is_routerb c) (removelast p)
                    | None => false
                    end) (c_rts c).

(* ------------------------------------------------------------------ C03 on the model: source routes *)
(* consuming a route word: each router takes clog2(#outputs) bits, least significant first *)
Fixpoint src_walk (fuel : nat) (c : compiled) (w : Z) (u : string) : list string * Z :=
  match fuel with
  | O => ([u], w)
  | S f =>
      match find_crt c u with
      | None => ([u], w)
      | Some r =>
          let b := clog2 (Z.of_nat (length (cr_out r))) in
          match nth_error (cr_out r) (Z.to_nat (w mod 2 ^ b)) with
          | Some (Some l) => let '(vs, rest) := src_walk f c (w / 2 ^ b) (snd l) in (u :: vs, rest)
          | _ => ([u], w)
          end
      end
  end.

Lemma word_peel p b w : 0 <= b -> 0 <= p < 2 ^ b -> (p + 2 ^ b * w) mod 2 ^ b = p /\ (p + 2 ^ b * w) / 2 ^ b = w.
Proof.
  intros Hb Hp. assert (0 < 2 ^ b) by (apply Z.pow_pos_nonneg; lia).
  rewrite (Z.mul_comm (2 ^ b) w). split.
  - rewrite Z_mod_plus_full. apply Z.mod_small. exact Hp.
  - rewrite Z_div_plus_full by lia. rewrite Z.div_small by exact Hp. lia.
Qed.

Lemma slot_index_lt l slots k : slot_index l slots = Some k -> (k < length slots)%nat.
Proof. intros H. destruct (slot_index_nth _ _ _ H) as (l' & Hn & _). apply nth_error_Some. congruence. Qed.

(* the word rendered for a path steers along exactly that path, consuming every bit *)
Theorem word_follows_path c : forall path ps,
  ports_along c path = Ok ps -> path <> [] ->
  src_walk (length ps) c (word_value ps) (hd "" path) = (path, 0).
Proof.
  induction path as [|a tl IH]; intros ps H Hne; [congruence|].
  destruct tl as [|b tl'].
  - cbn in H. inversion H; subst. reflexivity.
  - cbn [ports_along] in H. destruct (find_crt c a) as [r|] eqn:Er; [|discriminate].
    destruct (out_index r (a, b)) as [k|] eqn:Ek; [|discriminate]. inv_bind H. inversion H; subst ps; clear H.
    cbn [length word_value hd src_walk]. rewrite Er.
    set (bw := clog2 (Z.of_nat (length (cr_out r)))).
    unfold out_index in Ek. pose proof (slot_index_lt _ _ _ Ek) as Hlt.
    destruct (slot_index_nth _ _ _ Ek) as (l' & Hn & Hl). apply link_eqb_eq in Hl. subst l'.
    assert (Hb : 0 <= bw) by apply clog2_nonneg.
    assert (Hk : 0 <= Z.of_nat k < 2 ^ bw).
    { split; [lia|]. pose proof (clog2_spec (Z.of_nat (length (cr_out r))) ltac:(lia)). fold bw in H. lia. }
    destruct (word_peel (Z.of_nat k) bw (word_value a0) Hb Hk) as (Hm & Hd).
    rewrite Hm, Hd, Nat2Z.id, Hn. cbn [snd].
    specialize (IH a0 E ltac:(discriminate)). cbn [hd] in IH. rewrite IH. reflexivity.
Qed.

(* the word fits the bits its hops take *)
Lemma word_value_bound c : forall path ps, ports_along c path = Ok ps ->
  0 <= word_value ps < 2 ^ (fold_left (fun acc p => acc + snd p) ps 0).
Proof.
  assert (G : forall ps acc, 0 <= acc -> Forall (fun p => 0 <= snd p /\ 0 <= fst p < 2 ^ snd p) ps ->
            0 <= word_value ps /\ 2 ^ acc * (word_value ps + 1) <= 2 ^ (fold_left (fun acc p => acc + snd p) ps acc)).
  { induction ps as [|[p b] ps IH]; intros acc Ha Hf; cbn [word_value fold_left].
    - split; [lia|]. rewrite Z.mul_1_r. lia.
    - inversion Hf as [|? ? (Hb & Hp) Hf']; subst. cbn [fst snd] in *.
      destruct (IH (acc + b) ltac:(lia) Hf') as (W0 & W1).
      assert (0 < 2 ^ b) by (apply Z.pow_pos_nonneg; lia). assert (0 < 2 ^ acc) by (apply Z.pow_pos_nonneg; lia).
      split; [nia|]. rewrite Z.pow_add_r in W1 by lia. nia. }
  intros path ps H.
  assert (Hf : Forall (fun p => 0 <= snd p /\ 0 <= fst p < 2 ^ snd p) ps).
  { revert ps H. induction path as [|a tl IH]; intros ps H; [inversion H; constructor|].
    destruct tl as [|b tl']; [inversion H; constructor|]. cbn [ports_along] in H.
    destruct (find_crt c a) as [r|]; [|discriminate]. destruct (out_index r (a, b)) as [k|] eqn:Ek; [|discriminate].
    inv_bind H. inversion H; subst. constructor; [|apply IH; exact E]. cbn [fst snd].
    unfold out_index in Ek. pose proof (slot_index_lt _ _ _ Ek).
    pose proof (clog2_spec (Z.of_nat (length (cr_out r))) ltac:(lia)). pose proof (clog2_nonneg (Z.of_nat (length (cr_out r)))). lia. }
  destruct (G ps 0 ltac:(lia) Hf) as (W0 & W1). rewrite Z.pow_0_r in W1. lia.
Qed.

(* the route gen_route emits for (s, t) steers, from the first router, along exactly the oracle's path,
   consuming every bit, and fits the bits of its hops -- for ANY oracle *)
Theorem gen_route_follows sp c s t id ps :
  gen_route sp c s t = Ok (id, Some ps) ->
  exists first inner, sp (c_graph c) (cn_name s) (cn_name t) = Some (first :: inner) /\
    (inner <> [] -> src_walk (length ps) c (word_value ps) (hd "" inner) = (inner, 0)) /\
    0 <= word_value ps < 2 ^ route_bits_of (id, Some ps).
Proof.
  unfold gen_route. intros H. inv_bind H.
  destruct (str_eqb (cn_name s) (cn_name t) || only_mgr s && only_mgr t || only_sbr s && only_sbr t); [inversion H|].
  destruct (sp (c_graph c) (cn_name s) (cn_name t)) as [[|first inner]|] eqn:Esp; try discriminate.
  inv_bind H. inversion H; subst; clear H. exists first, inner. split; [reflexivity|]. split.
  - intros Hne. apply word_follows_path; assumption.
  - unfold route_bits_of. cbn [snd]. eapply word_value_bound; eauto.
Qed.

(* and the emitted route type is wide enough for every emitted word *)
Theorem route_bits_cover sp c ri :
  d_algo (c_desc c) = SRC -> gen_routing_info sp c = Ok ri ->
  forall e r, In e (ri_routes ri) -> In r (snd e) -> route_bits_of r <= ri_route_bits ri.
Proof.
  intros Ha Hr e r He Hin. unfold gen_routing_info in Hr.
  destruct (Z.of_nat (length (c_nis c)) =? 0); [discriminate|]. inv_bind Hr. inversion Hr; subst; cbn [ri_routes ri_route_bits] in *.
  apply fold_max_ge. apply in_flat_map. exists e. split; [exact He|]. apply in_map. exact Hin.
Qed.

(* ------------------------------------------------------------------ C05 on the model: port pairing *)
Definition rev_link (l : link) : link := (snd l, fst l).
Definition paired (a b : option link) : Prop :=
  match a, b with
  | Some l, Some l' => l' = rev_link l
  | None, None => True
  | _, _ => False
  end.

Lemma fill_free_paired : forall s1 s2 ls,
  Forall2 paired s1 s2 ->
  Forall2 paired (fst (fill_free s1 ls)) (fst (fill_free s2 (map rev_link ls))) /\
  snd (fill_free s2 (map rev_link ls)) = map rev_link (snd (fill_free s1 ls)).
Proof.
  induction s1 as [|a s1 IH]; intros s2 ls H; inversion H as [|? b ? s2' Hab Hrest]; subst.
  - cbn. auto.
  - destruct a as [l|], b as [l'|]; cbn [paired] in Hab; try contradiction.
    + cbn [fill_free]. specialize (IH s2' ls Hrest).
      destruct (fill_free s1 ls) as [r1 m1]. destruct (fill_free s2' (map rev_link ls)) as [r2 m2].
      cbn [fst snd] in *. destruct IH. split; [constructor; [exact Hab|assumption]|assumption].
    + destruct ls as [|x xs]; cbn [fill_free map].
      * split; [constructor; [exact I|exact Hrest]|reflexivity].
      * specialize (IH s2' xs Hrest).
        destruct (fill_free s1 xs) as [r1 m1]. destruct (fill_free s2' (map rev_link xs)) as [r2 m2].
        cbn [fst snd] in *. destruct IH. split; [constructor; [reflexivity|assumption]|assumption].
Qed.

(* what a fold of `place` over directed edges leaves in the slots *)
Section Place.
  Context {E : Type} (dirf : E -> Z) (pairf : E -> link).
  Definition placed (es : list E) (len : Z) (i : nat) (l : link) : Prop :=
    exists e, In e es /\ py_index len (dirf e) = Ok i /\ pairf e = l.

  Lemma place_inv what slots dir l slots' : place what slots dir l = Ok slots' ->
    exists i, py_index (Z.of_nat (length slots)) dir = Ok i /\ nth i slots None = None /\ slots' = update_nth i (Some l) slots.
  Proof.
    unfold place. intros H. inv_bind H. destruct (nth a slots None) eqn:En; [discriminate|].
    inversion H; subst. exists a. auto.
  Qed.

  Lemma py_index_lt len dir i : py_index len dir = Ok i -> (Z.of_nat i < len).
  Proof.
    unfold py_index. destruct ((0 <=? dir) && (dir <? len)) eqn:A; [intros H; inversion H; lia|].
    destruct ((dir <? 0) && (0 <=? len + dir)) eqn:B; [intros H; inversion H; lia|discriminate].
  Qed.

  Lemma nth_update_same {A} i (x : A) l d : (i < length l)%nat -> nth i (update_nth i x l) d = x.
  Proof. revert i. induction l as [|y ys IH]; intros [|i] H; cbn in *; try lia; auto. apply IH. lia. Qed.
  Lemma nth_update_other {A} i j (x : A) l d : i <> j -> nth j (update_nth i x l) d = nth j l d.
  Proof. revert i j. induction l as [|y ys IH]; intros [|i] [|j] H; cbn; auto; try congruence. Qed.

  Lemma fold_place_spec what : forall es init res,
    foldM (fun sl e => place what sl (dirf e) (pairf e)) es init = Ok res ->
    length res = length init /\
    (forall i l, nth i init None = Some l -> nth i res None = Some l) /\
    (forall i l, placed es (Z.of_nat (length init)) i l -> nth i res None = Some l) /\
    (forall i l, nth i res None = Some l -> nth i init None = Some l \/ placed es (Z.of_nat (length init)) i l).
  Proof.
    induction es as [|e es IH]; intros init res H; cbn [foldM] in H.
    - inversion H; subst. repeat split; auto. intros i l (e & [] & _).
    - inv_bind H. destruct (place_inv _ _ _ _ _ E0) as (k & Hk & Hfree & ->).
      destruct (IH _ _ H) as (L & K1 & K2 & K3). rewrite update_nth_length in L, K2, K3.
      pose proof (py_index_lt _ _ _ Hk) as Hlt.
      split; [exact L|]. split; [|split].
      + intros i l Hi. apply K1. destruct (Nat.eq_dec k i) as [->|Hne]; [congruence|].
        rewrite nth_update_other by exact Hne. exact Hi.
      + intros i l (e' & [<-|Hin] & Hi & Hl).
        * apply K1. rewrite Hk in Hi. inversion Hi; subst. apply nth_update_same. lia.
        * apply K2. exists e'. auto.
      + intros i l Hi. destruct (K3 i l Hi) as [Hu|(e' & Hin & Hi' & Hl)].
        * destruct (Nat.eq_dec k i) as [->|Hne].
          -- rewrite nth_update_same in Hu by lia. inversion Hu; subst. right. exists e. cbn. auto.
          -- rewrite nth_update_other in Hu by exact Hne. left. exact Hu.
        * right. exists e'. cbn. auto.
  Qed.
End Place.

Lemma nth_repeat_none {A} n i : nth i (repeat (@None A) n) None = None.
Proof. revert i. induction n; intros [|i]; cbn; auto. Qed.

Lemma Forall2_nth {A B} (R : A -> B -> Prop) l m da db :
  length l = length m -> (forall i, (i < length l)%nat -> R (nth i l da) (nth i m db)) -> Forall2 R l m.
Proof.
  revert m. induction l as [|x xs IH]; intros [|y ys] Hl H; cbn in Hl; try lia; constructor.
  - apply (H 0%nat). cbn. lia.
  - apply IH; [lia|]. intros i Hi. apply (H (S i)). cbn. lia.
Qed.

(* the heart of C05: if the directed incoming and outgoing link ends of a router mirror each other
   (same port index, reversed link), then after slotting -- directed ends by index, undirected ends
   into the free slots in corresponding order -- every port index holds a link and its reverse, or
   nothing in both directions *)
Theorem slots_paired {E} (in_dir out_dir : E -> Z) (in_pair out_pair : E -> link)
        (dir_in dir_out : list E) (nd_in : list link) (degree : nat) inc0 out0 :
  foldM (fun sl e => place "incoming" sl (in_dir e) (in_pair e)) dir_in (repeat None degree) = Ok inc0 ->
  foldM (fun sl e => place "outgoing" sl (out_dir e) (out_pair e)) dir_out (repeat None degree) = Ok out0 ->
  (forall i l, placed in_dir in_pair dir_in (Z.of_nat degree) i l <->
               placed out_dir out_pair dir_out (Z.of_nat degree) i (rev_link l)) ->
  Forall2 paired (fst (fill_free inc0 nd_in)) (fst (fill_free out0 (map rev_link nd_in))) /\
  snd (fill_free out0 (map rev_link nd_in)) = map rev_link (snd (fill_free inc0 nd_in)).
Proof.
  intros Hi Ho Hsym.
  destruct (fold_place_spec in_dir in_pair _ _ _ _ Hi) as (L1 & _ & A2 & A3).
  destruct (fold_place_spec out_dir out_pair _ _ _ _ Ho) as (L2 & _ & B2 & B3).
  rewrite repeat_length in *.
  apply fill_free_paired. apply (Forall2_nth paired inc0 out0 None None); [lia|].
  intros i Hlt. unfold paired.
  destruct (nth i inc0 None) as [l|] eqn:Ei.
  - destruct (A3 i l Ei) as [Hn|Hp]; [rewrite nth_repeat_none in Hn; discriminate|].
    apply Hsym in Hp. rewrite (B2 _ _ Hp). reflexivity.
  - destruct (nth i out0 None) as [l'|] eqn:Eo; [|exact I].
    destruct (B3 i l' Eo) as [Hn|Hp]; [rewrite nth_repeat_none in Hn; discriminate|].
    assert (Hl : l' = rev_link (rev_link l')) by (destruct l'; reflexivity). rewrite Hl in Hp.
    apply Hsym in Hp. rewrite (A2 _ _ Hp) in Ei. discriminate.
Qed.

(* the link ends at router nm mirror each other in graph g: a link u -> nm arriving on port k has a
   reverse link nm -> u leaving on port k, and vice versa *)
Definition mirrored (g : graph) (nm : string) : Prop :=
  forall k u,
    (exists e, In e (filter is_link (edges_to g nm)) /\ e_dst_dir e = Some k /\ e_src e = u) <->
    (exists e', In e' (filter is_link (edges_from g nm)) /\ e_src_dir e' = Some k /\ e_dst e' = u).

Lemma edges_to_dst g nm e : In e (edges_to g nm) -> e_dst e = nm.
Proof. unfold edges_to. intros H. apply filter_In in H. destruct H as (_ & H). apply str_eqb_eq in H. exact H. Qed.
Lemma edges_from_src g nm e : In e (edges_from g nm) -> e_src e = nm.
Proof. unfold edges_from. intros H. apply filter_In in H. destruct H as (_ & H). apply str_eqb_eq in H. exact H. Qed.

Lemma mapM_total {A B} (f : A -> res B) (h : A -> B) l l' :
  mapM f l = Ok l' -> (forall x y, f x = Ok y -> y = h x) -> l' = map h l.
Proof.
  intros H Hh. apply mapM_Forall2 in H. induction H as [|x y l l' Hxy _ IH]; cbn; [reflexivity|].
  rewrite (Hh _ _ Hxy), IH. reflexivity.
Qed.

Theorem compile_router_paired d g rt rid r :
  mirrored g (n_name rt) -> compile_router d g rt rid = Ok r -> Forall2 paired (cr_in r) (cr_out r).
Proof.
  intros Hm. unfold compile_router. cbv zeta.
  set (nm := n_name rt) in *.
  set (ins := filter is_link (edges_to g nm)). set (outs := filter is_link (edges_from g nm)).
  set (degree := match find_rtd d (n_desc rt) with
                 | Some r0 => match rt_degree r0 with Some k => k | None => Z.of_nat (length ins) end
                 | None => Z.of_nat (length ins) end).
  destruct (degree <? 0) eqn:Ed; [discriminate|]. intros H. inv_bind H.
  (* the undirected outgoing links are the reversed undirected incoming links *)
  assert (Hnd : a1 = map rev_link (map (fun e => (e_src e, e_dst e)) (filter (fun e => negb (is_some (e_dst_dir e))) ins))).
  { rewrite map_map. eapply mapM_total; [exact E1|]. intros x y Hy. cbv beta in Hy.
    destruct (find_edge g (e_dst x) (e_src x)); [|discriminate]. inversion Hy. reflexivity. }
  set (nd_in := map (fun e => (e_src e, e_dst e)) (filter (fun e => negb (is_some (e_dst_dir e))) ins)) in *.
  assert (Hdeg : Z.to_nat degree = Z.to_nat degree) by reflexivity.
  destruct (slots_paired (fun e => opt_default 0 (e_dst_dir e)) (fun e => opt_default 0 (e_src_dir e))
              (fun e => (e_src e, e_dst e)) (fun e => (e_src e, e_dst e))
              (filter (fun e => is_some (e_dst_dir e)) ins) (filter (fun e => is_some (e_src_dir e)) outs)
              nd_in (Z.to_nat degree) a a0 E E0) as (P1 & P2).
  { (* directed ends mirror each other *)
    intros i l. unfold placed. split.
    - intros (e & He & Hi & Hl). apply filter_In in He. destruct He as (He & Hs).
      destruct (e_dst_dir e) as [k|] eqn:Ek; [|discriminate]. cbn [opt_default] in Hi.
      destruct (proj1 (Hm k (e_src e)) (ex_intro _ e (conj He (conj Ek eq_refl)))) as (e' & He' & Hk' & Hd').
      exists e'. split; [apply filter_In; split; [exact He'|rewrite Hk'; reflexivity]|].
      rewrite Hk'. cbn [opt_default]. split; [exact Hi|].
      subst l. unfold rev_link. cbn. apply filter_In in He'. destruct He' as (He' & _).
      apply filter_In in He. destruct He as (He & _).
      rewrite (edges_from_src _ _ _ He'), (edges_to_dst _ _ _ He), Hd'. reflexivity.
    - intros (e' & He' & Hi & Hl). apply filter_In in He'. destruct He' as (He' & Hs).
      destruct (e_src_dir e') as [k|] eqn:Ek; [|discriminate]. cbn [opt_default] in Hi.
      destruct (proj2 (Hm k (e_dst e')) (ex_intro _ e' (conj He' (conj Ek eq_refl)))) as (e & He & Hk & Hsrc).
      exists e. split; [apply filter_In; split; [exact He|rewrite Hk; reflexivity]|].
      rewrite Hk. cbn [opt_default]. split; [exact Hi|].
      apply filter_In in He'. destruct He' as (He' & _). apply filter_In in He. destruct He as (He & _).
      pose proof (edges_from_src _ _ _ He') as S1. pose proof (edges_to_dst _ _ _ He) as S2.
      destruct l as [lu lv]. unfold rev_link in Hl. cbn in Hl. inversion Hl; subst. rewrite S2, Hsrc, S1. reflexivity. }
  rewrite Hnd in H. fold nd_in in H.
  destruct (fill_free a nd_in) as [inc li] eqn:F1. destruct (fill_free a0 (map rev_link nd_in)) as [out lo] eqn:F2.
  cbn [fst snd] in P1, P2. destruct li; [|discriminate]. destruct lo; [|discriminate].
  inversion H; subst; cbn. exact P1.
Qed.

From FV Require Import BuildProofs.

Lemma ginv_mirrored g nm : ginv g -> mirrored g nm.
Proof.
  intros (Hs & He) k u. split.
  - intros (e & Hin & Hk & Hu). apply filter_In in Hin. destruct Hin as (Hin & Hl).
    pose proof (edges_to_dst _ _ _ Hin) as Hd.
    unfold edges_to in Hin. apply filter_In in Hin. destruct Hin as (Hv & _).
    apply (edges_view_In _ _ He) in Hv. destruct (Hs e Hv Hl) as (e' & He' & M1 & M2 & M3 & M4 & M5).
    exists e'. split; [|split; congruence]. apply filter_In. split; [|exact M3].
    unfold edges_from. apply filter_In. split; [apply (edges_view_In _ _ He); exact He'|].
    apply String.eqb_eq. congruence.
  - intros (e & Hin & Hk & Hu). apply filter_In in Hin. destruct Hin as (Hin & Hl).
    pose proof (edges_from_src _ _ _ Hin) as Hd.
    unfold edges_from in Hin. apply filter_In in Hin. destruct Hin as (Hv & _).
    apply (edges_view_In _ _ He) in Hv. destruct (Hs e Hv Hl) as (e' & He' & M1 & M2 & M3 & M4 & M5).
    exists e'. split; [|split; congruence]. apply filter_In. split; [|exact M3].
    unfold edges_to. apply filter_In. split; [apply (edges_view_In _ _ He); exact He'|].
    apply String.eqb_eq. congruence.
Qed.

(* C05, model level, for EVERY description: whatever build accepts, every compiled router has, at every
   port index, the same neighbour on its input and on its output side (or both unused). *)
Theorem C05_model d g c :
  build d = Ok g -> compile d g = Ok c ->
  forall r, In r (c_rts c) -> Forall2 paired (cr_in r) (cr_out r).
Proof.
  intros Hb Hc r Hr. destruct (compile_inv _ _ _ Hc) as (dirs & nis & rts & rids & _ & Hrts & ->). cbn in Hr.
  destruct (mapM_In _ _ _ _ Hrts Hr) as (p & _ & Hp). cbv beta in Hp.
  eapply compile_router_paired; [|exact Hp]. apply ginv_mirrored. eapply build_ginv; eauto.
Qed.

(* every occupied incoming slot holds a link that ends at this router *)
Definition slots_all (P : link -> Prop) (s : list (option link)) : Prop := forall l, In (Some l) s -> P l.

Lemma update_nth_In {A} i (x : A) l y : In y (update_nth i x l) -> y = x \/ In y l.
Proof.
  revert i. induction l as [|z zs IH]; intros [|i]; cbn; try tauto.
  - intros [H|H]; auto.
  - intros [H|H]; [auto|]. destruct (IH _ H); auto.
Qed.

Lemma fold_place_all {E} (P : link -> Prop) what (dirf : E -> Z) (pairf : E -> link) es : forall init res,
  (forall e, In e es -> P (pairf e)) -> slots_all P init ->
  foldM (fun sl e => place what sl (dirf e) (pairf e)) es init = Ok res -> slots_all P res.
Proof.
  induction es as [|e es IH]; intros init res HP Hinit H; cbn [foldM] in H.
  - inversion H; subst; exact Hinit.
  - inv_bind H. eapply IH; [intros; apply HP; cbn; auto| |exact H].
    destruct (place_inv _ _ _ _ _ E0) as (k & _ & _ & ->).
    intros l Hl. apply update_nth_In in Hl. destruct Hl as [Hl|Hl]; [inversion Hl; subst; apply HP; cbn; auto|auto].
Qed.

Lemma fill_free_all (P : link -> Prop) : forall s ls, slots_all P s -> (forall l, In l ls -> P l) -> slots_all P (fst (fill_free s ls)).
Proof.
  induction s as [|a s IH]; intros ls Hs Hl; [cbn; exact Hs|].
  destruct a as [x|]; cbn [fill_free].
  - specialize (IH ls (fun l H => Hs l (or_intror H)) Hl). destruct (fill_free s ls) as [r m]. cbn [fst] in *.
    intros l [H|H]; [apply Hs; left; exact H|apply IH; exact H].
  - destruct ls as [|y ys]; [exact Hs|].
    specialize (IH ys (fun l H => Hs l (or_intror H)) (fun l H => Hl l (or_intror H))).
    destruct (fill_free s ys) as [r m]. cbn [fst] in *.
    intros l [H|H]; [inversion H; subst; apply Hl; left; reflexivity|apply IH; exact H].
Qed.

Lemma compile_router_in_ends d g rt rid r :
  compile_router d g rt rid = Ok r -> cr_name r = n_name rt /\ slots_all (fun l => snd l = n_name rt) (cr_in r).
Proof.
  unfold compile_router. cbv zeta. set (nm := n_name rt).
  set (ins := filter is_link (edges_to g nm)).
  match goal with |- (if ?c then _ else _) = _ -> _ => destruct c; [discriminate|] end.
  intros H. inv_bind H.
  assert (Hins : forall e, In e ins -> snd (e_src e, e_dst e) = nm).
  { intros e He. apply filter_In in He. destruct He as (He & _). cbn. eapply edges_to_dst; eauto. }
  assert (Ha : slots_all (fun l => snd l = nm) a).
  { eapply fold_place_all; [| |exact E].
    - intros e He. apply Hins. apply filter_In in He. tauto.
    - intros l Hl. apply repeat_spec in Hl. discriminate. }
  set (nd_in := map (fun e => (e_src e, e_dst e)) (filter (fun e => negb (is_some (e_dst_dir e))) ins)) in *.
  assert (Hnd : forall l, In l nd_in -> snd l = nm).
  { intros l Hl. apply in_map_iff in Hl. destruct Hl as (e & <- & He). apply Hins. apply filter_In in He. tauto. }
  pose proof (fill_free_all _ _ _ Ha Hnd) as Hf.
  destruct (fill_free a nd_in) as [inc li]. destruct (fill_free a0 a1) as [out lo]. cbn [fst] in Hf.
  destruct li; [|discriminate]. destruct lo; [|discriminate]. inversion H; subst; cbn. split; [reflexivity|exact Hf].
Qed.

(* C05 on the emitted netlist: what the model emits for router r at port index i *)
Definition port_wired (nw : bool) (x : rt_inst) (i : nat) : Prop :=
  (exists u, let li := (u, r_name x) in let lo := (r_name x, u) in
     nth_error (r_req_in x) i = Some [SSig (req_name li)] /\ nth_error (r_rsp_out x) i = Some [rsp_name li] /\
     nth_error (r_req_out x) i = Some [req_name lo] /\ nth_error (r_rsp_in x) i = Some [SSig (rsp_name lo)] /\
     (nw = true -> nth_error (r_wide_in x) i = Some [SSig (wide_name li)] /\
                   nth_error (r_wide_out x) i = Some [wide_name lo]))
  \/
  (nth_error (r_req_in x) i = Some [SZero] /\ nth_error (r_rsp_out x) i = Some [] /\
   nth_error (r_req_out x) i = Some [] /\ nth_error (r_rsp_in x) i = Some [SZero] /\
   (nw = true -> nth_error (r_wide_in x) i = Some [SZero] /\ nth_error (r_wide_out x) i = Some [])).

Lemma Forall2_nth_error {A B} (R : A -> B -> Prop) l m i a :
  Forall2 R l m -> nth_error l i = Some a -> exists b, nth_error m i = Some b /\ R a b.
Proof.
  intros H. revert i. induction H as [|x y l m Hxy _ IH]; intros [|i] Hi; cbn in *; try discriminate.
  - inversion Hi; subst. eauto.
  - apply IH. exact Hi.
Qed.

Theorem C05_model_netlist d g c ri r x :
  build d = Ok g -> compile d g = Ok c -> In r (c_rts c) -> emit_rt d ri r = Ok x ->
  forall i, (i < length (cr_in r))%nat -> port_wired (d_nw d) x i.
Proof.
  intros Hb Hc Hr Hx i Hi.
  pose proof (C05_model _ _ _ Hb Hc r Hr) as Hp.
  assert (Hends : slots_all (fun l => snd l = cr_name r) (cr_in r)).
  { destruct (compile_inv _ _ _ Hc) as (dirs & nis & rts & rids & _ & Hrts & ->). cbn in Hr.
    destruct (mapM_In _ _ _ _ Hrts Hr) as (p & _ & Hq). cbv beta in Hq. apply compile_router_in_ends in Hq. destruct Hq as (-> & Hq). exact Hq. }
  unfold emit_rt in Hx. cbv zeta in Hx. inv_bind Hx. inversion Hx; subst x; clear Hx. unfold port_wired. cbn.
  destruct (nth_error (cr_in r) i) as [sa|] eqn:Ea; [|apply nth_error_None in Ea; lia].
  destruct (Forall2_nth_error _ _ _ _ _ Hp Ea) as (sb & Eb & Hab).
  unfold in_src, out_sig. rewrite !nth_error_map, Ea, Eb. cbn [option_map].
  destruct sa as [[u v]|], sb as [l'|]; cbn [paired] in Hab; try contradiction.
  - left. exists u. assert (v = cr_name r) by (apply (Hends (u, v)); eapply nth_error_In; eauto). subst v l'.
    unfold rev_link. cbn [fst snd]. split; [reflexivity|]. split; [reflexivity|]. split; [reflexivity|].
    split; [reflexivity|]. intros ->. rewrite !nth_error_map, ?Ea, ?Eb. split; reflexivity.
  - right. split; [reflexivity|]. split; [reflexivity|]. split; [reflexivity|].
    split; [reflexivity|]. intros ->. rewrite !nth_error_map, ?Ea, ?Eb. split; reflexivity.
Qed.
