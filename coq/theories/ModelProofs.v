(* ModelProofs.v — universal theorems about the generator model (every description, every size):
   what `run sp d = Ok n` implies for the emitted netlist n, for ANY shortest-path oracle sp. *)
From FV Require Import Base AddrRange RouteMap RouteMapProofs Graph Desc Build Netlist Compile Routing Emit
     Hw Check CheckProofs ModelBase.
From Coq Require Import ZifyBool.

(* ------------------------------------------------------------------ run, taken apart *)
Lemma run_inv sp d n : run sp d = Ok n ->
  exists g c ri, build d = Ok g /\ compile d g = Ok c /\ gen_routing_info sp c = Ok ri /\ emit c ri = Ok n.
Proof.
  unfold run. intros H. inv_bind H. eauto 10.
Qed.

Lemma compile_desc d g c : compile d g = Ok c -> c_desc c = d /\ c_graph c = g.
Proof. unfold compile. intros H. inv_bind H. inversion H; subst; cbn; auto. Qed.

Lemma emit_inv c ri n : emit c ri = Ok n ->
  ri_sam ri <> [] /\
  exists axi rts, emit_axi_cfgs c = Ok axi /\ mapM (emit_rt (c_desc c) ri) (c_rts c) = Ok rts /\
    n = {| nl_name := "floo_" +++ d_name (c_desc c) +++ "_noc"; n_nw := d_nw (c_desc c);
           n_algo := algo_name (d_algo (c_desc c));
           n_ep_enum := emit_ep_enum c; n_sam_enum := emit_sam_enum (ri_sam ri);
           n_id_bits := match d_algo (c_desc c) with XY => None | _ => Some (ri_id_bits ri) end;
           n_xy_bits := match ri_xy ri with Some (xb, (yb, _)) => Some (xb, (yb, 1)) | None => None end;
           n_route_bits := match d_algo (c_desc c) with SRC => Some (ri_route_bits ri) | _ => None end;
           n_aw := desc_aw (c_desc c); n_sam_num := Z.of_nat (length (ri_sam ri));
           n_sam := map (emit_sam_rule (desc_aw (c_desc c))) (ri_sam ri);
           n_tables := match d_algo (c_desc c) with SRC => Some (emit_tables c ri) | _ => None end;
           n_route_cfg := emit_route_cfg (c_desc c) ri (Z.of_nat (length (ri_sam ri)));
           n_axi_cfgs := axi; n_ports := emit_ports c; n_links := emit_links c;
           n_nis := map (emit_ni (c_desc c) (ri_offset ri)) (c_nis c); n_rts := rts |}.
Proof.
  unfold emit. intros H. cbv zeta in H.
  destruct (Z.of_nat (length (ri_sam ri)) =? 0) eqn:E; [discriminate|]. cbn [bind] in H.
  inv_bind H. split.
  - intros Hs. rewrite Hs in E. cbn in E. discriminate.
  - inversion H; subst. eauto.
Qed.

(* ------------------------------------------------------------------ routing info, taken apart *)
Lemma gri_inv sp c ri : gen_routing_info sp c = Ok ri ->
  ri_num_ep ri = Z.of_nat (length (c_nis c)) /\ 0 < ri_num_ep ri /\
  ri_id_bits ri = clog2 (Z.of_nat (length (c_nis c))) /\
  (d_algo (c_desc c) = ID ->
     mapM (fun r => do t <- gen_table sp c r; Ok (cr_name r, t)) (c_rts c) = Ok (ri_tables ri)) /\
  (d_algo (c_desc c) = SRC ->
     mapM (fun s => do rs <- mapM (gen_route sp c s) (c_nis c); Ok (cn_name s, rs)) (c_nis c) = Ok (ri_routes ri)) /\
  ri_sam ri = gen_sam c (ri_offset ri) /\
  check_no_overlap (map (fun e => {| dest := 0; st := r_start (fst (snd e)); en := r_end (fst (snd e));
                                     sz := r_size (fst (snd e)) |}) (ri_sam ri)) = true.
Proof.
  unfold gen_routing_info. intros H.
  destruct (Z.of_nat (length (c_nis c)) =? 0) eqn:E0; [discriminate|].
  inv_bind H. unfold mk_map in E3.
  match type of E3 with (if ?b then _ else _) = _ => destruct b eqn:Eo; [|discriminate] end.
  inversion H; subst; clear H. unfold ri_offset. cbn [ri_num_ep ri_id_bits ri_tables ri_routes ri_sam ri_xy].
  repeat split; try lia; auto.
  - intros Ha. rewrite Ha in E1. exact E1.
  - intros Ha. rewrite Ha in E2. exact E2.
Qed.

(* ------------------------------------------------------------------ compile, taken apart *)
Lemma compile_inv d g c : compile d g = Ok c ->
  exists dirs nis rts rids,
    mapM (compile_ni d g) (nodes_of_type g NNi) = Ok nis /\
    mapM (fun p => compile_router d g (fst p) (snd p)) (zip (nodes_of_type g NRouter) rids) = Ok rts /\
    c = {| c_graph := g; c_desc := d; c_nis := nis; c_rts := rts; c_dirs := dirs |}.
Proof. unfold compile. intros H. inv_bind H. inversion H; subst. eauto 10. Qed.

Lemma compile_ni_uid d g ni n : compile_ni d g ni = Ok n -> 0 <= cn_uid n.
Proof.
  unfold compile_ni. destruct (find_ep d (n_desc ni)) as [e|]; [|discriminate].
  intros H. inv_bind H. unfold uid_of in E.
  destruct (index_of _ _ _) as [i|]; [|discriminate]. inversion E; subst.
  destruct (link_edges_from g (n_name ni)); [discriminate|]. destruct (link_edges_to g (n_name ni)); [discriminate|].
  cbn [bind] in H. inv_bind H. inversion H; subst; cbn. lia.
Qed.

Lemma fill_free_length slots ls : length (fst (fill_free slots ls)) = length slots.
Proof.
  revert ls. induction slots as [|[x|] rest IH]; intros ls; cbn [fill_free]; [reflexivity| |].
  - specialize (IH ls). destruct (fill_free rest ls). cbn in *. f_equal. exact IH.
  - destruct ls as [|l ls']; [reflexivity|]. specialize (IH ls'). destruct (fill_free rest ls'). cbn in *. f_equal. exact IH.
Qed.

Lemma update_nth_length {A} n (x : A) l : length (update_nth n x l) = length l.
Proof. revert n. induction l as [|y ys IH]; intros [|n]; cbn; auto. Qed.

Lemma place_length what slots dir l slots' : place what slots dir l = Ok slots' -> length slots' = length slots.
Proof.
  unfold place. intros H. inv_bind H. destruct (nth a slots None); [discriminate|].
  inversion H; subst. apply update_nth_length.
Qed.

Lemma foldM_place_length {E} what (f : E -> Z) (gl : E -> link) es slots slots' :
  foldM (fun sl e => place what sl (f e) (gl e)) es slots = Ok slots' -> length slots' = length slots.
Proof.
  revert slots. induction es as [|e es IH]; cbn [foldM]; intros slots H.
  - inversion H; reflexivity.
  - inv_bind H. rewrite (IH _ H). eapply place_length; eauto.
Qed.

Lemma compile_router_lengths d g rt rid r : compile_router d g rt rid = Ok r ->
  0 <= cr_degree r /\ length (cr_in r) = Z.to_nat (cr_degree r) /\ length (cr_out r) = Z.to_nat (cr_degree r).
Proof.
  unfold compile_router. cbv zeta.
  set (degree := match find_rtd d (n_desc rt) with
                 | Some r0 => match rt_degree r0 with Some k => k | None => _ end
                 | None => _ end).
  destruct (degree <? 0) eqn:Ed; [discriminate|]. intros H. inv_bind H.
  pose proof (foldM_place_length _ _ _ _ _ _ E) as L1.
  pose proof (foldM_place_length _ _ _ _ _ _ E0) as L2.
  rewrite repeat_length in L1, L2.
  match type of H with context [fill_free a ?x] => pose proof (fill_free_length a x) as F1; destruct (fill_free a x) as [inc li] end.
  match type of H with context [fill_free a0 ?x] => pose proof (fill_free_length a0 x) as F2; destruct (fill_free a0 x) as [out lo] end.
  cbn [fst] in F1, F2. destruct li; [|discriminate]. destruct lo; [|discriminate].
  inversion H; subst; cbn. repeat split; try lia.
Qed.

(* ------------------------------------------------------------------ C13 on the model *)
Lemma enumerate_from_snd_lt {A} n (l : list A) p : In p (enumerate_from n l) -> (n <= fst p < n + length l)%nat.
Proof.
  revert n. induction l as [|x xs IH]; intros n; cbn; [tauto|].
  intros [<-|H]; cbn; [lia|]. specialize (IH _ H). lia.
Qed.

Lemma enumerate_from_zseq {A} n (l : list A) :
  map (fun p => Z.of_nat (fst p)) (enumerate_from n l) = zseq (length l) (Z.of_nat n).
Proof.
  revert n. induction l as [|x xs IH]; intros n; cbn; [reflexivity|]. f_equal. rewrite IH. f_equal. lia.
Qed.

Lemma algo_name_inj a s : algo_name a = s ->
  (s = "IdTable" -> a = ID) /\ (s = "SourceRouting" -> a = SRC) /\ (s = "XYRouting" -> a = XY).
Proof. intros <-. destruct a; cbn; repeat split; intros H; try reflexivity; discriminate. Qed.

Lemma emit_rt_counts d ri r x : emit_rt d ri r = Ok x ->
  r_nroutes x = cr_degree r /\ r_nin x = Z.of_nat (length (cr_in r)) /\ r_nout x = Z.of_nat (length (cr_out r)) /\
  length (r_req_in x) = length (cr_in r) /\ length (r_rsp_out x) = length (cr_in r) /\
  length (r_req_out x) = length (cr_out r) /\ length (r_rsp_in x) = length (cr_out r) /\
  (d_nw d = true -> length (r_wide_in x) = length (cr_in r) /\ length (r_wide_out x) = length (cr_out r)) /\
  r_algo x = algo_name (d_algo d) /\
  r_map x = match d_algo d with
            | ID => match find (fun p => str_eqb (fst p) (cr_name r)) (ri_tables ri) with
                    | Some (_, rules) => Some (snake_to_camel (cr_name r +++ "_map"),
                                               (Z.of_nat (length rules), (Z.of_nat (length rules), (32, rules))))
                    | None => None
                    end
            | _ => None
            end.
Proof.
  unfold emit_rt. cbv zeta. destruct (existsb _ (cr_in r)); [|discriminate]. cbn [bind].
  intros H. inversion H; subst; clear H. cbn. unfold in_src, out_sig. rewrite !map_length.
  do 7 (split; [reflexivity|]).
  split; [intros Hn; rewrite Hn, !map_length; split; reflexivity|].
  split; reflexivity.
Qed.

Theorem C13_model sp d n : run sp d = Ok n -> C13_on n.
Proof.
  intros H. destruct (run_inv _ _ _ H) as (g & c & ri & Hb & Hc & Hr & He).
  destruct (compile_desc _ _ _ Hc) as (Hd & Hg).
  destruct (emit_inv _ _ _ He) as (Hne & axi & rts & Ha & Hrts & ->).
  destruct (gri_inv _ _ _ Hr) as (Hnum & Hpos & Hidb & Htab & Hrou & Hsam & Hov).
  destruct (compile_inv _ _ _ Hc) as (dirs & nis & crts & rids & Hnis & Hcrts & Hceq).
  unfold C13_on. cbn [n_sam_num n_sam n_sam_enum n_ep_enum n_algo n_tables n_nis n_rts n_route_cfg n_nw].
  assert (Hlen : 0 < Z.of_nat (length (ri_sam ri))) by (destruct (ri_sam ri); [congruence|cbn; lia]).
  split; [rewrite map_length; reflexivity|].
  split; [unfold cfg_get, emit_route_cfg; cbn; rewrite map_length; reflexivity|].
  split.
  { unfold emit_sam_enum. cbn [snd]. rewrite map_map. cbn [snd]. unfold enumerate.
    rewrite (enumerate_from_zseq 0 (rev (ri_sam ri))). rewrite rev_length, map_length. reflexivity. }
  split.
  { (* ep_id_e width *)
    unfold emit_ep_enum. cbn [fst snd]. intros p Hp. apply in_app_or in Hp.
    set (members := emit_members c) in *. set (nmem := Z.of_nat (length members)) in *.
    set (mx := fold_left Z.max (map snd members) 0).
    assert (Hw : Z.max mx nmem + 1 <= 2 ^ clog2 (Z.max mx nmem + 1)) by (apply clog2_spec; unfold nmem; lia).
    destruct Hp as [Hp|[<-|[]]].
    - assert (Hge : snd p <= mx) by (apply fold_max_ge; apply in_map; exact Hp).
      assert (H0 : 0 <= snd p).
      { unfold members, emit_members in Hp. apply sort_by_In in Hp. apply in_map_iff in Hp.
        destruct Hp as (x & <- & Hx). cbn [snd]. rewrite Hceq in Hx. cbn [c_nis] in Hx.
        destruct (mapM_In _ _ _ _ Hnis Hx) as (nd & _ & Hnd). eapply compile_ni_uid; eauto. }
      lia.
    - cbn [snd]. unfold nmem in *. lia. }
  split.
  { unfold emit_sam_enum. cbn [fst snd]. intros p Hp. apply in_map_iff in Hp. destruct Hp as (q & <- & Hq).
    cbn [snd]. unfold enumerate in Hq. apply enumerate_from_snd_lt in Hq. rewrite rev_length in Hq.
    pose proof (clog2_spec _ Hlen). lia. }
  split.
  { (* source routing: NumRoutes and table dimensions *)
    intros Halgo. destruct (algo_name_inj _ _ Halgo) as (_ & Hs & _). specialize (Hs eq_refl).
    rewrite Hs. split.
    - unfold cfg_get, emit_route_cfg. rewrite Hs. cbn. unfold ZS. rewrite Hnum.
      f_equal. f_equal. f_equal. symmetry. apply map_length.
    - specialize (Hrou Hs). eexists. split; [reflexivity|].
      unfold emit_tables, by_id_desc. repeat rewrite ?map_length, ?rev_length, ?sort_by_length. split; [reflexivity|].
      apply Forall_forall. intros w Hw. apply in_map_iff in Hw. destruct Hw as (x & <- & Hx).
      repeat rewrite ?map_length, ?rev_length, ?sort_by_length.
      apply in_rev in Hx. apply sort_by_In in Hx.
      (* every entry of ri_routes has one route per interface, and x has an entry *)
      assert (Hall : forall e, In e (ri_routes ri) -> length (snd e) = length (c_nis c)).
      { intros e He'. destruct (mapM_In _ _ _ _ Hrou He') as (s & _ & Es). inv_bind Es. inversion Es; subst. cbn.
        eapply mapM_length; eauto. }
      destruct (mapM_In_l _ _ _ _ Hrou Hx) as (e & Hein & Ee). inv_bind Ee. inversion Ee; subst.
      unfold routes_of.
      destruct (find (fun p => str_eqb (fst p) (cn_name x)) (ri_routes ri)) as [[nm rs]|] eqn:Ef.
      + apply find_some in Ef. destruct Ef as (Hin & _). apply (Hall _ Hin).
      + exfalso. pose proof (find_none _ _ Ef _ Hein) as Hn. cbn in Hn.
        assert (str_eqb (cn_name x) (cn_name x) = true) by (apply str_eqb_eq; reflexivity). congruence. }
  (* routers *)
  intros r Hr'. destruct (mapM_In _ _ _ _ Hrts Hr') as (cr & Hcr & Er).
  destruct (emit_rt_counts _ _ _ _ Er) as (E1 & E2 & E3 & L1 & L2 & L3 & L4 & Lw & Ealg & Emap).
  rewrite Hceq in Hcr. cbn [c_rts] in Hcr.
  destruct (mapM_In _ _ _ _ Hcrts Hcr) as (pr & _ & Ecr).
  destruct (compile_router_lengths _ _ _ _ _ Ecr) as (D0 & D1 & D2).
  unfold router_counts_ok. cbn [n_nw n_algo].
  rewrite E1, E2, E3, L1, L2, L3, L4. do 6 (split; [lia|]).
  split; [intros Hnw; destruct (Lw Hnw) as (W1 & W2); rewrite W1, W2; lia|].
  rewrite Emap. destruct (d_algo (c_desc c)) eqn:Ea; cbn; try discriminate.
  specialize (Htab eq_refl).
  assert (Hcr' : In cr (c_rts c)) by (rewrite Hceq; exact Hcr).
  destruct (mapM_In_l _ _ _ _ Htab Hcr') as (e & Hein & Ee). inv_bind Ee. inversion Ee; subst.
  destruct (find (fun p => str_eqb (fst p) (cr_name cr)) (ri_tables ri)) as [[nm rules]|] eqn:Ef; [split; reflexivity|].
  exfalso. pose proof (find_none _ _ Ef _ Hein) as Hn. cbn in Hn.
  assert (str_eqb (cr_name cr) (cr_name cr) = true) by (apply str_eqb_eq; reflexivity). congruence.
Qed.
