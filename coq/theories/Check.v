(* Check.v — decidable checkers evaluated (after extraction) on the netlist that the REAL floogen
   emitted.  Each returns the list of failures (clause key, message); [] = the property holds on
   this netlist.  Soundness theorems are in CheckProofs.v.  Definitions only. *)
From FV Require Import Base RouteMap Netlist Hw.

Definition fails := list (string * string).
Definition one (key msg : string) : fails := [(key, msg)].
Definition guard (b : bool) (key msg : string) : fails := if b then [] else one key msg.
Definition opt_str_eqb (a b : option string) : bool :=
  match a, b with
  | Some x, Some y => str_eqb x y
  | None, None => true
  | _, _ => false
  end.
Definition show_opt (o : option string) : string := match o with Some s => s | None => "-" end.
Definition cfg_get (n : netlist) (k : string) : option string :=
  option_map snd (find (fun p => str_eqb (fst p) k) (n_route_cfg n)).
Definition ZS := Z_to_string.
Definition NS (n : nat) := Z_to_string (Z.of_nat n).
Definition idv_str (i : idv) : string :=
  match i with IdN n => ZS n | IdXY x y p => "(" +++ ZS x +++ "," +++ ZS y +++ "," +++ ZS p +++ ")" end.
Definition hdr_str (h : hdr) : string :=
  match h with HId d => ZS d | HRoute w => "route=" +++ ZS w | HXY x y p => idv_str (IdXY x y p) end.
Definition path_str (l : list string) : string := concat_with ">" l.

(* ---------------------------------------------------------------- communicating pairs *)
Definition may_req (s t : ni_inst) : bool := ni_is_mgr s && ni_is_sbr t.
Definition may_rsp (s t : ni_inst) : bool := ni_is_sbr s && ni_is_mgr t.
Definition ordered_pairs (n : netlist) : list (ni_inst * ni_inst) :=
  flat_map (fun s => flat_map (fun t => if str_eqb (ni_name s) (ni_name t) then [] else [(s, t)])
                              (n_nis n)) (n_nis n).

Definition expect_delivery (what : string) (s t : ni_inst) (tr : trace) : fails :=
  match t_out tr with
  | Delivered u rest =>
      guard (str_eqb u (ni_name t)) "wrong-destination"
            (what +++ " from " +++ ni_name s +++ " for " +++ ni_name t +++ " arrives at " +++ u
             +++ " via " +++ path_str (t_rts tr))
      ++ guard (nodupb str_eqb (t_rts tr)) "router-revisited"
            (what +++ " from " +++ ni_name s +++ " to " +++ ni_name t +++ " visits a router twice: "
             +++ path_str (t_rts tr))
  | Failed why at_ =>
      one "not-delivered" (what +++ " from " +++ ni_name s +++ " to " +++ ni_name t +++ " (dst "
                           +++ idv_str (ni_id t) +++ "): " +++ why +++ " at " +++ at_ +++ " after "
                           +++ path_str (t_rts tr))
  end.

(* ---------------------------------------------------------------- C02: ID tables *)
Definition c02_pair (n : netlist) (st : ni_inst * ni_inst) : fails :=
  let '(s, t) := st in
  let h := hdr_of_id n (ni_id t) in
  (if may_req s t then expect_delivery "request" s t (send n Req s h) else []) ++
  (if may_rsp s t then expect_delivery "response" s t (send n Rsp s h) else []).
Definition chk_C02 (n : netlist) : fails :=
  guard (str_eqb (n_algo n) "IdTable") "not-id-routing" "netlist is not ID routed" ++
  flat_map (c02_pair n) (ordered_pairs n).

(* ---------------------------------------------------------------- C14: shortest *)
Definition expect_shortest (n : netlist) (nt : net) (what : string) (s t : ni_inst) (tr : trace) : fails :=
  match t_out tr with
  | Delivered u _ =>
      match dist n nt (ni_name s) (ni_name t) with
      | Some d =>
          guard (Nat.eqb (S (length (t_rts tr))) d) "not-shortest"
                (what +++ " from " +++ ni_name s +++ " to " +++ ni_name t +++ " traverses "
                 +++ NS (length (t_rts tr)) +++ " routers (" +++ path_str (t_rts tr)
                 +++ ") but the hop distance is " +++ NS d +++ " links")
      | None => one "unreachable" (ni_name t +++ " is unreachable from " +++ ni_name s)
      end
  | Failed why at_ =>
      (* a flit that never arrives does not traverse (hop distance - 1) routers either: the hardware's address
         decoder falls back to output 0 when no rule matches, so such a flit wanders *)
      one "not-traversed" (what +++ " from " +++ ni_name s +++ " to " +++ ni_name t +++ " is not delivered (" +++ why
                           +++ " at " +++ at_ +++ "): the number of routers it traverses is not the hop distance")
  end.

(* the header a source uses for destination t: its id (ID routing) or the emitted route word *)
Definition hdr_for (n : netlist) (s t : ni_inst) : res hdr :=
  if str_eqb (n_algo n) "SourceRouting" then
    match ni_row s, ni_id t with
    | Some e, IdN d =>
        match enum_value (n_ep_enum n) e with
        | Some v => match table_word n v d with
                    | Some w => Ok (hdr_of_word n (w_val w))
                    | None => Err ("no table entry [" +++ ZS v +++ "][" +++ ZS d +++ "]")
                    end
        | None => Err ("row selector " +++ e +++ " is not an ep_id_e member")
        end
    | _, _ => Err "interface has no route table row"
    end
  else Ok (hdr_of_id n (ni_id t)).

Definition c14_pair (n : netlist) (st : ni_inst * ni_inst) : fails :=
  let '(s, t) := st in
  match hdr_for n s t with
  | Err _ => []
  | Ok h =>
      (if may_req s t then expect_shortest n Req "request" s t (send n Req s h) else []) ++
      (if may_rsp s t then expect_shortest n Rsp "response" s t (send n Rsp s h) else [])
  end.
Definition chk_C14 (n : netlist) : fails := flat_map (c14_pair n) (ordered_pairs n).

(* ---------------------------------------------------------------- C03: source routes *)
Definition expect_consumed (what : string) (s t : ni_inst) (tr : trace) : fails :=
  match t_out tr with
  | Delivered _ (HRoute 0) => []
  | Delivered _ h => one "bits-left" (what +++ " from " +++ ni_name s +++ " to " +++ ni_name t
                                      +++ " arrives with unconsumed " +++ hdr_str h)
  | Failed _ _ => []
  end.

Definition c03_pair (n : netlist) (st : ni_inst * ni_inst) : fails :=
  let '(s, t) := st in
  if negb (may_req s t || may_rsp s t) then [] else
  match hdr_for n s t with
  | Err e => one "no-route-word" (ni_name s +++ " -> " +++ ni_name t +++ ": " +++ e)
  | Ok h =>
      let fit := match ni_row s, ni_id t, n_route_bits n with
                 | Some e, IdN d, Some rb =>
                     match enum_value (n_ep_enum n) e with
                     | Some v => match table_word n v d with
                                 | Some w =>
                                     guard ((w_width w =? rb) && (w_digits w =? rb) && (w_val w <? 2 ^ rb))
                                           "word-width"
                                           ("route word [" +++ ZS v +++ "][" +++ ZS d +++ "] has width "
                                            +++ ZS (w_width w) +++ "/" +++ ZS (w_digits w)
                                            +++ " digits, route_t has " +++ ZS rb +++ " bits")
                                 | None => []
                                 end
                     | None => []
                     end
                 | _, _, _ => one "no-route-type" "route_t width missing"
                 end in
      fit ++
      (if may_req s t then let tr := send n Req s h in
                           expect_delivery "request" s t tr ++ expect_consumed "request" s t tr else []) ++
      (if may_rsp s t then let tr := send n Rsp s h in
                           expect_delivery "response" s t tr ++ expect_consumed "response" s t tr else [])
  end.
Definition chk_C03 (n : netlist) : fails :=
  guard (str_eqb (n_algo n) "SourceRouting") "not-src-routing" "netlist is not source routed" ++
  flat_map (c03_pair n) (ordered_pairs n) ++
  (* the network interface reads its row through a port of RouteCfg.NumRoutes entries (floo_*_chimney: route_table_i):
     a column beyond that count is cut off, whatever word the package holds there *)
  guard (opt_str_eqb (cfg_get n "NumRoutes") (Some (ZS (Z.of_nat (length (n_nis n)))))) "route-table-port"
        ("RouteCfg.NumRoutes=" +++ show_opt (cfg_get n "NumRoutes") +++ " for " +++ ZS (Z.of_nat (length (n_nis n)))
         +++ " endpoints: the route table port of the network interfaces does not reach every destination's column").

(* ---------------------------------------------------------------- C05: pairing *)
Definition nets (n : netlist) : list net := if n_nw n then [Req; Rsp; Wide] else [Req; Rsp].

Definition far_in (n : netlist) (nt : net) (sl : list src) : res (option string) :=
  match sl with
  | [SZero] => Ok None
  | [SSig s] => match drivers n nt s with
                | [u] => Ok (Some (uref_name u))
                | [] => Err ("input signal " +++ s +++ " has no driver")
                | _ => Err ("input signal " +++ s +++ " has several drivers")
                end
  | [] => Err "input slot not assigned"
  | _ => Err "input slot assigned several times"
  end.
Definition far_out (n : netlist) (nt : net) (sl : list string) : res (option string) :=
  match sl with
  | [] => Ok None
  | [s] => match readers n nt s with
           | [u] => Ok (Some (uref_name u))
           | [] => Err ("output signal " +++ s +++ " has no reader")
           | _ => Err ("output signal " +++ s +++ " has several readers")
           end
  | _ => Err "output slot drives several signals"
  end.


(* the slots of port i of router r on all channels, with what is at their far end *)
Definition port_far_ends (n : netlist) (r : rt_inst) (i : nat) : list (string * res (option string)) :=
  let get_in (l : list (list src)) := nth i l [] in
  let get_out (l : list (list string)) := nth i l [] in
  [("req_in", far_in n Req (get_in (r_req_in r))); ("rsp_out", far_out n Rsp (get_out (r_rsp_out r)));
   ("req_out", far_out n Req (get_out (r_req_out r))); ("rsp_in", far_in n Rsp (get_in (r_rsp_in r)))] ++
  (if n_nw n then [("wide_in", far_in n Wide (get_in (r_wide_in r)));
                   ("wide_out", far_out n Wide (get_out (r_wide_out r)))] else []).

Definition c05_port (n : netlist) (r : rt_inst) (i : nat) : fails :=
  let ends := port_far_ends n r i in
  let errs := flat_map (fun p => match snd p with
                                 | Err e => one "half-connected"
                                                (r_name r +++ " port " +++ NS i +++ " " +++ fst p +++ ": " +++ e)
                                 | Ok _ => []
                                 end) ends in
  match errs with
  | _ :: _ => errs
  | [] =>
      let vals := map (fun p => match snd p with Ok v => v | Err _ => None end) ends in
      match vals with
      | [] => []
      | v0 :: rest =>
          guard (forallb (opt_str_eqb v0) rest) "pairing"
                (r_name r +++ " port " +++ NS i +++ " is attached to different neighbours: "
                 +++ concat_with ", " (map (fun p => fst p +++ "=" +++
                        show_opt (match snd p with Ok v => v | Err _ => None end)) ends))
      end
  end.

Definition c05_router (n : netlist) (r : rt_inst) : fails :=
  let lens := [length (r_req_in r); length (r_rsp_out r); length (r_req_out r); length (r_rsp_in r)] ++
              (if n_nw n then [length (r_wide_in r); length (r_wide_out r)] else []) in
  guard (forallb (Nat.eqb (Z.to_nat (r_nin r))) lens && (r_nin r =? r_nout r)) "array-lengths"
        (r_name r +++ ": port arrays / NumInputs / NumOutputs differ in length") ++
  flat_map (c05_port n r) (seq 0 (Z.to_nat (r_nin r))).

Definition net_of_type (ty : string) : option net :=
  if str_eqb ty "floo_req_t" then Some Req else if str_eqb ty "floo_rsp_t" then Some Rsp
  else if str_eqb ty "floo_wide_t" then Some Wide else None.

Definition c05_signal (n : netlist) (l : string * string) : fails :=
  let '(ty, s) := l in
  match net_of_type ty with
  | None => one "signal-type" ("signal " +++ s +++ " has unexpected type " +++ ty)
  | Some nt =>
      match drivers n nt s, readers n nt s with
      | [d], [r] =>
          guard (str_eqb s (uref_name d +++ "_to_" +++ uref_name r +++ "_" +++ net_name nt)) "signal-name"
                ("signal " +++ s +++ " is driven by " +++ uref_name d +++ " and read by " +++ uref_name r)
      | ds, rs => one "driver-reader-count"
                      ("signal " +++ s +++ " has " +++ NS (length ds) +++ " driver(s) and "
                       +++ NS (length rs) +++ " reader(s)")
      end
  end.

Definition chk_C05 (n : netlist) : fails :=
  flat_map (c05_router n) (n_rts n) ++ flat_map (c05_signal n) (n_links n).

(* ---------------------------------------------------------------- C01: address map *)
(* exp: what the description declares: (interface name, start, end) per endpoint instance and range *)
Definition sam_as_rules (n : netlist) : list rule :=
  map (fun r => {| dest := 0; st := sr_start r; en := sr_end r; sz := sr_end r - sr_start r |}) (n_sam n).

Definition c01_expected (n : netlist) (e : string * (Z * Z)) : fails :=
  let '(name, (s, en_)) := e in
  match find_ni n name with
  | None => one "unknown-interface" ("no network interface " +++ name)
  | Some x =>
      guard (existsb (fun r => (sr_start r =? s) && (sr_end r =? en_) && idv_eqb (sr_idx r) (ni_id x)) (n_sam n))
            "range-not-mapped"
            ("declared range [" +++ ZS s +++ "," +++ ZS en_ +++ ") of " +++ name +++ " (id " +++
             idv_str (ni_id x) +++ ") has no address-map rule with these bounds and this destination; "
             +++ "start decodes to [" +++ concat_with ";" (map (fun r => idv_str (sr_idx r)) (sam_decode n s))
             +++ "], end-1 to [" +++ concat_with ";" (map (fun r => idv_str (sr_idx r)) (sam_decode n (en_ - 1)))
             +++ "]")
  end.
Definition c01_rule (n : netlist) (exp : list (string * (Z * Z))) (r : sam_rule) : fails :=
  guard (existsb (fun e => (fst (snd e) =? sr_start r) && (snd (snd e) =? sr_end r) &&
                           match find_ni n (fst e) with
                           | Some x => idv_eqb (ni_id x) (sr_idx r)
                           | None => false
                           end) exp)
        "rule-not-declared"
        ("address-map rule [" +++ ZS (sr_start r) +++ "," +++ ZS (sr_end r) +++ ") -> " +++ idv_str (sr_idx r)
         +++ " corresponds to no declared range of the interface with that identity").
Definition chk_C01 (n : netlist) (exp : list (string * (Z * Z))) : fails :=
  guard (forallb (fun r => sr_start r <? sr_end r) (n_sam n)) "empty-rule" "an address-map rule is empty" ++
  guard (check_no_overlap (sam_as_rules n)) "overlap" "address-map rules overlap" ++
  flat_map (c01_expected n) exp ++ flat_map (c01_rule n exp) (n_sam n) ++
  (* the network interface decodes over RouteCfg.NumSamRules rules (floo_route_comp: .NoRules(RouteCfg.NumSamRules),
     C01_rtl_sam_lookup): a rule beyond that count is invisible to it *)
  guard (opt_str_eqb (cfg_get n "NumSamRules") (Some (ZS (Z.of_nat (length (n_sam n)))))) "rules-not-visible"
        ("RouteCfg.NumSamRules=" +++ show_opt (cfg_get n "NumSamRules") +++ " but Sam has " +++ ZS (Z.of_nat (length (n_sam n)))
         +++ " rules: the network interface decodes over RouteCfg.NumSamRules of them").

(* ---------------------------------------------------------------- C07: identities *)
Definition pow2 (b : Z) : Z := 2 ^ b.
Fixpoint zseq (n : nat) (from : Z) : list Z := match n with O => [] | S k => from :: zseq k (from + 1) end.

Definition c07_xy_fit (n : netlist) (what : string) (i : idv) : fails :=
  match i, n_xy_bits n with
  | IdXY x y p, Some (xb, (yb, pb)) =>
      guard ((0 <=? x) && (x <? pow2 xb) && (0 <=? y) && (y <? pow2 yb) && (0 <=? p) && (p <? pow2 pb))
            "xy-range" (what +++ " has coordinate " +++ idv_str i +++ " outside x_bits=" +++ ZS xb
                        +++ ", y_bits=" +++ ZS yb)
  | _, _ => one "id-kind" (what +++ ": identity kind does not match the id type")
  end.

(* names: the expected enumeration member names in order (computed from the description) *)
Definition enum_width_ok (e : Z * list (string * Z)) : bool :=
  forallb (fun p => (0 <=? snd p) && (snd p <? pow2 (fst e))) (snd e).
Definition chk_C07 (n : netlist) (names : list string) : fails :=
  let ids := map ni_id (n_nis n) in
  let members := snd (n_ep_enum n) in
  let nn := length names in
  (* "representable": every member of ep_id_e, the count NumEndpoints included, fits the enumeration's base type *)
  guard (enum_width_ok (n_ep_enum n)) "enum-width" "ep_id_e is too narrow for its largest member (NumEndpoints = N included)" ++
  guard (nodupb idv_eqb ids) "duplicate-id" "two network interfaces share a routing identity" ++
  guard (nodupb str_eqb (map fst members)) "duplicate-name" "an enumeration name occurs twice" ++
  guard (list_eqb_str (map fst members) (names ++ ["NumEndpoints"])) "enum-names"
        ("ep_id_e members are [" +++ concat_with "," (map fst members) +++ "], expected ["
         +++ concat_with "," names +++ ",NumEndpoints]") ++
  guard (list_eqb_Z (map snd members) (zseq (S nn) 0)) "enum-values"
        "ep_id_e is not numbered 0..N-1 followed by NumEndpoints = N" ++
  guard (Nat.eqb (length (n_nis n)) nn) "instance-count" "number of network interfaces differs from the number of endpoint instances" ++
  (if str_eqb (n_algo n) "XYRouting" then
     flat_map (fun x => c07_xy_fit n (ni_name x) (ni_id x)) (n_nis n) ++
     flat_map (fun r => match r_id r with
                        | Some i => c07_xy_fit n (r_name r) i
                        | None => one "router-id" (r_name r +++ " has no XY identity")
                        end) (n_rts n) ++
     flat_map (fun r => c07_xy_fit n "address-map destination" (sr_idx r)) (n_sam n)
   else
     match n_id_bits n with
     | Some b =>
         guard (Z.of_nat nn <=? pow2 b) "id-width" ("id_t has " +++ ZS b +++ " bits for " +++ NS nn +++ " endpoints") ++
         flat_map (fun p => let '(x, (nm, v)) := p in
                            match ni_id x with
                            | IdN d => guard ((d =? v) && (0 <=? d) && (d <? pow2 b)) "id-vs-enum"
                                             (ni_name x +++ " has identity " +++ ZS d +++ " but its enumeration member "
                                              +++ nm +++ " = " +++ ZS v)
                            | _ => one "id-kind" (ni_name x +++ ": XY identity under ID/SRC routing")
                            end)
                  (zip (n_nis n) members)
     | None => one "id-type" "id_t is not a vector"
     end).

(* ---------------------------------------------------------------- C13: counts *)

Definition c13_router (n : netlist) (r : rt_inst) : fails :=
  let lens := [length (r_req_in r); length (r_rsp_out r); length (r_req_out r); length (r_rsp_in r)] ++
              (if n_nw n then [length (r_wide_in r); length (r_wide_out r)] else []) in
  guard ((r_nroutes r =? r_nin r) && (r_nin r =? r_nout r) && forallb (fun l => Z.of_nat l =? r_nin r) lens)
        "router-port-count" (r_name r +++ ": NumRoutes/NumInputs/NumOutputs differ from the port array lengths") ++
  match r_map r with
  | Some (nm, (n1, (n2, (iw, rules)))) =>
      guard ((n1 =? Z.of_nat (length rules)) && (n2 =? n1)) "router-rule-count"
            (r_name r +++ ": " +++ nm +++ "NumRules=" +++ ZS n1 +++ ", .NumAddrRules=" +++ ZS n2 +++ ", table has "
             +++ NS (length rules) +++ " entries")
  | None => guard (negb (str_eqb (n_algo n) "IdTable")) "router-table-missing" (r_name r +++ " has no table")
  end.

(* sam_names: for each k the name of the rule Sam[k] as the description implies (harness) *)
Definition chk_C13 (n : netlist) : fails :=
  let ns := Z.of_nat (length (n_sam n)) in
  let ne := Z.of_nat (length (n_nis n)) in
  guard (n_sam_num n =? ns) "sam-count" ("SamNumRules=" +++ ZS (n_sam_num n) +++ " but Sam has " +++ ZS ns +++ " entries") ++
  guard (opt_str_eqb (cfg_get n "NumSamRules") (Some (ZS ns))) "cfg-sam-count"
        ("RouteCfg.NumSamRules=" +++ show_opt (cfg_get n "NumSamRules") +++ " but Sam has " +++ ZS ns +++ " entries") ++
  guard (Z.of_nat (length (snd (n_sam_enum n))) =? ns) "sam-enum-count" "sam_idx_e does not have one member per rule" ++
  guard (list_eqb_Z (map snd (snd (n_sam_enum n))) (zseq (length (n_sam n)) 0)) "sam-enum-values"
        "sam_idx_e is not numbered 0..N-1" ++
  guard (enum_width_ok (n_ep_enum n)) "ep-enum-width" "ep_id_e is too narrow for its largest member" ++
  guard (enum_width_ok (n_sam_enum n)) "sam-enum-width" "sam_idx_e is too narrow for its largest member" ++
  (if str_eqb (n_algo n) "SourceRouting" then
     guard (opt_str_eqb (cfg_get n "NumRoutes") (Some (ZS ne))) "cfg-num-routes"
           ("RouteCfg.NumRoutes=" +++ show_opt (cfg_get n "NumRoutes") +++ " for " +++ ZS ne +++ " endpoints") ++
     match n_tables n with
     | Some rows => guard ((Z.of_nat (length rows) =? ne) && forallb (fun w => Z.of_nat (length w) =? ne) rows)
                          "table-dims" "RoutingTables is not NumEndpoints x NumEndpoints"
     | None => one "table-missing" "RoutingTables missing"
     end
   else guard (opt_str_eqb (cfg_get n "NumRoutes") (Some "0")) "cfg-num-routes" "RouteCfg.NumRoutes is not 0") ++
  flat_map (c13_router n) (n_rts n).

(* names: (member of sam_idx_e, (start, end)) as the description implies -- the rule at the index the member denotes
   (Sam[N-1:0] lists index N-1 first) has exactly these bounds: entry k is the rule the enumeration names k *)
Definition sam_at (n : netlist) (k : Z) : option sam_rule :=
  let cnt := Z.of_nat (length (n_sam n)) in
  if (k <? 0) || (cnt <=? k) then None else nth_error (n_sam n) (Z.to_nat (cnt - 1 - k)).
Definition c13_named (n : netlist) (e : string * (Z * Z)) : fails :=
  match enum_value (n_sam_enum n) (fst e) with
  | None => one "sam-name-missing" ("sam_idx_e has no member " +++ fst e)
  | Some k =>
      match sam_at n k with
      | Some r => guard ((sr_start r =? fst (snd e)) && (sr_end r =? snd (snd e))) "sam-name-index"
                        (fst e +++ " = " +++ ZS k +++ ", but Sam[" +++ ZS k +++ "] is the rule [" +++ ZS (sr_start r) +++ ","
                         +++ ZS (sr_end r) +++ "), not the declared range [" +++ ZS (fst (snd e)) +++ "," +++ ZS (snd (snd e)) +++ ")")
      | None => one "sam-name-index" (fst e +++ " = " +++ ZS k +++ " is not an index of Sam")
      end
  end.
Definition chk_C13n (n : netlist) (exp : list (string * (Z * Z))) : fails := chk_C13 n ++ flat_map (c13_named n) exp.

(* ---------------------------------------------------------------- C09: channel dependencies *)
Fixpoint consecutive {T} (l : list T) : list (T * T) :=
  match l with
  | a :: ((b :: _) as tl) => (a, b) :: consecutive tl
  | _ => []
  end.

Definition c09_deps (n : netlist) (nt : net) : list (string * string) :=
  flat_map (fun st => let '(s, t) := st in
              let go := match nt with Req => may_req s t | Rsp => may_rsp s t | Wide => false end in
              if go then match hdr_for n s t with
                         | Ok h => consecutive (t_sigs (send_free n nt s h))
                         | Err _ => []
                         end
              else []) (ordered_pairs n).

(* Kahn: repeatedly delete the channels without incoming dependency; acyclic iff all get deleted *)
Fixpoint kahn (fuel : nat) (nodes : list string) (edges : list (string * string)) : list string :=
  match fuel with
  | O => nodes
  | S f =>
      let free := filter (fun v => negb (existsb (fun e => str_eqb (snd e) v) edges)) nodes in
      match free with
      | [] => nodes
      | _ =>
          let nodes' := filter (fun v => negb (existsb (str_eqb v) free)) nodes in
          let edges' := filter (fun e => negb (existsb (str_eqb (fst e)) free)) edges in
          kahn f nodes' edges'
      end
  end.
Definition dedup (l : list string) : list string :=
  fold_left (fun acc x => if existsb (str_eqb x) acc then acc else acc ++ [x]) l [].
Definition cyclic_core (edges : list (string * string)) : list string :=
  let nodes := dedup (flat_map (fun e => [fst e; snd e]) edges) in
  kahn (length nodes) nodes edges.

Definition chk_C09 (n : netlist) : fails :=
  flat_map (fun nt => match cyclic_core (c09_deps n nt) with
                      | [] => []
                      | core => one "cdg-cycle" ("the channel-dependency graph of the " +++ net_name nt
                                                 +++ " network has a cycle among: " +++ concat_with " " core)
                      end) [Req; Rsp].

(* ---------------------------------------------------------------- C04: XY frame and grid bisimulation *)
Definition dir_delta (p : Z) : Z * Z :=
  if p =? 0 then (0, 1) else if p =? 1 then (1, 0) else if p =? 2 then (0, -1)
  else if p =? 3 then (-1, 0) else (0, 0).
Definition rev_dir (p : Z) : Z := if p <? 4 then (p + 2) mod 4 else p.

Definition unit_coord (n : netlist) (u : uref) : option (Z * Z) :=
  match u with
  | UNi name => match find_ni n name with
                | Some x => match ni_id x with IdXY a b _ => Some (a, b) | _ => None end
                | None => None
                end
  | URt name _ => match find_rt n name with
                  | Some r => match r_id r with Some (IdXY a b _) => Some (a, b) | _ => None end
                  | None => None
                  end
  end.

(* (i) one common frame: the unit behind port p of a router sits one step in that direction *)
Definition c04_frame_router (n : netlist) (r : rt_inst) : fails :=
  match r_id r with
  | Some (IdXY x y _) =>
      flat_map (fun ps => let '(p, sl) := ps in
        match sl with
        | [s] => match readers n Req s with
                 | [u] => let '(dx, dy) := dir_delta (Z.of_nat p) in
                          match unit_coord n u with
                          | Some (a, b) =>
                              guard ((a =? x + dx) && (b =? y + dy)) "frame"
                                    (r_name r +++ " at (" +++ ZS x +++ "," +++ ZS y +++ ") has " +++ uref_name u
                                     +++ " at (" +++ ZS a +++ "," +++ ZS b +++ ") on port " +++ NS p)
                          | None => one "frame" (uref_name u +++ " has no coordinate")
                          end
                 | _ => []
                 end
        | _ => []
        end) (enumerate (r_req_out r))
  | _ => one "router-id" (r_name r +++ " has no XY identity")
  end.

Record grid := { gr_m : Z; gr_n : Z; gr_att : list (string * ((Z * Z) * Z)) }.
Definition att_at (g : grid) (x y p : Z) : option string :=
  option_map fst (find (fun a => let '(_, ((i, j), q)) := a in (i =? x) && (j =? y) && (q =? p)) (gr_att g)).
Definition att_of (g : grid) (name : string) : option ((Z * Z) * Z) :=
  option_map snd (find (fun a => str_eqb (fst a) name) (gr_att g)).
Definition ep_coord (g : grid) (name : string) : option (Z * Z) :=
  match att_of g name with
  | Some ((i, j), p) => let '(dx, dy) := dir_delta p in Some (i + dx, j + dy)
  | None => None
  end.

Inductive xres := XDel (s : string) | XTurn | XLoop | XOpen | XOther (s : string).
Definition xres_eqb (a b : xres) : bool :=
  match a, b with
  | XDel s, XDel t => str_eqb s t
  | XTurn, XTurn | XLoop, XLoop | XOpen, XOpen => true
  | _, _ => false
  end.
Definition xres_str (a : xres) : string :=
  match a with
  | XDel s => "delivered to " +++ s | XTurn => "blocked (Y-to-X turn)" | XLoop => "blocked (loop-back)"
  | XOpen => "unconnected port" | XOther s => s
  end.

(* the X-then-Y decision stepped over the ideal m x n grid the description denotes *)
Fixpoint ideal (fuel : nat) (g : grid) (x y inp cx cy : Z) : xres :=
  match fuel with
  | O => XOther "ideal walk out of fuel"
  | S f =>
      let out := xy_select x y cx cy 0 in
      if out =? inp then XLoop
      else if xy_masked inp out then XTurn
      else if 4 <=? out then match att_at g x y out with Some t => XDel t | None => XOpen end
      else
        let '(dx, dy) := dir_delta out in
        let x' := x + dx in let y' := y + dy in
        if (0 <=? x') && (x' <? gr_m g) && (0 <=? y') && (y' <? gr_n g)
        then ideal f g x' y' (rev_dir out) cx cy
        else match att_at g x y out with Some t => XDel t | None => XOpen end
  end.

Definition classify (o : outcome) : xres :=
  match o with
  | Delivered u _ => XDel u
  | Failed why _ =>
      if str_eqb why "Y-to-X turn blocked" then XTurn
      else if str_eqb why "loopback blocked (input index = output index)" then XLoop
      else if str_eqb why "output port not connected" || str_eqb why "output port out of range" then XOpen
      else XOther why
  end.

Definition c04_pair (n : netlist) (g : grid) (exp : list (string * (Z * Z))) (st : ni_inst * ni_inst) : fails :=
  let '(s, t) := st in
  match att_of g (ni_name s), ep_coord g (ni_name t) with
  | Some ((i, j), p), Some (cx, cy) =>
      let want := ideal (Z.to_nat (gr_m g + gr_n g + 4)) g i j p cx cy in
      let cmp (what : string) (nt : net) (h : hdr) : fails :=
          let got := classify (t_out (send n nt s h)) in
          guard (xres_eqb want got) "bisimulation"
                (what +++ " " +++ ni_name s +++ " -> " +++ ni_name t +++ " (emitted destination " +++ hdr_str h
                 +++ "): on the emitted netlist " +++ xres_str got +++ ", on the described grid " +++ xres_str want) in
      (if may_req s t then
         flat_map (fun e => if str_eqb (fst e) (ni_name t) then
                              match sam_decode n (fst (snd e)) with
                              | [r] => cmp "request" Req (hdr_of_id n (sr_idx r))
                              | _ => one "request-destination" ("address " +++ ZS (fst (snd e)) +++ " of " +++ ni_name t
                                                                +++ " does not decode to one rule")
                              end
                            else []) exp
       else []) ++
      (if may_rsp s t then cmp "response" Rsp (hdr_of_id n (ni_id t)) else [])
  | _, _ => one "grid" ("no grid position for " +++ ni_name s +++ " or " +++ ni_name t)
  end.

Definition chk_C04 (n : netlist) (g : grid) (exp : list (string * (Z * Z))) : fails :=
  guard (str_eqb (n_algo n) "XYRouting") "not-xy-routing" "netlist is not XY routed" ++
  flat_map (c04_frame_router n) (n_rts n) ++
  flat_map (c04_pair n g exp) (ordered_pairs n).

(* ---------------------------------------------------------------- C06: connectivity = description *)
(* a directed hop of the request network: driver unit, its output port (routers), reader unit, its input port *)
Definition uref_port (u : uref) : option Z := match u with UNi _ => None | URt _ i => Some (Z.of_nat i) end.
Record hop := { h_from : string; h_fport : option Z; h_to : string; h_tport : option Z }.

Definition emitted_hops (n : netlist) (nt : net) : list hop :=
  flat_map (fun l => let '(ty, s) := l in
              match net_of_type ty with
              | Some nt' => if str_eqb (net_name nt) (net_name nt') then
                              match drivers n nt s, readers n nt s with
                              | [d], [r] => [{| h_from := uref_name d; h_fport := uref_port d;
                                                h_to := uref_name r; h_tport := uref_port r |}]
                              | _, _ => []
                              end
                            else []
              | None => []
              end) (n_links n).

(* described link: (a, b, port named at a, port named at b); both directions are implied *)
Definition dlink := (string * string * (option Z * option Z))%type.
Definition port_compatible (named actual : option Z) : bool :=
  match named, actual with
  | None, _ => true
  | Some p, Some q => p =? q
  | Some _, None => true      (* a direction named at an endpoint's side carries no port *)
  end.
Definition hop_matches (a b : string) (pa pb : option Z) (h : hop) : bool :=
  str_eqb (h_from h) a && str_eqb (h_to h) b && port_compatible pa (h_fport h) && port_compatible pb (h_tport h).
Definition hop_str (h : hop) : string :=
  h_from h +++ "[" +++ match h_fport h with Some p => ZS p | None => "-" end +++ "]->" +++
  h_to h +++ "[" +++ match h_tport h with Some p => ZS p | None => "-" end +++ "]".

Definition c06_net (n : netlist) (nt : net) (links : list dlink) : fails :=
  let hops := emitted_hops n nt in
  flat_map (fun l => let '(a, b, (pa, pb)) := l in
              guard (existsb (hop_matches a b pa pb) hops) "link-missing"
                    ("described link " +++ a +++ " -> " +++ b +++ " is not emitted on the " +++ net_name nt +++ " network (with the named ports)") ++
              guard (existsb (hop_matches b a pb pa) hops) "link-missing"
                    ("described link " +++ b +++ " -> " +++ a +++ " is not emitted on the " +++ net_name nt +++ " network (with the named ports)"))
           links ++
  flat_map (fun h => guard (existsb (fun l => let '(a, b, (pa, pb)) := l in
                                       hop_matches a b pa pb h || hop_matches b a pb pa h) links)
                           "link-not-described" ("emitted link " +++ hop_str h +++ " (" +++ net_name nt +++ ") is not described"))
           hops ++
  guard (Nat.eqb (length hops) (2 * length links)) "link-count"
        (NS (length hops) +++ " directed " +++ net_name nt +++ " links emitted for " +++ NS (length links) +++ " described links").

Definition chk_C06 (n : netlist) (links : list dlink) (ninis : nat) : fails :=
  flat_map (fun nt => c06_net n nt links) (nets n) ++
  guard (Nat.eqb (length (n_nis n)) ninis) "ni-count" "number of network interfaces differs from the number of endpoint instances" ++
  flat_map (fun x => match ni_out Req x, ni_in Req x with
                     | Some so, Some si =>
                         match readers n Req so, drivers n Req si with
                         | [URt r _], [URt r' _] =>
                             guard (str_eqb r r') "ni-two-routers" (ni_name x +++ " sends to " +++ r +++ " but receives from " +++ r')
                         | _, _ => one "ni-attachment" (ni_name x +++ " is not attached to exactly one router")
                         end
                     | _, _ => []
                     end) (n_nis n).

(* ---------------------------------------------------------------- C08: AXI ports, bindings, roles *)
Definition port_eqb (a b : port_decl) : bool :=
  str_eqb (pd_dir a) (pd_dir b) && str_eqb (pd_type a) (pd_type b) && list_eqb_Z (pd_dims a) (pd_dims b) &&
  str_eqb (pd_name a) (pd_name b).
Definition port_str (p : port_decl) : string :=
  pd_dir p +++ " " +++ pd_type p +++ " [" +++ concat_with "," (map ZS (pd_dims p)) +++ "] " +++ pd_name p.
Definition kv_eqb (a b : string * string) : bool := str_eqb (fst a) (fst b) && str_eqb (snd a) (snd b).
Definition flag_eqb (a b : string * (bool * bool)) : bool :=
  str_eqb (fst a) (fst b) && Bool.eqb (fst (snd a)) (fst (snd b)) && Bool.eqb (snd (snd a)) (snd (snd b)).
Definition cfg_eqb (a b : string * list (string * Z)) : bool :=
  str_eqb (fst a) (fst b) && list_eqb (fun x y => str_eqb (fst x) (fst y) && (snd x =? snd y)) (snd a) (snd b).

Definition flag_str (f : string * (bool * bool)) : string :=
  fst f +++ ":sbr=" +++ (if fst (snd f) then "1" else "0") +++ ",mgr=" +++ (if snd (snd f) then "1" else "0").
Definition kv_str (p : string * string) : string := fst p +++ "=" +++ snd p.
Definition cfg_str (c : string * list (string * Z)) : string :=
  fst c +++ "{" +++ concat_with "," (map (fun f : string * Z => fst f +++ ":" +++ ZS (snd f)) (snd c)) +++ "}".

(* what the description implies for one network interface *)
Record ni_expect := { ne_name : string; ne_flags : list (string * (bool * bool));
                      ne_axi : list (string * string); ne_enum : string }.

Definition c08_ni (n : netlist) (e : ni_expect) : fails :=
  match find_ni n (ne_name e) with
  | None => one "ni-missing" ("no network interface " +++ ne_name e)
  | Some x =>
      guard (list_eqb flag_eqb (ni_flags x) (ne_flags e)) "role-enables"
            (ne_name e +++ ": enabled sides are [" +++
             concat_with ";" (map flag_str (ni_flags x)) +++ "], expected [" +++
             concat_with ";" (map flag_str (ne_flags e)) +++ "]") ++
      guard (list_eqb kv_eqb (ni_axi x) (ne_axi e)) "axi-binding"
            (ne_name e +++ ": AXI bindings are [" +++ concat_with "; " (map kv_str (ni_axi x))
             +++ "], expected [" +++ concat_with "; " (map kv_str (ne_axi e)) +++ "]") ++
      (if str_eqb (n_algo n) "XYRouting" then []
       else match enum_value (n_ep_enum n) (ne_enum e), ni_id x with
            | Some v, IdN d => guard (v =? d) "enum-identity"
                                     (ne_name e +++ " has identity " +++ ZS d +++ " but " +++ ne_enum e +++ " = " +++ ZS v)
            | _, _ => one "enum-identity" (ne_name e +++ ": no enumeration member " +++ ne_enum e)
            end) ++
      (if str_eqb (n_algo n) "SourceRouting"
       then guard (opt_str_eqb (ni_row x) (Some (ne_enum e))) "table-row"
                  (ne_name e +++ " selects routing-table row " +++ show_opt (ni_row x) +++ ", expected " +++ ne_enum e)
       else [])
  end.

Definition chk_C08 (n : netlist) (ports : list port_decl) (nis : list ni_expect)
           (cfgs : list (string * list (string * Z))) : fails :=
  guard (list_eqb port_eqb (skipn 3 (n_ports n)) ports) "ports"
        ("top-level AXI ports are [" +++ concat_with "; " (map port_str (skipn 3 (n_ports n))) +++ "], expected ["
         +++ concat_with "; " (map port_str ports) +++ "]") ++
  guard (Nat.eqb (length (n_nis n)) (length nis)) "ni-count" "number of network interfaces" ++
  flat_map (c08_ni n) nis ++
  guard (list_eqb cfg_eqb (n_axi_cfgs n) cfgs) "axi-cfg"
        ("AXI configuration records [" +++
         concat_with "; " (map cfg_str (n_axi_cfgs n))
         +++ "] expected [" +++
         concat_with "; " (map cfg_str cfgs)
         +++ "]").

(* ---------------------------------------------------------------- C12: structural well-formedness *)
(* bracket / delimiter tokens: k >= 0 opens kind k, -1-k closes kind k
   (0 paren, 1 bracket, 2 brace, 3 module, 4 package, 5 begin) *)
Fixpoint balance_run (ts : list Z) (st : list Z) : bool :=
  match ts with
  | [] => match st with [] => true | _ => false end
  | t :: r => if 0 <=? t then balance_run r (t :: st)
              else match st with
                   | k :: st' => (t =? -1 - k) && balance_run r st'
                   | [] => false
                   end
  end.

Record text_facts := {
  tf_brackets : list (string * list Z);
  tf_decl : list (string * list string);
  tf_used : list (string * list string);
  tf_avail : list (string * list string);
  tf_lits : list (Z * (Z * (Z * Z)));          (* width, value, digits, bits per digit (0 = decimal) *)
  tf_fields : list (string * (Z * Z));          (* what, field width, value *)
  tf_sam : list (Z * (Z * (Z * Z)));            (* literal width, value, digits, addr width *)
  tf_route_bits : option Z;
  tf_words : list word;
}.

Definition dups (l : list string) : list string :=
  let fix go (l : list string) :=
      match l with
      | [] => []
      | x :: xs => if existsb (str_eqb x) xs then x :: go xs else go xs
      end in go l.

Definition chk_C12 (f : text_facts) : fails :=
  flat_map (fun b => guard (balance_run (snd b) []) "unbalanced" ("delimiters of the " +++ fst b +++ " file do not balance")) (tf_brackets f) ++
  flat_map (fun d => match dups (snd d) with
                     | [] => []
                     | ds => one "duplicate-decl" ("declared twice in the " +++ fst d +++ " scope: " +++ concat_with " " ds)
                     end) (tf_decl f) ++
  flat_map (fun u => let av := opt_default [] (option_map snd (find (fun a => str_eqb (fst a) (fst u)) (tf_avail f))) in
                     match filter (fun x => negb (existsb (str_eqb x) av)) (snd u) with
                     | [] => []
                     | bad => one "undeclared" ("used in the " +++ fst u +++ " file but declared nowhere: " +++ concat_with " " bad)
                     end) (tf_used f) ++
  flat_map (fun l => let '(w, (v, (nd, bpd))) := l in
                     guard ((0 <=? v) && (v <? 2 ^ w) && ((bpd =? 0) || (nd * bpd <=? w + bpd - 1))) "literal-overflow"
                           ("sized literal of width " +++ ZS w +++ " holds " +++ ZS v +++ " written with " +++ ZS nd +++ " digits")) (tf_lits f) ++
  flat_map (fun l => let '(lw, (v, (nd, aw))) := l in
                     guard ((lw =? aw) && (0 <=? v) && (v <? 2 ^ aw) && (nd =? cdiv aw 4)) "address-literal"
                           ("address bound " +++ ZS v +++ " is written as a " +++ ZS lw +++ "-bit literal with " +++ ZS nd
                            +++ " digits for an address width of " +++ ZS aw)) (tf_sam f) ++
  flat_map (fun w => match tf_route_bits f with
                     | Some rb => guard ((w_width w =? rb) && (w_digits w =? rb) && (0 <=? w_val w) && (w_val w <? 2 ^ rb)) "route-word"
                                        ("route word of width " +++ ZS (w_width w) +++ "/" +++ ZS (w_digits w) +++ " digits, route_t has " +++ ZS rb +++ " bits")
                     | None => one "route-word" "route words without a route type"
                     end) (tf_words f) ++
  flat_map (fun x => let '(what, (w, v)) := x in
                     guard ((0 <=? v) && (v <? 2 ^ w)) "field-overflow"
                           (what +++ " = " +++ ZS v +++ " does not fit its " +++ ZS w +++ "-bit field")) (tf_fields f).

(* ---------------------------------------------------------------- wire format *)
Definition fails_to_sx (f : fails) : sx := xL (fun p => L [A (fst p); A (sanitize (snd p))]) f.
