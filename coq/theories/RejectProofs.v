(* RejectProofs.v — more rejection theorems for C10's defect classes, over the generator model.
   (a) an array range without base: every range of a subordinate ARRAY endpoint that the model accepts carries a base
       (the per-element ranges are derived by set_idx, which needs one);
   (b) an XY connection without direction: under XY every accepted interface got its coordinate from a link that
       names a direction (ni_xy_frame). *)
From FV Require Import Base AddrRange RouteMap Graph Desc Build Netlist Compile ModelBase ModelProofs IdProofs ConnProofs AddrRangeProofs.

Lemma set_idx_ok_base r k r' : set_idx r k = Ok r' -> r_base r <> None.
Proof. intros H Hb. destruct (set_idx_unbased r k Hb) as (msg & E). congruence. Qed.

Theorem compile_array_needs_base d g c :
  compile d g = Ok c ->
  forall x, In x (c_nis c) -> ep_array (cn_ep x) <> None -> ep_is_sbr (cn_ep x) = true ->
  forall rs, In rs (ep_ranges (cn_ep x)) -> exists r, range_of_spec rs = Ok r /\ r_base r <> None.
Proof.
  intros Hc x Hx Harr Hs rs Hrs.
  destruct (compile_inv _ _ _ Hc) as (dirs & nis & rts & rids & Hn & _ & Hceq). rewrite Hceq in Hx. cbn in Hx.
  destruct (mapM_In _ _ _ _ Hn Hx) as (ni & _ & Hq). clear Hn Hceq.
  unfold compile_ni in Hq. destruct (find_ep d (n_desc ni)) as [e|]; [|discriminate].
  inv_bind Hq. inversion Hq; subst x; clear Hq. cbn [cn_ep] in *.
  match goal with E : mapM range_of_spec (ep_ranges e) = Ok ?l |- _ => destruct (mapM_In_l _ _ _ _ E Hrs) as (r & Hr & Hspec) end.
  exists r. split; [exact Hspec|].
  destruct (ep_array e) as [[|p [|q [|? ?]]]|]; try discriminate; try congruence.
  - destruct (n_arr ni) as [[|i [|? ?]]|]; try discriminate. rewrite Hs in *.
    match goal with E : mapM (fun r0 => set_idx r0 _) _ = Ok _ |- _ => destruct (mapM_In_l _ _ _ _ E Hr) as (r' & _ & Hset) end.
    exact (set_idx_ok_base _ _ _ Hset).
  - destruct (n_arr ni) as [[|i [|j [|? ?]]]|]; try discriminate. rewrite Hs in *.
    match goal with E : mapM (fun r0 => set_idx r0 _) _ = Ok _ |- _ => destruct (mapM_In_l _ _ _ _ E Hr) as (r' & _ & Hset) end.
    exact (set_idx_ok_base _ _ _ Hset).
Qed.

(* (b) under XY the coordinate of every accepted interface is its router's plus the unit vector of a direction that
   one of the two link edges between them NAMES: a connection without a direction has none and is rejected *)
Theorem compile_xy_needs_direction d g c :
  compile d g = Ok c -> d_algo d = XY ->
  forall x, In x (c_nis c) ->
  exists tx ty s rx ry k dx dy,
    cn_id x = IdXY tx ty 0 /\ In s (successors g (cn_name x)) /\ rt_coord_of g s = Some (rx, ry) /\
    to_coords k = Ok (dx, dy) /\ tx = rx + dx /\ ty = ry + dy /\
    ((exists e1, find_edge g (cn_name x) s = Some e1 /\ e_dst_dir e1 = Some k) \/
     (exists e2, find_edge g s (cn_name x) = Some e2 /\ e_src_dir e2 = Some k)).
Proof.
  intros Hc Ha x Hx.
  destruct (compile_inv _ _ _ Hc) as (dirs & nis & rts & rids & Hn & _ & Hceq). rewrite Hceq in Hx. cbn in Hx.
  destruct (mapM_In _ _ _ _ Hn Hx) as (ni & _ & Hq).
  destruct (compile_ni_spec _ _ _ _ Hq) as (Hname & _).
  pose proof (compile_ni_id d g ni x Hq) as Hid. unfold id_stage in Hid.
  destruct (find_ep d (n_desc ni)) as [e|]; [|discriminate]. cbv zeta in Hid. inv_bind Hid.
  assert (Hxy : exists tx ty p, cn_id x = IdXY tx ty p).
  { unfold Compile.ni_id in Hid. rewrite Ha in Hid. inv_bind Hid.
    match goal with H : match ?o with Some _ => _ | None => _ end = Ok _ |- _ => destruct o as [[px py]|]; [|discriminate] end.
    inversion Hid. eauto. }
  destruct Hxy as (tx & ty & p & Hidx). rewrite Hidx in Hid.
  destruct (ni_xy_frame g d ni _ tx ty p Ha Hid) as (-> & s & rx & ry & k & dx & dy & H1 & H2 & H3 & H4 & H5 & H6).
  rewrite Hname. exists tx, ty, s, rx, ry, k, dx, dy. repeat split; auto.
Qed.

(* ------------------------------------------------------------------ C12: route words have exactly the route width *)
(* For every source-routed description the model accepts: the route type is at least one bit wide, and every word of
   the emitted RoutingTables is written with exactly that width and that many digits and holds its value in it. *)
From FV Require Import Routing Emit Hw.
Lemma route_bits_init sp c ri : gen_routing_info sp c = Ok ri -> 1 <= ri_route_bits ri.
Proof.
  unfold gen_routing_info. intros H. destruct (Z.of_nat (length (c_nis c)) =? 0); [discriminate|]. inv_bind H.
  inversion H; subst; cbn [ri_route_bits]. apply fold_max_init.
Qed.

Theorem netlist_route_words sp c ri n :
  gen_routing_info sp c = Ok ri -> emit c ri = Ok n -> d_algo (c_desc c) = SRC ->
  n_route_bits n = Some (ri_route_bits ri) /\ 1 <= ri_route_bits ri /\
  exists tb, n_tables n = Some tb /\
    forall row w, In row tb -> In w row ->
      w_width w = ri_route_bits ri /\ w_digits w = ri_route_bits ri /\ 0 <= w_val w < 2 ^ ri_route_bits ri.
Proof.
  intros Hri He Ha. pose proof (route_bits_init sp c ri Hri) as Hrb.
  destruct (emit_inv _ _ _ He) as (_ & axi & rts & _ & _ & Hn). rewrite Hn. cbn [n_route_bits n_tables]. rewrite Ha.
  split; [reflexivity|]. split; [exact Hrb|]. exists (emit_tables c ri). split; [reflexivity|].
  intros row w Hrow Hw. unfold emit_tables in Hrow. apply in_map_iff in Hrow. destruct Hrow as (x & <- & _).
  apply in_map_iff in Hw. destruct Hw as (r & <- & Hr). cbn [emit_word w_width w_digits w_val].
  split; [reflexivity|]. split; [reflexivity|].
  unfold by_id_desc in Hr. apply in_rev in Hr. apply sort_by_In in Hr.
  unfold routes_of in Hr. destruct (find _ (ri_routes ri)) as [[nm rs]|] eqn:F; [|destruct Hr].
  apply find_some in F. destruct F as (He0 & _).
  pose proof (route_bits_cover sp c ri Ha Hri (nm, rs) r He0 Hr) as Hcov.
  destruct r as [id [ps|]]; cbn [snd].
  - destruct (gri_inv _ _ _ Hri) as (_ & _ & _ & _ & Hroutes & _). specialize (Hroutes Ha).
    destruct (mapM_In _ _ _ _ Hroutes He0) as (s & _ & Es). inv_bind Es. inversion Es; subst nm rs; clear Es.
    match goal with E : mapM (gen_route sp c s) _ = Ok _ |- _ => destruct (mapM_In _ _ _ _ E Hr) as (t & _ & Hg) end.
    destruct (gen_route_follows sp c s t id ps Hg) as (_ & _ & _ & _ & Hb).
    assert (2 ^ route_bits_of (id, Some ps) <= 2 ^ ri_route_bits ri).
    { apply Z.pow_le_mono_r; [lia|exact Hcov]. }
    lia.
  - assert (0 < 2 ^ ri_route_bits ri) by (apply Z.pow_pos_nonneg; lia). lia.
Qed.
