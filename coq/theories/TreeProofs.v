(* TreeProofs.v — C09 on the hardware model, universally for every description whose links form a tree:
   under ID-table routing the signals crossed by all flits, between all pairs of interfaces, on any physical
   network, induce an acyclic channel-dependency graph.  The tree is given by a checked certificate (a depth per
   unit, Side.tree_certb); every other hypothesis is one of the decidable side conditions of C02. *)
From FV Require Import Base AddrRange RouteMap Graph Desc Build Netlist Compile Routing Emit Hw Side Check CheckProofs CdgProofs
     ModelBase BuildProofs ModelProofs IdProofs Paths PathProofs RefOracle NxProofs NxHw HwProofs WireProofs TreeCdg FreeWalk.
From Coq Require Import ZifyBool.

Lemma in_links_iff g l : In l (map epair (link_edges g)) <-> is_link_of g l.
Proof.
  split.
  - intros H. apply in_map_iff in H. destruct H as (e & <- & He). unfold link_edges in He. apply filter_In in He.
    destruct He as (He & Hl). exists e. unfold epair. cbn. auto.
  - intros H. destruct (is_link_of_edge g l H) as (e & He & <-). apply in_map. exact He.
Qed.

Section Cert.
  Variables (g : graph) (dp : list (string * Z)).
  Hypothesis Hcert : tree_certb g dp = true.
  Let L := map epair (link_edges g).
  Let dep := dep_of dp.

  Lemma cert_parts :
    (forall u v, In (u, v) L -> 0 <= dep u /\ 0 <= dep v) /\
    (forall u v, In (u, v) L -> dep v = dep u + 1 \/ dep u = dep v + 1) /\
    (forall b a c, In (b, a) L -> In (b, c) L -> dep a < dep b -> dep c < dep b -> a = c) /\
    (forall u v, In (u, v) L -> In (v, u) L).
  Proof.
    unfold tree_certb in Hcert. fold L in Hcert. apply andb_true_iff in Hcert. destruct Hcert as (H12 & H3).
    apply andb_true_iff in H12. destruct H12 as (H1 & H2).
    rewrite forallb_forall in H1, H2, H3. repeat split.
    - specialize (H1 _ H). cbn [fst snd] in H1. unfold dep. lia.
    - specialize (H1 _ H). cbn [fst snd] in H1. unfold dep. lia.
    - intros u v H. specialize (H1 _ H). cbn [fst snd] in H1. unfold dep. lia.
    - intros b a c Ha Hc Hda Hdc. specialize (H2 _ Ha). rewrite forallb_forall in H2. specialize (H2 _ Hc).
      unfold goes_up in H2. cbn [fst snd] in H2. fold dep in H2.
      rewrite (proj2 (str_eqb_eq b b) eq_refl) in H2. cbn [negb orb] in H2.
      destruct (dep a <? dep b) eqn:E1; [|lia]. destruct (dep c <? dep b) eqn:E2; [|lia]. cbn [negb orb] in H2.
      apply str_eqb_eq. exact H2.
    - intros u v H. specialize (H3 _ H). cbn [fst snd] in H3. apply existsb_exists in H3. destruct H3 as (l & Hl & Hq).
      apply pair_eqb_eq in Hq. rewrite Hq. exact Hl.
  Qed.
End Cert.

Lemma transitb_some sp c t r : transitb sp c t = true -> In r (c_rts c) -> sp (c_graph c) (cr_name r) (cn_name t) <> None.
Proof.
  unfold transitb. intros H Hr. rewrite forallb_forall in H. specialize (H r Hr).
  destruct (sp (c_graph c) (cr_name r) (cn_name t)); [discriminate|discriminate H].
Qed.

(* the oracle contract (DESIGN 3.4) towards every interface of a compiled network *)
Definition contract (sp : oracle) (g : graph) (c : compiled) (B : nat) : Prop :=
  forall t, In t (c_nis c) ->
    (forall s p, sp g s (cn_name t) = Some p -> path_to_t (E g) (cn_name t) p s) /\
    (forall s p q, sp g s (cn_name t) = Some p -> path_to_t (E g) (cn_name t) q s -> (length p <= length q)%nat) /\
    (forall s p, sp g s (cn_name t) = Some p -> (length p <= B)%nat) /\
    (forall s q, path_to_t (E g) (cn_name t) q s -> (length q <= B)%nat -> sp g s (cn_name t) <> None).

Lemma contract_ref g c : contract sp_reference g c (bound g).
Proof.
  intros t _. split; [|split; [|split]].
  - intros s p H. exact (sp_ref_path g (cn_name t) s p H).
  - intros s p q H Hq. exact (sp_ref_min g (cn_name t) s p q H Hq).
  - intros s p H. exact (sp_ref_bound g (cn_name t) s p H).
  - intros s q Hq Hl. exact (sp_ref_complete g (cn_name t) s q Hq Hl).
Qed.
Lemma contract_nx d g c : build d = Ok g -> compile d g = Ok c -> contract sp_nx g c (nxB g).
Proof.
  intros Hb Hc t Ht. split; [|split; [|split]].
  - exact (nx_path d g c t Hb Hc Ht).
  - exact (nx_min d g c t Hb Hc Ht).
  - exact (nx_bound d g c t Hb Hc Ht).
  - exact (nx_complete d g c t Hb Hc Ht).
Qed.

Definition id_deps (d : desc) (ri : rinfo) (n : netlist) (nt : net) (pairs : list (cni * cni)) : egraph :=
  flat_map (fun st => match id_num (cn_id (snd st)) with
                      | Ok id => consecutive (t_sigs (send_free n nt (emit_ni d (ri_offset ri) (fst st)) (HId id)))
                      | Err _ => []
                      end) pairs.

Theorem hw_tree_acyclic_gen (sp : oracle) (B : nat) (d : desc) (g : graph) (c : compiled) (ri : rinfo) (n : netlist) (nt : net) (dp : list (string * Z)) :
  net_ok d nt ->
  build d = Ok g -> compile d g = Ok c -> gen_routing_info sp c = Ok ri -> emit c ri = Ok n -> d_algo d = ID ->
  contract sp g c B ->
  forallb (transitb sp c) (c_nis c) = true ->
  names_sepb g nt = true -> single_attachb g c = true -> links_typedb g c = true -> degrees_fitb c = true ->
  attachedb c nt = true -> tree_certb g dp = true ->
  forall pairs : list (cni * cni),
    (forall s0 t, In (s0, t) pairs -> In s0 (c_nis c) /\ In t (c_nis c) /\ cn_name s0 <> cn_name t) ->
    acyclic (id_deps d ri n nt pairs).
Proof.
  intros Hnt Hb Hc Hri He Ha Hcon Htr H1 H2 H3 H4 Hatt Hcert pairs Hpairs.
  assert (Cpath := fun t Ht => proj1 (Hcon t Ht)). assert (Cmin := fun t Ht => proj1 (proj2 (Hcon t Ht))).
  assert (Cbound := fun t Ht => proj1 (proj2 (proj2 (Hcon t Ht)))). assert (Ccomplete := fun t Ht => proj2 (proj2 (proj2 (Hcon t Ht)))).
  assert (Hcg : c_graph c = g) by apply (compile_desc d g c Hc).
  destruct (cert_parts g dp Hcert) as (C0 & C1 & C2 & C3).
  set (route := fun st : cni * cni =>
         let r0 := snd (attach nt (fst st)) in
         match sp g r0 (cn_name (snd st)) with
         | Some p => cn_name (fst st) :: PathProofs.follow (fun u => sp g u (cn_name (snd st))) (length p - 1) r0
         | None => []
         end).
  assert (Hac := tree_routes_acyclic nt (map epair (link_edges g)) (dep_of dp) C0 C1 C2 C3
                   (fun l1 l2 A B => names_sepb_ok g nt H1 l1 l2 (proj1 (in_links_iff g l1) A) (proj1 (in_links_iff g l2) B))
                   (map route pairs)).
  rewrite forallb_forall in Htr. unfold attachedb in Hatt. rewrite forallb_forall in Hatt.
  (* what the hardware does on every pair *)
  assert (Hsend : forall st, In st pairs -> exists id p,
             id_num (cn_id (snd st)) = Ok id /\ sp g (snd (attach nt (fst st))) (cn_name (snd st)) = Some p /\
             t_sigs (send_free n nt (emit_ni d (ri_offset ri) (fst st)) (HId id)) = map (flow nt) (consecutive (route st)) /\
             NoDup (route st) /\ Forall (is_link_of g) (consecutive (route st))).
  { intros [s0 t] Hst. destruct (Hpairs s0 t Hst) as (Hs0 & Ht & Hne). cbn [fst snd].
    assert (Hrt : is_router c (snd (attach nt s0))).
    { apply is_rtb_ok. specialize (Hatt s0 Hs0). unfold attach_of in Hatt. unfold attach, rev_link. destruct nt; exact Hatt. }
    destruct Hrt as (r & Hr & Hrn).
    pose proof (transitb_some sp c t r (Htr t Ht) Hr) as Hsome. rewrite Hcg, Hrn in Hsome.
    destruct (sp g (snd (attach nt s0)) (cn_name t)) as [p|] eqn:Esp; [|congruence].
    assert (Hxy : d_algo d <> XY) by (rewrite Ha; discriminate).
    pose proof (ids_are_uids d g c Hc Hxy t Ht) as Hid.
    destruct (hw_send_full sp d g c ri n t (cn_uid t) nt Hnt Hb Hc Hri He Ha Ht ltac:(rewrite Hid; reflexivity)
           (Cpath t Ht) (Cmin t Ht) B (Cbound t Ht) (Ccomplete t Ht)
           (fun u p0 Hu Hp0 => transitb_ok sp c t (Htr t Ht) u p0 Hu (eq_ind_r (fun gg => sp gg u (cn_name t) = Some p0) Hp0 Hcg))
           (model_signal_ok d g c ri n nt Hnt Hb Hc He (names_sepb_ok g nt H1) (single_attachb_ok g c H2) (links_typedb_ok g c H3))
           (degrees_fitb_ok c H4)
           s0 (snd (attach nt s0)) p Hs0 Hne eq_refl (ex_intro _ r (conj Hr Hrn)) Esp) as (S1 & _ & S3 & S4 & S5).
    exists (cn_uid t), p. rewrite Hid. split; [reflexivity|]. split; [reflexivity|].
    unfold route. cbn [fst snd]. rewrite Esp. rewrite (send_free_eq _ _ _ _ _ _ S1). split; [exact S3|]. split; [|exact S5].
    constructor; [exact S4|].
    destruct p as [|a p']; [destruct (Cpath t Ht _ _ Esp) as (_ & _ & _ & X); congruence|].
    cbn [length]. replace (S (length p') - 1)%nat with (length p') by lia.
    apply (follow_nodup (fun u v => exists e, In e (g_edges g) /\ e_src e = u /\ e_dst e = v) (cn_name t)
             (fun u => sp g u (cn_name t))
             (Cpath t Ht) (Cmin t Ht) B (Cbound t Ht) (Ccomplete t Ht) (length p') _ (a :: p') Esp eq_refl). }
  specialize (Hac ltac:(intros p a b Hp Hab; apply in_map_iff in Hp; destruct Hp as (st & <- & Hst);
                        destruct (Hsend st Hst) as (_ & _ & _ & _ & _ & _ & F); rewrite Forall_forall in F;
                        apply in_links_iff; exact (F _ Hab))
                  ltac:(intros p Hp; apply in_map_iff in Hp; destruct Hp as (st & <- & Hst);
                        destruct (Hsend st Hst) as (_ & _ & _ & _ & _ & N & _); exact N)).
  intros v Hp. apply (Hac v). eapply path_mono; [|exact Hp].
  intros e Hin. unfold id_deps in Hin. apply in_flat_map in Hin. destruct Hin as (st & Hst & Hin).
  destruct (Hsend st Hst) as (id & p & E1 & _ & E3 & _). rewrite E1, E3 in Hin.
  unfold route_deps. apply in_flat_map. exists (route st). split; [apply in_map; exact Hst|exact Hin].
Qed.

(* ------------------------------------------------------------------ the checker's dependency sets are among them *)
Definition all_pairs (c : compiled) : list (cni * cni) :=
  flat_map (fun s0 => flat_map (fun t => if str_eqb (cn_name s0) (cn_name t) then [] else [(s0, t)]) (c_nis c)) (c_nis c).

Lemma all_pairs_spec c s0 t : In (s0, t) (all_pairs c) -> In s0 (c_nis c) /\ In t (c_nis c) /\ cn_name s0 <> cn_name t.
Proof.
  unfold all_pairs. intros H. apply in_flat_map in H. destruct H as (a & Ha & H). apply in_flat_map in H.
  destruct H as (b & Hb & H). destruct (str_eqb (cn_name a) (cn_name b)) eqn:E; [destruct H|].
  destruct H as [H|[]]. inversion H; subst a b. repeat split; try assumption.
  intros Hq. apply (proj2 (str_eqb_eq _ _)) in Hq. congruence.
Qed.

Lemma c09_deps_among (sp : oracle) d g c ri n nt :
  build d = Ok g -> compile d g = Ok c -> gen_routing_info sp c = Ok ri -> emit c ri = Ok n -> d_algo d = ID ->
  forall e, In e (c09_deps n nt) -> In e (id_deps d ri n nt (all_pairs c)).
Proof.
  intros Hb Hc Hri He Ha e Hin.
  assert (Hcd : c_desc c = d) by apply (compile_desc d g c Hc).
  unfold c09_deps in Hin. apply in_flat_map in Hin. destruct Hin as ((s & t) & Hst & Hin).
  unfold ordered_pairs in Hst. apply in_flat_map in Hst. destruct Hst as (s' & Hs' & Hst). apply in_flat_map in Hst.
  destruct Hst as (t' & Ht' & Hst). destruct (str_eqb (ni_name s') (ni_name t')) eqn:En; [destruct Hst|].
  destruct Hst as [Hst|[]]. inversion Hst; subst s' t'; clear Hst.
  rewrite (emitted_nis c ri n He), Hcd in Hs', Ht'. apply in_map_iff in Hs', Ht'.
  destruct Hs' as (s0 & <- & Hs0). destruct Ht' as (t0 & <- & Ht0).
  destruct (match nt with Req => may_req _ _ | Rsp => may_rsp _ _ | Wide => false end); [|destruct Hin].
  (* the header is the destination's identity, which fits the identifier field *)
  assert (Hh : hdr_for n (emit_ni d (ri_offset ri) s0) (emit_ni d (ri_offset ri) t0) = Ok (HId (cn_uid t0))).
  { unfold hdr_for. destruct (emit_inv _ _ _ He) as (_ & axi & rts & _ & _ & Hn). rewrite Hn. cbn [n_algo n_id_bits n_xy_bits].
    rewrite Hcd, Ha. cbn [algo_name]. replace (str_eqb "IdTable" "SourceRouting") with false by reflexivity.
    cbn [emit_ni Netlist.ni_id]. assert (Hxy : d_algo d <> XY) by (rewrite Ha; discriminate).
    rewrite (ids_are_uids d g c Hc Hxy t0 Ht0). cbn [id_sub hdr_of_id n_id_bits].
    pose proof (uids_range d g c Hb Hc t0 Ht0) as Hr. destruct (id_bits_cover sp c ri Hri) as (HN & _ & Hcov).
    unfold trunc. rewrite Z.mod_small by lia. reflexivity. }
  rewrite Hh in Hin. unfold id_deps. apply in_flat_map. exists (s0, t0). split.
  - unfold all_pairs. apply in_flat_map. exists s0. split; [exact Hs0|]. apply in_flat_map. exists t0. split; [exact Ht0|].
    cbn [emit_ni ni_name] in En. rewrite En. left. reflexivity.
  - cbn [fst snd]. assert (Hxy : d_algo d <> XY) by (rewrite Ha; discriminate).
    rewrite (ids_are_uids d g c Hc Hxy t0 Ht0). cbn [id_num]. exact Hin.
Qed.

(* C09 as the checker states it, for every ID-routed description whose links form a tree *)
Theorem model_tree_C09_gen (sp : oracle) (B : nat) (d : desc) (g : graph) (c : compiled) (ri : rinfo) (n : netlist) (dp : list (string * Z)) :
  build d = Ok g -> compile d g = Ok c -> gen_routing_info sp c = Ok ri -> emit c ri = Ok n -> d_algo d = ID ->
  contract sp g c B ->
  forallb (transitb sp c) (c_nis c) = true ->
  names_sepb g Req = true -> names_sepb g Rsp = true -> single_attachb g c = true -> links_typedb g c = true -> degrees_fitb c = true ->
  attachedb c Req = true -> attachedb c Rsp = true -> tree_certb g dp = true ->
  C09_on n.
Proof.
  intros Hb Hc Hri He Ha Hcon Htr N1 N2 H2 H3 H4 A1 A2 Hcert nt Hnt.
  assert (Hac : acyclic (c09_deps n nt)).
  { intros v Hp.
    assert (Hok : net_ok d nt) by (destruct Hnt as [-> | ->]; [left|right; left]; reflexivity).
    assert (Hns : names_sepb g nt = true) by (destruct Hnt as [-> | ->]; assumption).
    assert (Hat : attachedb c nt = true) by (destruct Hnt as [-> | ->]; assumption).
    apply (hw_tree_acyclic_gen sp B d g c ri n nt dp Hok Hb Hc Hri He Ha Hcon Htr Hns H2 H3 H4 Hat Hcert (all_pairs c) (all_pairs_spec c) v).
    eapply path_mono; [|exact Hp]. apply (c09_deps_among sp d g c ri n nt Hb Hc Hri He Ha). }
  split; [exact Hac|]. intros W Hsub Hall. eapply acyclic_no_deadlock; eauto.
Qed.

(* the executable form of the hypotheses (Side.tree_conditions, request `tree` of the model binary) is the one the
   theorem uses *)
Lemma transit_allb_eq sp c : transit_allb sp c = forallb (transitb sp c) (c_nis c).
Proof. reflexivity. Qed.

Theorem tree_conditions_sound_gen (sp : oracle) (B : nat) (d : desc) (g : graph) (c : compiled) (ri : rinfo) (n : netlist) :
  build d = Ok g -> compile d g = Ok c -> gen_routing_info sp c = Ok ri -> emit c ri = Ok n -> d_algo d = ID ->
  contract sp g c B ->
  (exists bs, tree_conditions sp d = Ok bs /\ forallb (fun b => b) bs = true) -> C09_on n.
Proof.
  intros Hb Hc Hri He Ha Hcon (bs & Ht & Hall). unfold tree_conditions in Ht. rewrite Hb in Ht. cbn [bind] in Ht. rewrite Hc in Ht. cbn [bind] in Ht.
  destruct (tree_certb g (levels g)) eqn:Ecert; inversion Ht; subst bs; clear Ht; [|discriminate Hall].
  rewrite Ha in Hall. cbn [forallb] in Hall. repeat (apply andb_true_iff in Hall; destruct Hall as (? & Hall)).
  eapply (model_tree_C09_gen sp B d g c ri n (levels g)); eauto.
Qed.

(* ------------------------------------------------------------------ source routing *)
Definition src_deps (sp : oracle) (c : compiled) (d : desc) (ri : rinfo) (n : netlist) (nt : net) (pairs : list (cni * cni)) : egraph :=
  flat_map (fun st => match gen_route sp c (fst st) (snd st) with
                      | Ok (_, Some ps) => consecutive (t_sigs (send_free n nt (emit_ni d (ri_offset ri) (fst st)) (hdr_of_word n (word_value ps))))
                      | _ => []
                      end) pairs.

Theorem hw_tree_acyclic_src_gen (sp : oracle) (B : nat) (d : desc) (g : graph) (c : compiled) (ri : rinfo) (n : netlist) (nt : net) (dp : list (string * Z)) :
  net_ok d nt ->
  build d = Ok g -> compile d g = Ok c -> gen_routing_info sp c = Ok ri -> emit c ri = Ok n -> d_algo d = SRC ->
  contract sp g c B ->
  first_hopb sp g c nt = true ->
  names_sepb g nt = true -> single_attachb g c = true -> links_typedb g c = true ->
  tree_certb g dp = true ->
  forall pairs : list (cni * cni),
    (forall s0 t, In (s0, t) pairs -> In s0 (c_nis c) /\ In t (c_nis c)) ->
    acyclic (src_deps sp c d ri n nt pairs).
Proof.
  intros Hnt Hb Hc Hri He Ha Hcon Hfh H1 H2 H3 Hcert pairs Hpairs.
  assert (Cpath := fun t Ht => proj1 (Hcon t Ht)). assert (Cmin := fun t Ht => proj1 (proj2 (Hcon t Ht))).
  assert (Hcg : c_graph c = g) by apply (compile_desc d g c Hc).
  assert (Hcd : c_desc c = d) by apply (compile_desc d g c Hc).
  destruct (cert_parts g dp Hcert) as (C0 & C1 & C2 & C3).
  set (route := fun st : cni * cni =>
         match gen_route sp c (fst st) (snd st) with
         | Ok (_, Some _) => match sp g (cn_name (fst st)) (cn_name (snd st)) with Some p => p | None => [] end
         | _ => []
         end).
  assert (Hac := tree_routes_acyclic nt (map epair (link_edges g)) (dep_of dp) C0 C1 C2 C3
                   (fun l1 l2 A B => names_sepb_ok g nt H1 l1 l2 (proj1 (in_links_iff g l1) A) (proj1 (in_links_iff g l2) B))
                   (map route pairs)).
  unfold first_hopb in Hfh. rewrite forallb_forall in Hfh.
  assert (Hsend : forall st id ps, In st pairs -> gen_route sp c (fst st) (snd st) = Ok (id, Some ps) ->
             t_sigs (send_free n nt (emit_ni d (ri_offset ri) (fst st)) (hdr_of_word n (word_value ps))) = map (flow nt) (consecutive (route st)) /\
             NoDup (route st) /\ Forall (is_link_of g) (consecutive (route st))).
  { intros [s0 t] id ps Hst Hgr. destruct (Hpairs s0 t Hst) as (Hs0 & Ht). cbn [fst snd] in *.
    unfold route. cbn [fst snd]. rewrite Hgr.
    (* gen_route found a path *)
    pose proof Hgr as Hgr'. unfold gen_route in Hgr'. inv_bind Hgr'.
    destruct (str_eqb (cn_name s0) (cn_name t) || only_mgr s0 && only_mgr t || only_sbr s0 && only_sbr t) eqn:Ecase; [inversion Hgr'|].
    apply orb_false_iff in Ecase. destruct Ecase as (Ecase & _). apply orb_false_iff in Ecase. destruct Ecase as (Hne & _).
    rewrite Hcg in Hgr'. destruct (sp g (cn_name s0) (cn_name t)) as [p|] eqn:Esp; [|discriminate].
    assert (Hatt : snd (attach nt s0) = hd "" (tl p)).
    { specialize (Hfh s0 Hs0). rewrite forallb_forall in Hfh. specialize (Hfh t Ht). rewrite Hne, Esp in Hfh. cbn [orb] in Hfh.
      apply str_eqb_eq in Hfh. rewrite <- Hfh. unfold attach, attach_of, rev_link. destruct nt; reflexivity. }
    rewrite (hdr_of_word_fits sp c ri n s0 t id ps ltac:(rewrite Hcd; exact Ha) Hri He Hs0 Ht Hgr).
    destruct (hw_src_send_full sp d g c ri n t nt Hnt Hb Hc He Ht
           (model_signal_ok d g c ri n nt Hnt Hb Hc He (names_sepb_ok g nt H1) (single_attachb_ok g c H2) (links_typedb_ok g c H3))
           s0 id ps p Hs0 Hgr Esp
           (conj (Cpath t Ht _ _ Esp) (fun q Hq => Cmin t Ht _ _ q Esp Hq)) Hatt)
      as (S1 & _ & _ & S4 & S5 & S6).
    rewrite (send_free_eq _ _ _ _ _ _ S1). auto. }
  specialize (Hac ltac:(intros p a b Hp Hab; apply in_map_iff in Hp; destruct Hp as (st & <- & Hst);
                        unfold route in Hab |- *; destruct (gen_route sp c (fst st) (snd st)) as [[id [ps|]]|] eqn:Eg; try (destruct Hab);
                        destruct (Hsend st id ps Hst Eg) as (_ & _ & F); unfold route in F; rewrite Eg in F; rewrite Forall_forall in F;
                        apply in_links_iff; exact (F _ Hab))
                  ltac:(intros p Hp; apply in_map_iff in Hp; destruct Hp as (st & <- & Hst);
                        unfold route; destruct (gen_route sp c (fst st) (snd st)) as [[id [ps|]]|] eqn:Eg; try constructor;
                        destruct (Hsend st id ps Hst Eg) as (_ & N & _); unfold route in N; rewrite Eg in N; exact N)).
  intros v Hp. apply (Hac v). eapply path_mono; [|exact Hp].
  intros e Hin. unfold src_deps in Hin. apply in_flat_map in Hin. destruct Hin as (st & Hst & Hin).
  destruct (gen_route sp c (fst st) (snd st)) as [[id [ps|]]|] eqn:Eg; try (destruct Hin).
  destruct (Hsend st id ps Hst Eg) as (E3 & _). rewrite E3 in Hin.
  unfold route_deps. apply in_flat_map. exists (route st). split; [apply in_map; exact Hst|exact Hin].
Qed.

(* ------------------------------------------------------------------ instances: the reference oracle and the generator's own *)
Definition hw_tree_acyclic d g c := hw_tree_acyclic_gen sp_reference (bound g) d g c.
Theorem model_tree_C09 (d : desc) (g : graph) (c : compiled) (ri : rinfo) (n : netlist) (dp : list (string * Z)) :
  build d = Ok g -> compile d g = Ok c -> gen_routing_info sp_reference c = Ok ri -> emit c ri = Ok n -> d_algo d = ID ->
  forallb (transitb sp_reference c) (c_nis c) = true ->
  names_sepb g Req = true -> names_sepb g Rsp = true -> single_attachb g c = true -> links_typedb g c = true -> degrees_fitb c = true ->
  attachedb c Req = true -> attachedb c Rsp = true -> tree_certb g dp = true ->
  C09_on n.
Proof. intros Hb Hc Hri He Ha. exact (model_tree_C09_gen sp_reference (bound g) d g c ri n dp Hb Hc Hri He Ha (contract_ref g c)). Qed.
Theorem model_tree_C09_nx (d : desc) (g : graph) (c : compiled) (ri : rinfo) (n : netlist) (dp : list (string * Z)) :
  build d = Ok g -> compile d g = Ok c -> gen_routing_info sp_nx c = Ok ri -> emit c ri = Ok n -> d_algo d = ID ->
  forallb (transitb sp_nx c) (c_nis c) = true ->
  names_sepb g Req = true -> names_sepb g Rsp = true -> single_attachb g c = true -> links_typedb g c = true -> degrees_fitb c = true ->
  attachedb c Req = true -> attachedb c Rsp = true -> tree_certb g dp = true ->
  C09_on n.
Proof. intros Hb Hc Hri He Ha. exact (model_tree_C09_gen sp_nx (nxB g) d g c ri n dp Hb Hc Hri He Ha (contract_nx d g c Hb Hc)). Qed.

Theorem tree_conditions_sound (d : desc) (g : graph) (c : compiled) (ri : rinfo) (n : netlist) :
  build d = Ok g -> compile d g = Ok c -> gen_routing_info sp_reference c = Ok ri -> emit c ri = Ok n -> d_algo d = ID ->
  (exists bs, tree_conditions sp_reference d = Ok bs /\ forallb (fun b => b) bs = true) -> C09_on n.
Proof. intros Hb Hc Hri He Ha. exact (tree_conditions_sound_gen sp_reference (bound g) d g c ri n Hb Hc Hri He Ha (contract_ref g c)). Qed.
Theorem tree_conditions_sound_nx (d : desc) (g : graph) (c : compiled) (ri : rinfo) (n : netlist) :
  build d = Ok g -> compile d g = Ok c -> gen_routing_info sp_nx c = Ok ri -> emit c ri = Ok n -> d_algo d = ID ->
  (exists bs, tree_conditions sp_nx d = Ok bs /\ forallb (fun b => b) bs = true) -> C09_on n.
Proof. intros Hb Hc Hri He Ha. exact (tree_conditions_sound_gen sp_nx (nxB g) d g c ri n Hb Hc Hri He Ha (contract_nx d g c Hb Hc)). Qed.

Definition hw_tree_acyclic_src d g c := hw_tree_acyclic_src_gen sp_reference (bound g) d g c.

(* ------------------------------------------------------------------ source routing: the checker's dependency sets *)
From FV Require Import AxiProofs TableProofs.

Lemma pick_bus_nonempty nw kind l b : pick_bus nw kind l = Some b -> l <> [].
Proof. intros H ->. discriminate H. Qed.

Lemma emit_ni_roles d g ni x off : compile_ni d g ni = Ok x ->
  (ni_is_mgr (emit_ni d off x) = true -> ni_mgr x = true) /\ (ni_is_sbr (emit_ni d off x) = true -> ni_sbr x = true).
Proof.
  intros Hc. destruct (compile_ni_buses d g ni x Hc) as (_ & _ & _ & Hm & _ & Hs).
  assert (Mg : cn_mgr_buses x <> [] -> ni_mgr x = true).
  { intros Hne. unfold ni_mgr, ep_is_mgr. destruct (ep_mgr (cn_ep x)); [reflexivity|]. destruct (cn_mgr_buses x); [congruence|discriminate]. }
  assert (Sb : cn_sbr_buses x <> [] -> ni_sbr x = true).
  { intros Hne. unfold ni_sbr, ep_is_sbr. destruct (ep_sbr (cn_ep x)); [reflexivity|]. destruct (cn_sbr_buses x); [congruence|discriminate]. }
  unfold ni_is_mgr, ni_is_sbr, emit_ni. cbn [ni_flags]. destruct (d_nw d); cbn [fst existsb snd orb].
  - split; intros H; rewrite orb_false_r in H; apply orb_true_iff in H; destruct H as [H|H].
    + destruct (pick_bus true "narrow" (cn_mgr_buses x)) eqn:P; [|discriminate]. apply Mg. eapply pick_bus_nonempty; eauto.
    + destruct (pick_bus true "wide" (cn_mgr_buses x)) eqn:P; [|discriminate]. apply Mg. eapply pick_bus_nonempty; eauto.
    + destruct (pick_bus true "narrow" (cn_sbr_buses x)) eqn:P; [|discriminate]. apply Sb. eapply pick_bus_nonempty; eauto.
    + destruct (pick_bus true "wide" (cn_sbr_buses x)) eqn:P; [|discriminate]. apply Sb. eapply pick_bus_nonempty; eauto.
  - split; intros H; rewrite orb_false_r in H.
    + destruct (pick_bus false "" (cn_mgr_buses x)) eqn:P; [|discriminate]. apply Mg. eapply pick_bus_nonempty; eauto.
    + destruct (pick_bus false "" (cn_sbr_buses x)) eqn:P; [|discriminate]. apply Sb. eapply pick_bus_nonempty; eauto.
Qed.

Lemma find_unique {A} (p : A -> bool) l x : In x l -> p x = true -> (forall y, In y l -> p y = true -> y = x) -> find p l = Some x.
Proof.
  induction l as [|a l IH]; intros Hin Hp Hu; [destruct Hin|]. cbn [find]. destruct (p a) eqn:Ea.
  - f_equal. apply Hu; [left; reflexivity|exact Ea].
  - destruct Hin as [->|Hin]; [congruence|]. apply IH; [exact Hin|exact Hp|]. intros y Hy. apply Hu. right. exact Hy.
Qed.

Lemma enum_value_uid c s0 : enum_names_nodupb c = true -> In s0 (c_nis c) ->
  enum_value (emit_ep_enum c) (snake_to_camel (enum_name s0)) = Some (cn_uid s0).
Proof.
  intros Hnd Hs0. unfold enum_names_nodupb in Hnd. cbv zeta in Hnd. apply andb_true_iff in Hnd. destruct Hnd as (Hnd & Hnn).
  assert (Hnum : snake_to_camel (enum_name s0) <> "NumEndpoints").
  { intros Hq. apply negb_true_iff in Hnn. assert (X : existsb (str_eqb "NumEndpoints") (map (fun n => snake_to_camel (enum_name n)) (c_nis c)) = true).
    { apply existsb_exists. exists (snake_to_camel (enum_name s0)). split; [apply in_map_iff; eauto|apply str_eqb_eq; symmetry; exact Hq]. }
    congruence. }
  apply nodupb_str in Hnd. unfold enum_value, emit_ep_enum. cbn [snd].
  rewrite (find_unique _ _ (snake_to_camel (enum_name s0), cn_uid s0)); [reflexivity| | |].
  - apply in_or_app. left. unfold emit_members. apply sort_by_In. apply in_map_iff. exists s0. auto.
  - cbn. apply str_eqb_eq. reflexivity.
  - intros y Hy Hq. cbn in Hq. apply str_eqb_eq in Hq. apply in_app_or in Hy. destruct Hy as [Hy|[<-|[]]].
    + unfold emit_members in Hy. apply sort_by_In in Hy. apply in_map_iff in Hy. destruct Hy as (t & <- & Ht). cbn in Hq.
      assert (t = s0) by (eapply (NoDup_map_eq (fun n => snake_to_camel (enum_name n))); eauto). subst t. reflexivity.
    + cbn in Hq. congruence.
Qed.

(* since the repair of the colliding-identifier defect (DESIGN 8.15) distinct enumeration names are a consequence of
   acceptance, no longer a side condition *)
Lemma nodupb_app_l (l m : list string) : nodupb str_eqb (l ++ m) = true -> nodupb str_eqb l = true /\ forall x, In x m -> ~ In x l.
Proof.
  intros H. apply nodupb_str in H. split.
  - clear -H. induction l as [|a l IH]; [reflexivity|]. cbn in H. inversion H as [|? ? Hn Hd]; subst. cbn [nodupb].
    apply andb_true_iff. split; [|apply IH; exact Hd]. apply negb_true_iff. apply not_true_iff_false. intros Hex.
    apply existsb_exists in Hex. destruct Hex as (y & Hy & Hq). apply str_eqb_eq in Hq. subst y. apply Hn. apply in_or_app. left. exact Hy.
  - intros x Hx Hl. clear -H Hx Hl. induction l as [|a l IH]; [destruct Hl|]. cbn in H. inversion H as [|? ? Hn Hd]; subst.
    destruct Hl as [->|Hl]; [apply Hn; apply in_or_app; right; exact Hx|exact (IH Hd Hl)].
Qed.
Lemma gri_enum_names sp c ri : gen_routing_info sp c = Ok ri -> enum_names_nodupb c = true.
Proof.
  intros H. destruct (gri_names sp c ri H) as (Hn & _). rewrite map_app in Hn. destruct (nodupb_app_l _ _ Hn) as (H1 & H2).
  unfold enum_names_nodupb. cbv zeta. rewrite map_map in H1. rewrite H1. cbn [andb]. apply negb_true_iff. apply not_true_iff_false.
  intros Hex. apply existsb_exists in Hex. destruct Hex as (y & Hy & Hq). apply str_eqb_eq in Hq. subst y.
  apply (H2 "NumEndpoints"); [left; reflexivity|]. rewrite map_map. exact Hy.
Qed.

Lemma c09_deps_among_src (sp : oracle) d g c ri n nt :
  build d = Ok g -> compile d g = Ok c -> gen_routing_info sp c = Ok ri -> emit c ri = Ok n -> d_algo d = SRC ->
  forall e, In e (c09_deps n nt) -> In e (src_deps sp c d ri n nt (all_pairs c)).
Proof.
  intros Hb Hc Hri He Ha e Hin. pose proof (gri_enum_names sp c ri Hri) as Hnd.
  assert (Hcd : c_desc c = d) by apply (compile_desc d g c Hc).
  unfold c09_deps in Hin. apply in_flat_map in Hin. destruct Hin as ((s & t) & Hst & Hin).
  unfold ordered_pairs in Hst. apply in_flat_map in Hst. destruct Hst as (s' & Hs' & Hst). apply in_flat_map in Hst.
  destruct Hst as (t' & Ht' & Hst). destruct (str_eqb (ni_name s') (ni_name t')) eqn:En; [destruct Hst|].
  destruct Hst as [Hst|[]]. inversion Hst; subst s' t'; clear Hst.
  rewrite (emitted_nis c ri n He), Hcd in Hs', Ht'. apply in_map_iff in Hs', Ht'.
  destruct Hs' as (s0 & <- & Hs0). destruct Ht' as (t0 & <- & Ht0).
  (* the pair may communicate, so a route word was generated for it *)
  destruct (compile_inv _ _ _ Hc) as (dirs & nis & rts & rids & Hn & _ & Hceq).
  assert (Hroles : forall x, In x (c_nis c) ->
            (ni_is_mgr (emit_ni d (ri_offset ri) x) = true -> ni_mgr x = true) /\
            (ni_is_sbr (emit_ni d (ri_offset ri) x) = true -> ni_sbr x = true)).
  { intros x Hx. rewrite Hceq in Hx. cbn in Hx. destruct (mapM_In _ _ _ _ Hn Hx) as (ni & _ & Hq). exact (emit_ni_roles d g ni x _ Hq). }
  destruct (gri_inv _ _ _ Hri) as (_ & _ & _ & _ & Hroutes & _). specialize (Hroutes ltac:(rewrite Hcd; exact Ha)).
  destruct (mapM_In_l _ _ _ _ Hroutes Hs0) as (er & _ & Eer). inv_bind Eer.
  destruct (mapM_In_l _ _ _ _ E Ht0) as ([id ro] & _ & Hgr).
  assert (Hgo : (match nt with Req => may_req (emit_ni d (ri_offset ri) s0) (emit_ni d (ri_offset ri) t0)
                 | Rsp => may_rsp (emit_ni d (ri_offset ri) s0) (emit_ni d (ri_offset ri) t0) | Wide => false end) = true ->
                exists ps, ro = Some ps).
  { intros Hm. pose proof Hgr as Hgr'. unfold gen_route in Hgr'. inv_bind Hgr'.
    cbn [emit_ni ni_name] in En. rewrite En in Hgr'. cbn [orb] in Hgr'.
    assert (Hcase : (only_mgr s0 && only_mgr t0 || only_sbr s0 && only_sbr t0) = false).
    { unfold only_mgr, only_sbr. destruct nt; [| |discriminate].
      - unfold may_req in Hm. apply andb_true_iff in Hm. destruct Hm as (M1 & M2).
        rewrite (proj1 (Hroles s0 Hs0) M1), (proj2 (Hroles t0 Ht0) M2). cbn. rewrite !andb_false_r. reflexivity.
      - unfold may_rsp in Hm. apply andb_true_iff in Hm. destruct Hm as (M1 & M2).
        rewrite (proj2 (Hroles s0 Hs0) M1), (proj1 (Hroles t0 Ht0) M2). cbn. rewrite !andb_false_r. reflexivity. }
    rewrite Hcase in Hgr'. destruct (sp (c_graph c) (cn_name s0) (cn_name t0)) as [[|? ?]|]; try discriminate.
    inv_bind Hgr'. inversion Hgr'; subst. eauto. }
  destruct (match nt with Req => may_req _ _ | Rsp => may_rsp _ _ | Wide => false end) eqn:Emay; [|destruct Hin].
  destruct (Hgo eq_refl) as (ps & ->).
  (* the header is the emitted word of the pair *)
  assert (Hxy : d_algo d <> XY) by (rewrite Ha; discriminate).
  assert (Hh : hdr_for n (emit_ni d (ri_offset ri) s0) (emit_ni d (ri_offset ri) t0) = Ok (hdr_of_word n (word_value ps))).
  { unfold hdr_for. destruct (emit_inv _ _ _ He) as (_ & axi & rts0 & _ & _ & Hneq).
    assert (Halg : n_algo n = "SourceRouting") by (rewrite Hneq; cbn [n_algo]; rewrite Hcd, Ha; reflexivity).
    rewrite Halg. replace (str_eqb "SourceRouting" "SourceRouting") with true by reflexivity.
    cbn [emit_ni ni_row Netlist.ni_id]. rewrite Ha. rewrite (ids_are_uids d g c Hc Hxy t0 Ht0). cbn [id_sub].
    assert (Henum : n_ep_enum n = emit_ep_enum c) by (rewrite Hneq; reflexivity). rewrite Henum.
    rewrite (enum_value_uid c s0 Hnd Hs0).
    rewrite (table_word_spec sp d g c ri n Hb Hc Hri He Ha s0 t0 id (Some ps) Hs0 Ht0 Hgr). reflexivity. }
  rewrite Hh in Hin. unfold src_deps. apply in_flat_map. exists (s0, t0). split.
  - unfold all_pairs. apply in_flat_map. exists s0. split; [exact Hs0|]. apply in_flat_map. exists t0. split; [exact Ht0|].
    cbn [emit_ni ni_name] in En. rewrite En. left. reflexivity.
  - cbn [fst snd]. rewrite Hgr. exact Hin.
Qed.

(* C09 as the checker states it, for every source-routed description whose links form a tree *)
Theorem model_tree_C09_src_gen (sp : oracle) (B : nat) (d : desc) (g : graph) (c : compiled) (ri : rinfo) (n : netlist) (dp : list (string * Z)) :
  build d = Ok g -> compile d g = Ok c -> gen_routing_info sp c = Ok ri -> emit c ri = Ok n -> d_algo d = SRC ->
  contract sp g c B ->
  first_hopb sp g c Req = true -> first_hopb sp g c Rsp = true ->
  names_sepb g Req = true -> names_sepb g Rsp = true -> single_attachb g c = true -> links_typedb g c = true ->
  tree_certb g dp = true ->
  C09_on n.
Proof.
  intros Hb Hc Hri He Ha Hcon F1 F2 N1 N2 H2 H3 Hcert nt Hnt.
  assert (Hac : acyclic (c09_deps n nt)).
  { intros v Hp.
    assert (Hok : net_ok d nt) by (destruct Hnt as [-> | ->]; [left|right; left]; reflexivity).
    assert (Hns : names_sepb g nt = true) by (destruct Hnt as [-> | ->]; assumption).
    assert (Hfh : first_hopb sp g c nt = true) by (destruct Hnt as [-> | ->]; assumption).
    apply (hw_tree_acyclic_src_gen sp B d g c ri n nt dp Hok Hb Hc Hri He Ha Hcon Hfh Hns H2 H3 Hcert (all_pairs c)
             (fun s0 t H => conj (proj1 (all_pairs_spec c s0 t H)) (proj1 (proj2 (all_pairs_spec c s0 t H)))) v).
    eapply path_mono; [|exact Hp]. apply (c09_deps_among_src sp d g c ri n nt Hb Hc Hri He Ha). }
  split; [exact Hac|]. intros W Hsub Hall. eapply acyclic_no_deadlock; eauto.
Qed.

Theorem model_tree_C09_src_nx (d : desc) (g : graph) (c : compiled) (ri : rinfo) (n : netlist) (dp : list (string * Z)) :
  build d = Ok g -> compile d g = Ok c -> gen_routing_info sp_nx c = Ok ri -> emit c ri = Ok n -> d_algo d = SRC ->
  first_hopb sp_nx g c Req = true -> first_hopb sp_nx g c Rsp = true ->
  names_sepb g Req = true -> names_sepb g Rsp = true -> single_attachb g c = true -> links_typedb g c = true ->
  tree_certb g dp = true ->
  C09_on n.
Proof. intros Hb Hc Hri He Ha. exact (model_tree_C09_src_gen sp_nx (nxB g) d g c ri n dp Hb Hc Hri He Ha (contract_nx d g c Hb Hc)). Qed.

Theorem tree_conditions_sound_src_nx (d : desc) (g : graph) (c : compiled) (ri : rinfo) (n : netlist) :
  build d = Ok g -> compile d g = Ok c -> gen_routing_info sp_nx c = Ok ri -> emit c ri = Ok n -> d_algo d = SRC ->
  (exists bs, tree_conditions sp_nx d = Ok bs /\ forallb (fun b => b) bs = true) -> C09_on n.
Proof.
  intros Hb Hc Hri He Ha (bs & Ht & Hall). unfold tree_conditions in Ht. rewrite Hb in Ht. cbn [bind] in Ht. rewrite Hc in Ht. cbn [bind] in Ht.
  destruct (tree_certb g (levels g)) eqn:Ecert; inversion Ht; subst bs; clear Ht; [|discriminate Hall].
  rewrite Ha in Hall. cbn [forallb] in Hall. repeat (apply andb_true_iff in Hall; destruct Hall as (? & Hall)).
  match goal with Hf : first_hopb sp_nx g c Req && first_hopb sp_nx g c Rsp = true |- _ => apply andb_true_iff in Hf; destruct Hf end.
  eapply (model_tree_C09_src_nx d g c ri n (levels g)); eauto.
Qed.
