(* XYCdg.v — C09 for XY-routed meshes, universally, on the hardware model.
   The routes as emitted (Hw.send_free: the walk WITHOUT the router's two masks, which is what Check.c09_deps speaks
   about) over one auto-connected m x n router array: every signal crossed carries a rank --
     injection links (driven by an interface)            -1
     a link towards +x leaving column i                   i
     a link towards -x leaving column i                   m - i
     a link towards +y leaving row j                      m + 1 + j
     a link towards -y leaving row j                      m + 1 + n - j
     ejection links (read by an interface)                2 (m + n) + 4
   and the X-then-Y decision of Hw.xy_select makes every two consecutive signals of a walk strictly raise it, for
   EVERY target coordinate (inside the array or not) and from every port.  Hence the channel-dependency graph of
   all the routes of all ordered pairs is acyclic, for every size of the array. *)
From FV Require Import Base AddrRange RouteMap Graph Desc Build Netlist Compile Routing Emit Hw Side
     ModelBase BuildProofs Check XYSide CheckProofs CdgProofs ModelProofs IdProofs ConnProofs HwProofs WireProofs
     FrameProofs HwStep TreeCdg TreeProofs XYProofs.
From Coq Require Import ZifyBool.

(* ------------------------------------------------------------------ one step of the free walk *)
Section StepFree.
  Variables (d : desc) (g : graph) (c : compiled) (ri : rinfo) (n : netlist).
  Variable nt : net.
  Hypothesis Hnt : net_ok d nt.
  Hypothesis Hb : build d = Ok g.
  Hypothesis Hc : compile d g = Ok c.
  Hypothesis He : emit c ri = Ok n.
  Hypothesis Hwire : forall l, In l (n_links n) -> fst l = net_type nt -> signal_ok n l.
  Let Hnd : NoDup (map cr_name (c_rts c)) := built_router_names_nodup d g c Hb Hc.

  Theorem hw_step_free r x inp h k h' nxt fuel rts sigs :
    In r (c_rts c) -> emit_rt (c_desc c) ri r = Ok x -> select n x h = Ok (Z.of_nat k, h') ->
    nth_error (cr_out r) k = Some (Some (cr_name r, nxt)) ->
    exists u, walk_free (S fuel) n nt (URt (cr_name r) inp) h rts sigs =
              walk_free fuel n nt u h' (cr_name r :: rts) (flow nt (cr_name r, nxt) :: sigs) /\
      ((exists y, In y (c_nis c) /\ u = UNi (cn_name y) /\ cn_name y = nxt) \/
       (exists r2 i, In r2 (c_rts c) /\ u = URt (cr_name r2) i /\ cr_name r2 = nxt /\
                     nth_error (cr_in r2) i = Some (Some (cr_name r, nxt)))).
  Proof.
    intros Hr Hx Hsel Hk.
    destruct (emitted_rt c ri n He Hnd r Hr) as (x' & Hx' & Hfind & Hname & _). rewrite Hx in Hx'. inversion Hx'; subst x'.
    destruct (crt_out_link d g c Hb Hc r k (cr_name r) nxt Hr Hk) as (_ & _ & Hlink).
    pose proof (out_slot d g c ri n nt Hnt Hb Hc He r x k _ Hr Hx Hk) as Hslot.
    assert (Hxin : In x (n_rts n)) by (apply find_some in Hfind; tauto).
    pose proof (driver_rt_nt n nt x k _ Hxin Hslot) as Hdrv. rewrite Hname in Hdrv.
    destruct (reader_of_link d g c ri n nt Hnt Hb Hc He Hwire (cr_name r) nxt _ Hlink Hdrv eq_refl) as (u & Hrd & Hcases).
    exists u. split; [|exact Hcases].
    cbn [walk_free]. rewrite Hfind, Hsel.
    destruct (Z.of_nat k <? 0) eqn:Eneg; [lia|].
    rewrite Nat2Z.id, Hslot. cbv beta iota. unfold Hw.follow. rewrite Hrd. reflexivity.
  Qed.

  (* an output slot that holds no link ends the walk: nothing is added to the signals crossed *)
  Lemma hw_stop_free r x inp h k h' fuel rts sigs :
    In r (c_rts c) -> emit_rt (c_desc c) ri r = Ok x -> select n x h = Ok (Z.of_nat k, h') ->
    match nth_error (cr_out r) k with Some (Some _) => False | _ => True end ->
    t_sigs (walk_free (S fuel) n nt (URt (cr_name r) inp) h rts sigs) = rev sigs.
  Proof.
    intros Hr Hx Hsel Hk.
    destruct (emitted_rt c ri n He Hnd r Hr) as (x' & Hx' & Hfind & Hname & _). rewrite Hx in Hx'. inversion Hx'; subst x'.
    cbn [walk_free]. rewrite Hfind, Hsel. destruct (Z.of_nat k <? 0) eqn:Eneg; [reflexivity|]. rewrite Nat2Z.id.
    destruct (nth_error (cr_out r) k) as [[l|]|] eqn:Ek; [contradiction| |].
    - rewrite (out_slot_empty d g c ri n nt Hnt Hb Hc He Hwire r x k Hr Hx Ek). reflexivity.
    - rewrite (out_slot_none d g c ri n nt Hnt Hb Hc He Hwire r x k Hr Hx Ek). reflexivity.
  Qed.
End StepFree.

(* under XY every interface carries a coordinate with port id 0 *)
Lemma xy_ni_id d g c x : compile d g = Ok c -> d_algo d = XY -> In x (c_nis c) -> exists tx ty, cn_id x = IdXY tx ty 0.
Proof.
  intros Hc Ha Hx. destruct (compile_inv _ _ _ Hc) as (dirs & nis & rts & rids & Hn & _ & Hceq).
  rewrite Hceq in Hx. cbn in Hx. destruct (mapM_In _ _ _ _ Hn Hx) as (ni & _ & Hq).
  pose proof (compile_ni_id d g ni x Hq) as Hid. unfold id_stage in Hid.
  destruct (find_ep d (n_desc ni)) as [e|]; [|discriminate]. cbv zeta in Hid. inv_bind Hid.
  unfold Compile.ni_id in Hid. rewrite Ha in Hid. inv_bind Hid.
  match goal with H : match ?o with Some _ => _ | None => _ end = Ok _ |- _ => destruct o as [[px py]|]; [|discriminate] end.
  inversion Hid. eauto.
Qed.

Section XYFree.
  Variables (d : desc) (g : graph) (c : compiled) (rd : rt_desc) (mm nn : Z).
  Hypothesis Hb : build d = Ok g.
  Hypothesis Hc : compile d g = Ok c.
  Hypothesis Halgo : d_algo d = XY.
  Hypothesis Hrts : d_rts d = [rd].
  Hypothesis Harr : rt_array rd = Some [mm; nn].
  Hypothesis Htree : rt_tree rd = None.
  Hypothesis Hauto : rt_auto rd = true.
  Variables (sp : oracle) (ri : rinfo) (n : netlist) (nt : net).
  Hypothesis Hnt : net_ok d nt.
  Hypothesis Hri : gen_routing_info sp c = Ok ri.
  Hypothesis He : emit c ri = Ok n.
  Hypothesis Hwire : forall l, In l (n_links n) -> fst l = net_type nt -> signal_ok n l.
  Variables (xb yb ab ox oy : Z).
  Hypothesis Hxy : ri_xy ri = Some (xb, (yb, (ab, (ox, oy)))).
  Variable G : grid.
  Hypothesis Hatt : att_okb c mm nn G = true.
  Let nm (i j : Z) : string := full_name (rt_name rd) [i; j].
  Let Hnd : NoDup (map cr_name (c_rts c)) := built_router_names_nodup d g c Hb Hc.
  Let Hcd : c_desc c = d := proj1 (compile_desc d g c Hc).
  Let L := map epair (link_edges g).

  (* ---- the rank ---- *)
  Definition coords_of (u : string) : option (Z * Z) :=
    match find (fun r => str_eqb (cr_name r) u) (c_rts c) with
    | Some r => match cr_id r with Some (IdXY i j _) => Some (i, j) | _ => None end
    | None => None
    end.
  Definition EJ : Z := 2 * (mm + nn) + 4.
  Definition xy_link_rank (l : link) : Z :=
    match coords_of (fst l), coords_of (snd l) with
    | None, _ => -1
    | Some _, None => EJ
    | Some (i, j), Some (i', j') =>
        if i' =? i + 1 then i else if i' =? i - 1 then mm - i else if j' =? j + 1 then mm + 1 + j else mm + 1 + nn - j
    end.
  Definition xy_sig_rank (s : string) : Z :=
    match find (fun l => str_eqb (flow nt l) s) L with Some l => xy_link_rank l | None => -1 end.

  Lemma coords_grid i j : in_grid mm nn i j -> coords_of (nm i j) = Some (i, j).
  Proof.
    intros Hij. destruct (rt_at d g c rd mm nn Hb Hc Halgo Hrts Harr Htree i j Hij) as (r & Hr & Hn & Hid).
    unfold coords_of. destruct (find _ (c_rts c)) as [r'|] eqn:F.
    - apply find_some in F. destruct F as (Hr' & Hq). apply str_eqb_eq in Hq.
      assert (r' = r) by (eapply NoDup_map_eq; [exact Hnd|exact Hr'|exact Hr|unfold nm in *; congruence]). subst r'.
      rewrite Hid. reflexivity.
    - exfalso. pose proof (find_none _ _ F r Hr) as X. cbv beta in X. fold (nm i j) in Hn. rewrite Hn in X.
      rewrite (proj2 (str_eqb_eq _ _) eq_refl) in X. discriminate.
  Qed.
  Lemma coords_ni y : In y (c_nis c) -> coords_of (cn_name y) = None.
  Proof.
    intros Hy. unfold coords_of. destruct (find _ (c_rts c)) as [r'|] eqn:F; [|reflexivity].
    apply find_some in F. destruct F as (Hr' & Hq). apply str_eqb_eq in Hq.
    exfalso. apply (ni_rt_disjoint d g c Hb Hc y r' Hy Hr'). congruence.
  Qed.
  Lemma sig_rank_flow l : is_link_of g l -> xy_sig_rank (flow nt l) = xy_link_rank l.
  Proof.
    intros Hl. unfold xy_sig_rank. match goal with |- context [find ?f ?l0] => destruct (find f l0) as [l'|] eqn:F end.
    - apply find_some in F. destruct F as (Hl' & Hq). apply str_eqb_eq in Hq. unfold L in Hl'. apply in_links_iff in Hl'.
      rewrite (names_sepb_ok g nt (names_sepb_holds d g c nt Hc) l' l Hl' Hl Hq). reflexivity.
    - exfalso. assert (Hin : In l L) by (apply in_links_iff; exact Hl).
      pose proof (find_none _ _ F l Hin) as X. cbv beta in X. rewrite (proj2 (str_eqb_eq _ _) eq_refl) in X. discriminate.
  Qed.

  Definition incr (l : list string) : Prop := forall a b, In (a, b) (consecutive l) -> xy_sig_rank a < xy_sig_rank b.
  Lemma incr_one s : incr [s].
  Proof. intros a b []. Qed.
  Lemma incr_cons s s' tl : xy_sig_rank s < xy_sig_rank s' -> incr (s' :: tl) -> incr (s :: s' :: tl).
  Proof.
    intros Hlt Hi a b Hin. rewrite consecutive_cons2 in Hin. destruct Hin as [Hin|Hin]; [injection Hin as <- <-; exact Hlt|].
    apply Hi. exact Hin.
  Qed.

  (* what the rank of the signal that entered router (i, j) must stay below, whatever the router decides *)
  Definition pre (rk i j cx cy : Z) : Prop :=
    rk < EJ /\ (i < cx -> rk < i) /\ (cx < i -> rk < mm - i) /\
    (cx = i -> j < cy -> rk < mm + 1 + j) /\ (cx = i -> cy < j -> rk < mm + 1 + nn - j).

  Lemma xy_free_ranked : forall fuel i j inp r cx cy rts s sigs,
    in_grid mm nn i j -> In r (c_rts c) -> cr_name r = nm i j -> pre (xy_sig_rank s) i j cx cy ->
    exists tail,
      t_sigs (walk_free fuel n nt (URt (cr_name r) inp) (HXY (cx - ox) (cy - oy) 0) rts (s :: sigs)) = rev (s :: sigs) ++ tail /\
      incr (s :: tail).
  Proof.
    induction fuel as [|fuel IH]; intros i j inp r cx cy rts s sigs Hij Hr Hn Hpre.
    { exists []. split; [cbn [walk_free t_sigs]; rewrite app_nil_r; reflexivity|apply incr_one]. }
    destruct (emitted_rt c ri n He Hnd r Hr) as (x & Hx & _).
    pose proof (select_any d g c rd mm nn Hb Hc Halgo Hrts Harr Htree Hauto sp ri n Hri He xb yb ab ox oy Hxy r x i j cx cy Hr Hn Hij Hx) as Hsel.
    set (out := xy_select i j cx cy 0) in *.
    assert (Hout : 0 <= out <= 4).
    { unfold out, xy_select. destruct ((cx =? i) && (cy =? j)); [lia|]. destruct (cx =? i); [destruct (cy <? j); lia|destruct (cx <? i); lia]. }
    assert (Hsel' : select n x (HXY (cx - ox) (cy - oy) 0) = Ok (Z.of_nat (Z.to_nat out), HXY (cx - ox) (cy - oy) 0))
      by (rewrite Z2Nat.id by lia; exact Hsel).
    pose proof Hij as (Hi & Hj). destruct Hpre as (P0 & P1 & P2 & P3 & P4).
    (* the step to an attached interface, or the end of the walk: common to the eject port and the boundary ports *)
    assert (Hleave : ~ (out < 4 /\ in_grid mm nn (i + fst (dir_delta out)) (j + snd (dir_delta out))) ->
              exists tail, t_sigs (walk_free (S fuel) n nt (URt (cr_name r) inp) (HXY (cx - ox) (cy - oy) 0) rts (s :: sigs)) = rev (s :: sigs) ++ tail /\
                           incr (s :: tail)).
    { intros Hnb.
      pose proof (att_okb_sound d g c rd mm nn Hb Hc Halgo Hrts Harr Htree Hauto G Hatt r i j out Hr Hn Hij Hout Hnb) as Ha.
      destruct (nth_error (cr_out r) (Z.to_nat out)) as [[l|]|] eqn:Ek.
      - destruct Ha as (y & Hy & -> & _). fold (nm i j) in Ek.
        destruct (hw_step_free d g c ri n nt Hnt Hb Hc He Hwire r x inp _ (Z.to_nat out) _ (cn_name y) fuel rts (s :: sigs) Hr Hx Hsel'
                    ltac:(rewrite Hn; exact Ek)) as (u & Hw & [(y' & Hy' & -> & Hyn)|(r2 & i2 & Hr2 & -> & Hn2 & _)]).
        + rewrite Hw. exists [flow nt (cr_name r, cn_name y)]. split.
          * destruct fuel; cbn [walk_free t_sigs rev]; rewrite <- app_assoc; reflexivity.
          * apply incr_cons; [|apply incr_one].
            rewrite sig_rank_flow by (rewrite Hn; exact (proj2 (proj2 (crt_out_link d g c Hb Hc r _ _ _ Hr Ek)))).
            unfold xy_link_rank. cbn [fst snd]. rewrite Hn, (coords_grid i j Hij), (coords_ni y Hy). exact P0.
        + exfalso. apply (ni_rt_disjoint d g c Hb Hc y r2 Hy Hr2). congruence.
      - exists []. rewrite app_nil_r. split; [|apply incr_one].
        apply (hw_stop_free d g c ri n nt Hnt Hb Hc He Hwire r x inp _ (Z.to_nat out) _ fuel rts (s :: sigs) Hr Hx Hsel'). rewrite Ek. exact I.
      - exists []. rewrite app_nil_r. split; [|apply incr_one].
        apply (hw_stop_free d g c ri n nt Hnt Hb Hc He Hwire r x inp _ (Z.to_nat out) _ fuel rts (s :: sigs) Hr Hx Hsel'). rewrite Ek. exact I. }
    destruct (Z.leb_spec 4 out) as [L4|L4]; [apply Hleave; intros (X & _); lia|].
    assert (exists dx0 dy0, dir_delta out = (dx0, dy0)) as (dx0 & dy0 & Edd) by (destruct (dir_delta out); eauto).
    destruct ((0 <=? i + dx0) && (i + dx0 <? mm) && (0 <=? j + dy0) && (j + dy0 <? nn)) eqn:Ein;
      [|apply Hleave; rewrite Edd; cbn [fst snd]; unfold in_grid; intros (_ & X); lia].
    (* the neighbour is in the array: one more hop *)
    assert (Hij' : in_grid mm nn (i + dx0) (j + dy0)) by (unfold in_grid; lia).
    assert (Htc : to_coords out = Ok (dx0, dy0)).
    { unfold dir_delta in Edd. unfold to_coords.
      assert (Hc4 : out = 0 \/ out = 1 \/ out = 2 \/ out = 3) by lia. destruct Hc4 as [E | [E | [E | E]]]; rewrite E in *; cbn in *; congruence. }
    pose proof (port_to d g c rd mm nn Hb Hc Hrts Harr Htree Hauto r i j out dx0 dy0 Hr Hn Hij ltac:(lia) Htc Hij') as Hport.
    fold (nm i j) in Hport. fold (nm (i + dx0) (j + dy0)) in Hport.
    set (s' := flow nt (nm i j, nm (i + dx0) (j + dy0))).
    assert (Hrk : xy_sig_rank s' = xy_link_rank (nm i j, nm (i + dx0) (j + dy0))).
    { apply sig_rank_flow. exact (proj2 (proj2 (crt_out_link d g c Hb Hc r _ _ _ Hr Hport))). }
    unfold xy_link_rank in Hrk. cbn [fst snd] in Hrk. rewrite (coords_grid i j Hij), (coords_grid _ _ Hij') in Hrk.
    (* the decision and the direction it takes *)
    assert (Hdec : (i < cx /\ dx0 = 1 /\ dy0 = 0) \/ (cx < i /\ dx0 = -1 /\ dy0 = 0) \/
                   (cx = i /\ j < cy /\ dx0 = 0 /\ dy0 = 1) \/ (cx = i /\ cy < j /\ dx0 = 0 /\ dy0 = -1)).
    { unfold out, xy_select in Edd, L4. unfold dir_delta in Edd.
      destruct (Z.eqb_spec cx i) as [Ex|Nx]; destruct (Z.eqb_spec cy j) as [Ey|Ny]; cbn [andb] in Edd, L4; try lia.
      - destruct (Z.ltb_spec cy j); cbn in Edd; inversion Edd; lia.
      - destruct (Z.ltb_spec cx i); cbn in Edd; inversion Edd; lia.
      - destruct (Z.ltb_spec cx i); cbn in Edd; inversion Edd; lia. }
    assert (Hlt : xy_sig_rank s < xy_sig_rank s').
    { rewrite Hrk. destruct Hdec as [(A & -> & ->)|[(A & -> & ->)|[(A & B & -> & ->)|(A & B & -> & ->)]]];
        repeat match goal with |- context [?a =? ?b] => destruct (Z.eqb_spec a b) end; lia. }
    destruct (hw_step_free d g c ri n nt Hnt Hb Hc He Hwire r x inp _ (Z.to_nat out) _ (nm (i + dx0) (j + dy0)) fuel rts (s :: sigs) Hr Hx Hsel'
                ltac:(rewrite Hn; exact Hport)) as (u & Hw & [(y & Hy & -> & Hyn)|(r2 & i2 & Hr2 & -> & Hn2 & _)]).
    - exfalso. destruct (rt_at d g c rd mm nn Hb Hc Halgo Hrts Harr Htree (i + dx0) (j + dy0) Hij') as (r3 & Hr3 & Hn3 & _).
      apply (ni_rt_disjoint d g c Hb Hc y r3 Hy Hr3). unfold nm in *. congruence.
    - rewrite Hw, Hn. fold s'.
      destruct (IH (i + dx0) (j + dy0) i2 r2 cx cy (nm i j :: rts) s' (s :: sigs) Hij' Hr2 Hn2) as (tl & Ht & Hinc).
      + rewrite Hrk. unfold pre, EJ.
        destruct Hdec as [(A & -> & ->)|[(A & -> & ->)|[(A & B & -> & ->)|(A & B & -> & ->)]]];
          repeat match goal with |- context [?a =? ?b] => destruct (Z.eqb_spec a b) end; lia.
      + exists (s' :: tl). split.
        * rewrite Ht. cbn [rev]. rewrite <- !app_assoc. reflexivity.
        * apply incr_cons; assumption.
  Qed.

  (* from injection: the signals crossed by the emitted route of ANY target coordinate raise the rank *)
  Theorem xy_send_free_ranked s0 cx cy : In s0 (c_nis c) ->
    incr (t_sigs (send_free n nt (emit_ni d (ri_offset ri) s0) (HXY (cx - ox) (cy - oy) 0))).
  Proof.
    intros Hs0. set (r0 := snd (attach nt s0)).
    destruct (inject_reader d g c ri n nt Hnt Hb Hc He Hwire s0 r0 Hs0 eq_refl) as (Hout & u & Hrdr & Hcases).
    destruct (attach_link d g c ri nt Hnt Hb Hc s0 Hs0) as (Hfst & Hlink & _).
    unfold send_free. rewrite Hout. unfold Hw.follow. rewrite Hrdr.
    destruct Hcases as [(y & Hy & -> & Hyn)|(r & i & Hr & -> & Hn & Hin)].
    - cbn [walk_free t_sigs rev app]. apply incr_one.
    - destruct (rt_is_grid d g c rd mm nn Hb Hc Halgo Hrts Harr Htree r Hr) as (a & b & Hab & Hnab & _).
      fold (nm a b) in Hnab.
      destruct (xy_free_ranked (S (length (n_rts n))) a b i r cx cy [] (flow nt (cn_name s0, r0)) [] Hab Hr Hnab) as (tl & Ht & Hinc).
      + assert (Hrk : xy_sig_rank (flow nt (cn_name s0, r0)) = -1).
        { rewrite sig_rank_flow.
          - unfold xy_link_rank. cbn [fst]. rewrite (coords_ni s0 Hs0). reflexivity.
          - replace (cn_name s0, r0) with (attach nt s0); [exact Hlink|]. unfold r0. rewrite <- Hfst. destruct (attach nt s0); reflexivity. }
        rewrite Hrk. unfold pre, EJ. destruct Hab as (Ha1 & Hb1). lia.
      + rewrite Ht. cbn [rev app]. exact Hinc.
  Qed.

  (* the dependencies of the routes of any list of (source, destination) pairs *)
  Definition xy_deps (pairs : list (cni * cni)) : egraph :=
    flat_map (fun st => match cn_id (snd st) with
                        | IdXY tx ty _ => consecutive (t_sigs (send_free n nt (emit_ni d (ri_offset ri) (fst st)) (HXY (tx - ox) (ty - oy) 0)))
                        | IdN _ => []
                        end) pairs.

  Theorem xy_routes_acyclic pairs : (forall s0 t, In (s0, t) pairs -> In s0 (c_nis c)) -> acyclic (xy_deps pairs).
  Proof.
    intros Hp. apply (rank_acyclic _ xy_sig_rank). intros u v Hin. unfold xy_deps in Hin. apply in_flat_map in Hin.
    destruct Hin as ((s0 & t) & Hst & Hin). cbn [fst snd] in Hin. destruct (cn_id t) as [|tx ty p]; [destruct Hin|].
    exact (xy_send_free_ranked s0 tx ty (Hp s0 t Hst) u v Hin).
  Qed.

  (* the checker's dependency set is among them *)
  Lemma c09_deps_among_xy : forall e, In e (c09_deps n nt) -> In e (xy_deps (all_pairs c)).
  Proof.
    intros e Hin. unfold c09_deps in Hin. apply in_flat_map in Hin. destruct Hin as ((s & t) & Hst & Hin).
    unfold ordered_pairs in Hst. apply in_flat_map in Hst. destruct Hst as (s' & Hs' & Hst). apply in_flat_map in Hst.
    destruct Hst as (t' & Ht' & Hst). destruct (str_eqb (ni_name s') (ni_name t')) eqn:En; [destruct Hst|].
    destruct Hst as [Hst|[]]. inversion Hst; subst s' t'; clear Hst.
    rewrite (emitted_nis c ri n He), Hcd in Hs', Ht'. apply in_map_iff in Hs', Ht'.
    destruct Hs' as (s0 & <- & Hs0). destruct Ht' as (t0 & <- & Ht0).
    destruct (match nt with Req => may_req _ _ | Rsp => may_rsp _ _ | Wide => false end); [|destruct Hin].
    destruct (xy_ni_id d g c t0 Hc Halgo Ht0) as (tx & ty & Hid).
    assert (Hh : hdr_for n (emit_ni d (ri_offset ri) s0) (emit_ni d (ri_offset ri) t0) = Ok (HXY (tx - ox) (ty - oy) 0)).
    { unfold hdr_for. destruct (emit_inv _ _ _ He) as (_ & axi & rts & _ & _ & Hn0).
      replace (str_eqb (n_algo n) "SourceRouting") with false.
      - f_equal. rewrite <- Hcd. exact (xy_header sp c ri n t0 tx ty xb yb ab ox oy Hri He Hxy Ht0 Hid).
      - rewrite Hn0. cbn [n_algo]. rewrite Hcd, Halgo. reflexivity. }
    rewrite Hh in Hin. unfold xy_deps. apply in_flat_map. exists (s0, t0). split.
    - unfold all_pairs. apply in_flat_map. exists s0. split; [exact Hs0|]. apply in_flat_map. exists t0. split; [exact Ht0|].
      cbn [emit_ni ni_name] in En. rewrite En. left. reflexivity.
    - cbn [fst snd]. rewrite Hid. exact Hin.
  Qed.

  Theorem hw_xy_acyclic : acyclic (c09_deps n nt).
  Proof.
    intros v Hp. apply (xy_routes_acyclic (all_pairs c) (fun s0 t H => proj1 (all_pairs_spec c s0 t H)) v).
    eapply path_mono; [|exact Hp]. exact c09_deps_among_xy.
  Qed.
End XYFree.

(* ------------------------------------------------------------------ C09's statement for XY-routed meshes *)
(* with the wiring checker's verdict on the netlist as the hypothesis about signals ... *)
Theorem hw_xy_C09 d g c rd mm nn sp ri n xb yb ab ox oy G :
  build d = Ok g -> compile d g = Ok c -> d_algo d = XY ->
  d_rts d = [rd] -> rt_array rd = Some [mm; nn] -> rt_tree rd = None -> rt_auto rd = true ->
  gen_routing_info sp c = Ok ri -> emit c ri = Ok n -> chk_C05 n = [] ->
  ri_xy ri = Some (xb, (yb, (ab, (ox, oy)))) -> att_okb c mm nn G = true ->
  C09_on n.
Proof.
  intros Hb Hc Ha Hrts Harr Htree Hauto Hri He Hchk Hxy Hatt nt Hnt.
  assert (Hok : net_ok d nt) by (destruct Hnt as [-> | ->]; [left|right; left]; reflexivity).
  assert (Hac : acyclic (c09_deps n nt)).
  { exact (hw_xy_acyclic d g c rd mm nn Hb Hc Ha Hrts Harr Htree Hauto sp ri n nt Hok Hri He
             (fun l Hl _ => proj2 (chk_C05_sound n Hchk) l Hl) xb yb ab ox oy Hxy G Hatt). }
  split; [exact Hac|]. intros W Hsub Hall. eapply acyclic_no_deadlock; eauto.
Qed.

(* ... and on the model alone: one driver / one reader per signal is a theorem once links join routers and interfaces *)
Theorem model_xy_C09 d g c rd mm nn sp ri n xb yb ab ox oy G :
  build d = Ok g -> compile d g = Ok c -> d_algo d = XY ->
  d_rts d = [rd] -> rt_array rd = Some [mm; nn] -> rt_tree rd = None -> rt_auto rd = true ->
  gen_routing_info sp c = Ok ri -> emit c ri = Ok n -> links_typedb g c = true ->
  ri_xy ri = Some (xb, (yb, (ab, (ox, oy)))) -> att_okb c mm nn G = true ->
  C09_on n.
Proof.
  intros Hb Hc Ha Hrts Harr Htree Hauto Hri He Hlt Hxy Hatt nt Hnt.
  assert (Hok : net_ok d nt) by (destruct Hnt as [-> | ->]; [left|right; left]; reflexivity).
  assert (Hac : acyclic (c09_deps n nt)).
  { exact (hw_xy_acyclic d g c rd mm nn Hb Hc Ha Hrts Harr Htree Hauto sp ri n nt Hok Hri He
             (model_signal_ok d g c ri n nt Hok Hb Hc He (names_sepb_ok g nt (names_sepb_holds d g c nt Hc))
                (single_attachb_ok g c (single_attachb_holds d g c Hb Hc)) (links_typedb_ok g c Hlt))
             xb yb ab ox oy Hxy G Hatt). }
  split; [exact Hac|]. intros W Hsub Hall. eapply acyclic_no_deadlock; eauto.
Qed.

(* the hypotheses in the executable form the harness evaluates (request `xy` of the model binary, the grid derived from
   the description by spec.xy_grid) *)
Theorem xy_conditions_C09 d g c sp ri n xb yb ab ox oy G :
  build d = Ok g -> compile d g = Ok c -> gen_routing_info sp c = Ok ri -> emit c ri = Ok n -> chk_C05 n = [] ->
  ri_xy ri = Some (xb, (yb, (ab, (ox, oy)))) ->
  (exists bs, xy_conditions d G = Ok bs /\ forallb (fun b => b) bs = true) -> C09_on n.
Proof.
  intros Hb Hc Hri He Hchk Hxy (bs & Hq & Hall).
  unfold xy_conditions in Hq. rewrite Hb in Hq. cbn [bind] in Hq. rewrite Hc in Hq. cbn [bind] in Hq.
  destruct (d_rts d) as [|rd [|? ?]] eqn:Hrts; inversion Hq; subst bs; clear Hq; try discriminate Hall.
  cbn [forallb] in Hall. repeat (apply andb_true_iff in Hall; destruct Hall as (? & Hall)).
  destruct (d_algo d) eqn:Ha; try discriminate.
  destruct (rt_array rd) as [[|m [|n0 [|? ?]]]|] eqn:Harr; try discriminate.
  destruct (rt_tree rd) eqn:Htree; try discriminate.
  match goal with X : (m =? gr_m G) && (n0 =? gr_n G) && rt_auto rd = true |- _ =>
    apply andb_true_iff in X; destruct X as (X & Hauto); apply andb_true_iff in X; destruct X as (Em & En) end.
  assert (m = gr_m G) by lia. assert (n0 = gr_n G) by lia. subst m n0.
  eapply (hw_xy_C09 d g c rd (gr_m G) (gr_n G) sp ri n xb yb ab ox oy G); eauto.
Qed.
